------------------------------ MODULE Trace_Transport ------------------------------
(* Trace specification for C04 / C17: judges NDJSON logs of the real Reader / VirtioFsWriter /
   FuseDevWriter / FileVolatileSlice / FileVolatileBuf (harness/src/bin/transport) against the
   A-level semantics of Transport.tla, with interval arithmetic (runs <<addr, len>>).

   Monitor mode: a failed obligation prints <<"VIOL", "C04|<op>|<what>", l, "<detail>">> (or "C17|...")
   and validation goes on.  After a C04 violation the rest of that scenario is not judged for C04
   any more (the expected remaining sequences are no longer meaningful; this keeps one defect from
   being reported under the names of later operations); container scenarios re-synchronise on the
   logged content after every event instead.  C17 is decided at the End event (reply complete) from
   observations only: pages of all logged byte diffs against the logged dirty bitmap, both directions;
   the signature names the operation that first modified / first dirtied the page.

   Events: Reset{tr, segs[[addr,len,w]], src[size,salt], dirty0}  Op{o, op, n, x, c, res, ret, data,
   out, all[[id,avail,done]], diff[[addr,len,v]], dirty[[page,cnt]], msgs[[[v,len]]], fpos, fdiff,
   spos, canary, new}  End{diff, dirty, msgs}  New{o, what, res, err}  Abort{op}  Crash{signal, op}  Probe{op, res, signal, n, x, salt, v, ret, out|fdiff};  containers (tr = "fvs"):
   Op{o, op, a, n, v, res, ret, out, win, new, newwin, content, canary}.
   Byte strings are ramps <<v, len>> (Transport.tla). *)
EXTENDS Transport, Json, IOUtils, TLC, Integers

Rec == ndJsonDeserialize(IOEnv.TRACE)
Has(r, k) == k \in DOMAIN r

VARIABLES l,        \* index of the next event
          tr,       \* transport of the current scenario
          ob,       \* A: per object [k, rem, done, size, spl, cont]; containers: [k, off, len, size]
          fp, sp,   \* A: cursor of the source file / of the sink file
          src,      \* <<size, salt>> of the source file
          cont,     \* containers: content of the backing buffer as runs of source identities
          broken,   \* a C04 violation was reported in this scenario
          dirt, dirty0, modBy, dirtyBy    \* C17 bookkeeping: last observed dirty pages, page -> first operation
vars == <<l, tr, ob, fp, sp, src, cont, broken, dirt, dirty0, modBy, dirtyBy>>

ViolS(sig, str) == PrintT(<<"VIOL", sig, l, str>>)       \* every VIOL line: <<"VIOL", signature, event index, detail string>>
Viol(sig, detail) == ViolS(sig, ToString(detail))
Vi(name, detail) == {<<name, ToString(detail)>>}      \* one fault; details as strings so that sets of faults stay comparable
PageSet(runs) == UNION {runs[i][1]..(runs[i][1] + runs[i][2] - 1) : i \in 1..Len(runs)}
DiffRuns(d) == [i \in 1..Len(d) |-> <<d[i][1], d[i][2]>>]
NonEmptyMsgs(m) == SelectSeq(m, LAMBDA x : x # <<>>)
SubR(c, a, n) == TakeR(DropR(c, a), n)
RECURSIVE SegRuns(_, _)
SegRuns(segs, w) == IF segs = <<>> THEN <<>>
                    ELSE (IF Head(segs)[3] = w THEN << <<Head(segs)[1], Head(segs)[2]>> >> ELSE <<>>) \o SegRuns(Tail(segs), w)

(* ------------------------------- transports ------------------------------- *)
Obj(k, rem) == [k |-> k, rem |-> rem, done |-> 0, size |-> LenR(rem), spl |-> FALSE, cont |-> <<>>]

\* counters of every live object as logged, against the expected objects
CounterViols(r, nob) ==
  IF Len(r.all) # Len(nob) THEN Vi("counters", <<"objects", Len(r.all), Len(nob)>>)
  ELSE {<<"counters", ToString(<<r.all[i], LenR(nob[i].rem), nob[i].done>>)>> :
          i \in {j \in 1..Len(nob) : r.all[j][2] # LenR(nob[j].rem) \/ r.all[j][3] # nob[j].done
                                     \/ r.all[j][2] + r.all[j][3] # nob[j].size}}

Quiet(r) ==      \* an operation that must not move anything
  (IF r.diff # <<>> THEN Vi("mem-modified", r.diff) ELSE {}) \cup
  (IF Has(r, "msgs") /\ NonEmptyMsgs(r.msgs) # <<>> THEN Vi("fd", r.msgs) ELSE {})

JudgeSplit(r) ==
  LET o == r.o  x == ob[o]  A == LenR(x.rem)  off == r.n  L == x.done
      room == IF x.k = "F" THEN x.size ELSE A
      ok == off <= room
      nob == IF ~ok THEN ob
             ELSE IF x.k = "F" THEN
               Append([ob EXCEPT ![o] = [x EXCEPT !.rem = IF off >= L THEN TakeR(x.rem, off - L) ELSE <<>>,
                                                  !.done = Min(L, off), !.size = off, !.spl = TRUE,
                                                  !.cont = TakeR(x.cont, off)]],
                      [k |-> "F", rem |-> IF off >= L THEN DropR(x.rem, off - L) ELSE x.rem,
                       done |-> IF L > off THEN L - off ELSE 0, size |-> x.size - off, spl |-> TRUE,
                       cont |-> DropR(x.cont, off)])
             ELSE
               Append([ob EXCEPT ![o] = [x EXCEPT !.rem = TakeR(x.rem, off), !.size = L + off, !.spl = TRUE]],
                      [k |-> x.k, rem |-> DropR(x.rem, off), done |-> 0, size |-> A - off, spl |-> TRUE, cont |-> <<>>])
      faults == {<<f, ToString(<<off, room, r.res>>)>> : f \in SplitFaults(off, room, r.res)}
      nob2 == IF r.res = "ok" THEN nob ELSE ob IN
  [ob |-> nob2, fp |-> fp, sp |-> sp,
   viols |-> faults \cup (IF faults = {} THEN CounterViols(r, nob2) ELSE {}) \cup Quiet(r)
             \cup (IF r.res = "ok" /\ ok /\ (~Has(r, "new") \/ r.new # Len(ob) + 1) THEN Vi("new-object", r) ELSE {})]

JudgeCommit(r) ==
  LET o == r.o  x == ob[o]
      other == IF r.n = 0 THEN <<>> ELSE ob[r.n].cont
      exp == IF x.k = "F" /\ x.spl /\ LenR(x.cont \o other) > 0 THEN <<Ramps(x.cont \o other)>> ELSE <<>>
      got == IF Has(r, "msgs") THEN NonEmptyMsgs(r.msgs) ELSE <<>> IN
  [ob |-> ob, fp |-> fp, sp |-> sp,
   viols |-> (IF got # exp THEN Vi("fd", <<got, exp>>) ELSE {})
             \cup (IF r.res # "ok" THEN Vi("spurious-failure", r.res) ELSE {})
             \cup (IF r.diff # <<>> THEN Vi("mem-modified", r.diff) ELSE {})
             \cup CounterViols(r, ob)]

JudgeMove(r) ==
  LET o == r.o  x == ob[o]  A == LenR(x.rem)  op == r.op  n == r.n
      dobs == r.all[o][3] - x.done                    \* bytes moved = change of the counter
      d == IF dobs < 0 THEN 0 ELSE dobs
      ret == IF Has(r, "ret") THEN r.ret ELSE 0
      usable == x.k # "F" \/ x.spl \/ x.done = 0
      target == TakeR(x.rem, d)
      \* source of a writer operation as runs of source identities
      fstart == IF op \in AtOps THEN r.x ELSE fp
      source == IF op \in FileSrcOps THEN << <<fstart + src[2], d>> >> ELSE TakeR(r.data, d)
      expdiff == ExpDiff(x.rem, source)
      direct == x.k = "F" /\ ~x.spl
      msgs == IF Has(r, "msgs") THEN NonEmptyMsgs(r.msgs) ELSE <<>>
      sstart == IF op \in AtOps THEN r.x ELSE sp
      nfp == IF op \in {"write_from", "write_all_from"} THEN fp + d ELSE fp
      nsp == IF op \in {"read_to", "read_exact_to"} THEN sp + d ELSE sp
      nob == [ob EXCEPT ![o] = [x EXCEPT !.rem = DropR(x.rem, d), !.done = x.done + d,
                                         !.cont = IF x.k = "F" THEN x.cont \o source ELSE x.cont]]
      rf == {<<f, ToString(<<n, A, r.res, ret, d>>)>> : f \in ResFaults(op, n, A, r.res, ret, dobs, usable)}
      reader ==
        (IF r.diff # <<>> THEN Vi("mem-modified", r.diff) ELSE {}) \cup
        (IF Has(r, "out") /\ r.out # Ramps(target) THEN Vi("bytes", <<r.out, Ramps(target)>>) ELSE {}) \cup
        (IF op \in FileSinkOps /\ r.fdiff # RampZ(ZipR(<< <<sstart, d>> >>, target))
           THEN Vi("bytes", <<r.fdiff, RampZ(ZipR(<< <<sstart, d>> >>, target))>>) ELSE {}) \cup
        (IF op \in FileSinkOps /\ r.spos # nsp THEN Vi("filepos", <<r.spos, nsp>>) ELSE {})
      writer ==
        (IF op \in FileSrcOps /\ fstart + d > src[1] /\ d > 0 THEN Vi("bytes", <<"beyond-eof", fstart, d, src[1]>>) ELSE {}) \cup
        (IF r.diff # expdiff /\ ~(direct /\ op \notin FileSrcOps /\ r.diff = <<>>)
           THEN Vi("placed" \o (IF x.k # "F" THEN "" ELSE IF x.done > 0 THEN "-fusedev-after-data" ELSE "-fusedev-empty"),
                   <<r.diff, expdiff>>) ELSE {}) \cup
        (IF x.k = "F" /\ msgs # (IF direct /\ d > 0 THEN <<Ramps(source)>> ELSE <<>>)
           THEN Vi("fd", <<msgs, IF direct /\ d > 0 THEN <<Ramps(source)>> ELSE <<>> >>) ELSE {}) \cup
        (IF r.fpos # nfp THEN Vi("filepos", <<r.fpos, nfp>>) ELSE {}) \cup
        (IF n > A /\ r.diff # <<>> THEN Vi("fail-not-clean", r.diff) ELSE {}) IN
  [ob |-> nob, fp |-> nfp, sp |-> nsp,
   viols |-> rf \cup (IF dobs < 0 THEN Vi("counters", <<"done decreased", r.all[o], x.done>>) ELSE {})
             \cup (IF op \in ReaderOps THEN reader ELSE writer) \cup CounterViols(r, nob)]

JudgeTransport(r) ==
  LET j == IF r.res = "noobj"      \* the scenario names an object the code never produced (an earlier split_at went wrong)
           THEN [ob |-> ob, fp |-> fp, sp |-> sp, viols |-> Vi("no-object", r.o)]
           ELSE IF r.op = "split_at" THEN JudgeSplit(r) ELSE IF r.op \in CommitOps THEN JudgeCommit(r) ELSE JudgeMove(r) IN
  [j EXCEPT !.viols = @ \cup (IF r.canary THEN {} ELSE Vi("oob", r.diff))]

(* ------------------------------- containers (PlainView) ------------------------------- *)
FvsReadOps  == {"fvs.read", "fvs.read_slice", "fvs.load", "fvs.write_volatile_to", "fvs.write_all_volatile_to"}
FvsWriteOps == {"fvs.write", "fvs.write_slice", "fvs.store", "fvs.read_volatile_from", "fvs.read_exact_volatile_from"}
FvsExactOps == {"fvs.read_slice", "fvs.load", "fvs.write_all_volatile_to", "fvs.write_slice", "fvs.store", "fvs.read_exact_volatile_from"}
FvsMustOk   == FvsExactOps \ {"fvs.load", "fvs.store"}     \* load/store may also refuse misaligned addresses
\* exact transfers between a window of the container and a file through the DEFAULT methods of FileReadWriteVolatile
\* (read_exact[_at]_volatile, write_all[_at]_volatile) over a backend that moves 1..3 bytes per call:
\* [a, a + n) of the container <-> [x, x + n) of the file, or failure
FtRead  == {"ft.read_exact_at", "ft.read_exact"}        \* file -> container
FtWrite == {"ft.write_all_at", "ft.write_all"}          \* container -> file
FtOps   == FtRead \cup FtWrite
Base == ob[1].off
WinOf(x) == IF x.k = "S" THEN <<x.off, x.len, IF x.len = 0 THEN 1 ELSE 0>>
            ELSE <<x.off, x.size, x.len, IF x.size = 0 THEN 1 ELSE 0, x.size, x.off + x.size, x.len - x.size>>

JudgeFvs(r) ==
  LET o == r.o  x == ob[o]  a == r.a  n == r.n  op == r.op
      ok == r.res = "ok"
      \* bytes moved: the returned count of a partial operation, all n of an exact one, none on failure
      k == IF ~ok THEN 0 ELSE IF op \in (FvsExactOps \cup FtOps) THEN n ELSE IF Has(r, "ret") THEN r.ret ELSE 0
      at == x.off - Base + a                                     \* position in the backing buffer
      inside == k = 0 \/ a + k <= x.len
      data == IF op \in FtRead THEN << <<r.x + src[2], k>> >> ELSE << <<r.v, k>> >>
      ncont == IF op \in (FvsWriteOps \cup FtRead) /\ ok /\ inside THEN Splice(cont, at, data)
               ELSE IF op = "buf.fill" THEN Splice(cont, x.off - Base + x.size, data)
               ELSE cont
      nview == IF op = "fvs.offset" THEN [k |-> "S", off |-> x.off + a, len |-> x.len - a, size |-> 0]
               ELSE IF op = "fvs.view" THEN x
               ELSE IF op = "fvs.borrow_as_buf" THEN [k |-> "B", off |-> x.off, len |-> x.len, size |-> IF n = 1 THEN x.len ELSE 0]
               ELSE [k |-> "B", off |-> x.off, len |-> x.len, size |-> n]      \* buf.new
      creates == op \in {"fvs.offset", "fvs.view", "fvs.borrow_as_buf", "buf.new"} /\ ok
      nx == IF op = "buf.set_size" THEN (IF n <= x.len THEN [x EXCEPT !.size = n] ELSE [x EXCEPT !.size = r.win[2]])
            ELSE IF op = "buf.fill" THEN [x EXCEPT !.size = x.size + k] ELSE x
      nob == IF creates THEN Append(ob, nview) ELSE [ob EXCEPT ![o] = nx]
      expout == IF op = "buf.peek" THEN Ramps(SubR(cont, x.off - Base, x.size)) ELSE Ramps(SubR(cont, at, k))
      exceed == n > 0 /\ a + n > x.len
      \* a failing write of the underlying VolatileSlice may have stored the part that fitted
      \* (vm-memory reports PartialBuffer afterwards); as a view that is still consistent
      fit == IF a < x.len THEN Min(n, x.len - a) ELSE 0
      favail == IF r.x < src[1] THEN Min(n, src[1] - r.x) ELSE 0      \* (ft.read*) bytes the file has at x
      partial == \/ op \in FvsWriteOps /\ ~ok /\ r.content = Ramps(Splice(cont, at, << <<r.v, fit>> >>))
                 \/ op \in FtRead /\ ~ok /\ r.content = Ramps(Splice(cont, at, << <<r.x + src[2], favail>> >>))
      expfile == RampZ(ZipR(<< <<r.x, n>> >>, SubR(cont, at, n)))        \* (ft.write*) what the file must receive
      V == (IF r.content # Ramps(ncont) /\ ~partial
              THEN Vi(IF op \in (FvsWriteOps \cup FtRead) \/ op = "buf.fill" THEN "placed" ELSE "mem-modified",
                      <<r.content, Ramps(ncont)>>) ELSE {}) \cup
           (IF ~r.canary THEN Vi("oob", r.content) ELSE {}) \cup
           (IF op \in FtRead /\ r.x + n <= src[1] /\ ~ok THEN Vi("spurious-failure", <<r.x, n, src[1], r.res>>) ELSE {}) \cup
           (IF op \in FtRead /\ r.x + n > src[1] /\ n > 0 /\ ok THEN Vi("exceed-not-failed", <<r.x, n, src[1]>>) ELSE {}) \cup
           (IF op \in FtRead /\ r.fdiff # <<>> THEN Vi("bytes", r.fdiff) ELSE {}) \cup
           (IF op \in FtWrite /\ ~ok THEN Vi("spurious-failure", <<r.x, n, r.res>>) ELSE {}) \cup
           (IF op \in FtWrite /\ ok /\ r.fdiff # expfile THEN Vi("bytes", <<r.fdiff, expfile>>) ELSE {}) \cup
           (IF op \in {"ft.read_exact", "ft.write_all"} /\ ok /\ r.fpos # r.x + n THEN Vi("filepos", <<r.fpos, r.x + n>>) ELSE {}) \cup
           (IF ok /\ ~inside /\ op \in (FvsReadOps \cup FvsWriteOps) THEN Vi("exceed-not-failed", <<a, k, x.len>>) ELSE {}) \cup
           (IF ok /\ (op \in FvsReadOps \/ op = "buf.peek") /\ (~Has(r, "out") \/ r.out # expout)
              THEN Vi("bytes", <<IF Has(r, "out") THEN r.out ELSE <<>>, expout>>) ELSE {}) \cup
           (IF ok /\ Has(r, "ret") /\ op \notin FvsExactOps /\ r.ret > n THEN Vi("ret", <<r.ret, n>>) ELSE {}) \cup
           (IF op \in FvsExactOps /\ exceed /\ ok THEN Vi("exceed-not-failed", <<a, n, x.len>>) ELSE {}) \cup
           (IF op \in FvsMustOk /\ a + n <= x.len /\ ~ok THEN Vi("spurious-failure", <<a, n, x.len>>) ELSE {}) \cup
           (IF op = "fvs.offset" /\ ok # (a <= x.len) THEN Vi("split", <<a, x.len, r.res>>) ELSE {}) \cup
           (IF op = "buf.fill" /\ r.ret # Min(n, x.len - x.size) THEN Vi("window", <<r.ret, n, x.len, x.size>>) ELSE {}) \cup
           (IF r.win # WinOf(nx) THEN Vi("window", <<r.win, WinOf(nx)>>) ELSE {}) \cup
           (IF creates /\ (r.new # Len(ob) + 1 \/ r.newwin # WinOf(nview)) THEN Vi("window", <<r.newwin, WinOf(nview)>>) ELSE {}) IN
  [ob |-> nob, viols |-> V]

(* ------------------------------- the trace automaton ------------------------------- *)
Init == /\ l = 1 /\ tr = "none" /\ ob = <<>> /\ fp = 0 /\ sp = 0 /\ src = <<0, 0>> /\ cont = <<>> /\ broken = FALSE
        /\ dirt = {} /\ dirty0 = {} /\ modBy = <<>> /\ dirtyBy = <<>>

Reset(r) ==
  /\ tr' = r.tr
  /\ IF r.tr = "fvs" THEN
        /\ ob' = << [k |-> "S", off |-> r.segs[1][1], len |-> r.segs[1][2], size |-> 0] >>
        /\ cont' = << <<r.segs[1][1], r.segs[1][2]>> >>
        /\ src' = IF Has(r, "src") THEN r.src ELSE <<0, 0>>
        /\ TRUE = (r.win = <<r.segs[1][1], r.segs[1][2], IF r.segs[1][2] = 0 THEN 1 ELSE 0>> \/ Viol("C04|fvs.new|window", r.win))
     ELSE
        /\ ob' = << Obj("R", SegRuns(r.segs, 0)), Obj(IF r.tr = "fusedev" THEN "F" ELSE "W", SegRuns(r.segs, 1)) >>
        /\ cont' = <<>>
        /\ src' = r.src
  /\ fp' = 0 /\ sp' = 0 /\ broken' = FALSE
  /\ dirty0' = IF Has(r, "dirty0") THEN PageSet(r.dirty0) ELSE {}
  /\ dirt' = IF Has(r, "dirty0") THEN PageSet(r.dirty0) ELSE {}
  /\ modBy' = <<>> /\ dirtyBy' = <<>>

\* C17 bookkeeping: which operation first modified / first dirtied each page
Track(r, name) ==
  LET newMod == PagesR(DiffRuns(r.diff)) \ DOMAIN modBy
      nowDirty == IF Has(r, "dirty") THEN PageSet(r.dirty) ELSE dirt
      newDirty == nowDirty \ (dirt \cup DOMAIN dirtyBy) IN
  /\ modBy' = modBy @@ [p \in newMod |-> name]
  /\ dirtyBy' = dirtyBy @@ [p \in newDirty |-> name]
  /\ dirt' = nowDirty

OpStep(r) ==
  IF tr = "fvs" THEN
    LET j == JudgeFvs(r) IN
    /\ TRUE = (\A v \in j.viols : ViolS("C04|" \o r.op \o "|" \o v[1], v[2]))
    /\ ob' = j.ob
    /\ cont' = r.content                       \* re-synchronise on what was observed
    /\ UNCHANGED <<tr, fp, sp, src, broken, dirt, dirty0, modBy, dirtyBy>>
  ELSE
    LET j == IF broken THEN [ob |-> ob, fp |-> fp, sp |-> sp, viols |-> {}] ELSE JudgeTransport(r) IN
    /\ TRUE = (\A v \in j.viols : ViolS("C04|" \o r.op \o "|" \o v[1], v[2]))
    /\ ob' = j.ob /\ fp' = j.fp /\ sp' = j.sp
    /\ broken' = (broken \/ j.viols # {})
    /\ Track(r, r.op)
    /\ UNCHANGED <<tr, src, cont, dirty0>>

\* the reply is complete: C17 is decided here
EndStep(r) ==
  IF tr = "fvs" THEN UNCHANGED <<tr, ob, fp, sp, src, cont, broken, dirt, dirty0, modBy, dirtyBy>>
  ELSE
    LET modAll == modBy @@ [p \in PagesR(DiffRuns(r.diff)) \ DOMAIN modBy |-> "end"]
        final == IF Has(r, "dirty") THEN PageSet(r.dirty) ELSE dirt
        who(p) == IF p \in DOMAIN dirtyBy THEN dirtyBy[p] ELSE "end" IN
    /\ TRUE = (\A p \in DOMAIN modAll \ final : tr # "virtio" \/ Viol("C17|" \o modAll[p] \o "|modified-not-dirty", p))
    /\ TRUE = (\A p \in final \ (DOMAIN modAll \cup dirty0) : Viol("C17|" \o who(p) \o "|dirty-not-modified", p))
    /\ TRUE = (broken \/ r.diff = <<>> \/ Viol("C04|end|mem-modified", r.diff))
    /\ TRUE = (broken \/ ~Has(r, "msgs") \/ NonEmptyMsgs(r.msgs) = <<>> \/ Viol("C04|end|fd", r.msgs))
    /\ TRUE = (r.canary \/ Viol("C04|end|oob", r.diff))
    /\ UNCHANGED <<tr, ob, fp, sp, src, cont, broken, dirt, dirty0, modBy, dirtyBy>>

Step ==
  /\ l <= Len(Rec)
  /\ LET r == Rec[l] IN
     CASE r.e = "Reset" -> Reset(r)
       [] r.e = "Op" -> OpStep(r)
       [] r.e = "End" -> EndStep(r)
       [] r.e = "New" ->        \* constructors over a well-formed chain inside mapped memory must succeed
            /\ TRUE = (r.res = "ok" \/ Viol("C04|new|construct-failed", <<r.what, r.res, r.err>>))
            /\ broken' = (broken \/ r.res # "ok")
            /\ UNCHANGED <<tr, ob, fp, sp, src, cont, dirt, dirty0, modBy, dirtyBy>>
       [] r.e = "Abort" ->      \* the driver itself could not go on with what the code under test handed back
            /\ TRUE = Viol("C04|" \o r.op \o "|harness-aborted", r.seg)
            /\ UNCHANGED <<tr, ob, fp, sp, src, cont, broken, dirt, dirty0, modBy, dirtyBy>>
       [] r.e = "Probe" ->      \* one call through a forwarding impl (Arc<File>), run in a child process: n bytes at file offset x
            /\ TRUE = IF r.res = "crash" THEN Viol("C04|" \o r.op \o "|crash", r.signal)
                      ELSE IF r.res # "ok" THEN Viol("C04|" \o r.op \o "|spurious-failure", r.res)
                      ELSE IF r.ret # r.n THEN Viol("C04|" \o r.op \o "|ret", <<r.ret, r.n>>)
                      ELSE IF r.reading /\ r.out # Ramps(<< <<r.x + r.salt, r.n>> >>) THEN Viol("C04|" \o r.op \o "|bytes", r.out)
                      ELSE IF ~r.reading /\ r.fdiff # RampZ(<< <<r.x, r.n, r.v>> >>) THEN Viol("C04|" \o r.op \o "|bytes", r.fdiff)
                      ELSE TRUE
            /\ UNCHANGED <<tr, ob, fp, sp, src, cont, broken, dirt, dirty0, modBy, dirtyBy>>
       [] r.e = "Crash" ->      \* the process running the code under test died (signal): memory safety is part of C04
            /\ TRUE = Viol("C04|" \o r.op \o "|crash", r.signal)
            /\ UNCHANGED <<tr, ob, fp, sp, src, cont, broken, dirt, dirty0, modBy, dirtyBy>>
       [] OTHER -> /\ TRUE = Viol("C04|event|unknown", r) /\ UNCHANGED <<tr, ob, fp, sp, src, cont, broken, dirt, dirty0, modBy, dirtyBy>>
  /\ l' = l + 1
Done == l = Len(Rec) + 1 /\ PrintT(<<"ACCEPTED", Len(Rec)>>) /\ l' = l + 1
        /\ UNCHANGED <<tr, ob, fp, sp, src, cont, broken, dirt, dirty0, modBy, dirtyBy>>
Next == Step \/ Done
Spec == Init /\ [][Next]_vars
=============================================================================
