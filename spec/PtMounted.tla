------------------------------ MODULE PtMounted ------------------------------
(* X05 - A level of the MOUNTED passthrough file system: the Linux kernel is the client.

   The statement is the one of C05 moved to the system-call interface: a process working on the mountpoint sees
   what a process working on the exported directory itself would see --
     Result   every system call on the mountpoint has the result (status class / errno, returned data, attributes,
              directory listing, link target, xattr values, offsets) of the same call on the host directory;
     Tree     the exported directory afterwards equals the directory produced by the plain calls (in the
              configurations without client-side caching after every call; with caching at the end of the session);
     View     what the mountpoint shows (names, types, sizes, modes, owners, link counts, contents, xattrs, link
              targets, the hard-link structure) equals what the host semantics say it should show (the shadow), at
              every observation;
   and the protocol-level obligations only a real kernel exercises (the kernel's own reference accounting):
     Refs     no request names an inode number that is not held by the kernel (handed out and not yet forgotten);
              a FORGET never takes more references than were handed out; after the kernel let go of everything,
              while the client is idle the server's lookup count of every inode equals the kernel's; after the kernel
              let go of everything the server's inode table holds exactly the inodes still referenced (C08's statement);
     Handles  a handle is never handed out while it is open; RELEASE names an open handle of that inode; every
              handle is released by the end of the session.

   The environment vocabulary (attributes, digest rows, TreeOKOf) is HostFs's. The kernel adds behaviour of its
   own; every difference between the mountpoint and the host directory that is ACCEPTED is a named deviation:

     DotEntriesOptional   readdir(3) on the mountpoint does not list "." and ".." (the server leaves them out of
                          READDIR replies and the FUSE client does not synthesise them). POSIX leaves the presence
                          of dot entries open; listings are compared without them.
     KernelFallocModes    the FUSE client only forwards fallocate modes made of KEEP_SIZE, PUNCH_HOLE, ZERO_RANGE;
                          every other mode word is answered EOPNOTSUPP by the kernel itself (no request is sent),
                          where the host file system answers EINVAL / EOPNOTSUPP / succeeds. Accepted: EOPNOTSUPP
                          without effect.
     TimesNotCompared     atime/mtime/ctime of the two trees are taken at different moments; times are compared only
                          where a call sets them explicitly (utimensat: seconds and nanoseconds read back at once).
     ExportLagsWithCache  with attribute/entry timeouts and writeback caching the client holds dirty data and
                          attributes: the EXPORT is compared at the end of the session only (after close + sync);
                          Result and View are still required at every step (a single client is coherent with itself).
     InodeNumbersLocal    st_ino / st_dev of the mountpoint are the server's business (behind a Vfs they are Vfs
                          inode numbers): only the hard-link STRUCTURE is compared (which names are the same file).

   The module also carries the accounting object the judge folds the recorded request stream into: AcctStep, AcctFold. *)
EXTENDS HostFs

(* ---------------- results ---------------- *)
DotNames == {".:4", "..:4"}
SeqToSet(s) == {s[k] : k \in DOMAIN s}
FallocForwarded(mode) == mode \in {0, 1, 3, 16, 17}             \* KEEP_SIZE = 1, PUNCH_HOLE = 2 (only with KEEP_SIZE), ZERO_RANGE = 16
Keys == {"data", "n", "pos", "attr", "statfs", "tgt", "val"}
HasK(r, k) == k \in DOMAIN r
\* the mountpoint's answer m against the host's answer a for request q
SameFields(m, a) == \A k \in Keys : (HasK(m, k) <=> HasK(a, k)) /\ (HasK(m, k) /\ HasK(a, k) => m[k] = a[k])
SameNames(q, m, a) ==
  IF ~HasK(a, "names") THEN ~HasK(m, "names")
  ELSE HasK(m, "names") /\ (IF q.op = "readdir" THEN SeqToSet(m.names) \ DotNames = SeqToSet(a.names) \ DotNames      \* DotEntriesOptional
                            ELSE SeqToSet(m.names) = SeqToSet(a.names))
Agree(q, m, a) ==
  IF q.op = "fallocate" /\ ~FallocForwarded(q.mode)
  THEN m.st = a.st \/ m.st = "EOPNOTSUPP"                                                                               \* KernelFallocModes
  ELSE m.st = a.st /\ (m.st # "OK" \/ (SameFields(m, a) /\ SameNames(q, m, a)))

(* ---------------- trees and views ---------------- *)
RowCore(w) == [p |-> w.p, t |-> w.t, perm |-> w.perm, uid |-> w.uid, gid |-> w.gid, size |-> w.size, nlink |-> w.nlink, tgt |-> w.tgt, data |-> w.data,
               xa |-> [k \in DOMAIN w.xa |-> w.xa[k]], rdev |-> w.rdev, name |-> w.name]
Cores(rows) == {RowCore(rows[k]) : k \in DOMAIN rows}
\* InodeNumbersLocal: which paths are the same file
Links(rows) == {{rows[j].p : j \in {i \in DOMAIN rows : rows[i].id = rows[k].id}} : k \in DOMAIN rows}
SameTree(x, y) == Cores(x) = Cores(y) /\ Links(x) = Links(y)

(* ---------------- the kernel's accounting ---------------- *)
\* A = [refs: ino -> count > 0, opens: handle -> ino, bad: set of violated obligations]
Acct0 == [refs |-> <<>>, opens |-> <<>>, bad |-> {}]
Held(A, i) == i = "1" \/ i \in DOMAIN A.refs
Put(f, k, v) == (k :> v) @@ [x \in DOMAIN f \ {k} |-> f[x]]
Del(f, k) == [x \in DOMAIN f \ {k} |-> f[x]]
Bad(A, b) == [A EXCEPT !.bad = @ \cup {b}]
AcctStep(A, e) ==
  CASE e[1] = "use" -> IF Held(A, e[3]) THEN A ELSE Bad(A, "unknown-inode|" \o e[2])
    [] e[1] = "ent" -> LET A1 == IF Held(A, e[3]) THEN A ELSE Bad(A, "unknown-inode|" \o e[2])
                           c == IF e[4] \in DOMAIN A1.refs THEN A1.refs[e[4]] ELSE 0
                       IN IF e[4] = "1" THEN A1 ELSE [A1 EXCEPT !.refs = Put(@, e[4], c + 1)]
    [] e[1] = "fgt" -> IF e[2] = "1" THEN A
                       ELSE IF e[2] \notin DOMAIN A.refs \/ A.refs[e[2]] < e[3] THEN Bad([A EXCEPT !.refs = Del(@, e[2])], "forget-underflow")
                       ELSE IF A.refs[e[2]] = e[3] THEN [A EXCEPT !.refs = Del(@, e[2])]
                       ELSE [A EXCEPT !.refs = Put(@, e[2], A.refs[e[2]] - e[3])]
    [] e[1] = "opn" -> LET A1 == IF Held(A, e[2]) THEN A ELSE Bad(A, "unknown-inode|open") IN
                       IF e[3] \in DOMAIN A1.opens THEN Bad(A1, "handle-reused") ELSE [A1 EXCEPT !.opens = Put(@, e[3], e[2])]
    [] e[1] = "rel" -> IF e[3] \in DOMAIN A.opens /\ A.opens[e[3]] = e[2] THEN [A EXCEPT !.opens = Del(@, e[3])]
                       ELSE Bad(A, "release-unknown-handle")
    [] OTHER -> A
RECURSIVE AcctFold(_, _, _)
AcctFold(A, es, k) == IF k > Len(es) THEN A ELSE AcctFold(AcctStep(A, es[k]), es, k + 1)
=============================================================================
