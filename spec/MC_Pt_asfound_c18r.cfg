SPECIFICATION Spec
CONSTANTS
  PlainNames <- MC_Names2
  HostileNames <- MC_NoHostile
  MaxOps = 3
  MaxIno = 10
  Cfg <- MC_Cfg_seal_noopen
  AsFound <- MC_AF_c18r
  Mode = "c18"
  InitS <- MC_S_plain
  ScenCfg <- MC_Scen_seal_noopen
  ScenTree <- MC_Tree_plain
VIEW View
INVARIANTS TreeOK Sealed SwitchesOK
CHECK_DEADLOCK FALSE
