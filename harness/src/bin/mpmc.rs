//! X02 harness: drives the REAL `fuse_backend_rs::common::mpmc::Channel<u32>` (crate feature async-io).
//!
//!   mpmc replay <schedules.ndjson> <trace.ndjson>
//!       replays interleavings exported by TLC from spec/MpmcGate.tla. Everything runs on the controller
//!       thread: non-blocking operations are plain calls, `recv()` futures are polled by hand with a counting
//!       waker (tokio's Notify needs no runtime), so "which parked task was woken by this step" is observable.
//!       The one split inside an operation that the public API allows - a sender stopped between
//!       `closed.load()` and `push_back()` - is produced with `lock_channel()`: a helper thread calls `send()`
//!       while the controller holds the queue lock, is seen sleeping on the mutex (/proc/self/task/<tid>/stat),
//!       is frozen there by a signal whose handler waits, the lock is released, other steps run, and the
//!       thread is let go at its `send.end` step.
//!   mpmc stress <trace.ndjson> <seed> <rounds> <stall_ms>
//!       rounds of 2..6 real threads running short random programs on a fresh channel; `recv()` is driven by a
//!       hand-rolled block_on (park/unpark waker). Every operation is logged with a global ticket taken before
//!       its call and after its return. The main thread is the watchdog: when every thread is finished or
//!       parked inside recv with no wake-up pending, twice in a row `stall_ms` apart, it logs a `Stall` event
//!       (the quiescent state) and then closes the channel so that the round can end.
//!   mpmc hunt <trace.ndjson> <seed> <max_trials> <max_ms> <bomb>
//!       tries to hit the window between `try_recv()` and `closed.load()` inside `recv()`: one thread polls
//!       fresh recv() futures in a loop while another does send(m); close(). With bomb=1 the receiver thread is
//!       showered with signals whose handler spins, which stretches every instruction boundary.
//!
//! The harness only drives and records: results are logged raw, TLC (spec/Trace_Mpmc.tla) judges.
//! Identical histories (same events in the same order) are written once.
use fuse_backend_rs::common::mpmc::Channel;
use serde_json::{json, Value};
use std::collections::HashSet;
use std::future::Future;
use std::io::BufRead;
use std::os::unix::thread::JoinHandleExt;
use std::pin::Pin;
use std::sync::atomic::{AtomicBool, AtomicI32, AtomicU32, AtomicU64, AtomicUsize, Ordering::SeqCst};
use std::sync::{Arc, Barrier, Mutex};
use std::task::{Context, Poll, Wake, Waker};
use std::time::{Duration, Instant};
use vharness::util::{Rng, Trace};

type Ch = Channel<u32>;
type RecvFut = Pin<Box<dyn Future<Output = std::io::Result<u32>>>>;

#[derive(Clone, Debug)]
struct Op {
    op: String,
    m: u32,
    set: Vec<u32>,
}

fn res(k: &str, m: u32) -> Value {
    json!({"k": k, "m": m})
}

fn recv_res(r: std::io::Result<u32>) -> Value {
    match r {
        Ok(m) => res("msg", m),
        Err(e) if e.kind() == std::io::ErrorKind::BrokenPipe => res("closed", 0),
        Err(e) => res("ioerr", e.raw_os_error().unwrap_or(0) as u32),
    }
}

/// every public non-blocking method of Channel
fn do_op(ch: &Ch, o: &Op) -> Value {
    let r = std::panic::catch_unwind(std::panic::AssertUnwindSafe(|| match o.op.as_str() {
        "send" => match ch.send(o.m) {
            Ok(()) => res("ok", 0),
            Err(m) => res("err", m),
        },
        "try" => match ch.try_recv() {
            None => res("none", 0),
            Some(m) => res("some", m),
        },
        "close" => {
            ch.close();
            res("unit", 0)
        }
        "notifyw" => {
            ch.notify_waiters();
            res("unit", 0)
        }
        "flush" => {
            let set = o.set.clone();
            ch.flush_pending_prefetch_requests(|x| set.contains(x));
            res("unit", 0)
        }
        "len" => {
            let g = ch.lock_channel();
            let n = g.len();
            drop(g);
            res("len", n as u32)
        }
        other => panic!("unknown op {}", other),
    }));
    r.unwrap_or_else(|_| res("panic", 0))
}

fn call_ev(t: usize, o: &Op) -> Value {
    let op = if o.op == "recvc" { "recv" } else { o.op.as_str() };
    json!({"e": "Call", "t": t, "op": op, "m": o.m, "set": o.set})
}

fn ret_ev(t: usize, r: &Value) -> Value {
    json!({"e": "Ret", "t": t, "res": r})
}

/// the recv() future of a channel that outlives it (the caller drops the future before the Arc)
fn recv_future(ch: &Arc<Ch>) -> RecvFut {
    let r: &'static Ch = unsafe { &*Arc::as_ptr(ch) };
    Box::pin(r.recv())
}

// ------------------------------------------------------------------------------------------------
// freezing a helper thread inside a signal handler

struct Slot {
    tid: AtomicI32,
    frozen: AtomicU32,
    inh: AtomicU32,
}
#[allow(clippy::declare_interior_mutable_const)]
const SLOT0: Slot = Slot { tid: AtomicI32::new(0), frozen: AtomicU32::new(0), inh: AtomicU32::new(0) };
static SLOTS: [Slot; 10] = [SLOT0; 10];
static BOMB_SPIN: AtomicU32 = AtomicU32::new(0);
static BOMB_HITS: AtomicU64 = AtomicU64::new(0);

fn gettid() -> i32 {
    unsafe { libc::syscall(libc::SYS_gettid) as i32 }
}

extern "C" fn on_usr1(_: libc::c_int) {
    let tid = gettid();
    for s in SLOTS.iter() {
        if s.tid.load(SeqCst) == tid {
            s.inh.store(1, SeqCst);
            while s.frozen.load(SeqCst) == 1 {
                let ts = libc::timespec { tv_sec: 0, tv_nsec: 20_000 };
                unsafe { libc::nanosleep(&ts, std::ptr::null_mut()) };
            }
            s.inh.store(0, SeqCst);
            return;
        }
    }
}

extern "C" fn on_usr2(_: libc::c_int) {
    // stretch the interrupted instruction boundary
    let n = BOMB_SPIN.load(SeqCst);
    BOMB_HITS.fetch_add(1, SeqCst);
    for _ in 0..n {
        std::hint::spin_loop();
    }
}

fn install_handlers() {
    unsafe {
        for (sig, h) in [(libc::SIGUSR1, on_usr1 as *const () as usize), (libc::SIGUSR2, on_usr2 as *const () as usize)] {
            let mut sa: libc::sigaction = std::mem::zeroed();
            sa.sa_sigaction = h;
            libc::sigemptyset(&mut sa.sa_mask);
            sa.sa_flags = 0;
            if libc::sigaction(sig, &sa, std::ptr::null_mut()) != 0 {
                die("sigaction failed");
            }
        }
    }
}

fn die(msg: &str) -> ! {
    eprintln!("mpmc harness: {}", msg);
    std::process::exit(3);
}

fn thread_state(tid: i32) -> char {
    match std::fs::read_to_string(format!("/proc/self/task/{}/stat", tid)) {
        Ok(s) => match s.rfind(") ") {
            Some(i) => s[i + 2..].chars().next().unwrap_or('?'),
            None => '?',
        },
        Err(_) => '?',
    }
}

struct GatedSend {
    handle: std::thread::JoinHandle<()>,
    slot: usize,
    done: Arc<AtomicU32>,
    result: Arc<Mutex<Option<Value>>>,
}

enum Begin {
    Blocked(GatedSend),
    Returned(Value),
}

/// start `send(m)` on a helper thread while the queue lock is held; returns with the thread frozen between
/// its `closed.load()` and `push_back()` (Blocked), or with the result if send() returned without the lock
fn gated_send_begin(ch: &Arc<Ch>, m: u32, slot: usize) -> Begin {
    let guard = ch.lock_channel();
    let done = Arc::new(AtomicU32::new(0));
    let started = Arc::new(AtomicU32::new(0));
    let result = Arc::new(Mutex::new(None));
    let (c2, d2, s2, r2) = (ch.clone(), done.clone(), started.clone(), result.clone());
    SLOTS[slot].tid.store(0, SeqCst);
    SLOTS[slot].frozen.store(0, SeqCst);
    SLOTS[slot].inh.store(0, SeqCst);
    let handle = std::thread::spawn(move || {
        SLOTS[slot].tid.store(gettid(), SeqCst);
        s2.store(1, SeqCst);
        let r = match c2.send(m) {
            Ok(()) => res("ok", 0),
            Err(x) => res("err", x),
        };
        *r2.lock().unwrap() = Some(r);
        d2.store(1, SeqCst);
    });
    let t0 = Instant::now();
    let mut sleeping = 0;
    loop {
        if done.load(SeqCst) == 1 {
            drop(guard);
            handle.join().ok();
            let r = result.lock().unwrap().take().unwrap();
            return Begin::Returned(r);
        }
        if started.load(SeqCst) == 1 {
            let tid = SLOTS[slot].tid.load(SeqCst);
            if thread_state(tid) == 'S' {
                sleeping += 1;
            } else {
                sleeping = 0;
            }
            if sleeping >= 3 {
                break;
            }
        }
        if t0.elapsed() > Duration::from_secs(20) {
            die("gated send: the helper thread neither returned nor blocked");
        }
        std::thread::sleep(Duration::from_micros(50));
    }
    // the helper sleeps on the queue mutex, after it has read `closed`: freeze it there
    SLOTS[slot].frozen.store(1, SeqCst);
    unsafe { libc::pthread_kill(handle.as_pthread_t(), libc::SIGUSR1) };
    let t0 = Instant::now();
    while SLOTS[slot].inh.load(SeqCst) != 1 {
        if t0.elapsed() > Duration::from_secs(20) {
            die("gated send: the helper thread did not enter the signal handler");
        }
        std::thread::sleep(Duration::from_micros(20));
    }
    drop(guard);
    Begin::Blocked(GatedSend { handle, slot, done, result })
}

fn gated_send_end(g: GatedSend) -> Value {
    SLOTS[g.slot].frozen.store(0, SeqCst);
    let t0 = Instant::now();
    while g.done.load(SeqCst) != 1 {
        if t0.elapsed() > Duration::from_secs(20) {
            die("gated send: the helper thread did not finish after its release");
        }
        std::thread::sleep(Duration::from_micros(20));
    }
    g.handle.join().ok();
    SLOTS[g.slot].tid.store(0, SeqCst);
    let r = g.result.lock().unwrap().take().unwrap();
    r
}

// ------------------------------------------------------------------------------------------------
// replay

struct WakeCnt {
    n: AtomicUsize,
}
impl Wake for WakeCnt {
    fn wake(self: Arc<Self>) {
        self.n.fetch_add(1, SeqCst);
    }
    fn wake_by_ref(self: &Arc<Self>) {
        self.n.fetch_add(1, SeqCst);
    }
}

struct Proc {
    prog: Vec<Op>,
    ip: usize,
    fut: Option<RecvFut>,
    wk: Arc<WakeCnt>,
    seen: usize,
    gated: Option<GatedSend>,
}

fn parse_ops(v: &Value) -> Vec<Op> {
    v.as_array()
        .unwrap()
        .iter()
        .map(|o| Op {
            op: o["op"].as_str().unwrap().to_string(),
            m: o["m"].as_u64().unwrap() as u32,
            set: o["set"].as_array().map(|a| a.iter().map(|x| x.as_u64().unwrap() as u32).collect()).unwrap_or_default(),
        })
        .collect()
}

fn probe_end(ch: &Arc<Ch>, ev: &mut Vec<Value>) {
    // the hidden state through the public API: length under the lock, then drain
    let o = Op { op: "len".into(), m: 0, set: vec![] };
    ev.push(call_ev(0, &o));
    let r = do_op(ch, &o);
    ev.push(ret_ev(0, &r));
    let t = Op { op: "try".into(), m: 0, set: vec![] };
    for _ in 0..64 {
        ev.push(call_ev(0, &t));
        let r = do_op(ch, &t);
        let none = r["k"] == "none";
        ev.push(ret_ev(0, &r));
        if none {
            break;
        }
    }
}

fn replay(sched_path: &str, out: &str) {
    install_handlers();
    let mut tr = Trace::create(out);
    let f = std::io::BufReader::new(std::fs::File::open(sched_path).expect("open schedules"));
    let mut nsched = 0u64;
    let mut gated_total = 0u64;
    for (seg, line) in f.lines().enumerate() {
        let line = line.unwrap();
        if line.trim().is_empty() {
            continue;
        }
        let sc: Value = serde_json::from_str(&line).expect("schedule json");
        let ch: Arc<Ch> = Arc::new(Channel::new());
        let mut procs: Vec<Proc> = sc["prog"]
            .as_array()
            .unwrap()
            .iter()
            .map(|p| Proc { prog: parse_ops(p), ip: 0, fut: None, wk: Arc::new(WakeCnt { n: AtomicUsize::new(0) }), seen: 0, gated: None })
            .collect();
        tr.emit(&json!({"e": "Reset", "seg": seg + 1, "id": sc["id"]}));
        let steps = sc["steps"].as_array().unwrap();
        for (i, st) in steps.iter().enumerate() {
            let p = st["p"].as_u64().unwrap() as usize; // 1-based
            let k = st["k"].as_str().unwrap();
            let before: Vec<usize> = procs.iter().map(|x| x.wk.n.load(SeqCst)).collect();
            let mut note = Value::Null;
            let r: Value = {
                let pr = &mut procs[p - 1];
                if pr.ip >= pr.prog.len() {
                    note = json!("program-exhausted");
                    res("skipped", 0)
                } else {
                    let o = pr.prog[pr.ip].clone();
                    match k {
                        "call" => {
                            tr.emit(&call_ev(p, &o));
                            let r = do_op(&ch, &o);
                            tr.emit(&ret_ev(p, &r));
                            pr.ip += 1;
                            r
                        }
                        "send.begin" => {
                            tr.emit(&call_ev(p, &o));
                            gated_total += 1;
                            match gated_send_begin(&ch, o.m, p) {
                                Begin::Blocked(g) => {
                                    pr.gated = Some(g);
                                    res("blockedAtLock", 0)
                                }
                                Begin::Returned(r) => {
                                    tr.emit(&ret_ev(p, &r));
                                    pr.ip += 1;
                                    r
                                }
                            }
                        }
                        "send.end" => match pr.gated.take() {
                            Some(g) => {
                                let r = gated_send_end(g);
                                tr.emit(&ret_ev(p, &r));
                                pr.ip += 1;
                                r
                            }
                            None => {
                                note = json!("no-gated-send");
                                res("skipped", 0)
                            }
                        },
                        "poll" => {
                            if pr.fut.is_none() {
                                tr.emit(&call_ev(p, &o));
                                pr.fut = Some(recv_future(&ch));
                            } else if pr.wk.n.load(SeqCst) == pr.seen {
                                note = json!("poll-without-wake");
                            }
                            pr.seen = pr.wk.n.load(SeqCst);
                            let waker = Waker::from(pr.wk.clone());
                            let mut cx = Context::from_waker(&waker);
                            match pr.fut.as_mut().unwrap().as_mut().poll(&mut cx) {
                                Poll::Pending => res("pending", 0),
                                Poll::Ready(x) => {
                                    pr.fut = None;
                                    let r = recv_res(x);
                                    tr.emit(&ret_ev(p, &r));
                                    pr.ip += 1;
                                    r
                                }
                            }
                        }
                        "cancel" => {
                            if pr.fut.take().is_some() {
                                let r = res("cancelled", 0);
                                tr.emit(&ret_ev(p, &r));
                                pr.ip += 1;
                                r
                            } else {
                                note = json!("nothing-to-cancel");
                                res("skipped", 0)
                            }
                        }
                        other => die(&format!("unknown step kind {}", other)),
                    }
                }
            };
            let woke: Vec<usize> = (0..procs.len())
                .filter(|&x| x != p - 1 && procs[x].fut.is_some() && procs[x].wk.n.load(SeqCst) > before[x])
                .map(|x| x + 1)
                .collect();
            let mut obs = json!({"e": "Obs", "i": i + 1, "p": p, "k": k, "r": r, "w": woke});
            if !note.is_null() {
                obs["note"] = note; // JSON null is not readable by the judge: the key is omitted instead
            }
            tr.emit(&obs);
        }
        // leftovers the schedule did not foresee: frozen senders, woken tasks that were not polled again
        let mut extra = 0;
        for p in 0..procs.len() {
            if let Some(g) = procs[p].gated.take() {
                let r = gated_send_end(g);
                tr.emit(&ret_ev(p + 1, &r));
                procs[p].ip += 1;
                extra += 1;
            }
        }
        loop {
            let mut again = false;
            for p in 0..procs.len() {
                let pr = &mut procs[p];
                if pr.fut.is_some() && pr.wk.n.load(SeqCst) > pr.seen {
                    pr.seen = pr.wk.n.load(SeqCst);
                    let waker = Waker::from(pr.wk.clone());
                    let mut cx = Context::from_waker(&waker);
                    if let Poll::Ready(x) = pr.fut.as_mut().unwrap().as_mut().poll(&mut cx) {
                        pr.fut = None;
                        tr.emit(&ret_ev(p + 1, &recv_res(x)));
                        pr.ip += 1;
                    }
                    extra += 1;
                    again = true;
                }
            }
            if !again {
                break;
            }
        }
        // the quiescent state: tasks still parked, no wake-up pending
        let blocked: Vec<usize> = (0..procs.len()).filter(|&x| procs[x].fut.is_some()).map(|x| x + 1).collect();
        if !blocked.is_empty() {
            tr.emit(&json!({"e": "Stall", "blocked": blocked}));
            for &b in &blocked {
                procs[b - 1].fut = None;
                tr.emit(&ret_ev(b, &res("cancelled", 0)));
            }
        }
        let mut ev = vec![];
        probe_end(&ch, &mut ev);
        for e in &ev {
            tr.emit(e);
        }
        let unfinished: Vec<usize> = (0..procs.len()).filter(|&x| procs[x].ip < procs[x].prog.len()).map(|x| x + 1).collect();
        tr.emit(&json!({"e": "End", "seg": seg + 1, "blocked": blocked, "extra": extra, "unfinished": unfinished}));
        drop(procs);
        nsched += 1;
    }
    tr.flush();
    println!("{}", json!({"schedules": nsched, "gated_sends": gated_total, "events": tr.n}));
}

// ------------------------------------------------------------------------------------------------
// stress

struct ThSt {
    state: AtomicU32, // 0 running, 1 parked inside recv, 2 finished
    woken: AtomicBool,
    epoch: AtomicU64,
}

struct ThWake {
    st: Arc<ThSt>,
    th: std::thread::Thread,
}
impl Wake for ThWake {
    fn wake(self: Arc<Self>) {
        self.wake_by_ref()
    }
    fn wake_by_ref(self: &Arc<Self>) {
        self.st.woken.store(true, SeqCst);
        self.st.epoch.fetch_add(1, SeqCst);
        self.th.unpark();
    }
}

fn block_on_recv(ch: &Arc<Ch>, st: &Arc<ThSt>) -> Value {
    let mut fut = recv_future(ch);
    let waker = Waker::from(Arc::new(ThWake { st: st.clone(), th: std::thread::current() }));
    let mut cx = Context::from_waker(&waker);
    loop {
        match fut.as_mut().poll(&mut cx) {
            Poll::Ready(x) => return recv_res(x),
            Poll::Pending => {
                st.state.store(1, SeqCst);
                st.epoch.fetch_add(1, SeqCst);
                while !st.woken.swap(false, SeqCst) {
                    std::thread::park();
                }
                st.state.store(0, SeqCst);
                st.epoch.fetch_add(1, SeqCst);
            }
        }
    }
}

fn gen_round(rng: &mut Rng) -> Vec<Vec<Op>> {
    let mk = |op: &str, m: u32, set: Vec<u32>| Op { op: op.to_string(), m, set };
    let nth = rng.range(2, 6) as usize;
    let flavour = rng.below(10); // 0-3 balanced, 4-6 with a closer, 7-8 more receives than sends, 9 anything
    let mut next_m = 1u32;
    let mut progs: Vec<Vec<Op>> = vec![];
    let mut sends = 0;
    let mut recvs = 0;
    for t in 0..nth {
        let n = rng.range(1, 3);
        let mut p = vec![];
        let role = if flavour >= 4 && flavour <= 6 && t == nth - 1 { 9 } else { rng.below(8) };
        for _ in 0..n {
            let o = match role {
                9 => {
                    if rng.chance(1, 3) {
                        let m = next_m;
                        next_m += 1;
                        mk("send", m, vec![])
                    } else {
                        mk("close", 0, vec![])
                    }
                }
                0..=2 => {
                    let m = next_m;
                    next_m += 1;
                    sends += 1;
                    mk("send", m, vec![])
                }
                3..=5 => {
                    recvs += 1;
                    mk("recv", 0, vec![])
                }
                6 => match rng.below(4) {
                    0 => mk("try", 0, vec![]),
                    1 => mk("len", 0, vec![]),
                    2 => mk("notifyw", 0, vec![]),
                    _ => {
                        let a = rng.range(1, 4) as u32;
                        let b = rng.range(1, 6) as u32;
                        mk("flush", 0, if a == b { vec![a] } else { vec![a, b] })
                    }
                },
                _ => {
                    if rng.chance(1, 2) {
                        let m = next_m;
                        next_m += 1;
                        sends += 1;
                        mk("send", m, vec![])
                    } else {
                        recvs += 1;
                        mk("recv", 0, vec![])
                    }
                }
            };
            p.push(o);
        }
        progs.push(p);
    }
    // balanced rounds: never more receives than sends, so that nothing has to stall
    if flavour <= 3 {
        while recvs > sends {
            let m = next_m;
            next_m += 1;
            let t = rng.below(nth as u64) as usize;
            progs[t].insert(0, mk("send", m, vec![]));
            sends += 1;
        }
    }
    progs
}

fn stress(out: &str, seed: u64, rounds: u64, stall_ms: u64) {
    let mut rng = Rng::new(seed);
    let mut tr = Trace::create(out);
    let mut seen: HashSet<String> = HashSet::new();
    let (mut dups, mut stalls, mut hangs) = (0u64, 0u64, 0u64);
    let mut seg = 0u64;
    for _round in 0..rounds {
        let progs = gen_round(&mut rng);
        let nth = progs.len();
        let ch: Arc<Ch> = Arc::new(Channel::new());
        let ticket = Arc::new(AtomicU64::new(1));
        let barrier = Arc::new(Barrier::new(nth + 1));
        let sts: Vec<Arc<ThSt>> = (0..nth).map(|_| Arc::new(ThSt { state: AtomicU32::new(0), woken: AtomicBool::new(false), epoch: AtomicU64::new(0) })).collect();
        let mut handles = vec![];
        for (t, prog) in progs.iter().enumerate() {
            let (ch, ticket, barrier, st, prog) = (ch.clone(), ticket.clone(), barrier.clone(), sts[t].clone(), prog.clone());
            handles.push(std::thread::spawn(move || {
                let mut ev: Vec<(u64, Value)> = vec![];
                barrier.wait();
                for o in &prog {
                    let tc = ticket.fetch_add(1, SeqCst);
                    ev.push((tc, call_ev(t + 1, o)));
                    let r = if o.op == "recv" { block_on_recv(&ch, &st) } else { do_op(&ch, o) };
                    let tr_ = ticket.fetch_add(1, SeqCst);
                    ev.push((tr_, ret_ev(t + 1, &r)));
                }
                st.state.store(2, SeqCst);
                st.epoch.fetch_add(1, SeqCst);
                ev
            }));
        }
        let mut main_ev: Vec<(u64, Value)> = vec![];
        barrier.wait();
        // watchdog
        let scan = |sts: &Vec<Arc<ThSt>>| -> Vec<(u32, bool, u64)> { sts.iter().map(|s| (s.state.load(SeqCst), s.woken.load(SeqCst), s.epoch.load(SeqCst))).collect() };
        let t0 = Instant::now();
        let mut kicks = 0;
        loop {
            let s1 = scan(&sts);
            if s1.iter().all(|x| x.0 == 2) {
                break;
            }
            let quiet = |s: &Vec<(u32, bool, u64)>| s.iter().all(|x| x.0 == 2 || (x.0 == 1 && !x.1));
            if quiet(&s1) {
                std::thread::sleep(Duration::from_millis(stall_ms));
                let s2 = scan(&sts);
                if s2 == s1 {
                    // quiescent: nothing can move any more
                    let blocked: Vec<usize> = (0..nth).filter(|&i| s1[i].0 == 1).map(|i| i + 1).collect();
                    let tk = ticket.fetch_add(1, SeqCst);
                    main_ev.push((tk, json!({"e": "Stall", "blocked": blocked, "stall_ms": stall_ms})));
                    stalls += 1;
                    let o = Op { op: if kicks == 0 { "close".into() } else { "notifyw".into() }, m: 0, set: vec![] };
                    kicks += 1;
                    let tk = ticket.fetch_add(1, SeqCst);
                    main_ev.push((tk, call_ev(0, &o)));
                    let r = do_op(&ch, &o);
                    let tk = ticket.fetch_add(1, SeqCst);
                    main_ev.push((tk, ret_ev(0, &r)));
                    if kicks > 6 {
                        hangs += 1;
                        break;
                    }
                }
            } else {
                std::thread::yield_now();
            }
            if t0.elapsed() > Duration::from_secs(60) {
                hangs += 1;
                break;
            }
        }
        if hangs > 0 {
            // a receiver that cannot be woken any more: report what was logged and stop (threads are abandoned)
            let mut all = main_ev;
            all.sort_by_key(|x| x.0);
            seg += 1;
            tr.emit(&json!({"e": "Reset", "seg": seg, "progs": progs.iter().map(|p| p.iter().map(|o| o.op.clone()).collect::<Vec<_>>()).collect::<Vec<_>>(), "hang": true}));
            for (_, e) in &all {
                tr.emit(e);
            }
            tr.flush();
            println!("{}", json!({"rounds": _round + 1, "segments": seg, "duplicates": dups, "stalls": stalls, "hangs": hangs, "events": tr.n}));
            std::process::exit(0);
        }
        let mut all: Vec<(u64, Value)> = main_ev;
        for h in handles {
            all.extend(h.join().expect("stress thread panicked"));
        }
        all.sort_by_key(|x| x.0);
        let mut evs: Vec<Value> = all.into_iter().map(|x| x.1).collect();
        probe_end(&ch, &mut evs);
        let key = serde_json::to_string(&evs).unwrap();
        if !seen.insert(key) {
            dups += 1;
            continue;
        }
        seg += 1;
        tr.emit(&json!({"e": "Reset", "seg": seg, "threads": nth}));
        for e in &evs {
            tr.emit(e);
        }
    }
    tr.flush();
    println!("{}", json!({"rounds": rounds, "segments": seg, "duplicates": dups, "stalls": stalls, "hangs": hangs, "events": tr.n}));
}

// ------------------------------------------------------------------------------------------------
// hunt: recv() racing send(m); close()

struct HuntShared {
    trial: AtomicU64,
    ch: Mutex<Option<Arc<Ch>>>,
    ticket: AtomicU64,
    done_s: AtomicU64,
    done_r: AtomicU64,
    stop: AtomicBool,
    delay: AtomicU32,
    r_tid: AtomicI32,
    ev_s: Mutex<Vec<(u64, Value)>>,
    ev_r: Mutex<Vec<(u64, Value)>>,
}

fn hunt(out: &str, seed: u64, max_trials: u64, max_ms: u64, bomb: bool) {
    install_handlers();
    let mut rng = Rng::new(seed);
    let mut tr = Trace::create(out);
    let sh = Arc::new(HuntShared {
        trial: AtomicU64::new(0),
        ch: Mutex::new(None),
        ticket: AtomicU64::new(1),
        done_s: AtomicU64::new(0),
        done_r: AtomicU64::new(0),
        stop: AtomicBool::new(false),
        delay: AtomicU32::new(0),
        r_tid: AtomicI32::new(0),
        ev_s: Mutex::new(vec![]),
        ev_r: Mutex::new(vec![]),
    });
    let s2 = sh.clone();
    let sender = std::thread::spawn(move || {
        let mut k = 0u64;
        loop {
            while s2.trial.load(SeqCst) == k {
                if s2.stop.load(SeqCst) {
                    return;
                }
                std::hint::spin_loop();
            }
            k += 1;
            let ch = s2.ch.lock().unwrap().clone().unwrap();
            for _ in 0..s2.delay.load(SeqCst) {
                std::hint::spin_loop();
            }
            let so = Op { op: "send".into(), m: 1, set: vec![] };
            let co = Op { op: "close".into(), m: 0, set: vec![] };
            let t1 = s2.ticket.fetch_add(1, SeqCst);
            let r1 = do_op(&ch, &so);
            let t2 = s2.ticket.fetch_add(1, SeqCst);
            let t3 = s2.ticket.fetch_add(1, SeqCst);
            let r2 = do_op(&ch, &co);
            let t4 = s2.ticket.fetch_add(1, SeqCst);
            *s2.ev_s.lock().unwrap() = vec![(t1, call_ev(1, &so)), (t2, ret_ev(1, &r1)), (t3, call_ev(1, &co)), (t4, ret_ev(1, &r2))];
            s2.done_s.store(k, SeqCst);
        }
    });
    let s3 = sh.clone();
    let receiver = std::thread::spawn(move || {
        s3.r_tid.store(gettid(), SeqCst);
        let wk = Arc::new(WakeCnt { n: AtomicUsize::new(0) });
        let waker = Waker::from(wk);
        let mut k = 0u64;
        loop {
            while s3.trial.load(SeqCst) == k {
                if s3.stop.load(SeqCst) {
                    return;
                }
                std::hint::spin_loop();
            }
            k += 1;
            let ch = s3.ch.lock().unwrap().clone().unwrap();
            let ro = Op { op: "recv".into(), m: 0, set: vec![] };
            let mut ev = vec![];
            let mut cancelled = 0u64;
            loop {
                // a fresh recv() per poll: notified(), enable(), try_recv(), closed.load(), first poll of the future
                let tc = s3.ticket.fetch_add(1, SeqCst);
                let mut fut = recv_future(&ch);
                let mut cx = Context::from_waker(&waker);
                match fut.as_mut().poll(&mut cx) {
                    Poll::Pending => {
                        drop(fut);
                        cancelled += 1; // a dropped recv that took nothing: not logged (no effect on the object)
                    }
                    Poll::Ready(x) => {
                        let tr_ = s3.ticket.fetch_add(1, SeqCst);
                        let r = recv_res(x);
                        let closed = r["k"] != "msg";
                        let mut c = call_ev(2, &ro);
                        c["cancelled_before"] = json!(cancelled);
                        ev.push((tc, c));
                        ev.push((tr_, ret_ev(2, &r)));
                        if closed {
                            break;
                        }
                    }
                }
            }
            *s3.ev_r.lock().unwrap() = ev;
            s3.done_r.store(k, SeqCst);
        }
    });
    while sh.r_tid.load(SeqCst) == 0 {
        std::thread::yield_now();
    }
    // the bomber
    let s4 = sh.clone();
    let rt = receiver.as_pthread_t();
    let bomber = if bomb {
        BOMB_SPIN.store(3000, SeqCst);
        Some(std::thread::spawn(move || {
            while !s4.stop.load(SeqCst) {
                unsafe { libc::pthread_kill(rt, libc::SIGUSR2) };
                for _ in 0..200 {
                    std::hint::spin_loop();
                }
            }
        }))
    } else {
        None
    };
    let t0 = Instant::now();
    let mut seen: HashSet<String> = HashSet::new();
    let mut counts: Vec<(String, u64)> = vec![];
    let (mut trials, mut seg) = (0u64, 0u64);
    while trials < max_trials && t0.elapsed() < Duration::from_millis(max_ms) {
        trials += 1;
        *sh.ch.lock().unwrap() = Some(Arc::new(Channel::new()));
        sh.ticket.store(1, SeqCst);
        sh.delay.store(rng.below(400) as u32, SeqCst);
        sh.trial.store(trials, SeqCst);
        let tw = Instant::now();
        while sh.done_s.load(SeqCst) != trials || sh.done_r.load(SeqCst) != trials {
            if tw.elapsed() > Duration::from_secs(30) {
                die("hunt: a trial did not finish");
            }
            std::hint::spin_loop();
        }
        let ch = sh.ch.lock().unwrap().clone().unwrap();
        let mut all: Vec<(u64, Value)> = sh.ev_s.lock().unwrap().drain(..).collect();
        all.extend(sh.ev_r.lock().unwrap().drain(..));
        all.sort_by_key(|x| x.0);
        let mut evs: Vec<Value> = all.into_iter().map(|x| x.1).collect();
        for e in evs.iter_mut() {
            if let Some(o) = e.as_object_mut() {
                o.remove("cancelled_before");
            }
        }
        probe_end(&ch, &mut evs);
        let key = serde_json::to_string(&evs).unwrap();
        if !seen.insert(key.clone()) {
            for c in counts.iter_mut() {
                if c.0 == key {
                    c.1 += 1;
                }
            }
            continue;
        }
        counts.push((key, 1));
        seg += 1;
        tr.emit(&json!({"e": "Reset", "seg": seg, "trial": trials}));
        for e in &evs {
            tr.emit(e);
        }
    }
    sh.stop.store(true, SeqCst);
    sender.join().ok();
    receiver.join().ok();
    if let Some(b) = bomber {
        b.join().ok();
    }
    tr.flush();
    println!(
        "{}",
        json!({"trials": trials, "segments": seg, "counts": counts.iter().map(|c| c.1).collect::<Vec<_>>(), "ms": t0.elapsed().as_millis() as u64,
               "signals": BOMB_HITS.load(SeqCst), "events": tr.n})
    );
}

fn main() {
    let a: Vec<String> = std::env::args().collect();
    let num = |i: usize, d: u64| a.get(i).and_then(|s| s.parse().ok()).unwrap_or(d);
    match a.get(1).map(|s| s.as_str()) {
        Some("replay") if a.len() >= 4 => replay(&a[2], &a[3]),
        Some("stress") if a.len() >= 3 => stress(&a[2], num(3, 1), num(4, 200), num(5, 20)),
        Some("hunt") if a.len() >= 3 => hunt(&a[2], num(3, 1), num(4, 100000), num(5, 5000), num(6, 1) == 1),
        _ => {
            eprintln!("usage: mpmc replay <schedules.ndjson> <trace.ndjson> | stress <trace> <seed> <rounds> <stall_ms> | hunt <trace> <seed> <max_trials> <max_ms> <bomb>");
            std::process::exit(2);
        }
    }
}
