"""C12: INIT negotiation (engine: init).

FuseInit.tla: A-level obligations on the INIT reply and on behaviour switches; I-level transcription of
Server::init, Vfs::init, PassthroughFs::init, OverlayFs::init. TLC checks I => A over the whole case
universe and exports every case; the harness replays cases on four real stacks and TLC judges the
recorded negotiations with Trace_Init.tla (want observed through the server's MetricsHook)."""
import json
import os
import re

from . import common as C
from .wire import export_abi

GENERIC_REPLAY = True   # scenarios are a deterministic function of (tier, seed); see check --replay
LEVEL = {"C12": "model_checking"}


def viols_of(out):
    return C.parse_viols(out["output"] if isinstance(out, dict) else out)


def run_c12(ctx):
    bindir = C.build_harness(bins=["initx"])
    abi = export_abi(ctx)
    # design level + export of the case universe in one TLC run
    mc = C.tlc_mc(ctx, "MC_FuseInit", cfg="MC_FuseInit_all.cfg", workers=6, timeout=1500, xmx="12g")
    for inv in mc["violated"]:
        ctx.violation("C12|model|" + inv, {"tlc": mc["output"][-3000:]}, replay_src={"tlc_output": mc["output"][-6000:]})
    cases = ctx.path("initcases.ndjson")
    n = 0
    with open(cases, "w") as f:
        for line in mc["output"].splitlines():
            if line.startswith('"{'):
                try:
                    f.write(json.loads(line) + "\n")
                    n += 1
                except Exception:
                    pass
    if n == 0:
        raise C.ToolError("no INIT cases exported")
    # anti-vacuity: the as-found negotiation (extended bits without the marker) must violate the reply invariant
    asf = C.tlc_mc(ctx, "FuseInit", cfg="MC_FuseInit_asfound.cfg", workers=4, timeout=900, coverage=False, must_cover=False, expect_violation=True)
    if "InvReply" not in asf["violated"]:
        raise C.ToolError("vacuity gate: the as-found model (ExtMarker = FALSE) no longer violates InvReply")
    ctx.mc_runs[-1]["note"] = "mutation self-test: expected violation of InvReply found"
    # ... and init() that only ever switches behaviour on must violate the second-session invariant
    stk = C.tlc_mc(ctx, "FuseInit", cfg="MC_FuseInit_sticky.cfg", workers=4, timeout=900, coverage=False, must_cover=False, expect_violation=True)
    if "InvSecondSwitches" not in stk["violated"]:
        raise C.ToolError("vacuity gate: the as-found model (StickySw = TRUE) no longer violates InvSecondSwitches")
    ctx.mc_runs[-1]["note"] = "mutation self-test: expected violation of InvSecondSwitches found"
    # conformance
    stride = 5 if ctx.quick else 1
    trace = ctx.path("init.ndjson")
    work = ctx.path("initwork")
    os.makedirs(work, exist_ok=True)
    C.run_bin(bindir, "initx", [abi, cases, trace, work, stride], env={"VERIF_SEED": ctx.seed}, timeout=3000)
    res = C.tlc_trace(ctx, "Trace_Init", trace, timeout=3000, xmx="8g")
    if not res["accepted"]:
        raise C.ToolError("init trace not consumed")
    rows = C.read_ndjson(trace)
    evs = [r for r in rows if r.get("e") == "Init"]
    for e in evs:
        if "error" in e["t"]:
            raise C.ToolError("probe failed: %s" % e["t"]["error"])
    ctx.traces += len(evs)
    ctx.events += len(rows)
    for sig, idx, detail in viols_of(res["output"]):
        ctx.violation(sig, {"event_index": idx, "detail": detail}, replay_src={"event": rows[idx - 1] if idx - 1 < len(rows) else None, "seed": ctx.seed})
    nd = res["output"].count('"DRIFT"')
    if nd:
        ctx.drift.append({"negotiations_disagreeing_with_I_level": nd})
        C.log("MODEL-DRIFT C12: %d negotiation(s) disagree with the I-level of FuseInit.tla" % nd)
    # binding demo
    step = max(1, len(rows) // 1500)
    bad = [json.loads(json.dumps(r)) for r in rows[::step]]
    k = 0
    for r in bad:
        if r.get("e") == "Init" and r["k"]["major"] == "eq" and r["r"]["status"] == "ok" and r["r"]["flags"] and k == 0:
            r["r"]["flags"] = r["r"]["flags"][1:]
            k = 1
        elif r.get("e") == "Init" and r["k"]["stack"] == "pt" and r["r"]["status"] == "ok" and not r["t"]["no_open"] and k == 1:
            r["t"]["no_open"] = True
            k = 2
        elif r.get("e") == "Init" and r["k"]["stack"] in ("pt", "vfs_pt") and r["r"]["status"] == "ok" and r["k"]["major"] == "eq" \
                and "WRITEBACK_CACHE" not in r["second"]["r"]["flags"] + r["r"]["flags"] \
                and not r["second"]["t"]["writeback"] and "writeback" not in r["second"]["t"]["na"] + r["t"]["na"] and k == 2:
            r["second"]["t"]["writeback"] = True
            k = 3
    bf = ctx.path("corrupt.ndjson")
    C.write_ndjson(bf, bad)
    bres = C.tlc_trace(ctx, "Trace_Init", bf)
    sigs = sorted({v[0] for v in viols_of(bres["output"])})
    if len(sigs) < 1 or (k == 3 and not any("|second" in x for x in sigs)):
        raise C.ToolError("binding demo failed: corrupted INIT trace accepted")
    sw = {}
    for e in evs:
        for s in ("no_open", "no_opendir", "writeback", "killpriv", "dax"):
            sw[(e["k"]["stack"], s, bool(e["t"].get(s)))] = sw.get((e["k"]["stack"], s, bool(e["t"].get(s))), 0) + 1
    ctx.extra.update({
        "distinct_nontrivial": len(evs),
        "rule": "case universe of FuseInit.tla (%d cases: stack x major x minor class x offered capability subsets x extended payload x filesystem answer / configuration switches), every %d-th replayed on the real stacks; each case is distinct" % (n, stride),
        "cases_in_universe": n,
        "switch_observations": {"%s/%s/%s" % k: v for k, v in sorted(sw.items())},
        "binding_demo": [{"corruption": "drop one enabled bit from a decoded reply; claim no_open on without negotiation; claim writeback on after the second session", "rejected_with": sigs}],
    })
    for e in evs[:1] + [x for x in evs if x["k"]["stack"] == "vfs_pt" and x["k"]["ext"]][:1]:
        ctx.sample({"case": e["k"], "reply": e["r"], "want_seen": e["want"], "switches": e["t"], "second_init": e["second"]})
    ctx.assumptions += ["a client announces only capabilities that exist in its own minor version (MaySend in FuseInit.tla)",
                        "overlay: only the open/opendir switches are probed", "writeback is not observable when OPEN is answered ENOSYS"]


PROPS = {"C12": run_c12}
