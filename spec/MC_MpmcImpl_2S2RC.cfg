SPECIFICATION Spec
CONSTANTS
  Prog <- P_2S2RC
  Procs = {1,2,3,4,5}
  Fixed = FALSE
  EnableFirst = TRUE
  Mon = TRUE
INVARIANTS LinWeak QuiescentAgrees AtMostOnceI NoInventionI NoLostWakeupQ ParkedRegistered WaitersSane
