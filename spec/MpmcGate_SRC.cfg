SPECIFICATION GSpec
CONSTANTS
  Prog <- P_SRC
  Procs = {1,2,3}
  Fixed = FALSE
  EnableFirst = TRUE
  Mon = TRUE
INVARIANTS Export GLinWeak GNoLostWakeupQ
