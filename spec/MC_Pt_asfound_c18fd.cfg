SPECIFICATION Spec
CONSTANTS
  PlainNames <- MC_Names1
  HostileNames <- MC_NoHostile
  MaxOps = 3
  MaxIno = 10
  Cfg <- MC_Cfg_seal
  AsFound <- MC_AF_c18fd
  Mode = "c18fd"
  InitS <- MC_S_plain
  ScenCfg <- MC_Scen_seal
  ScenTree <- MC_Tree_plain
VIEW View
INVARIANTS TreeOK HandlesOK
CHECK_DEADLOCK FALSE
