//! Small shared helpers: deterministic RNG, NDJSON trace writer.
use std::io::Write;

/// splitmix64 / xorshift-style deterministic generator (no external crate so that the
/// sequence is stable across toolchain updates).
#[derive(Clone)]
pub struct Rng(pub u64);

impl Rng {
    pub fn new(seed: u64) -> Self {
        Rng(seed ^ 0x9E37_79B9_7F4A_7C15)
    }
    pub fn next(&mut self) -> u64 {
        self.0 = self.0.wrapping_add(0x9E37_79B9_7F4A_7C15);
        let mut z = self.0;
        z = (z ^ (z >> 30)).wrapping_mul(0xBF58_476D_1CE4_E5B9);
        z = (z ^ (z >> 27)).wrapping_mul(0x94D0_49BB_1331_11EB);
        z ^ (z >> 31)
    }
    pub fn below(&mut self, n: u64) -> u64 {
        if n == 0 {
            0
        } else {
            self.next() % n
        }
    }
    pub fn range(&mut self, lo: u64, hi: u64) -> u64 {
        lo + self.below(hi - lo + 1)
    }
    pub fn chance(&mut self, num: u64, den: u64) -> bool {
        self.below(den) < num
    }
    pub fn pick<'a, T>(&mut self, v: &'a [T]) -> &'a T {
        &v[self.below(v.len() as u64) as usize]
    }
    pub fn fill(&mut self, buf: &mut [u8]) {
        for b in buf.iter_mut() {
            *b = self.next() as u8;
        }
    }
}

pub struct Trace {
    out: std::io::BufWriter<std::fs::File>,
    pub n: usize,
}

/// A logger that formats every record and throws it away: with it installed the arguments of the crate's `error!` /
/// `debug!` / `trace!` lines are evaluated (slicing, Display/Debug implementations), as they are in a daemon that logs;
/// without a logger the `log` macros skip them, and a panic inside a log line would go unseen.
struct EvalLogger;
impl log::Log for EvalLogger {
    fn enabled(&self, _: &log::Metadata) -> bool {
        true
    }
    fn log(&self, record: &log::Record) {
        use std::io::Write;
        let _ = write!(std::io::sink(), "{}", record.args());
    }
    fn flush(&self) {}
}
static EVAL_LOGGER: EvalLogger = EvalLogger;
pub fn install_logger() {
    static ONCE: std::sync::Once = std::sync::Once::new();
    ONCE.call_once(|| {
        if std::env::var_os("VERIF_NO_LOGGER").is_none() && log::set_logger(&EVAL_LOGGER).is_ok() {
            log::set_max_level(log::LevelFilter::Trace);
        }
    });
}

impl Trace {
    pub fn create(path: &str) -> Self {
        // every harness binary opens a trace first: the crate's log lines are evaluated in all of them
        install_logger();
        let f = std::fs::File::create(path).expect("create trace file");
        Trace {
            out: std::io::BufWriter::new(f),
            n: 0,
        }
    }
    pub fn emit(&mut self, v: &serde_json::Value) {
        serde_json::to_writer(&mut self.out, v).unwrap();
        self.out.write_all(b"\n").unwrap();
        self.n += 1;
    }
    pub fn flush(&mut self) {
        self.out.flush().unwrap();
    }
}

pub fn env_u64(name: &str, default: u64) -> u64 {
    std::env::var(name)
        .ok()
        .and_then(|s| s.parse().ok())
        .unwrap_or(default)
}

/// size of a field selected by a projection closure
pub fn fsz<T, F>(_f: fn(&T) -> &F) -> usize {
    std::mem::size_of::<F>()
}
