------------------------------- MODULE PtConc -------------------------------
(* A-level object of property C09: the sequential `Refs` object of C08 restricted to ONE file.

   State the property talks about: the number of lookup references the client holds on the file
   (`refs`) and the inode number the file is known by (sticky, learned by the trace spec on first
   observation). Atomic operations:
     inc      lookup / a readdirplus entry: refs + 1, returns the file's number
     dec(n)   forget(n): saturating decrement (never below zero)
     get      getattr on the number: succeeds if refs > 0 (usable while referenced)
   Compound client operations are sequences of atomic ones (weaker reading: not atomic as a whole):
     readdirplus whose entry did not fit = inc, then dec(1)
     batch_forget [(ino, n1), (ino, n2), ...] = dec(n1), dec(n2), ...
   Used by the I-level step model (PtLookupForget: history variable `arc`) and by the judge
   (Trace_PtConc: linearisation of recorded concurrent histories). *)
EXTENDS Naturals, Sequences

RefsInc(r) == r + 1
RefsDec(r, n) == IF r > n THEN r - n ELSE 0
RefsUsable(r) == r > 0

\* atomic A-actions as data: [a |-> "inc" | "dec" | "get", n |-> Nat]
AInc == [a |-> "inc", n |-> 0]
ADec(n) == [a |-> "dec", n |-> n]
AGet == [a |-> "get", n |-> 0]

Apply(r, act) == CASE act.a = "inc" -> RefsInc(r)
                   [] act.a = "dec" -> RefsDec(r, act.n)
                   [] OTHER -> r

RECURSIVE Decs(_)
Decs(cnts) == IF cnts = <<>> THEN <<>> ELSE <<ADec(Head(cnts))>> \o Decs(Tail(cnts))

\* the atomic actions of one client operation, in program order
\*   op \in {"lookup", "forget", "rdp", "getattr"}; cnts = forget counts; fit = readdirplus entry fitted
Plan(op, cnts, fit) ==
  CASE op = "lookup" -> <<AInc>>
    [] op = "forget" -> Decs(cnts)
    [] op = "rdp" -> IF fit THEN <<AInc>> ELSE <<AInc, ADec(1)>>
    [] op = "getattr" -> <<AGet>>
=============================================================================
