SPECIFICATION Spec
CONSTANTS
  Prog <- P_3S3RC
  Procs = {1,2,3,4,5,6,7}
  Fixed = FALSE
  EnableFirst = TRUE
  Mon = FALSE
INVARIANTS AtMostOnceI NoInventionI NoLostWakeupQ ParkedRegistered WaitersSane
