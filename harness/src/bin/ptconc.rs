//! ptconc engine (C09): concurrent lookup / forget / readdirplus on ONE file of a real
//! `PassthroughFs`, either under a cooperative scheduler that replays TLC-enumerated interleavings
//! through the `verif_hooks` yield points, or free-running (stress). Everything observed is logged
//! raw as NDJSON; the judge is spec/Trace_PtConc.tla (linearisability against the sequential Refs
//! object of spec/PtConc.tla).
//!
//!   ptconc sched  <schedules.ndjson> <workdir> <out.ndjson> [shard nshards]
//!   ptconc stress <workdir> <out.ndjson> <iterations>          (VERIF_SEED, PTCONC_PERTURB=0/1)
//!
//! schedules.ndjson: first line {"cfg", "threads":[{"op","cnts","fit","name"}...], "fh": bool};
//! then one line per schedule {"r0": n, "s": [[thread, "label"], ...]} (labels of
//! spec/PtLookupForget.tla; "R_lock" has no yield point in the code and is skipped; R_load/R_cas/R_rm
//! are reached as F_load/F_cas/F_rm).
//!
//! Events (one segment per schedule / iteration):
//!   Reset{seg, cfg, r0, sid}
//!   Call{t, op, cnts, fit, name, seq} / Ret{t, op, val, seq}     seq = global order of logging;
//!        Call is logged before the operation is invoked, Ret after it returned, so
//!        Ret(a).seq < Call(b).seq implies a really completed before b started.
//!        val: lookup/rdp = inode number (decimal string) or "err:<errno>"; getattr = "ok"/"ebadf"/...
//!   Probe{kind: "refcount"|"getattr"|"drain", ...}                after all threads finished
//! Thread 0 is the sequential setup (R0 lookups). Yield events and model-drift go to <out>.sched.
use std::cell::RefCell;
use std::ffi::CString;
use std::panic::{catch_unwind, AssertUnwindSafe};
use std::sync::atomic::{AtomicBool, AtomicU64, AtomicU8, AtomicUsize, Ordering};
use std::sync::{Arc, Barrier, Mutex};
use std::time::{Duration, Instant};

use fuse_backend_rs::api::filesystem::{Context, FileSystem};
use fuse_backend_rs::passthrough::{verif_hooks, Config, PassthroughFs};
use serde_json::{json, Value};
use vharness::util::{env_u64, Rng, Trace};

type Fs = PassthroughFs<()>;
const ROOT: u64 = 1;
const WATCHDOG: Duration = Duration::from_millis(50);
const HANG: Duration = Duration::from_secs(10);
const SPIN_US: u64 = 40;

// ------------------------------------------------------------------------------------------------
// operations (dumb drivers: call, log what came back)

#[derive(Clone, Debug)]
struct OpDesc {
    op: String, // lookup | forget | rdp | getattr
    cnts: Vec<u64>,
    fit: bool,
    name: String,
}

impl OpDesc {
    fn from_json(v: &Value) -> OpDesc {
        OpDesc {
            op: v["op"].as_str().unwrap().to_string(),
            cnts: v["cnts"].as_array().map(|a| a.iter().map(|x| x.as_u64().unwrap()).collect()).unwrap_or_default(),
            fit: v["fit"].as_bool().unwrap_or(true),
            name: v["name"].as_str().unwrap_or("").to_string(),
        }
    }
    fn call_event(&self, t: usize, seq: u64) -> Value {
        json!({"e": "Call", "t": t, "op": self.op, "cnts": self.cnts, "fit": self.fit, "name": self.name, "seq": seq})
    }
}

/// Ret event; `kind` classifies the shape of the raw value only: "ino" (decimal number), "none",
/// "attr" (getattr outcome ok/ebadf), "err" (anything else: err:<errno>, panic, entries:<n>).
fn ret_event(t: usize, op: &str, val: &str, seq: u64) -> Value {
    let kind = if val.is_empty() {
        "none"
    } else if val.parse::<u64>().is_ok() {
        "ino"
    } else if val == "ok" || val == "ebadf" {
        "attr"
    } else {
        "err"
    };
    json!({"e": "Ret", "t": t, "op": op, "val": val, "kind": kind, "seq": seq})
}

fn errval(e: &std::io::Error) -> String {
    format!("err:{}", e.raw_os_error().unwrap_or(-1))
}

/// what a client thread needs besides the op itself
#[derive(Clone, Copy)]
struct ClientCtx {
    ino: u64,     // the number the client knows the file by (0 = unknown)
    dir_ino: u64, // inode of directory d (readdirplus)
    dir_handle: u64,
}

fn run_op(fs: &Fs, op: &OpDesc, c: ClientCtx) -> String {
    let ctx = Context::default();
    let r = catch_unwind(AssertUnwindSafe(|| match op.op.as_str() {
        "lookup" => {
            let name = CString::new(op.name.as_str()).unwrap();
            match fs.lookup(&ctx, ROOT, &name) {
                Ok(e) => e.inode.to_string(),
                Err(e) => errval(&e),
            }
        }
        "forget" => {
            if op.cnts.len() == 1 {
                fs.forget(&ctx, c.ino, op.cnts[0]);
            } else {
                fs.batch_forget(&ctx, op.cnts.iter().map(|n| (c.ino, *n)).collect());
            }
            String::new()
        }
        "rdp" => {
            let mut seen: Vec<u64> = Vec::new();
            let fit = op.fit;
            let r = fs.readdirplus(&ctx, c.dir_ino, c.dir_handle, 4096, 0, &mut |_de, entry| {
                seen.push(entry.inode);
                Ok(if fit { 1 } else { 0 })
            });
            match r {
                Ok(()) if seen.len() == 1 => seen[0].to_string(),
                Ok(()) => format!("entries:{}", seen.len()),
                Err(e) => errval(&e),
            }
        }
        "getattr" => match fs.getattr(&ctx, c.ino, None) {
            Ok(_) => "ok".to_string(),
            Err(e) if e.raw_os_error() == Some(libc::EBADF) => "ebadf".to_string(),
            Err(e) => errval(&e),
        },
        other => panic!("unknown op {}", other),
    }));
    r.unwrap_or_else(|_| "panic".to_string())
}

// ------------------------------------------------------------------------------------------------
// the file tree and a fresh filesystem instance

struct Tree {
    root: String,
}

impl Tree {
    /// root/a, root/b, root/d/c are three names of one file
    fn create(workdir: &str, tag: &str) -> Tree {
        let root = format!("{}/ptconc_{}_{}", workdir, tag, std::process::id());
        let _ = std::fs::remove_dir_all(&root);
        std::fs::create_dir_all(format!("{}/d", root)).expect("mkdir");
        std::fs::write(format!("{}/a", root), b"x").expect("write");
        std::fs::hard_link(format!("{}/a", root), format!("{}/b", root)).expect("link b");
        std::fs::hard_link(format!("{}/a", root), format!("{}/d/c", root)).expect("link d/c");
        Tree { root }
    }
    fn new_fs(&self, file_handles: bool) -> Fs {
        let cfg = Config {
            root_dir: self.root.clone(),
            do_import: true,
            inode_file_handles: file_handles,
            ..Default::default()
        };
        let fs = Fs::new(cfg).expect("PassthroughFs::new");
        fs.import().expect("import");
        fs
    }
}

impl Drop for Tree {
    fn drop(&mut self) {
        let _ = std::fs::remove_dir_all(&self.root);
    }
}

// ------------------------------------------------------------------------------------------------
// cooperative scheduler
//
// No lock is shared between the clients and the scheduler: a client that is Running can only go
// to sleep inside the code under test (a lock held by a descheduled thread), which is what the
// scheduler looks for in /proc/self/task/<tid>/stat.

const LABELS: [&str; 12] = ["start", "L_probe", "L_load", "L_cas", "L_wlock", "L_locked", "F_wlock", "F_locked",
    "F_load", "F_cas", "F_rm", "other"];
fn label_ix(l: &str) -> usize {
    LABELS.iter().position(|x| *x == l).unwrap_or(LABELS.len() - 1)
}

const PARKED: u8 = 0;
const RUNNING: u8 = 1;
const FINISHED: u8 = 2;

struct Slot {
    fl: AtomicU8,          // PARKED / RUNNING / FINISHED
    at: AtomicUsize,       // label index where the thread is parked (0 = not started)
    first: AtomicBool,     // the next yield point belongs to the first step: pass through
    passed: AtomicUsize,   // label index of that passed yield point
    log: Mutex<Vec<(u64, Value)>>, // Call/Ret/Yield events of this thread (uncontended)
}

struct Sched {
    slots: Vec<Slot>, // index = thread id (0 unused)
    seq: AtomicU64,
    threads: Vec<std::thread::Thread>,
}

thread_local! {
    static ME: RefCell<Option<(usize, Arc<Sched>)>> = const { RefCell::new(None) };
    static PERTURB: RefCell<Option<Rng>> = const { RefCell::new(None) };
}

fn hook(label: &'static str) {
    let me = ME.with(|m| m.borrow().clone());
    if let Some((t, s)) = me {
        s.at_yield(t, label);
        return;
    }
    // stress mode: random delay at the yield point
    PERTURB.with(|p| {
        if let Some(r) = p.borrow_mut().as_mut() {
            delay(r);
        }
    });
}

fn delay(r: &mut Rng) {
    match r.below(8) {
        0 => std::thread::yield_now(),
        1 => std::thread::sleep(Duration::from_micros(r.below(60))),
        2 | 3 => {
            let n = r.below(3000);
            for _ in 0..n {
                std::hint::spin_loop();
            }
        }
        _ => {}
    }
}

/// short busy wait (a futex wake-up costs far more than one step of the code under test)
fn spin_while(f: &AtomicU8, v: u8, micros: u64) {
    let t0 = Instant::now();
    let mut k = 0u32;
    while f.load(Ordering::Acquire) == v {
        std::hint::spin_loop();
        k += 1;
        if k % 64 == 0 && t0.elapsed() >= Duration::from_micros(micros) {
            break;
        }
    }
}

impl Sched {
    fn new(n: usize, seq0: u64, pool: &Pool) -> Sched {
        Sched {
            slots: (0..=n).map(|_| Slot {
                fl: AtomicU8::new(PARKED),
                at: AtomicUsize::new(0),
                first: AtomicBool::new(false),
                passed: AtomicUsize::new(0),
                log: Mutex::new(Vec::new()),
            }).collect(),
            seq: AtomicU64::new(seq0),
            threads: pool.threads.clone(),
        }
    }

    fn next_seq(&self) -> u64 {
        self.seq.fetch_add(1, Ordering::SeqCst) + 1
    }

    fn wait_grant(&self, t: usize) {
        let sl = &self.slots[t];
        spin_while(&sl.fl, PARKED, SPIN_US);
        while sl.fl.load(Ordering::Acquire) == PARKED {
            std::thread::park_timeout(Duration::from_millis(2));
        }
    }

    fn grant(&self, t: usize) {
        self.slots[t].fl.store(RUNNING, Ordering::Release);
        self.threads[t - 1].unpark();
    }

    fn at_yield(&self, t: usize, label: &'static str) {
        let sl = &self.slots[t];
        let seq = self.next_seq();
        sl.log.lock().unwrap().push((seq, json!({"e": "Yield", "t": t, "label": label, "seq": seq})));
        if sl.first.swap(false, Ordering::AcqRel) {
            sl.passed.store(label_ix(label), Ordering::Release);
            return;
        }
        sl.at.store(label_ix(label), Ordering::Release);
        sl.fl.store(PARKED, Ordering::Release);
        self.wait_grant(t);
    }

    /// body of a scheduled client thread
    fn client(self: &Arc<Sched>, t: usize, fs: &Fs, op: &OpDesc, c: ClientCtx) {
        ME.with(|m| *m.borrow_mut() = Some((t, self.clone())));
        let sl = &self.slots[t];
        // the first granted step logs the call and runs through the first yield point
        self.wait_grant(t);
        sl.first.store(true, Ordering::Release);
        let seq = self.next_seq();
        sl.log.lock().unwrap().push((seq, op.call_event(t, seq)));
        let val = run_op(fs, op, c);
        let seq = self.next_seq();
        sl.log.lock().unwrap().push((seq, ret_event(t, &op.op, &val, seq)));
        ME.with(|m| *m.borrow_mut() = None);
        sl.fl.store(FINISHED, Ordering::Release);
    }

    /// all logged events in seq order: (Call/Ret, Yield)
    fn take_events(&self) -> (Vec<Value>, Vec<Value>) {
        let mut all: Vec<(u64, Value)> = Vec::new();
        for sl in &self.slots {
            all.append(&mut sl.log.lock().unwrap());
        }
        all.sort_by_key(|x| x.0);
        let (mut ev, mut ys) = (Vec::new(), Vec::new());
        for (_, e) in all {
            if e["e"] == "Yield" {
                ys.push(e);
            } else {
                ev.push(e);
            }
        }
        (ev, ys)
    }
}

#[derive(Default)]
struct Drift {
    label_mismatch: u64,
    skipped: u64,     // schedule step of a thread that had finished / could not be granted
    leftover: u64,    // grants after the schedule was exhausted
    watchdog: u64,    // granted thread did not reach a yield point: found asleep on a lock, or WATCHDOG expired
    timeouts: u64,    // ... of which WATCHDOG expiries
    hang: bool,
}

impl Drift {
    fn steps(&self) -> u64 {
        self.label_mismatch + self.skipped + self.leftover
    }
}

fn real_label(l: &str) -> Option<&str> {
    match l {
        "R_lock" => None,
        "R_load" => Some("F_load"),
        "R_cas" => Some("F_cas"),
        "R_rm" => Some("F_rm"),
        x => Some(x),
    }
}

/// Wait until client `t` leaves Running: it parked at a yield point or finished -> true.
/// false = it is blocked: found asleep in the kernel on three consecutive polls (a lock held by a
/// descheduled thread), or WATCHDOG expired.
fn settle(s: &Sched, pool: &Pool, t: usize, lim: Duration, d: &mut Drift) -> bool {
    let deadline = Instant::now() + lim;
    let mut sleeps = 0;
    loop {
        spin_while(&s.slots[t].fl, RUNNING, 100);
        if s.slots[t].fl.load(Ordering::Acquire) != RUNNING {
            return true;
        }
        if Instant::now() >= deadline {
            d.timeouts += 1;
            return false;
        }
        if asleep(pool, t) {
            sleeps += 1;
            if sleeps >= 3 {
                if std::env::var("PTCONC_DEBUG").is_ok() {
                    eprintln!("asleep t={} syscall={:?}", t,
                        std::fs::read_to_string(format!("/proc/self/task/{}/syscall", pool.tids[t - 1])));
                }
                return false;
            }
        } else {
            sleeps = 0;
            std::thread::yield_now();
        }
    }
}

/// Grant the steps of `sched` in order; returns drift accounting.
fn drive(s: &Arc<Sched>, pool: &Pool, n: usize, sched: &[(usize, String)]) -> (Drift, Vec<Value>) {
    let mut d = Drift::default();
    let mut followed: Vec<Value> = Vec::new();
    let fl = |t: usize| s.slots[t].fl.load(Ordering::Acquire);
    for (t, lbl) in sched.iter() {
        let t = *t;
        let want = match real_label(lbl) {
            None => continue,
            Some(w) => w,
        };
        if fl(t) == RUNNING && !settle(s, pool, t, WATCHDOG, &mut d) {
            d.skipped += 1;
            continue;
        }
        if fl(t) == FINISHED {
            d.skipped += 1;
            continue;
        }
        let at = LABELS[s.slots[t].at.load(Ordering::Acquire)];
        let from_start = at == "start";
        if !from_start && at != want {
            d.label_mismatch += 1;
        }
        s.grant(t);
        if !settle(s, pool, t, WATCHDOG, &mut d) {
            d.watchdog += 1;
        }
        if from_start {
            let p = s.slots[t].passed.load(Ordering::Acquire);
            if p != 0 && LABELS[p] != want {
                d.label_mismatch += 1;
            }
        }
        followed.push(json!([t, at, want]));
    }
    // schedule exhausted: run whatever is left, one thread at a time
    let t_end = Instant::now() + HANG;
    loop {
        if (1..=n).all(|t| fl(t) == FINISHED) {
            break;
        }
        if let Some(t) = (1..=n).find(|t| fl(*t) == PARKED) {
            d.leftover += 1;
            s.grant(t);
            if !settle(s, pool, t, WATCHDOG, &mut d) {
                d.watchdog += 1;
            }
            continue;
        }
        if Instant::now() >= t_end {
            d.hang = true;
            break;
        }
        std::thread::sleep(Duration::from_micros(200));
    }
    (d, followed)
}

/// persistent client threads (one per thread id), so that a schedule costs no thread creation
type Job = Box<dyn FnOnce() + Send>;
struct Pool {
    txs: Vec<std::sync::mpsc::Sender<Job>>,
    stat: Vec<std::fs::File>, // /proc/self/task/<tid>/stat of each client thread
    tids: Vec<i64>,
    threads: Vec<std::thread::Thread>,
}

/// Is client thread `t` asleep in the kernel (blocked on a lock inside the code under test)?
fn asleep(pool: &Pool, t: usize) -> bool {
    use std::os::unix::fs::FileExt;
    let mut buf = [0u8; 256];
    let n = pool.stat[t - 1].read_at(&mut buf, 0).unwrap_or(0);
    match buf[..n].iter().rposition(|b| *b == b')') {
        Some(i) if i + 2 < n => buf[i + 2] == b'S',
        _ => false,
    }
}

impl Pool {
    fn new(n: usize) -> Pool {
        let (mut txs, mut stat, mut tids, mut threads) = (Vec::new(), Vec::new(), Vec::new(), Vec::new());
        for i in 0..n {
            let (tx, rx) = std::sync::mpsc::channel::<Job>();
            let (ttx, trx) = std::sync::mpsc::channel::<i64>();
            let h = std::thread::Builder::new().name(format!("client{}", i + 1)).stack_size(512 * 1024)
                .spawn(move || {
                    ttx.send(unsafe { libc::syscall(libc::SYS_gettid) } as i64).unwrap();
                    while let Ok(job) = rx.recv() {
                        job();
                    }
                }).expect("spawn");
            let tid = trx.recv().expect("tid");
            tids.push(tid);
            stat.push(std::fs::File::open(format!("/proc/self/task/{}/stat", tid)).expect("open task stat"));
            threads.push(h.thread().clone());
            txs.push(tx);
        }
        Pool { txs, stat, tids, threads }
    }
    fn run(&self, t: usize, job: Job) {
        self.txs[t - 1].send(job).expect("client thread alive");
    }
}

// ------------------------------------------------------------------------------------------------
// setup and probes (sequential, thread 0)

struct Seg {
    events: Vec<Value>,
    seq: u64,
    inos: Vec<u64>, // distinct numbers returned for the file, by first appearance
}

impl Seg {
    fn note(&mut self, val: &str) {
        if let Ok(n) = val.parse::<u64>() {
            if !self.inos.contains(&n) {
                self.inos.push(n);
            }
        }
    }
    fn seq_op(&mut self, fs: &Fs, op: &OpDesc, c: ClientCtx) -> String {
        self.seq += 1;
        self.events.push(op.call_event(0, self.seq));
        let v = run_op(fs, op, c);
        self.seq += 1;
        self.events.push(ret_event(0, &op.op, &v, self.seq));
        if op.op == "lookup" || op.op == "rdp" {
            self.note(&v);
        }
        v
    }
}

fn lookup_op(name: &str) -> OpDesc {
    OpDesc { op: "lookup".into(), cnts: vec![], fit: true, name: name.into() }
}
fn forget_op(n: u64) -> OpDesc {
    OpDesc { op: "forget".into(), cnts: vec![n], fit: true, name: String::new() }
}

/// R0 sequential lookups; when R0 = 0 and a client needs the number: lookup + forget(1).
fn setup(fs: &Fs, seg: &mut Seg, r0: u64, need_number: bool, need_dir: bool) -> ClientCtx {
    let mut c = ClientCtx { ino: 0, dir_ino: 0, dir_handle: 0 };
    for _ in 0..r0 {
        seg.seq_op(fs, &lookup_op("a"), c);
    }
    if r0 == 0 && need_number {
        seg.seq_op(fs, &lookup_op("a"), c);
        c.ino = *seg.inos.first().unwrap_or(&0);
        seg.seq_op(fs, &forget_op(1), c);
    }
    c.ino = *seg.inos.first().unwrap_or(&0);
    if need_dir {
        let ctx = Context::default();
        let e = fs.lookup(&ctx, ROOT, &CString::new("d").unwrap()).expect("lookup d");
        c.dir_ino = e.inode;
    }
    c
}

fn open_dir(fs: &Fs, c: ClientCtx) -> u64 {
    let ctx = Context::default();
    let (h, _) = fs.opendir(&ctx, c.dir_ino, libc::O_RDONLY as u32).expect("opendir d");
    h.expect("dir handle")
}

fn probes(fs: &Fs, seg: &mut Seg) {
    let ctx = Context::default();
    for ino in seg.inos.clone() {
        let rc = fs.verif_refcount(ino);
        let raw = rc.unwrap_or(0);
        seg.events.push(json!({"e": "Probe", "kind": "refcount", "ino": ino.to_string(),
            "present": rc.is_some(), "count": raw.min(1_000_000), "raw": raw.to_string()}));
        let ga = fs.getattr(&ctx, ino, None);
        let errno = match &ga {
            Ok(_) => 0,
            Err(e) => e.raw_os_error().unwrap_or(-1),
        };
        seg.events.push(json!({"e": "Probe", "kind": "getattr", "ino": ino.to_string(), "ok": ga.is_ok(), "errno": errno}));
        let mut n = 0u64;
        while n < 1000 && fs.getattr(&ctx, ino, None).is_ok() {
            fs.forget(&ctx, ino, 1);
            n += 1;
        }
        let (inodes, _, _) = fs.verif_table_sizes();
        seg.events.push(json!({"e": "Probe", "kind": "drain", "ino": ino.to_string(), "n": n, "table": inodes}));
    }
}

// ------------------------------------------------------------------------------------------------

fn sched_mode(args: &[String]) {
    let text = std::fs::read_to_string(&args[0]).expect("read schedules");
    let workdir = &args[1];
    let out = &args[2];
    let (shard, nshards) = if args.len() >= 5 {
        (args[3].parse::<usize>().unwrap(), args[4].parse::<usize>().unwrap())
    } else {
        (0, 1)
    };
    let mut lines = text.lines().filter(|l| !l.trim().is_empty());
    let header: Value = serde_json::from_str(lines.next().expect("header")).expect("header json");
    let cfgname = header["cfg"].as_str().unwrap_or("?").to_string();
    let fh = header["fh"].as_bool().unwrap_or(false);
    let ops: Vec<OpDesc> = header["threads"].as_array().unwrap().iter().map(OpDesc::from_json).collect();
    let n = ops.len();
    let need_number = ops.iter().any(|o| o.op == "forget" || o.op == "getattr");
    let need_dir = ops.iter().any(|o| o.op == "rdp");
    let tree = Tree::create(workdir, &format!("s{}", shard));
    let pool = Pool::new(n);
    let mut trace = Trace::create(out);
    let mut side = Trace::create(&format!("{}.sched", out));
    verif_hooks::set_hook(Some(Box::new(hook)));
    let t0 = Instant::now();
    let mut tim = [0u64; 3];
    let mut labels: std::collections::BTreeMap<String, u64> = Default::default();
    let mut windows: std::collections::BTreeMap<String, u64> = Default::default();
    let mut timeouts = 0u64;
    let (mut nsched, mut drift_scheds, mut drift_steps, mut watchdog, mut hangs, mut mism) = (0u64, 0u64, 0u64, 0u64, 0u64, 0u64);
    for (sid, line) in lines.enumerate() {
        if sid % nshards != shard {
            continue;
        }
        let v: Value = serde_json::from_str(line).expect("schedule json");
        let r0 = v["r0"].as_u64().unwrap();
        let steps: Vec<(usize, String)> = v["s"].as_array().unwrap().iter()
            .map(|x| (x[0].as_u64().unwrap() as usize, x[1].as_str().unwrap().to_string())).collect();
        let ta = Instant::now();
        let fs = Arc::new(tree.new_fs(fh));
        let mut seg = Seg { events: Vec::new(), seq: 0, inos: Vec::new() };
        let cc = setup(&fs, &mut seg, r0, need_number, need_dir);
        let tb = Instant::now();
        let s = Arc::new(Sched::new(n, seg.seq, &pool));
        for t in 1..=n {
            let (s2, fs2, op) = (s.clone(), fs.clone(), ops[t - 1].clone());
            let mut c = cc;
            if op.op == "rdp" {
                c.dir_handle = open_dir(&fs, cc);
            }
            pool.run(t, Box::new(move || s2.client(t, &fs2, &op, c)));
        }
        let tc = Instant::now();
        let (d, followed) = drive(&s, &pool, n, &steps);
        let td = Instant::now();
        tim[0] += (tb - ta).as_micros() as u64;
        tim[1] += (tc - tb).as_micros() as u64;
        tim[2] += (td - tc).as_micros() as u64;
        if d.hang {
            // threads are stuck inside the code under test: log what we have (calls without
            // returns make the judge reject the segment) and leave the process
            let (evs, ys) = s.take_events();
            trace.emit(&json!({"e": "Reset", "seg": nsched, "cfg": cfgname, "r0": r0, "sid": sid}));
            for e in seg.events.iter().chain(evs.iter()) {
                trace.emit(e);
            }
            trace.emit(&json!({"e": "Hang", "sid": sid}));
            trace.flush();
            side.emit(&json!({"sid": sid, "hang": true, "predicted": v["s"], "yields": ys}));
            side.flush();
            println!("{}", json!({"schedules": nsched + 1, "hangs": 1, "hang_sid": sid}));
            std::process::exit(3);
        }
        {
            // all clients are Finished (drive returned without hang): their Ret events are logged
            let (evs, ys) = s.take_events();
            seg.seq = s.seq.load(Ordering::SeqCst);
            // coverage accounting: yield points reached, racing windows hit (per thread label successions)
            let mut last: Vec<String> = vec![String::new(); n + 1];
            for y in &ys {
                let (t, l) = (y["t"].as_u64().unwrap() as usize, y["label"].as_str().unwrap().to_string());
                *labels.entry(l.clone()).or_insert(0u64) += 1;
                let w = match (last[t].as_str(), l.as_str()) {
                    ("L_load", "L_probe") => Some("zero_retry"),
                    ("L_cas", "L_probe") => Some("lookup_cas_fail"),
                    ("F_cas", "F_load") => Some("forget_cas_retry"),
                    _ => None,
                };
                if let Some(w) = w {
                    *windows.entry(w.to_string()).or_insert(0u64) += 1;
                }
                last[t] = l;
            }
            for e in evs {
                if e["e"] == "Ret" && (e["op"] == "lookup" || e["op"] == "rdp") {
                    seg.note(e["val"].as_str().unwrap_or(""));
                }
                seg.events.push(e);
            }
            if d.steps() > 0 || d.watchdog > 0 || nsched < 3 {
                side.emit(&json!({"sid": sid, "r0": r0, "label_mismatch": d.label_mismatch, "skipped": d.skipped,
                    "leftover": d.leftover, "watchdog": d.watchdog, "predicted": v["s"], "followed": followed,
                    "yields": ys}));
            }
        }
        probes(&fs, &mut seg);
        trace.emit(&json!({"e": "Reset", "seg": nsched, "cfg": cfgname, "r0": r0, "sid": sid}));
        for e in &seg.events {
            trace.emit(e);
        }
        nsched += 1;
        if d.steps() > 0 {
            drift_scheds += 1;
        }
        drift_steps += d.steps();
        mism += d.label_mismatch;
        watchdog += d.watchdog;
        timeouts += d.timeouts;
        if d.hang {
            hangs += 1;
        }
    }
    verif_hooks::set_hook(None);
    trace.flush();
    side.flush();
    println!("{}", json!({"schedules": nsched, "events": trace.n, "drift_schedules": drift_scheds, "drift_steps": drift_steps,
        "label_mismatch": mism, "watchdog": watchdog, "watchdog_timeouts": timeouts, "hangs": hangs, "labels": labels, "windows": windows, "us_fs_spawn_drive": tim.to_vec(), "wall_ms": t0.elapsed().as_millis() as u64}));
}

// ------------------------------------------------------------------------------------------------
// free-running stress: K threads x M operations each, random delays, no scheduler

fn stress_mode(args: &[String]) {
    let workdir = &args[0];
    let out = &args[1];
    let iters: u64 = args[2].parse().unwrap();
    let seed = env_u64("VERIF_SEED", 1);
    let perturb = env_u64("PTCONC_PERTURB", 1) != 0;
    let mut rng = Rng::new(seed.wrapping_mul(0x1234_5677).wrapping_add(99));
    let tree = Tree::create(workdir, "stress");
    let mut trace = Trace::create(out);
    verif_hooks::set_hook(Some(Box::new(hook)));
    let t0 = Instant::now();
    let mut nops = 0u64;
    for it in 0..iters {
        let fh = rng.chance(1, 4);
        let fs = Arc::new(tree.new_fs(fh));
        let k = rng.range(2, 4) as usize;
        let r0 = rng.below(3);
        let mut seg = Seg { events: Vec::new(), seq: 0, inos: Vec::new() };
        let cc = setup(&fs, &mut seg, r0, true, true);
        // plans
        let mut plans: Vec<Vec<OpDesc>> = Vec::new();
        for _ in 0..k {
            let m = rng.range(1, 3);
            let mut p = Vec::new();
            for _ in 0..m {
                p.push(match rng.below(10) {
                    0 | 1 | 2 => lookup_op(if rng.chance(1, 2) { "a" } else { "b" }),
                    3 | 4 | 5 => forget_op(if rng.chance(1, 5) { 2 } else { 1 }),
                    6 => OpDesc { op: "forget".into(), cnts: vec![1, 1], fit: true, name: String::new() },
                    7 => OpDesc { op: "rdp".into(), cnts: vec![], fit: false, name: "d/c".into() },
                    8 => OpDesc { op: "rdp".into(), cnts: vec![], fit: true, name: "d/c".into() },
                    _ => OpDesc { op: "getattr".into(), cnts: vec![], fit: true, name: String::new() },
                });
            }
            plans.push(p);
        }
        let seq = Arc::new(AtomicU64::new(seg.seq));
        let barrier = Arc::new(Barrier::new(k));
        let mut logs: Vec<Arc<Mutex<Vec<(u64, Value)>>>> = Vec::new();
        let (dtx, drx) = std::sync::mpsc::channel::<usize>();
        for (i, plan) in plans.into_iter().enumerate() {
            let t = i + 1;
            let (fs2, seq2, b2) = (fs.clone(), seq.clone(), barrier.clone());
            let mut c = cc;
            if plan.iter().any(|o| o.op == "rdp") {
                c.dir_handle = open_dir(&fs, cc);
            }
            let mut r = Rng::new(rng.next());
            let log = Arc::new(Mutex::new(Vec::new()));
            logs.push(log.clone());
            let dtx2 = dtx.clone();
            std::thread::Builder::new().stack_size(256 * 1024).spawn(move || {
                if perturb {
                    PERTURB.with(|p| *p.borrow_mut() = Some(Rng::new(r.next())));
                }
                b2.wait();
                for op in &plan {
                    delay(&mut r);
                    let s1 = seq2.fetch_add(1, Ordering::SeqCst) + 1;
                    log.lock().unwrap().push((s1, op.call_event(t, s1)));
                    let val = run_op(&fs2, op, c);
                    let s2 = seq2.fetch_add(1, Ordering::SeqCst) + 1;
                    log.lock().unwrap().push((s2, ret_event(t, &op.op, &val, s2)));
                }
                let _ = dtx2.send(t);
            }).expect("spawn");
        }
        // wait for the clients; a client that never returns (livelock / deadlock in the code under
        // test) is data: the history is written with the call left open and the process ends
        let mut finished = 0;
        let deadline = Instant::now() + HANG;
        while finished < k {
            let now = Instant::now();
            if now >= deadline || drx.recv_timeout(deadline - now).is_err() {
                break;
            }
            finished += 1;
        }
        let mut all: Vec<(u64, Value)> = Vec::new();
        for l in &logs {
            all.extend(l.lock().unwrap().iter().cloned());
        }
        all.sort_by_key(|x| x.0);
        if finished < k {
            trace.emit(&json!({"e": "Reset", "seg": it, "cfg": "stress", "r0": r0, "sid": it, "seed": seed}));
            for e in seg.events.iter().chain(all.iter().map(|x| &x.1)) {
                trace.emit(e);
            }
            trace.emit(&json!({"e": "Hang", "sid": it, "finished": finished, "threads": k}));
            trace.flush();
            println!("{}", json!({"iterations": it + 1, "ops": nops, "events": trace.n, "hangs": 1,
                "wall_ms": t0.elapsed().as_millis() as u64}));
            std::process::exit(3);
        }
        for (_, e) in all {
            if e["e"] == "Ret" {
                nops += 1;
                if e["op"] == "lookup" || e["op"] == "rdp" {
                    seg.note(e["val"].as_str().unwrap_or(""));
                }
            }
            seg.events.push(e);
        }
        probes(&fs, &mut seg);
        trace.emit(&json!({"e": "Reset", "seg": it, "cfg": "stress", "r0": r0, "sid": it, "seed": seed}));
        for e in &seg.events {
            trace.emit(e);
        }
    }
    verif_hooks::set_hook(None);
    trace.flush();
    println!("{}", json!({"iterations": iters, "ops": nops, "events": trace.n, "wall_ms": t0.elapsed().as_millis() as u64}));
}

fn main() {
    let args: Vec<String> = std::env::args().skip(1).collect();
    match args.first().map(|s| s.as_str()) {
        Some("sched") => sched_mode(&args[1..]),
        Some("stress") => stress_mode(&args[1..]),
        _ => {
            eprintln!("usage: ptconc sched <schedules.ndjson> <workdir> <out.ndjson> [shard nshards] | ptconc stress <workdir> <out.ndjson> <iterations>");
            std::process::exit(2);
        }
    }
}
