SPECIFICATION Spec
CONSTANTS
  Prog <- P_S2R2C
  Procs = {1,2,3,4}
  Fixed = TRUE
  EnableFirst = TRUE
  Mon = TRUE
INVARIANTS LinStrict LinWeak QuiescentAgrees AtMostOnceI NoInventionI NoLostWakeupQ ParkedRegistered WaitersSane
