//! X06 `vfsasync` driver: the asynchronous request path through the VFS. Every scenario of the vfs engine
//! (mount / over-mount / umount / re-attach / INIT / requests; see harness/src/bin/vfs.rs, from which the
//! scenario interpreter is taken) runs TWICE on a fresh `Server<Arc<Vfs>>`: once with every request going
//! through `Server::handle_message` (segment kind "sync") and once with the ten operations that have an
//! asynchronous implementation (lookup, getattr, setattr, open, create, read, write, fsync, fallocate,
//! fsyncdir) going through `Server::async_handle_message` -> `impl AsyncFileSystem for Vfs` (segment kind
//! "async"; everything else still through `handle_message`). Futures are polled with a no-op waker (the
//! recording backends are ready at once). Backends are `TagFs` = `ScriptedFs` plus an `AsyncFileSystem`
//! implementation that logs exactly what the synchronous method logs and tags the entry `via: "async"`.
//! Events are those of vfs.rs (judged by the rules of spec/Trace_Vfs.tla through spec/Trace_VfsAsync.tla) plus,
//! per BackendCall, `via` and `argsd` (the full argument record as text) and, per Reply, `len` / `sum`
//! (digest of the reply bytes) for the equivalence clause.
//!
//! usage: vfsasync <abi.json> <out.ndjson> replay <scenarios.ndjson>
//!        vfsasync <abi.json> <out.ndjson> gen <nscenarios> <nmounts> <shape>     (the seeded generator of vfs.rs; writes scenarios)
use async_trait::async_trait;
use fuse_backend_rs::abi::fuse_abi::{stat64, statvfs64, CreateIn, FsOptions, OpenOptions, SetattrValid};
use fuse_backend_rs::abi::virtio_fs::RemovemappingOne;
use fuse_backend_rs::api::filesystem::{
    AsyncFileSystem, AsyncZeroCopyReader, AsyncZeroCopyWriter, Context, DirEntry, Entry, FileLock, FileSystem, GetxattrReply, IoctlData,
    ListxattrReply, ZeroCopyReader, ZeroCopyWriter,
};
use fuse_backend_rs::api::server::Server;
use fuse_backend_rs::api::{BackendFileSystem, Vfs, VfsOptions};
use fuse_backend_rs::transport::FsCacheReqHandler;
use serde_json::{json, Map, Value};
use std::collections::BTreeMap;
use std::ffi::CStr;
use std::future::Future;
use std::io;
use std::pin::pin;
use std::sync::Arc;
use std::task::{Context as TaskCx, Poll, RawWaker, RawWakerVTable, Waker};
use std::time::Duration;
use vharness::scripted::{NullCache, OwnedDirent, Ret, ScriptedFs};
use vharness::util::{env_u64, Rng, Trace};
use vharness::wirecodec::{fnv, Abi, Vals};
use vharness::xport::{err_name, run_fusedev_with, SeqPair};

fn noop_waker() -> Waker {
    fn clone(_: *const ()) -> RawWaker {
        RawWaker::new(std::ptr::null(), &VT)
    }
    fn noop(_: *const ()) {}
    static VT: RawWakerVTable = RawWakerVTable::new(clone, noop, noop, noop);
    unsafe { Waker::from_raw(RawWaker::new(std::ptr::null(), &VT)) }
}

/// Poll a future that never really waits (the recording backends are ready at once, replies go out with plain
/// system calls).
fn block_on<T>(f: impl Future<Output = T>) -> Option<T> {
    let w = noop_waker();
    let mut cx = TaskCx::from_waker(&w);
    let mut f = pin!(f);
    for _ in 0..1000 {
        if let Poll::Ready(v) = f.as_mut().poll(&mut cx) {
            return Some(v);
        }
    }
    None
}

/// The recording backend: every synchronous method is ScriptedFs's; every asynchronous method runs the synchronous
/// one (same log entry, same scripted result) and tags the entry it logged with `via: "async"`.
#[derive(Clone)]
struct TagFs(ScriptedFs);

impl TagFs {
    fn tagged<T>(&self, f: impl FnOnce(&ScriptedFs) -> T) -> T {
        let n0 = self.0.log.lock().unwrap().len();
        let r = f(&self.0);
        for e in self.0.log.lock().unwrap().iter_mut().skip(n0) {
            e["via"] = json!("async");
        }
        r
    }
}

type R<T> = io::Result<T>;

#[rustfmt::skip]
impl FileSystem for TagFs {
    type Inode = u64;
    type Handle = u64;
    fn init(&self, capable: FsOptions) -> R<FsOptions> { self.0.init(capable) }
    fn destroy(&self) { self.0.destroy() }
    fn lookup(&self, ctx: &Context, parent: u64, name: &CStr) -> R<Entry> { self.0.lookup(ctx, parent, name) }
    fn forget(&self, ctx: &Context, inode: u64, count: u64) { self.0.forget(ctx, inode, count) }
    fn batch_forget(&self, ctx: &Context, requests: Vec<(u64, u64)>) { self.0.batch_forget(ctx, requests) }
    fn getattr(&self, ctx: &Context, inode: u64, handle: Option<u64>) -> R<(stat64, Duration)> { self.0.getattr(ctx, inode, handle) }
    fn setattr(&self, ctx: &Context, inode: u64, attr: stat64, handle: Option<u64>, valid: SetattrValid) -> R<(stat64, Duration)> { self.0.setattr(ctx, inode, attr, handle, valid) }
    fn readlink(&self, ctx: &Context, inode: u64) -> R<Vec<u8>> { self.0.readlink(ctx, inode) }
    fn symlink(&self, ctx: &Context, linkname: &CStr, parent: u64, name: &CStr) -> R<Entry> { self.0.symlink(ctx, linkname, parent, name) }
    fn mknod(&self, ctx: &Context, inode: u64, name: &CStr, mode: u32, rdev: u32, umask: u32) -> R<Entry> { self.0.mknod(ctx, inode, name, mode, rdev, umask) }
    fn mkdir(&self, ctx: &Context, parent: u64, name: &CStr, mode: u32, umask: u32) -> R<Entry> { self.0.mkdir(ctx, parent, name, mode, umask) }
    fn unlink(&self, ctx: &Context, parent: u64, name: &CStr) -> R<()> { self.0.unlink(ctx, parent, name) }
    fn rmdir(&self, ctx: &Context, parent: u64, name: &CStr) -> R<()> { self.0.rmdir(ctx, parent, name) }
    fn rename(&self, ctx: &Context, olddir: u64, oldname: &CStr, newdir: u64, newname: &CStr, flags: u32) -> R<()> { self.0.rename(ctx, olddir, oldname, newdir, newname, flags) }
    fn link(&self, ctx: &Context, inode: u64, newparent: u64, newname: &CStr) -> R<Entry> { self.0.link(ctx, inode, newparent, newname) }
    fn open(&self, ctx: &Context, inode: u64, flags: u32, fuse_flags: u32) -> R<(Option<u64>, OpenOptions, Option<u32>)> { self.0.open(ctx, inode, flags, fuse_flags) }
    fn create(&self, ctx: &Context, parent: u64, name: &CStr, a: CreateIn) -> R<(Entry, Option<u64>, OpenOptions, Option<u32>)> { self.0.create(ctx, parent, name, a) }
    fn read(&self, ctx: &Context, inode: u64, handle: u64, w: &mut dyn ZeroCopyWriter, size: u32, offset: u64, lock_owner: Option<u64>, flags: u32) -> R<usize> { self.0.read(ctx, inode, handle, w, size, offset, lock_owner, flags) }
    fn write(&self, ctx: &Context, inode: u64, handle: u64, r: &mut dyn ZeroCopyReader, size: u32, offset: u64, lock_owner: Option<u64>, delayed_write: bool, flags: u32, fuse_flags: u32) -> R<usize> { self.0.write(ctx, inode, handle, r, size, offset, lock_owner, delayed_write, flags, fuse_flags) }
    fn flush(&self, ctx: &Context, inode: u64, handle: u64, lock_owner: u64) -> R<()> { self.0.flush(ctx, inode, handle, lock_owner) }
    fn fsync(&self, ctx: &Context, inode: u64, datasync: bool, handle: u64) -> R<()> { self.0.fsync(ctx, inode, datasync, handle) }
    fn fallocate(&self, ctx: &Context, inode: u64, handle: u64, mode: u32, offset: u64, length: u64) -> R<()> { self.0.fallocate(ctx, inode, handle, mode, offset, length) }
    fn release(&self, ctx: &Context, inode: u64, flags: u32, handle: u64, flush: bool, flock_release: bool, lock_owner: Option<u64>) -> R<()> { self.0.release(ctx, inode, flags, handle, flush, flock_release, lock_owner) }
    fn statfs(&self, ctx: &Context, inode: u64) -> R<statvfs64> { self.0.statfs(ctx, inode) }
    fn setxattr(&self, ctx: &Context, inode: u64, name: &CStr, value: &[u8], flags: u32) -> R<()> { self.0.setxattr(ctx, inode, name, value, flags) }
    fn getxattr(&self, ctx: &Context, inode: u64, name: &CStr, size: u32) -> R<GetxattrReply> { self.0.getxattr(ctx, inode, name, size) }
    fn listxattr(&self, ctx: &Context, inode: u64, size: u32) -> R<ListxattrReply> { self.0.listxattr(ctx, inode, size) }
    fn removexattr(&self, ctx: &Context, inode: u64, name: &CStr) -> R<()> { self.0.removexattr(ctx, inode, name) }
    fn opendir(&self, ctx: &Context, inode: u64, flags: u32) -> R<(Option<u64>, OpenOptions)> { self.0.opendir(ctx, inode, flags) }
    fn readdir(&self, ctx: &Context, inode: u64, handle: u64, size: u32, offset: u64, add_entry: &mut dyn FnMut(DirEntry) -> R<usize>) -> R<()> { self.0.readdir(ctx, inode, handle, size, offset, add_entry) }
    fn readdirplus(&self, ctx: &Context, inode: u64, handle: u64, size: u32, offset: u64, add_entry: &mut dyn FnMut(DirEntry, Entry) -> R<usize>) -> R<()> { self.0.readdirplus(ctx, inode, handle, size, offset, add_entry) }
    fn fsyncdir(&self, ctx: &Context, inode: u64, datasync: bool, handle: u64) -> R<()> { self.0.fsyncdir(ctx, inode, datasync, handle) }
    fn releasedir(&self, ctx: &Context, inode: u64, flags: u32, handle: u64) -> R<()> { self.0.releasedir(ctx, inode, flags, handle) }
    fn setupmapping(&self, ctx: &Context, inode: u64, handle: u64, foffset: u64, len: u64, flags: u64, moffset: u64, vu_req: &mut dyn FsCacheReqHandler) -> R<()> { self.0.setupmapping(ctx, inode, handle, foffset, len, flags, moffset, vu_req) }
    fn removemapping(&self, ctx: &Context, inode: u64, requests: Vec<RemovemappingOne>, vu_req: &mut dyn FsCacheReqHandler) -> R<()> { self.0.removemapping(ctx, inode, requests, vu_req) }
    fn access(&self, ctx: &Context, inode: u64, mask: u32) -> R<()> { self.0.access(ctx, inode, mask) }
    fn lseek(&self, ctx: &Context, inode: u64, handle: u64, offset: u64, whence: u32) -> R<u64> { self.0.lseek(ctx, inode, handle, offset, whence) }
    fn getlk(&self, ctx: &Context, inode: u64, handle: u64, owner: u64, lock: FileLock, flags: u32) -> R<FileLock> { self.0.getlk(ctx, inode, handle, owner, lock, flags) }
    fn setlk(&self, ctx: &Context, inode: u64, handle: u64, owner: u64, lock: FileLock, flags: u32) -> R<()> { self.0.setlk(ctx, inode, handle, owner, lock, flags) }
    fn setlkw(&self, ctx: &Context, inode: u64, handle: u64, owner: u64, lock: FileLock, flags: u32) -> R<()> { self.0.setlkw(ctx, inode, handle, owner, lock, flags) }
    fn ioctl(&self, ctx: &Context, inode: u64, handle: u64, flags: u32, cmd: u32, data: IoctlData, out_size: u32) -> R<IoctlData<'_>> { self.0.ioctl(ctx, inode, handle, flags, cmd, data, out_size) }
    fn bmap(&self, ctx: &Context, inode: u64, block: u64, blocksize: u32) -> R<u64> { self.0.bmap(ctx, inode, block, blocksize) }
    fn poll(&self, ctx: &Context, inode: u64, handle: u64, khandle: u64, flags: u32, events: u32) -> R<u32> { self.0.poll(ctx, inode, handle, khandle, flags, events) }
    fn notify_reply(&self) -> R<()> { self.0.notify_reply() }
    fn id_remap_with_nodeid(&self, ctx: &mut Context, nodeid: u64) -> R<()> { self.0.id_remap_with_nodeid(ctx, nodeid) }
}

impl BackendFileSystem for TagFs {
    fn mount(&self) -> R<(Entry, u64)> {
        self.0.mount()
    }
    fn as_any(&self) -> &dyn std::any::Any {
        self
    }
}

#[rustfmt::skip]
#[async_trait]
impl AsyncFileSystem for TagFs {
    async fn async_lookup(&self, ctx: &Context, parent: u64, name: &CStr) -> R<Entry> { self.tagged(|f| f.lookup(ctx, parent, name)) }
    async fn async_getattr(&self, ctx: &Context, inode: u64, handle: Option<u64>) -> R<(stat64, Duration)> { self.tagged(|f| f.getattr(ctx, inode, handle)) }
    async fn async_setattr(&self, ctx: &Context, inode: u64, attr: stat64, handle: Option<u64>, valid: SetattrValid) -> R<(stat64, Duration)> { self.tagged(|f| f.setattr(ctx, inode, attr, handle, valid)) }
    async fn async_open(&self, ctx: &Context, inode: u64, flags: u32, fuse_flags: u32) -> R<(Option<u64>, OpenOptions)> { self.tagged(|f| f.open(ctx, inode, flags, fuse_flags)).map(|(h, o, _)| (h, o)) }
    async fn async_create(&self, ctx: &Context, parent: u64, name: &CStr, args: CreateIn) -> R<(Entry, Option<u64>, OpenOptions)> { self.tagged(|f| f.create(ctx, parent, name, args)).map(|(e, h, o, _)| (e, h, o)) }
    async fn async_read(&self, ctx: &Context, inode: u64, handle: u64, w: &mut (dyn AsyncZeroCopyWriter + Send), size: u32, offset: u64, lock_owner: Option<u64>, flags: u32) -> R<usize> {
        let w2: &mut dyn ZeroCopyWriter = w;
        self.tagged(|f| f.read(ctx, inode, handle, w2, size, offset, lock_owner, flags))
    }
    async fn async_write(&self, ctx: &Context, inode: u64, handle: u64, r: &mut (dyn AsyncZeroCopyReader + Send), size: u32, offset: u64, lock_owner: Option<u64>, delayed_write: bool, flags: u32, fuse_flags: u32) -> R<usize> {
        let r2: &mut dyn ZeroCopyReader = r;
        self.tagged(|f| f.write(ctx, inode, handle, r2, size, offset, lock_owner, delayed_write, flags, fuse_flags))
    }
    async fn async_fsync(&self, ctx: &Context, inode: u64, datasync: bool, handle: u64) -> R<()> { self.tagged(|f| f.fsync(ctx, inode, datasync, handle)) }
    async fn async_fallocate(&self, ctx: &Context, inode: u64, handle: u64, mode: u32, offset: u64, length: u64) -> R<()> { self.tagged(|f| f.fallocate(ctx, inode, handle, mode, offset, length)) }
    async fn async_fsyncdir(&self, ctx: &Context, inode: u64, datasync: bool, handle: u64) -> R<()> { self.tagged(|f| f.fsyncdir(ctx, inode, datasync, handle)) }
}

/// the operations that have an asynchronous implementation in `impl AsyncFileSystem for Vfs`
const ASYNC_OPS: &[&str] = &["lookup", "getattr", "setattr", "open", "create", "read", "write", "fsync", "fallocate", "fsyncdir"];

const MAX_INO: u64 = 0xff_ffff_ffff_ffff;

fn inoj(v: u64) -> Value {
    let low = v & MAX_INO;
    json!({"idx": (v >> 56) as u32, "low": low.to_string(), "lown": if low < (1 << 31) { low as i64 } else { -1 }})
}
fn inoj_s(s: &str) -> Value {
    inoj(s.parse::<u64>().unwrap_or(0))
}
fn idj(v: u32) -> Value {
    json!({"h": v >> 16, "l": v & 0xffff})
}
fn idj_s(s: &str) -> Value {
    idj(s.parse::<u64>().unwrap_or(0) as u32)
}
fn mapj(m: (u32, u32, u32)) -> Value {
    json!({"i": idj(m.0), "e": idj(m.1), "r": idj(m.2)})
}


struct Be {
    fs: ScriptedFs,
    ord: u64,
    /// this instance fails its init() (a property of the backend, configured by the scenario)
    refuse_init: bool,
}

struct World {
    abi: Abi,
    tr: Trace,
    pair: SeqPair,
    vfs: Arc<Vfs>,
    server: Server<Arc<Vfs>>,
    /// one ScriptedFs instance per mount (own root entry), keyed "<backend id>#<n>"; logs carry the backend id
    bes: BTreeMap<String, Be>,
    ords: BTreeMap<String, u64>,
    /// canonical path -> (instance key, index, path as given)
    mounts: BTreeMap<String, (String, u8, String)>,
    pool: Vec<u64>,
    seg: usize,
    k: usize,
    unique: u64,
    scale: u32,
    gmap: (u32, u32, u32),
    maps_seen: Vec<(u32, u32, u32)>,
    any_mount_map: bool,
    /// the scenario's instances are configured with set_remove_pseudo_root() (the restored one too: it is not saved)
    rmroot: bool,
    /// this run sends the ten asynchronous operations through Server::async_handle_message
    asynch: bool,
}

fn canon(path: &str) -> String {
    let mut st: Vec<&str> = Vec::new();
    for c in path.split('/') {
        match c {
            "" | "." => {}
            ".." => {
                st.pop();
            }
            x => st.push(x),
        }
    }
    format!("/{}", st.join("/"))
}

fn mkstat(ino: u64, uid: u32, gid: u32, mode: u32) -> stat64 {
    let mut st: stat64 = unsafe { std::mem::zeroed() };
    st.st_ino = ino;
    st.st_uid = uid;
    st.st_gid = gid;
    st.st_mode = mode;
    st.st_nlink = 1;
    st.st_size = 4096;
    st.st_blksize = 4096;
    st
}
fn mkentry(ino: u64, uid: u32, gid: u32, mode: u32) -> Entry {
    Entry {
        inode: ino,
        generation: 0,
        attr: mkstat(ino, uid, gid, mode),
        attr_flags: 0,
        attr_timeout: Duration::from_secs(1),
        entry_timeout: Duration::from_secs(1),
    }
}

fn mix(a: u64, b: u64) -> u64 {
    let mut r = Rng::new(a ^ b.wrapping_mul(0x9E37_79B9_7F4A_7C15));
    r.next()
}

/// id classes relative to the mappings in play: 0, base-1, base, base+range-1, base+range, 2^32-1, random
fn pick_id(rng: &mut Rng, maps: &[(u32, u32, u32)]) -> u32 {
    if maps.is_empty() || rng.chance(1, 5) {
        return match rng.below(4) {
            0 => 0,
            1 => u32::MAX,
            2 => 1000,
            _ => rng.next() as u32,
        };
    }
    let m = *rng.pick(maps);
    let base = if rng.chance(1, 2) { m.0 } else { m.1 };
    let r = m.2;
    match rng.below(8) {
        0 => 0,
        1 => base.wrapping_sub(1),
        2 => base,
        3 => base.wrapping_add(r.wrapping_sub(1)),
        4 => base.wrapping_add(r),
        5 => u32::MAX,
        6 => base.wrapping_add((rng.next() as u32) % r.max(1)),
        _ => rng.next() as u32,
    }
}

/// a backend inode number: own numbering per backend (low byte = backend ordinal), edge classes
fn pick_bino(rng: &mut Rng, ord: u64) -> u64 {
    match rng.below(24) {
        0 => 0,                                  // negative entry
        1 => MAX_INO,                            // largest representable
        2 => MAX_INO + 1 + ord,                  // does not fit 56 bits
        3 => 1,
        4 => u64::MAX,
        _ => (((rng.next() >> 24) << 8) | ord) & MAX_INO,
    }
}

impl World {
    fn emit(&mut self, mut v: Value) {
        v["seg"] = json!(self.seg);
        self.tr.emit(&v);
    }

    fn new_vfs(&mut self, opts: VfsOptions, remove_pseudo_root: bool) {
        let mut v = Vfs::new(opts);
        if remove_pseudo_root {
            v.set_remove_pseudo_root();
        }
        self.vfs = Arc::new(v);
        self.server = Server::new(self.vfs.clone());
    }

    /// a new instance of backend `id`; returns its key
    fn backend(&mut self, id: &str) -> String {
        let n = self.ords.len() as u64 + 1;
        let ord = *self.ords.entry(id.to_string()).or_insert(n);
        let key = format!("{id}#{}", self.bes.len());
        self.bes.insert(key.clone(), Be { fs: ScriptedFs::new(id), ord, refuse_init: false });
        key
    }

    fn drain_logs(&mut self) -> Vec<Value> {
        let mut out = Vec::new();
        for (_, b) in self.bes.iter() {
            out.extend(b.fs.take_log());
        }
        out
    }

    /// ScriptedFs log entry -> BackendCall event
    fn call_event(c: &Value) -> Value {
        let m = c["m"].as_str().unwrap_or("");
        let a = &c["args"];
        let (k1, k2): (&str, &str) = match m {
            "lookup" | "symlink" | "mkdir" | "unlink" | "rmdir" | "create" => ("parent", ""),
            "rename" => ("olddir", "newdir"),
            "link" => ("inode", "newparent"),
            _ => ("inode", ""),
        };
        let mut ev = json!({"e": "BackendCall", "backend": c["fs"], "m": m, "via": c["via"].as_str().unwrap_or("sync"), "argsd": a.to_string()});
        if let Some(s) = a[k1].as_str() {
            ev["ino"] = inoj_s(s);
        }
        if !k2.is_empty() {
            if let Some(s) = a[k2].as_str() {
                ev["ino2"] = inoj_s(s);
            }
        }
        if c["ctx"].is_object() {
            ev["ctx"] = json!({"uid": idj_s(c["ctx"]["uid"].as_str().unwrap()), "gid": idj_s(c["ctx"]["gid"].as_str().unwrap())});
        }
        if m == "setattr" {
            ev["owner"] = json!({"uid": idj_s(a["attr"]["st_uid"].as_str().unwrap()), "gid": idj_s(a["attr"]["st_gid"].as_str().unwrap())});
        }
        if m == "init" {
            ev["capable"] = a["capable"].clone();
        }
        if let Some(n) = a["name"].as_str().or(a["newname"].as_str()) {
            ev["name"] = json!(n);
        }
        // result
        let r = &c["ret"];
        let kind = r["kind"].as_str().unwrap_or("unit");
        let mut rj = json!({"kind": kind});
        let ent = |e: &Value| -> Value {
            json!({"ino": inoj_s(e["inode"].as_str().unwrap()), "uid": idj_s(e["attr"]["st_uid"].as_str().unwrap()),
                   "gid": idj_s(e["attr"]["st_gid"].as_str().unwrap())})
        };
        match kind {
            "entry" => rj["entry"] = ent(r),
            "create" => rj["entry"] = ent(&r["entry"]),
            "mount" => rj["entry"] = ent(&r["entry"]),
            "attr" => {
                rj["uid"] = idj_s(r["attr"]["st_uid"].as_str().unwrap());
                rj["gid"] = idj_s(r["attr"]["st_gid"].as_str().unwrap());
            }
            "dirents" => {
                let mut l = Vec::new();
                for o in r["offered"].as_array().unwrap() {
                    let mut d = json!({"name": o["name"], "ino": inoj_s(o["ino"].as_str().unwrap()), "off": o["off"], "taken": o["ret"].as_i64().unwrap_or(0) > 0});
                    if o["entry"].is_object() {
                        d["entry"] = ent(&o["entry"]);
                    }
                    l.push(d);
                }
                rj["entries"] = Value::Array(l);
            }
            "err" => rj["os"] = r["os"].clone(),
            _ => {}
        }
        ev["ret"] = rj;
        ev
    }

    // ------------------------------------------------------------------ control operations
    fn do_mount(&mut self, step: &Value) {
        let path = step["path"].as_str().unwrap().to_string();
        let bid = step["b"].as_str().unwrap().to_string();
        let m = &step["m"];
        let sc = self.scale;
        let map = (m["i"].as_u64().unwrap_or(0) as u32 * sc, m["e"].as_u64().unwrap_or(0) as u32 * sc, m["r"].as_u64().unwrap_or(0) as u32 * sc);
        // a mount's own mapping may have an empty range ("translate nothing here"): `some` says whether one is given
        let some = m["some"].as_bool().unwrap_or(map.2 != 0);
        let key = self.backend(&bid);
        let fs = self.bes[&key].fs.clone();
        let ord = self.bes[&key].ord;
        // what the backend reports for its root: own inode number, owner ids
        let root_ino = step["root"].as_str().map(|s| s.parse::<u64>().unwrap()).unwrap_or(ord * 1000 + 1);
        let ru = step["ruid"].as_u64().unwrap_or(0) as u32 * sc;
        let rg = step["rgid"].as_u64().unwrap_or(0) as u32 * sc;
        let maxino = step["maxino"].as_str().map(|s| s.parse::<u64>().unwrap()).unwrap_or(MAX_INO);
        *fs.root.lock().unwrap() = (mkentry(root_ino, ru, rg, libc::S_IFDIR | 0o755), maxino);
        // init() of the backend answers from the script: Ok unless the scenario says that this backend refuses
        let init_fail = step["init_fail"].as_bool().unwrap_or(false);
        self.bes.get_mut(&key).unwrap().refuse_init = init_fail;
        fs.set(if init_fail { Ret::Err { os: libc::EIO, kind: None } } else { Ret::Unit });
        self.drain_logs();
        let vfs = self.vfs.clone();
        let boxed = Box::new(TagFs(fs.clone()));
        let p2 = path.clone();
        let res = std::panic::catch_unwind(std::panic::AssertUnwindSafe(move || {
            if some {
                vfs.mount_with_id_mapping(boxed, &p2, Some(map))
            } else {
                vfs.mount(boxed, &p2)
            }
        }));
        let calls: Vec<Value> = self.drain_logs().iter().map(Self::call_event).collect();
        let comps: Vec<&str> = path.split('/').collect();
        let mut ev = json!({"e": "Mount", "k": self.k, "path": path, "comps": comps, "abs": path.starts_with('/'), "backend": bid,
            "some": some, "map": mapj(map), "root": {"low": (root_ino & MAX_INO).to_string(), "uid": idj(ru), "gid": idj(rg)},
            "backend_ok": maxino <= MAX_INO, "init_ok": !init_fail, "calls": calls});
        match res {
            Ok(Ok(idx)) => {
                ev["ret"] = json!("ok");
                ev["idx"] = json!(idx);
                self.mounts.insert(canon(&path), (key.clone(), idx, path.clone()));
                if some {
                    self.maps_seen.push(map);
                    self.any_mount_map = true;
                }
            }
            Ok(Err(e)) => {
                ev["ret"] = json!("err");
                ev["idx"] = json!(-1);
                ev["err"] = json!(format!("{e}").chars().take(80).collect::<String>());
                if some {
                    self.any_mount_map = true;
                }
            }
            Err(_) => {
                ev["ret"] = json!("panic");
                ev["idx"] = json!(-1);
            }
        }
        if step["idx"].is_i64() {
            ev["pred"] = json!({"idx": step["idx"]});
        }
        self.k += 1;
        self.emit(ev);
    }

    /// restore_mount() on the live instance: re-attach a new instance of a backend at the index and path of a
    /// current mount (no event if the path is not mounted)
    fn do_remount(&mut self, step: &Value) {
        let path = step["path"].as_str().unwrap().to_string();
        let (idx, given_path) = match self.mounts.get(&canon(&path)) {
            Some((_, i, p)) => (*i, p.clone()),
            None => return,
        };
        let bid = step["b"].as_str().unwrap().to_string();
        let key = self.backend(&bid);
        let fs = self.bes[&key].fs.clone();
        let ord = self.bes[&key].ord;
        let sc = self.scale;
        let root_ino = step["root"].as_str().map(|s| s.parse::<u64>().unwrap()).unwrap_or(ord * 1000 + 1);
        let ru = step["ruid"].as_u64().unwrap_or(0) as u32 * sc;
        let rg = step["rgid"].as_u64().unwrap_or(0) as u32 * sc;
        *fs.root.lock().unwrap() = (mkentry(root_ino, ru, rg, libc::S_IFDIR | 0o755), MAX_INO);
        fs.set(Ret::Unit);
        self.drain_logs();
        let vfs = self.vfs.clone();
        let boxed = Box::new(TagFs(fs.clone()));
        let p2 = given_path.clone();
        let res = std::panic::catch_unwind(std::panic::AssertUnwindSafe(move || vfs.restore_mount(boxed, idx, &p2)));
        let calls: Vec<Value> = self.drain_logs().iter().map(Self::call_event).collect();
        let comps: Vec<&str> = given_path.split('/').collect();
        let mut ev = json!({"e": "Remount", "k": self.k, "path": given_path, "comps": comps, "abs": given_path.starts_with('/'), "backend": bid, "idx": idx,
            "root": {"low": (root_ino & MAX_INO).to_string(), "uid": idj(ru), "gid": idj(rg)}, "calls": calls});
        match res {
            Ok(Ok(())) => {
                ev["ret"] = json!("ok");
                self.mounts.insert(canon(&path), (key, idx, given_path.clone()));
            }
            Ok(Err(_)) => ev["ret"] = json!("err"),
            Err(_) => ev["ret"] = json!("panic"),
        }
        self.k += 1;
        self.emit(ev);
    }

    fn do_umount(&mut self, step: &Value) {
        let path = step["path"].as_str().unwrap().to_string();
        self.drain_logs();
        let vfs = self.vfs.clone();
        let p2 = path.clone();
        let res = std::panic::catch_unwind(std::panic::AssertUnwindSafe(move || vfs.umount(&p2)));
        let calls: Vec<Value> = self.drain_logs().iter().map(Self::call_event).collect();
        let comps: Vec<&str> = path.split('/').collect();
        let mut ev = json!({"e": "Umount", "k": self.k, "path": path, "comps": comps, "abs": path.starts_with('/'), "calls": calls});
        match res {
            Ok(Ok(_)) => {
                ev["ret"] = json!("ok");
                self.mounts.remove(&canon(&path));
            }
            Ok(Err(_)) => ev["ret"] = json!("err"),
            Err(_) => ev["ret"] = json!("panic"),
        }
        if step["ok"].is_boolean() {
            ev["pred"] = json!({"ok": step["ok"]});
        }
        self.k += 1;
        self.emit(ev);
    }

    fn header(&mut self, opcode: u64, nodeid: u64, uid: u32, gid: u32, rest: usize) -> Vec<u8> {
        self.unique += 1;
        let mut h = Vals::new();
        h.insert("len".into(), (40 + rest) as u64);
        h.insert("opcode".into(), opcode);
        h.insert("unique".into(), self.unique);
        h.insert("nodeid".into(), nodeid);
        h.insert("uid".into(), uid as u64);
        h.insert("gid".into(), gid as u64);
        h.insert("pid".into(), 4242);
        self.abi.encode("fuse_in_header", &h)
    }

    /// one request through the real server; returns (ret string, first reply message). In the asynchronous run the
    /// operations of ASYNC_OPS go through Server::async_handle_message, everything else through handle_message.
    fn xfer(&mut self, bytes: &[u8], op: &str) -> (String, Option<Vec<u8>>) {
        let mut vu = NullCache;
        let use_async = self.asynch && ASYNC_OPS.contains(&op);
        let server = &self.server;
        // replies go to a fresh memfd on both paths (the asynchronous writer uses positioned writes)
        let fd = unsafe { libc::memfd_create(b"reply\0".as_ptr() as *const libc::c_char, 0) };
        assert!(fd >= 0);
        let mut file = unsafe { <std::fs::File as std::os::unix::io::FromRawFd>::from_raw_fd(fd) };
        let (ret, _canary) = run_fusedev_with(bytes, 1 << 16, fd, |r, w| {
            let vuo: Option<&mut dyn FsCacheReqHandler> = Some(&mut vu);
            let res = if use_async { block_on(unsafe { server.async_handle_message(r, w, vuo, None) }) } else { Some(server.handle_message(r, w, vuo, None)) };
            match res {
                Some(Ok(n)) => format!("ok:{n}"),
                Some(Err(e)) => format!("err:{}", err_name(&e)),
                None => "pending".to_string(),
            }
        });
        use std::io::{Read, Seek, SeekFrom};
        let mut out = Vec::new();
        file.seek(SeekFrom::Start(0)).unwrap();
        file.read_to_end(&mut out).unwrap();
        (ret, if out.is_empty() { None } else { Some(out) })
    }

    fn do_init(&mut self, step: &Value) {
        let empty = step["empty"].as_bool().unwrap_or(false);
        let zmo = step["zmo"].as_bool().unwrap_or(!empty);
        let zmod = step["zmod"].as_bool().unwrap_or(!empty);
        let mut flags: u64 = 0;
        if !empty {
            // everything the kernel of the exported header knows except the two zero-message bits, INIT_EXT off
            for n in ["FUSE_ASYNC_READ", "FUSE_BIG_WRITES", "FUSE_ATOMIC_O_TRUNC", "FUSE_DO_READDIRPLUS", "FUSE_PARALLEL_DIROPS", "FUSE_MAX_PAGES", "FUSE_AUTO_INVAL_DATA"] {
                flags |= self.abi.konst(n);
            }
            if zmo {
                flags |= self.abi.konst("FUSE_NO_OPEN_SUPPORT");
            }
            if zmod {
                flags |= self.abi.konst("FUSE_NO_OPENDIR_SUPPORT");
            }
        }
        let mut b = Vals::new();
        b.insert("major".into(), self.abi.konst("FUSE_KERNEL_VERSION"));
        b.insert("minor".into(), 31);
        b.insert("max_readahead".into(), 65536);
        b.insert("flags".into(), flags & 0xffff_ffff);
        let body = self.abi.encode("fuse_init_in", &b);
        let op = self.abi.konst("FUSE_INIT");
        let mut bytes = self.header(op, 0, 0, 0, body.len());
        bytes.extend_from_slice(&body);
        for (_, be) in self.bes.iter() {
            be.fs.set(if be.refuse_init { Ret::Err { os: libc::EIO, kind: None } } else { Ret::Init(u64::MAX) });
        }
        // does a currently mounted backend refuse its init()? (the harness's own configuration)
        let refuses = self.mounts.values().any(|(key, _, _)| self.bes[key].refuse_init);
        self.drain_logs();
        let (ret, msg) = self.xfer(&bytes, "init");
        // one entry per distinct (backend, capable) with the number of init calls
        let mut sum: BTreeMap<(String, String), u64> = BTreeMap::new();
        for c in self.drain_logs().iter() {
            if c["m"] == "init" {
                *sum.entry((c["fs"].as_str().unwrap_or("").to_string(), c["args"]["capable"].as_str().unwrap_or("").to_string())).or_insert(0) += 1;
            }
        }
        let calls: Vec<Value> = sum.iter().map(|((b, c), n)| json!({"backend": b, "capable": c, "n": n})).collect();
        let mut ev = json!({"e": "Init", "k": self.k, "empty": empty, "zmo": zmo && !empty, "zmod": zmod && !empty, "ret": ret, "calls": calls, "status": -1, "opts": "", "backend_refuses": refuses});
        if let Some(m) = msg {
            if m.len() >= 16 {
                let err = i32::from_le_bytes(m[4..8].try_into().unwrap());
                ev["status"] = json!(-err);
                if err == 0 && m.len() >= 16 + 36 {
                    let mut o = Map::new();
                    let sz = self.abi.size("fuse_init_out").min(m.len() - 16);
                    let mut buf = vec![0u8; self.abi.size("fuse_init_out")];
                    buf[..sz].copy_from_slice(&m[16..16 + sz]);
                    self.abi.decode("fuse_init_out", &buf, "", &mut o);
                    let f = o["flags"].as_str().unwrap().parse::<u64>().unwrap() | (o["flags2"].as_str().unwrap().parse::<u64>().unwrap() << 32);
                    ev["opts"] = json!(f.to_string());
                }
            }
        }
        if step["ok"].is_boolean() {
            ev["pred"] = json!({"ok": step["ok"]});
        }
        self.k += 1;
        self.emit(ev);
    }


    /// the prologue that makes the 256-entry table behave like an n-entry one: fillers at /fill/1..255
    /// (indices 1..255), then /fill/1../fill/(n-1) are unmounted: next_super = 0, indices n..255 occupied
    fn do_prefill(&mut self, n: u64) {
        let fkey = self.backend("filler");
        let fs = self.bes[&fkey].fs.clone();
        *fs.root.lock().unwrap() = (mkentry(1, 0, 0, libc::S_IFDIR | 0o755), MAX_INO);
        for i in 1..=255u64 {
            let idx = self.vfs.mount(Box::new(TagFs(fs.clone())), &format!("/fill/{i}")).expect("prefill mount");
            assert_eq!(idx as u64, i, "prefill index");
            self.mounts.insert(format!("/fill/{i}"), (fkey.clone(), idx, format!("/fill/{i}")));
        }
        for i in 1..n {
            self.vfs.umount(&format!("/fill/{i}")).expect("prefill umount");
            self.mounts.remove(&format!("/fill/{i}"));
        }
        self.drain_logs();
        self.emit(json!({"e": "Prefill", "dir": "fill", "first": n, "last": 255, "backend": "filler", "rootlow": "1", "dirnode": 2, "nextino": 258}));
    }

    // ------------------------------------------------------------------ client requests
    fn target(&mut self, rng: &mut Rng, t: &Value) -> u64 {
        match t["t"].as_str().unwrap_or("any") {
            "ino" => ((t["idx"].as_u64().unwrap_or(0)) << 56) | t["low"].as_str().map(|s| s.parse::<u64>().unwrap()).unwrap_or(t["lown"].as_u64().unwrap_or(0)),
            "root" => 1,
            "pool" => {
                if self.pool.is_empty() {
                    1
                } else {
                    let j = t["j"].as_u64().unwrap_or(0) as usize;
                    self.pool[self.pool.len() - 1 - (j % self.pool.len().min(64))]
                }
            }
            "mpath" => {
                // root of the mount at this path (the pseudo root if there is none)
                match self.mounts.get(&canon(t["path"].as_str().unwrap_or("/"))).cloned() {
                    Some((b, i, _)) => ((i as u64) << 56) | (self.bes[&b].fs.root.lock().unwrap().0.inode & MAX_INO),
                    None => 1,
                }
            }
            "mroot_idx" => {
                // root of the mount that was given this index
                let want = t["idx"].as_u64().unwrap_or(0);
                match self.mounts.values().find(|(_, i, _)| *i as u64 == want).cloned() {
                    Some((b, i, _)) => ((i as u64) << 56) | (self.bes[&b].fs.root.lock().unwrap().0.inode & MAX_INO),
                    None => (want << 56) | 1,
                }
            }
            "mroot" => {
                // root of a current mount (by order)
                if self.mounts.is_empty() {
                    1
                } else {
                    let j = t["j"].as_u64().unwrap_or(0) as usize % self.mounts.len();
                    let (b, i, _) = self.mounts.values().nth(j).unwrap().clone();
                    let root = self.bes[&b].fs.root.lock().unwrap().0.inode;
                    ((i as u64) << 56) | (root & MAX_INO)
                }
            }
            _ => match rng.below(10) {
                0 => 1,
                1 => rng.range(1, 12),                                             // small pseudo numbers
                2 => (rng.range(1, 255) << 56) | (rng.next() & MAX_INO),           // never issued
                3 => (rng.range(1, 255) << 56) | 1,
                4 => rng.next(),
                _ => {
                    if self.pool.is_empty() {
                        1
                    } else {
                        let n = self.pool.len();
                        // recent numbers mostly, old (possibly stale) ones sometimes
                        if rng.chance(3, 4) {
                            self.pool[n - 1 - rng.below(n.min(24) as u64) as usize]
                        } else {
                            self.pool[rng.below(n as u64) as usize]
                        }
                    }
                }
            },
        }
    }

    fn script_all(&mut self, op: &str, rng: &mut Rng, fail: bool, uid: u32, gid: u32, names: &[String]) {
        let seedbase = rng.next();
        for (_, be) in self.bes.iter() {
            let mut r = Rng::new(seedbase); // same shape for every backend, own inode numbers
            let ord = be.ord;
            let ret = if fail {
                Ret::Err { os: *r.pick(&[libc::ENOENT, libc::EACCES, libc::EIO, libc::ENOSPC]), kind: None }
            } else {
                match op {
                    "lookup" | "symlink" | "mknod" | "mkdir" | "link" => Ret::Entry(mkentry(pick_bino(&mut r, ord), uid, gid, libc::S_IFREG | 0o644)),
                    "create" => Ret::Create { entry: mkentry(pick_bino(&mut r, ord), uid, gid, libc::S_IFREG | 0o644), handle: Some(7), opts: 0, passthrough: None },
                    "getattr" | "setattr" => Ret::Attr(mkstat(r.next() & MAX_INO, uid, gid, libc::S_IFREG | 0o644), Duration::from_secs(1)),
                    "open" | "opendir" => Ret::Open { handle: Some(9), opts: 0, passthrough: None },
                    "readdir" | "readdirplus" => {
                        let n = r.range(0, 4) as usize;
                        let mut v = Vec::new();
                        for i in 0..n {
                            let mut bino = pick_bino(&mut r, ord);
                            if bino == 0 || bino > MAX_INO {
                                bino = ((r.next() >> 24) << 8 | ord) & MAX_INO;
                            }
                            let name = names.get(i).cloned().unwrap_or_else(|| format!("e{i}"));
                            let (u, g) = if i % 2 == 0 { (uid, gid) } else { (gid, uid) };
                            v.push(OwnedDirent { ino: bino, offset: i as u64 + 1, type_: libc::DT_REG as u32, name: name.into_bytes(), entry: mkentry(bino, u, g, libc::S_IFREG | 0o644) });
                        }
                        Ret::Dirents(v)
                    }
                    "readlink" | "read" | "getxattr" | "listxattr" => Ret::Bytes(b"data".to_vec()),
                    _ => Ret::Unit,
                }
            };
            be.fs.set(ret);
        }
    }

    fn do_req(&mut self, step: &Value) {
        let mut rng = Rng::new(step["seed"].as_u64().unwrap_or(1));
        const OPS: &[&str] = &["lookup", "lookup", "lookup", "getattr", "getattr", "setattr", "setattr", "readlink", "symlink", "mknod", "mkdir", "unlink", "rmdir",
            "rename", "rename2", "link", "open", "read", "write", "statfs", "release", "fsync", "setxattr", "getxattr", "listxattr", "removexattr",
            "flush", "opendir", "readdir", "readdirplus", "readdirplus", "releasedir", "fsyncdir", "access", "create", "forget", "batch_forget", "fallocate"];
        let op = step["rop"].as_str().map(|s| s.to_string()).unwrap_or_else(|| rng.pick(OPS).to_string());
        let nodeid = self.target(&mut rng, &step["t"]);
        let two = matches!(op.as_str(), "rename" | "rename2" | "link");
        let nodeid2 = if two {
            if step["t2"].is_object() {
                self.target(&mut rng, &step["t2"])
            } else if rng.chance(1, 2) {
                // same mount: same index bits, other low part; else anything
                (nodeid & !MAX_INO) | (rng.next() & MAX_INO & 0xffff)
            } else {
                self.target(&mut rng, &json!({"t": "any"}))
            }
        } else {
            0
        };
        let maps: Vec<(u32, u32, u32)> = {
            let mut v = self.maps_seen.clone();
            if self.gmap.2 != 0 {
                v.push(self.gmap);
            }
            v
        };
        let sc = self.scale;
        let idv = |v: &Value, rng: &mut Rng| -> u32 {
            match v.as_u64() {
                Some(x) => x as u32 * sc,
                None => pick_id(rng, &maps),
            }
        };
        let cuid = idv(&step["cuid"], &mut rng);
        let cgid = idv(&step["cgid"], &mut rng);
        let ouid = idv(&step["ouid"], &mut rng); // owner ids in setattr
        let ogid = idv(&step["ogid"], &mut rng);
        let buid = idv(&step["buid"], &mut rng); // owner ids the backend returns
        let bgid = idv(&step["bgid"], &mut rng);
        let fail = step["fail"].as_bool().unwrap_or_else(|| rng.chance(1, 8));
        let name = step["name"].as_str().map(|s| s.to_string()).unwrap_or_else(|| rng.pick(&["a", "b", "fill", "x", "f1", "dir", ".", ".."]).to_string());
        // a name the scenario gives explicitly is sent as it is (name gates); a drawn one is kept safe for everything but lookup
        let name = if !step["name"].is_string() && op != "lookup" && (name == "." || name == "..") { "n".to_string() } else { name };
        let name2 = format!("{}2", name.trim_matches('.'));
        let dnames: Vec<String> = vec!["a".into(), "b".into(), "q".into(), "fill".into()];
        self.script_all(&op, &mut rng, fail, buid, bgid, &dnames);
        // ---- encode
        let abi = &self.abi;
        let cstr = |s: &str| -> Vec<u8> {
            let mut v = s.as_bytes().to_vec();
            v.push(0);
            v
        };
        let mut vals = Vals::new();
        let mut args = json!({"name": name});
        let (code, body, tail): (&str, &str, Vec<u8>) = match op.as_str() {
            "lookup" => ("FUSE_LOOKUP", "", cstr(&name)),
            "forget" => {
                vals.insert("nlookup".into(), 1);
                ("FUSE_FORGET", "fuse_forget_in", vec![])
            }
            "batch_forget" => {
                vals.insert("count".into(), 1);
                let mut one = Vals::new();
                one.insert("nodeid".into(), nodeid);
                one.insert("nlookup".into(), 1);
                ("FUSE_BATCH_FORGET", "fuse_batch_forget_in", abi.encode("fuse_forget_one", &one))
            }
            "getattr" => ("FUSE_GETATTR", "fuse_getattr_in", vec![]),
            "setattr" => {
                let vu = step["valid_uid"].as_bool().unwrap_or_else(|| rng.chance(7, 8));
                let vg = step["valid_gid"].as_bool().unwrap_or_else(|| rng.chance(7, 8));
                let mut valid = abi.konst("FATTR_MODE");
                if vu {
                    valid |= abi.konst("FATTR_UID");
                }
                if vg {
                    valid |= abi.konst("FATTR_GID");
                }
                vals.insert("valid".into(), valid);
                vals.insert("mode".into(), 0o600);
                vals.insert("uid".into(), ouid as u64);
                vals.insert("gid".into(), ogid as u64);
                args = json!({"name": name, "uid": idj(ouid), "gid": idj(ogid), "valid_uid": vu, "valid_gid": vg});
                ("FUSE_SETATTR", "fuse_setattr_in", vec![])
            }
            "readlink" => ("FUSE_READLINK", "", vec![]),
            "symlink" => {
                let mut t = cstr(&name);
                t.extend(cstr("target"));
                ("FUSE_SYMLINK", "", t)
            }
            "mknod" => {
                vals.insert("mode".into(), (libc::S_IFREG | 0o644) as u64);
                ("FUSE_MKNOD", "fuse_mknod_in", cstr(&name))
            }
            "mkdir" => {
                vals.insert("mode".into(), 0o755);
                ("FUSE_MKDIR", "fuse_mkdir_in", cstr(&name))
            }
            "unlink" => ("FUSE_UNLINK", "", cstr(&name)),
            "rmdir" => ("FUSE_RMDIR", "", cstr(&name)),
            "rename" | "rename2" => {
                vals.insert("newdir".into(), nodeid2);
                let mut t = cstr(&name);
                t.extend(cstr(&name2));
                if op == "rename" { ("FUSE_RENAME", "fuse_rename_in", t) } else { ("FUSE_RENAME2", "fuse_rename2_in", t) }
            }
            "link" => {
                vals.insert("oldnodeid".into(), nodeid2);
                ("FUSE_LINK", "fuse_link_in", cstr(&name))
            }
            "open" => ("FUSE_OPEN", "fuse_open_in", vec![]),
            "opendir" => ("FUSE_OPENDIR", "fuse_open_in", vec![]),
            "read" => {
                vals.insert("fh".into(), 9);
                vals.insert("size".into(), 64);
                ("FUSE_READ", "fuse_read_in", vec![])
            }
            "readdir" | "readdirplus" => {
                vals.insert("fh".into(), 9);
                vals.insert("size".into(), 8192);
                vals.insert("offset".into(), step["offset"].as_u64().unwrap_or(0));
                if op == "readdir" { ("FUSE_READDIR", "fuse_read_in", vec![]) } else { ("FUSE_READDIRPLUS", "fuse_read_in", vec![]) }
            }
            "write" => {
                vals.insert("fh".into(), 9);
                vals.insert("size".into(), 4);
                ("FUSE_WRITE", "fuse_write_in", b"abcd".to_vec())
            }
            "statfs" => ("FUSE_STATFS", "", vec![]),
            "release" => ("FUSE_RELEASE", "fuse_release_in", vec![]),
            "releasedir" => ("FUSE_RELEASEDIR", "fuse_release_in", vec![]),
            "fsync" => ("FUSE_FSYNC", "fuse_fsync_in", vec![]),
            "fsyncdir" => ("FUSE_FSYNCDIR", "fuse_fsync_in", vec![]),
            "flush" => ("FUSE_FLUSH", "fuse_flush_in", vec![]),
            "setxattr" => {
                vals.insert("size".into(), 2);
                let mut t = cstr("user.x");
                t.extend_from_slice(b"vv");
                ("FUSE_SETXATTR", "fuse_setxattr_in", t)
            }
            "getxattr" => {
                vals.insert("size".into(), 64);
                ("FUSE_GETXATTR", "fuse_getxattr_in", cstr("user.x"))
            }
            "listxattr" => {
                vals.insert("size".into(), 64);
                ("FUSE_LISTXATTR", "fuse_getxattr_in", vec![])
            }
            "removexattr" => ("FUSE_REMOVEXATTR", "", cstr("user.x")),
            "access" => ("FUSE_ACCESS", "fuse_access_in", vec![]),
            "create" => {
                vals.insert("mode".into(), 0o644);
                ("FUSE_CREATE", "fuse_create_in", cstr(&name))
            }
            "fallocate" => {
                vals.insert("fh".into(), 9);
                vals.insert("length".into(), 16);
                ("FUSE_FALLOCATE", "fuse_fallocate_in", vec![])
            }
            other => panic!("unknown request kind {other}"),
        };
        let mut bodyb = if body.is_empty() { vec![] } else { abi.encode(body, &vals) };
        if op == "setxattr" {
            bodyb.truncate(abi.konst("FUSE_COMPAT_SETXATTR_IN_SIZE") as usize);
        }
        let opcode = abi.konst(code);
        let mut bytes = self.header(opcode, nodeid, cuid, cgid, bodyb.len() + tail.len());
        bytes.extend_from_slice(&bodyb);
        bytes.extend_from_slice(&tail);
        let kk: i64 = self.k as i64;
        let mut req = json!({"e": "Req", "k": kk, "op": op, "ino": inoj(nodeid), "ctx": {"uid": idj(cuid), "gid": idj(cgid)}, "args": args, "path": if self.asynch && ASYNC_OPS.contains(&op.as_str()) { "async" } else { "sync" },
            "safe_name": !name.contains('/') && (op == "lookup" || (name != "." && name != ".."))});
        if two {
            req["ino2"] = inoj(nodeid2);
        }
        if step["pred"].is_object() {
            let p = &step["pred"];
            let mut pj = Map::new();
            for key in ["uid", "ctx"] {
                if let Some(x) = p[key].as_u64() {
                    pj.insert(key.into(), idj(x as u32 * sc));
                }
            }
            if let Some(n) = p["name"].as_str() {
                pj.insert("name".into(), json!(n));
            }
            req["pred"] = Value::Object(pj);
        }
        self.k += 1;
        self.emit(req);
        self.drain_logs();
        let (ret, msg) = self.xfer(&bytes, &op);
        let logs = self.drain_logs();
        for c in logs.iter() {
            let ev = Self::call_event(c);
            self.emit(ev);
        }
        // ---- decode
        let mut rep = json!({"e": "Reply", "ret": ret, "status": -1, "len": msg.as_ref().map(|m| m.len() as i64).unwrap_or(-1),
            "sum": msg.as_ref().map(|m| fnv(m)).unwrap_or_default()});
        if let Some(m) = msg {
            if m.len() >= 16 {
                let err = i32::from_le_bytes(m[4..8].try_into().unwrap());
                rep["status"] = json!(-err);
                if err == 0 {
                    let b = &m[16..];
                    let eo = self.abi.size("fuse_entry_out");
                    let decode_entry = |bytes: &[u8], abi: &Abi| -> Value {
                        let mut o = Map::new();
                        abi.decode("fuse_entry_out", bytes, "", &mut o);
                        let g = |k: &str| o[k].as_str().unwrap().parse::<u64>().unwrap();
                        json!({"ino": inoj(g("nodeid")), "attr_ino": inoj(g("attr.ino")), "uid": idj(g("attr.uid") as u32), "gid": idj(g("attr.gid") as u32)})
                    };
                    match op.as_str() {
                        "lookup" | "symlink" | "mknod" | "mkdir" | "link" | "create" if b.len() >= eo => {
                            let e = decode_entry(&b[..eo], &self.abi);
                            let n = e["ino"]["low"].as_str().unwrap().parse::<u64>().unwrap() | ((e["ino"]["idx"].as_u64().unwrap()) << 56);
                            if n != 0 {
                                self.pool.push(n);
                            }
                            rep["entry"] = e;
                        }
                        "getattr" | "setattr" if b.len() >= self.abi.size("fuse_attr_out") => {
                            let mut o = Map::new();
                            self.abi.decode("fuse_attr_out", b, "", &mut o);
                            let g = |k: &str| o[k].as_str().unwrap().parse::<u64>().unwrap();
                            rep["attr"] = json!({"attr_ino": inoj(g("attr.ino")), "uid": idj(g("attr.uid") as u32), "gid": idj(g("attr.gid") as u32)});
                        }
                        "readdir" | "readdirplus" => {
                            let plus = op == "readdirplus";
                            let mut pos = 0usize;
                            let mut l = Vec::new();
                            let mut ok = true;
                            while pos < b.len() {
                                let mut ent = json!({});
                                if plus {
                                    if pos + eo > b.len() {
                                        ok = false;
                                        break;
                                    }
                                    ent = decode_entry(&b[pos..pos + eo], &self.abi);
                                    pos += eo;
                                }
                                if pos + 24 > b.len() {
                                    ok = false;
                                    break;
                                }
                                let dino = u64::from_le_bytes(b[pos..pos + 8].try_into().unwrap());
                                let off = u64::from_le_bytes(b[pos + 8..pos + 16].try_into().unwrap());
                                let nl = u32::from_le_bytes(b[pos + 16..pos + 20].try_into().unwrap()) as usize;
                                let padded = (24 + nl + 7) & !7;
                                if pos + padded > b.len() {
                                    ok = false;
                                    break;
                                }
                                ent["name"] = json!(String::from_utf8_lossy(&b[pos + 24..pos + 24 + nl]).to_string());
                                ent["dino"] = inoj(dino);
                                ent["off"] = json!(off.to_string());
                                if dino != 0 {
                                    self.pool.push(dino);
                                }
                                l.push(ent);
                                pos += padded;
                            }
                            rep["entries"] = Value::Array(l);
                            rep["parse_ok"] = json!(ok);
                        }
                        _ => {}
                    }
                }
            }
        }
        self.emit(rep);
        if self.pool.len() > 4096 {
            self.pool.drain(..2048);
        }
    }

    /// fixed battery after every state-changing step of a TLC scenario: the observations the model
    /// predicts for every mounted path (`obs`), then a few seeded requests
    fn probe(&mut self, sc_seed: u64, stepno: usize, obs: &Value, nrand: usize, paths: &[String]) {
        let mut n = 0u64;
        let mut seed = || {
            n += 1;
            mix(sc_seed, (stepno as u64) << 16 | n)
        };
        if let Some(list) = obs.as_array() {
            for o in list {
                let node = o["node"].as_u64().unwrap();
                let idx = o["idx"].as_u64().unwrap();
                // lookup of the mount point: "." in the pseudo directory that is the mount point; a mount on "/" is
                // only reachable this way as ".." of a pseudo directory below the root (`via`, 0 = there is none)
                let via = o["via"].as_u64().unwrap_or(node);
                if via != 0 {
                    let name = if via == node { "." } else { ".." };
                    self.do_req(&json!({"rop": "lookup", "seed": seed(), "t": {"t": "ino", "idx": 0, "lown": via}, "name": name, "fail": false, "cuid": 1, "cgid": 1, "buid": 0, "bgid": 0,
                        "pred": {"uid": o["lk"]}}));
                }
                // getattr of the root of the mount: through node 1 for a root mount, else by its number
                let t = if node == 1 { json!({"t": "root"}) } else { json!({"t": "mroot_idx", "idx": idx}) };
                self.do_req(&json!({"rop": "getattr", "seed": seed(), "t": t, "fail": false, "cuid": 1, "cgid": 1, "buid": 0, "bgid": 0, "pred": {"uid": o["ga"], "ctx": o["cx"]}}));
                // readdirplus of the parent pseudo directory (node 1 is served by the backend when "/" is mounted)
                let root_mounted = list.iter().any(|x| x["node"].as_u64() == Some(1));
                if node != 1 && !(o["par"].as_u64() == Some(1) && root_mounted) {
                    self.do_req(&json!({"rop": "readdirplus", "seed": seed(), "t": {"t": "ino", "idx": 0, "lown": o["par"]}, "fail": false, "cuid": 1, "cgid": 1,
                        "pred": {"uid": o["rp"], "name": o["name"]}}));
                }
            }
        }
        // walks from the root along the scenario's paths
        for p in paths {
            let mut cur = json!({"t": "root"});
            for c in p.split('/').filter(|c| !c.is_empty()) {
                self.do_req(&json!({"rop": "lookup", "seed": seed(), "t": cur, "name": c, "fail": false}));
                cur = json!({"t": "pool", "j": 0});
            }
            self.do_req(&json!({"rop": "getattr", "seed": seed(), "t": cur, "fail": false}));
            self.do_req(&json!({"rop": "setattr", "seed": seed(), "t": cur, "fail": false}));
        }
        self.do_req(&json!({"rop": "readdir", "seed": seed(), "t": {"t": "root"}, "fail": false}));
        self.do_req(&json!({"rop": "readdirplus", "seed": seed(), "t": {"t": "root"}, "fail": false}));
        for _ in 0..nrand {
            self.do_req(&json!({"seed": seed(), "t": {"t": "any"}}));
        }
    }

    fn run_scenario(&mut self, sc: &Value, segno: usize) {
        self.seg = segno;
        self.k = 0;
        self.unique = 0;
        self.pool.clear();
        self.mounts.clear();
        self.maps_seen.clear();
        self.any_mount_map = false;
        self.bes.clear();
        self.ords.clear();
        self.scale = sc["scale"].as_u64().unwrap_or(1) as u32;
        let s = self.scale;
        let g = &sc["g"];
        self.gmap = (g["i"].as_u64().unwrap_or(0) as u32 * s, g["e"].as_u64().unwrap_or(0) as u32 * s, g["r"].as_u64().unwrap_or(0) as u32 * s);
        let o = &sc["opts"];
        let mut opts = VfsOptions::default();
        opts.id_mapping = self.gmap;
        opts.no_open = o["no_open"].as_bool().unwrap_or(true);
        opts.no_opendir = o["no_opendir"].as_bool().unwrap_or(true);
        let rmroot = o["remove_pseudo_root"].as_bool().unwrap_or(false);
        self.rmroot = rmroot;
        self.new_vfs(opts, rmroot);
        let kind = if self.asynch { "async" } else { "sync" };
        self.emit(json!({"e": "Reset", "kind": kind, "pair": sc["pair"].as_u64().unwrap_or(0), "cut": sc["cut"].as_i64().unwrap_or(-1), "id": sc["id"],
            "gmap": mapj(self.gmap), "opts": {"no_open": opts.no_open, "no_opendir": opts.no_opendir, "remove_pseudo_root": rmroot}, "src": sc["src"]}));
        if let Some(n) = sc["emul"].as_u64() {
            self.do_prefill(n);
        }
        let sc_seed = sc["seed"].as_u64().unwrap_or(1);
        let autoprobe = sc["autoprobe"].as_u64().unwrap_or(0) as usize;
        let paths: Vec<String> = sc["paths"].as_array().map(|a| a.iter().map(|x| x.as_str().unwrap().to_string()).collect()).unwrap_or_default();
        let steps = sc["steps"].as_array().cloned().unwrap_or_default();
        // a control run has a "nop" step wherever one of its persist runs has the save/restore: same step
        // numbers (seeds of the probe batteries), same numbering `k` of the operations
        for (i, st) in steps.iter().enumerate() {
            match st["op"].as_str().unwrap_or("") {
                "mount" => self.do_mount(st),
                "umount" => self.do_umount(st),
                "remount" => self.do_remount(st),
                "init" => self.do_init(st),
                "saverestore" => {}
                "nop" => {}
                "req" => self.do_req(st),
                x => panic!("unknown step {x}"),
            }
            if autoprobe > 0 && st["op"] != "req" {
                // "nopred": the same requests, without the model's predictions attached
                let mut obs = st["obs"].clone();
                if st["nopred"].as_bool().unwrap_or(false) {
                    if let Some(l) = obs.as_array_mut() {
                        for o in l.iter_mut() {
                            for key in ["lk", "ga", "rp", "cx"] {
                                o.as_object_mut().map(|m| m.remove(key));
                            }
                        }
                    }
                }
                self.probe(sc_seed, i, &obs, autoprobe, &paths);
            }
        }
    }
}


// ---------------------------------------------------------------------- seeded scenario generator
fn gen_map(rng: &mut Rng) -> (u32, u32, u32) {
    match rng.below(13) {
        9 => (5, 7, 0),                               // empty range
        10 => (0, 0, 0),                              // empty range at 0
        11 => (u32::MAX, 0, 1),                       // the single id 2^32-1
        12 => (0, u32::MAX, 1),
        0 => (0, 100_000, 65_536),                    // disjoint
        1 => (100_000, 0, 65_536),                    // reversed
        2 => (0, 1000, 65_536),                       // overlapping
        3 => (1000, 0, 65_536),                       // overlapping, reversed
        4 => (u32::MAX - 65_535, 0, 65_536),          // internal range ends at 2^32-1
        5 => (0, u32::MAX - 65_535, 65_536),          // external range ends at 2^32-1
        6 => (5, 7, 1),                               // single id
        7 => (0, 0, 1000),                            // identity
        _ => {
            let r = rng.range(1, 1 << 20) as u32;
            let i = (rng.next() as u32) % (u32::MAX - r);
            let e = (rng.next() as u32) % (u32::MAX - r);
            (i, e, r)
        }
    }
}
fn mj(m: (u32, u32, u32)) -> Value {
    json!({"i": m.0, "e": m.1, "r": m.2})
}
/// a mount's mapping argument: Some(m) (also with an empty range) or None
fn mjo(m: Option<(u32, u32, u32)>) -> Value {
    match m {
        Some(m) => json!({"i": m.0, "e": m.1, "r": m.2, "some": true}),
        None => json!({"i": 0, "e": 0, "r": 0, "some": false}),
    }
}

fn gen(seed: u64, nsc: usize, nmounts: usize, shape: &str, out: &str) {
    let mut tr = Trace::create(out);
    for s in 0..nsc {
        let mut rng = Rng::new(mix(seed, s as u64 + 1));
        let shape = if shape == "mix" { *rng.pick(&["churn", "churn", "fill", "nomap", "rmroot"]) } else { shape };
        // "rmroot": set_remove_pseudo_root(); mount points are leaves, umounts that must be refused (intermediate
        // pseudo directories, "/", paths never mounted) are mixed in, the probe battery walks to every mount path
        let rmroot = shape == "rmroot";
        let g = if shape == "nomap" || rng.chance(1, 3) { (0, 0, 0) } else { gen_map(&mut rng) };
        let paths: Vec<&str> = match shape {
            "fill" => vec![],
            "rmroot" => vec!["/x/y", "/x/z", "/w", "/v/u/t", "/x/./y", "/v/u/../u/t"],
            _ => vec!["/", "/a", "/a/b", "/b", "/c/d/e", "/a/./b", "/b/", "//a", "/c/../a", "/a/b/../b", "rel", ""],
        };
        let mut steps: Vec<Value> = Vec::new();
        let mut mounted: Vec<String> = Vec::new();
        let mut nreq = 0u64;
        let mut req = |rng: &mut Rng, steps: &mut Vec<Value>, n: usize| {
            for _ in 0..n {
                nreq += 1;
                let t = match rng.below(6) {
                    0 => json!({"t": "root"}),
                    1 => json!({"t": "mroot", "j": rng.below(300)}),
                    2 => json!({"t": "pool", "j": rng.below(8)}),
                    _ => json!({"t": "any"}),
                };
                steps.push(json!({"op": "req", "seed": rng.next() >> 1, "t": t}));
            }
        };
        if rng.chance(1, 3) {
            steps.push(json!({"op": "init", "empty": rng.chance(1, 4), "zmo": rng.chance(1, 2), "zmod": rng.chance(1, 2)}));
        }
        let mut nm = 0usize;
        let mut fillno = 0usize;
        while nm < nmounts {
            // "fill": the first 257 mounts go to distinct paths without any umount, so that the table is full
            // at the 256th (255 indices); afterwards mounts, over-mounts and umounts alternate at a full table
            let do_umount = !mounted.is_empty() && match shape {
                "fill" => nm >= 258 && rng.chance(1, 2),
                _ => rng.chance(2, 5),
            };
            if do_umount {
                let j = rng.below(mounted.len() as u64) as usize;
                let p = if rmroot && rng.chance(1, 2) {
                    rng.pick(&["/x", "/", "/q", "/v/u", "/v", "/x/never", "/x/"]).to_string()
                } else if rng.chance(1, 10) {
                    "/nonexistent".to_string()
                } else {
                    mounted.swap_remove(j)
                };
                steps.push(json!({"op": "umount", "path": p}));
            } else {
                let p = if shape == "fill" {
                    fillno += 1;
                    if nm >= 258 && rng.chance(1, 6) && !mounted.is_empty() { mounted[rng.below(mounted.len() as u64) as usize].clone() } else { format!("/f/{}", fillno) }
                } else {
                    rng.pick(&paths).to_string()
                };
                let mo = if shape != "nomap" && rng.chance(2, 5) { Some(gen_map(&mut rng)) } else { None };
                let m = mo.unwrap_or((0, 0, 0));
                let b = format!("b{}", rng.range(1, 4));
                let ruid = pick_id(&mut rng, &[m, g]);
                let rgid = pick_id(&mut rng, &[m, g]);
                let mut st = json!({"op": "mount", "path": p, "b": b, "m": mjo(mo), "ruid": ruid, "rgid": rgid, "root": (rng.range(1, 1 << 40)).to_string()});
                if shape != "fill" && rng.chance(1, 8) {
                    st["init_fail"] = json!(true);      // a backend whose init() fails (refused once the VFS is negotiated)
                }
                if rng.chance(1, 40) && !(shape == "fill" && nm < 258) {
                    st["maxino"] = json!((MAX_INO + 1).to_string());
                }
                steps.push(st);
                if p.starts_with('/') && !mounted.contains(&canon(&p)) {
                    mounted.push(canon(&p));
                }
                nm += 1;
            }
            // re-attach a backend in place (restore_mount on the live instance), then requests on that mount
            if shape != "fill" && !mounted.is_empty() && rng.chance(1, 6) {
                let p = mounted[rng.below(mounted.len() as u64) as usize].clone();
                steps.push(json!({"op": "remount", "path": p, "b": format!("b{}", rng.range(1, 4)), "ruid": pick_id(&mut rng, &[g]), "rgid": pick_id(&mut rng, &[g]),
                    "root": (rng.range(1, 1 << 40)).to_string()}));
                for rop in ["getattr", "lookup", "readdirplus"] {
                    steps.push(json!({"op": "req", "rop": rop, "seed": rng.next() >> 1, "t": {"t": "mpath", "path": p}, "fail": false}));
                }
            }
            if rng.chance(1, 60) {
                steps.push(json!({"op": "init", "empty": rng.chance(1, 4), "zmo": rng.chance(1, 2), "zmod": rng.chance(1, 2)}));
            }
            let n = if shape == "fill" { rng.below(3) } else { rng.range(2, 6) } as usize;
            req(&mut rng, &mut steps, n);
        }
        let _ = nreq;
        let mut sc = json!({"id": format!("rnd-{shape}-{s}"), "src": "random", "kind": "plain", "seed": rng.next() >> 1, "g": mj(g), "scale": 1,
            "opts": {"no_open": rng.chance(1, 2), "no_opendir": rng.chance(1, 2), "remove_pseudo_root": rmroot}, "nomap": shape == "nomap" && g.2 == 0});
        if rmroot {
            // at the end every mount is unmounted by its path; the battery after each step walks to every mount path
            for p in mounted.iter() {
                steps.push(json!({"op": "umount", "path": p}));
            }
            sc["autoprobe"] = json!(1);
            sc["paths"] = json!(["/x/y", "/x/z", "/w", "/v/u/t"]);
        }
        sc["steps"] = Value::Array(steps);
        tr.emit(&sc);
    }
    tr.flush();
}

fn main() {
    let args: Vec<String> = std::env::args().collect();
    if args[3] == "gen" {
        gen(env_u64("VERIF_SEED", 1), args[4].parse().unwrap(), args[5].parse().unwrap(), &args[6], &args[2]);
        return;
    }
    let abi = Abi::load(&args[1]);
    let vfs = Arc::new(Vfs::new(VfsOptions::default()));
    let mut w = World {
        abi,
        tr: Trace::create(&args[2]),
        pair: SeqPair::new(),
        server: Server::new(vfs.clone()),
        vfs,
        bes: BTreeMap::new(),
        ords: BTreeMap::new(),
        mounts: BTreeMap::new(),
        pool: Vec::new(),
        seg: 0,
        k: 0,
        unique: 0,
        scale: 1,
        gmap: (0, 0, 0),
        maps_seen: Vec::new(),
        any_mount_map: false,
        rmroot: false,
        asynch: false,
    };
    assert_eq!(args[3], "replay");
    let text = std::fs::read_to_string(&args[4]).expect("scenario file");
    let mut n = 0;
    for line in text.lines() {
        if line.trim().is_empty() {
            continue;
        }
        let sc: Value = serde_json::from_str(line).expect("scenario json");
        // the same history on the synchronous path, then on the asynchronous one (fresh Vfs, Server and backends each time)
        for asynch in [false, true] {
            n += 1;
            w.asynch = asynch;
            w.run_scenario(&sc, n);
        }
    }
    let total = w.tr.n;
    w.tr.emit(&json!({"e": "End", "n": total, "seg": n}));
    w.tr.flush();
}
