----------------------------- MODULE MC_Session -----------------------------
(* X03 - exhaustive exploration of the sequential session object of Session.tla:
     * every public operation in every reachable API state (wrong-state calls included), bounded by MaxOps
       operations, MaxConn mounts and the channels in Chans;
     * requirement invariants (R3 no stale mount, R4 no hang, R5 no descriptor left at quiescence, model sanity);
       steps through a recorded defect (AsFoundAbort / AsFoundRemount) are excused iff Excuse (they add their
       signature to `taint`); with Excuse = FALSE the as-found behaviour must violate InvReq (demonstration);
     * export: with VIEW NoHist every distinct state keeps one (shortest) history; the action constraint Export
       prints that history extended by each operation enabled there - "every operation in every state" - as
       <<"H", json>> lines. The harness replays them on real mounts, Trace_SessionSeq judges the logs. *)
EXTENDS Session, TLC, Json
CONSTANTS MaxOps, Excuse, Sticky

VARIABLES S, hist, bad, taint
vars == <<S, hist, bad, taint>>
NoHist == <<S, bad, taint>>

Op(o, c, k, kind) == [op |-> o, c |-> c, k |-> k, kind |-> kind, exp |-> ""]

\* completions happen "at once": client first, then channels in order
RECURSIVE Settle(_)
Settle(T) ==
  IF T.cli.st = "fin" THEN Settle(CliComplete(T))
  ELSE IF \E c \in Chans : GrReady(T, c, Sticky) # ""
       THEN LET c == CHOOSE x \in Chans : GrReady(T, x, Sticky) # "" /\ \A y \in Chans : y < x => GrReady(T, y, Sticky) = "" IN
            Settle(GrComplete(T, c, GrReady(T, c, Sticky)))
       ELSE T

\* one request for two blocked readers would be handed to either: the generator avoids the choice
OneReader(T) == Top(T) = 0 \/ Cardinality(BlockedOn(T, Top(T))) <= 1

\* the operations enabled in T, each with its result record
Enabled(T) ==
  (IF T.ses = "none" THEN {<<Op("new", 0, 0, kd), DoNew(T, kd)>> : kd \in {"dir", "file", "missing"}} ELSE {})
  \cup (IF T.ses = "live" THEN
          (IF (MountCase(T) = "free" => FreshConn(T) # 0) /\ MountCase(T) # "served" THEN {<<Op("mount", 0, 0, ""), DoMount(T)>>} ELSE {})
          \cup {<<Op("umount", 0, 0, ""), DoUmount(T)>>, <<Op("drop", 0, 0, ""), DoDrop(T)>>, <<Op("wake", 0, 0, ""), DoWake(T)>>,
                <<Op("clone", 0, 0, ""), DoClone(T)>>, <<Op("bufsize", 0, 0, ""), DoBufsize(T)>>, <<Op("ww", 0, 0, ""), DoWw(T)>>,
                <<Op("tww", 0, 0, ""), DoTww(T)>>}
          \cup {<<Op("nc", c, 0, ""), DoNc(T, c)>> : c \in {x \in Chans : T.ch[x].st = "none" /\ \A y \in Chans : y < x => T.ch[y].st # "none"}}
          \cup (IF T.clone # 0 THEN {<<Op("setf", 0, 0, ""), DoSetf(T)>>} ELSE {})
        ELSE {})
  \cup (IF T.clone # 0 THEN {<<Op("dclone", 0, 0, ""), DoDclone(T)>>} ELSE {})
  \cup {<<Op("dc", c, 0, ""), DoDc(T, c)>> : c \in {x \in Chans : T.ch[x].st = "live" /\ ~T.ch[x].blk}}
  \cup {<<Op("gr", c, 0, ""), DoGrStart(T, c)>> : c \in {x \in Chans : T.ch[x].st = "live" /\ ~T.ch[x].blk}}
  \cup {<<Op("abort", 0, k, ""), DoAbort(T, k)>> : k \in {x \in Conns : T.conn[x].att /\ T.conn[x].st = "live"}}
  \cup (IF T.ses # "none" /\ T.cli.st = "idle" /\ OneReader(T) THEN {<<Op("cli", 0, 0, ""), DoCli(T)>>} ELSE {})

\* requirement failures of one step (signature strings)
Fails(T, o, r) ==
  (IF ~NoStaleMount(T, r.s, o.op, r.res) THEN {"stale|" \o StaleClass(T)} ELSE {})
  \cup (IF ~NoHang(T, r.res) THEN {"hang|already-mounted"} ELSE {})
KnownSig == {"stale|conn-aborted", "stale|mounted-twice", "hang|already-mounted"}

Init == S = S0 /\ hist = <<>> /\ bad = {} /\ taint = {}
\* a history ends at a hang (the harness releases it by aborting every connection; each costs its grace period)
Next == /\ Len(hist) < MaxOps
        /\ "hang|already-mounted" \notin taint \cup bad
        /\ (hist # <<>> => hist[Len(hist)].exp # "hang")
        /\ \E e \in Enabled(S) :
             LET o == e[1] r == e[2] f == Fails(S, o, r) IN
             /\ S' = Settle(r.s)
             /\ hist' = Append(hist, [o EXCEPT !.exp = r.res])
             /\ bad' = bad \cup (IF Excuse THEN f \ KnownSig ELSE f)
             /\ taint' = taint \cup (IF Excuse THEN f \cap KnownSig ELSE {})
Spec == Init /\ [][Next]_vars

\* the flag tells whether the step left the state as it was (such steps can be replayed together in one history)
Export == PrintT(<<"H", ToJson(hist'), S' = S>>)

InvType == TypeOK(S)
InvNoLeak == NoLeak(S)
InvReq == bad = {}
\* nothing stays "in progress" although it could complete
InvSettled == S.cli.st # "fin" /\ \A c \in Chans : GrReady(S, c, Sticky) = ""
=============================================================================
