---------------------------- MODULE Trace_PtRefs ----------------------------
(* Trace specification for the engine `ptrefs` (C08, C15, C16): replays the NDJSON log written by
   harness/src/bin/ptrefs.rs (IOEnv.TRACE) through the A-level operators of PtRefs.tla.

   Monitor mode: the log is deterministic given the learned state (the `succ` map of DirStream is a
   partial function extended on first observation and required to be identical afterwards), so every
   event is applied in order; an observation A does not allow prints
       <<"VIOL", signature, event index, segment, index in segment>>
   and validation continues. Segments (one scenario = one freshly forked server process) start at a
   `Cfg` event, which resets the A state. *)
EXTENDS PtRefs, Json, IOUtils
Rec == ndJsonDeserialize(IOEnv.TRACE)

VARIABLES l, S
vars == <<l, S>>

NoCfg == [fh |-> FALSE, hostino |-> FALSE, no_open |-> FALSE, no_opendir |-> FALSE, via |-> "pt", tag |-> "none", kind |-> "none",
          base |-> [fds |-> 0, inodes |-> 0, handles |-> 0, cookies |-> 0]]
CfgOf(r) == [fh |-> r.fh, hostino |-> r.hostino, no_open |-> r.no_open, no_opendir |-> r.no_opendir, via |-> r.via, tag |-> r.tag,
             kind |-> r.kind, base |-> [fds |-> r.base.fds, inodes |-> r.base.inodes, handles |-> r.base.handles, cookies |-> r.base.cookies]]

EntryOps == {"lookup", "mkdir", "mknod", "symlink", "link"}
ApplyOp(T, r) ==
  LET N == Noted(T, r.op, r.status, r.fail_at)
      ok == r.status = "OK"
  IN CASE r.op \in EntryOps -> IF ok THEN Entry(N, r.op, r.file_id, r.ino_ret) ELSE N
       [] r.op = "create" -> IF ok THEN OpenH(Entry(N, r.op, r.file_id, r.ino_ret), r.op, r.ino_ret, r.h_ret, r.flags % 4 = 0) ELSE N
       [] r.op = "forget" -> Forget(N, r.p, r.n)
       [] r.op = "batch_forget" -> ForgetAll(N, r.items)
       [] r.op \in {"open", "opendir"} -> IF ok THEN OpenH(N, r.op, r.p, r.h_ret, r.op = "opendir" \/ r.flags % 4 = 0) ELSE N
       [] r.op \in {"release", "releasedir"} -> ReleaseH(N, r.op, r.p, r.h, r.status)
       [] r.op = "getattr_h" -> HandleFile(UseH(N, r.op, r.p, r.h, r.status), r.op, r.p, r.h, r.status, r.af)
       [] r.op \in {"read", "write", "flush", "fsync"} -> UseH(N, r.op, r.p, r.h, r.status)
       [] r.op = "destroy" -> Destroy(N)
       [] r.op = "init" -> Inited(N, r.status)
       [] OTHER -> N

Apply(T, r) ==
  CASE r.e = "Cfg" -> Init(CfgOf(r))
    [] r.e = "Host" -> HostSet(T, r.files)
    [] r.e = "HostDir" -> HostDir(T, r.d, r.names, r.raw)
    [] r.e = "Op" -> ApplyOp(T, r)
    [] r.e = "Dir" -> LET op == IF r.plus THEN "readdirplus" ELSE "readdir"
                      IN DirReply(UseH(Noted(T, op, r.status, r.fail_at), "readdir", r.d, r.h, r.status), r)
    [] r.e = "Probe" -> ProbeRows(T, r.rows)
    [] r.e = "Res" -> ResCheck(T, r)
    [] r.e = "DirEnd" -> DirEnd(T, r.d)
    [] r.e = "Crash" -> [T EXCEPT !.viol = @ \cup {"C08|crash|server-process-died", "C15|" \o T.cfg.tag \o "|crash|server-process-died", "C16|" \o T.cfg.via \o "|server-process-died"}]
    [] OTHER -> T

TInit == l = 1 /\ S = Init(NoCfg)
Step ==
  /\ l <= Len(Rec)
  /\ LET r == Rec[l]
         N == Apply(S, r)
         new == IF r.e = "Cfg" THEN {} ELSE N.viol \ S.viol
     IN /\ TRUE = (IF new = {} THEN TRUE ELSE \A s \in new : PrintT(<<"VIOL", s, l, r.seg, r.i>>))
        /\ S' = N
  /\ l' = l + 1
Done == l = Len(Rec) + 1 /\ PrintT(<<"ACCEPTED", Len(Rec)>>) /\ l' = l + 1 /\ UNCHANGED S
Next == Step \/ Done
Spec == TInit /\ [][Next]_vars
=============================================================================
