---------------------------- MODULE Trace_PtConc ----------------------------
(* Judge of property C09: recorded concurrent histories of lookup / forget / batch_forget /
   readdirplus / getattr on ONE file of a real PassthroughFs (harness/src/bin/ptconc.rs) are
   accepted iff they are LINEARISABLE against the sequential Refs object of PtConc.tla and the
   quiescent probes agree with the count produced by the chosen order.

   Events (NDJSON, IOEnv.TRACE):  Reset{..}  Call{t, op, cnts, fit}  Ret{t, op, val, kind}
                                  Probe{kind: refcount|getattr|drain, ..}
   A segment = Reset, the sequential setup calls of thread 0, the concurrent calls, the probes.
   Silent step Lin(t): the next atomic A-action of t's pending operation takes effect somewhere
   between its Call and its Ret (compound operations - readdirplus that did not fit, batch_forget -
   are sequences of atomic actions, the weaker reading). Blocking mode per segment: an event
   that no explanation allows has no successor; the POSTCONDITION prints
   <<"REJECTED", {<<segment start, furthest event index reached>>, ...}>>. Run with -workers 1.

   Obligations:
     * every lookup / readdirplus entry returns the file's one number (learned at first sight);
     * forget returns nothing; getattr succeeds if the count is positive at its linearisation;
     * at quiescence (all calls returned): Probe refcount = refs (entry present iff refs > 0),
       Probe getattr succeeds iff refs > 0 (number usable until forgotten), Probe drain needs
       exactly refs forget(1) calls until EBADF;
     * a segment ends only after its probes (unless no number was ever returned). *)
EXTENDS PtConc, Naturals, Sequences, FiniteSets, TLC, Json, IOUtils

Rec == ndJsonDeserialize(IOEnv.TRACE)
N == Len(Rec)
TIds == 0..8
SegStarts == {i \in 1..N : Rec[i].e = "Reset"}

VARIABLES l,      \* index of the next event
          refs,   \* A: lookup references held on the file
          num,    \* A: the file's inode number ("" = not yet observed)
          pend,   \* per client thread: the operation in flight and its remaining atomic actions
          ph,     \* "run" | "rc" | "ga" | "end": probe sequencing within a segment
          sg,     \* index of the Reset event of the current segment (0 before the first)
          mode    \* "ok": explaining the segment; "skip": passing over it (see below)
vars == <<l, refs, num, pend, ph, sg, mode>>

(* One TLC run judges all segments independently. At every Reset the search forks: mode "ok"
   tries to explain the segment event by event (blocking: an event no explanation allows has no
   successor); mode "skip" walks over the segment's events unconditionally so that the following
   segments are reached whatever happens to this one. A segment is ACCEPTED iff its "ok" track
   reaches the next Reset (or the end of the file) with every obligation met: its Reset index is
   then added to register 2. The POSTCONDITION prints the rejected segments. With
   Trace_PtConc_diag.cfg (state constraint Track; used on the rejected segments only, it is
   costly) register 1 maps every segment to the furthest event index its "ok" track reached,
   i.e. the first event that no explanation allows. -workers 1. *)

Idle == [st |-> "idle", op |-> "", todo |-> <<>>, val |-> ""]
AllIdle == \A t \in TIds : pend[t].st = "idle"
EndOK == ph = "end" \/ (ph = "run" /\ num = "")     \* probes done (or no number was ever returned)

Init == /\ l = 1 /\ refs = 0 /\ num = "" /\ ph = "end" /\ sg = 0 /\ mode = "skip"
        /\ pend = [t \in TIds |-> Idle]
        /\ TLCSet(1, [s \in SegStarts |-> 0])
        /\ TLCSet(2, {})

Ev(e) == l <= N /\ Rec[l].e = e
Mark == sg = 0 \/ TLCSet(2, TLCGet(2) \cup {sg})

\* the segment that ends here is accepted (mode "ok") or was passed over; the next one begins on both tracks
Reset == /\ Ev("Reset")
         /\ \/ mode = "skip"
            \/ mode = "ok" /\ AllIdle /\ EndOK /\ Mark
         /\ l' = l + 1 /\ sg' = l /\ refs' = 0 /\ num' = ""
         /\ pend' = [t \in TIds |-> Idle]
         /\ \/ mode' = "ok" /\ ph' = "run"
            \/ mode' = "skip" /\ ph' = "end"

SkipEv == /\ mode = "skip"
          /\ l <= N /\ Rec[l].e # "Reset"
          /\ l' = l + 1 /\ UNCHANGED <<refs, num, pend, ph, sg, mode>>

Call == /\ Ev("Call")
        /\ mode = "ok" /\ ph = "run"
        /\ LET r == Rec[l] IN
           /\ r.t \in TIds
           /\ pend[r.t].st = "idle"
           /\ r.op \in {"lookup", "forget", "rdp", "getattr"}
           /\ pend' = [pend EXCEPT ![r.t] = [st |-> "inv", op |-> r.op, todo |-> Plan(r.op, r.cnts, r.fit), val |-> ""]]
        /\ l' = l + 1 /\ UNCHANGED <<refs, num, ph, sg, mode>>

\* silent: the next atomic action of t's operation takes effect
\* (getattr in flight: C09 only demands that the number is usable while referenced; that it stops
\*  resolving at count 0 is C08's obligation, so at refs = 0 either outcome is accepted here)
Lin(t) == /\ mode = "ok"
          /\ pend[t].st = "inv"
          /\ pend[t].todo # <<>>
          /\ LET a == Head(pend[t].todo) IN
             /\ refs' = Apply(refs, a)
             /\ \E v \in (IF a.a # "get" THEN {pend[t].val} ELSE IF RefsUsable(refs) THEN {"ok"} ELSE {"ok", "ebadf"}) :
                  pend' = [pend EXCEPT ![t].todo = Tail(@), ![t].val = v]
          /\ UNCHANGED <<l, num, ph, sg, mode>>

Ret == /\ Ev("Ret")
       /\ mode = "ok"
       /\ LET r == Rec[l] IN
          /\ r.t \in TIds
          /\ pend[r.t].st = "inv"
          /\ pend[r.t].todo = <<>>
          /\ r.op = pend[r.t].op
          /\ CASE r.op \in {"lookup", "rdp"} ->
                    /\ r.kind = "ino"                       \* an existing file: the lookup succeeds
                    /\ num = "" \/ num = r.val              \* ... with the file's one number
                    /\ num' = r.val
               [] r.op = "forget" -> r.kind = "none" /\ UNCHANGED num
               [] r.op = "getattr" -> r.val = pend[r.t].val /\ UNCHANGED num
          /\ pend' = [pend EXCEPT ![r.t] = Idle]
       /\ l' = l + 1 /\ UNCHANGED <<refs, ph, sg, mode>>

Probe == /\ Ev("Probe")
         /\ mode = "ok"
         /\ AllIdle
         /\ LET r == Rec[l] IN
            /\ r.ino = num
            /\ CASE r.kind = "refcount" ->
                      /\ ph = "run" /\ ph' = "rc"
                      /\ r.count = refs /\ r.present = (refs > 0)
                      /\ UNCHANGED refs
                 [] r.kind = "getattr" ->
                      /\ ph = "rc" /\ ph' = "ga"
                      /\ r.ok = RefsUsable(refs)
                      /\ UNCHANGED refs
                 [] r.kind = "drain" ->
                      /\ ph = "ga" /\ ph' = "end"
                      /\ r.n = refs
                      /\ refs' = 0
                 [] OTHER -> FALSE
         /\ l' = l + 1 /\ UNCHANGED <<num, pend, sg, mode>>

Done == /\ l = N + 1
        /\ \/ mode = "skip"
           \/ mode = "ok" /\ AllIdle /\ EndOK /\ Mark
        /\ PrintT(<<"CONSUMED", N>>)
        /\ l' = l + 1 /\ refs' = 0 /\ num' = "" /\ ph' = "end" /\ sg' = 0 /\ mode' = "skip"
        /\ pend' = [t \in TIds |-> Idle]

Next == Reset \/ SkipEv \/ Call \/ Ret \/ Probe \/ Done \/ \E t \in TIds : Lin(t)
Spec == Init /\ [][Next]_vars

\* state constraint (always TRUE): furthest event index reached by the "ok" track of each segment
Track == IF mode = "ok" /\ sg > 0 /\ TLCGet(1)[sg] < l
         THEN TLCSet(1, [TLCGet(1) EXCEPT ![sg] = l])
         ELSE TRUE
Rejected == SegStarts \ TLCGet(2)
Post == PrintT(<<"REJECTED", {<<s, TLCGet(1)[s]>> : s \in Rejected}>>)
=============================================================================
