SPECIFICATION Spec
CONSTANTS
  Readers = {1, 2}
  Late = {}
  NReq = 2
  Interrupts = FALSE
  FuseFdEdge = TRUE
  UmountWaits = FALSE
INVARIANTS TypeOK DeliveredOnce BufferIsRequest ExitWins NoneJustified NoLostWake NoLostReadiness ResultsAllowed NothingLost
