SPECIFICATION Spec
CONSTANTS
  Programs <- MC_Programs
  ReqChoices <- MC_Req2
  Inits <- MC_Inits
  NReq = 2
VIEW NoHist
CONSTRAINT Valid
CHECK_DEADLOCK FALSE
INVARIANTS Lin StrictLin NoForeign MapOfSome
