SPECIFICATION Spec
CONSTANTS
  Prog <- P_QUICK
  Procs = {1,2,3}
  Fixed = FALSE
  EnableFirst = TRUE
  Mon = TRUE
INVARIANTS LinStrict LinWeak QuiescentAgrees AtMostOnceI NoInventionI NoLostWakeupQ ParkedRegistered WaitersSane
