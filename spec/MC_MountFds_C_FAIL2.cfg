SPECIFICATION Spec
CONSTANTS
  Ops <- Ops_C_FAIL2
  Held0Set <- H_0_a_ab
  Names <- NamesAll
  Mounts <- MountsAll
  MountOf <- MountOfAll
  Ctx = TRUE
  DropAlways = FALSE
  NoReprobe = FALSE
  LeakProbe = FALSE
INVARIANTS S1 Refines LiveRegistered S2 S3 LockSane ResOK 
VIEW View
