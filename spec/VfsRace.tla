------------------------------- MODULE VfsRace -------------------------------
(* Growing the specification beyond the listed properties (DESIGN.md section 9, item 7):
   mount / umount / over-mount running CONCURRENTLY with client requests in the VFS.

   The mount table lives in three ArcSwap snapshots that are stored one after another (under
   Vfs.lock) and loaded one after another (without any lock) by the request paths:
       mp   = mountpoints{pseudo inode -> MountPointData{fs_idx, ino, root_entry}}
       sb   = superblocks[256]
       map  = mount_id_mappings[256]
   One label of the algorithm = the code between two load/store points (yield points ld_mp, ld_sb,
   ld_map, st_mp, st_sb, st_map of hooks/vfs-yield.diff), transcribed from vfs/mod.rs
   (mount_with_id_mapping, insert_mount_locked, umount, get_real_rootfs, lookup_pseudo,
   get_effective_id_mapping) and vfs/sync_io.rs (id_remap_with_nodeid, getattr, readdirplus).

   One mounter runs Program (<= 2 operations), every requester one request. Obligation (A level):
   a request is answered as if it ran entirely at some point between its call and its return
   w.r.t. the sequential semantics of Vfs.tla (here: Run on the state after 0, 1, 2 .. mounter
   operations), or it fails without reaching a backend:
       Lin           as above                       StrictLin  without the "or fails" escape
       NoForeign     a backend is never handed an inode number of another backend
       MapOfSome     caller ids and owner ids are never translated with a mapping that the index
                     had neither before nor after the concurrent operations
   Violations found here are design-level observations about concurrent use, not violations of C07
   (which quantifies over sequential histories). Mappings are tokens: the id translation itself is
   C14's business, here only WHICH mapping is applied matters. *)
EXTENDS VfsSeq, TLC
CONSTANTS Programs,     \* set of mounter programs: sequences of [k: "mount"/"umount", p: node, b: backend, m: mapping token or NoTok]
          ReqChoices,   \* set of sequences (one element per requester) of "lookup_a" | "getattr_root" | "getattr_in" | "rdp_root"
          Inits,        \* set of [sb, mp, map, nexts]: the table before the program starts
          NReq          \* number of requesters (length of the sequences in ReqChoices)
Reqs == 1..NReq

(* --algorithm VfsRace {
  variables Init0 \in Inits, Program \in Programs, ReqOps \in ReqChoices,
            sb = Init0.sb, mp = Init0.mp, map = Init0.map, nexts = Init0.nexts,
            started = 0, done = 0,                      \* mounter operations called / returned
            res = [r \in Reqs |-> Fail],                \* what each requester observed
            cd = [r \in Reqs |-> -1],                   \* mounter operations returned when the request was called
            rs = [r \in Reqs |-> -1],                   \* mounter operations called when the request returned
            hist = <<>>;                                \* the interleaving: <<thread, label>>

  define {
    Window(r) == cd[r]..rs[r]
    Finished(r) == rs[r] >= 0
    Lin == \A r \in Reqs : Finished(r) => res[r].kind = "fail" \/ \E j \in Window(r) : res[r] = Run(Init0, After(Init0, Program, j), ReqOps[r])
    StrictLin == \A r \in Reqs : Finished(r) => \E j \in Window(r) : res[r] = Run(Init0, After(Init0, Program, j), ReqOps[r])
    \* an inode number is the name of the backend that issued it
    NoForeign == \A r \in Reqs : Finished(r) /\ res[r].kind = "backend" => res[r].be = res[r].ino
    MapOfSome == \A r \in Reqs : Finished(r) /\ res[r].kind = "backend" =>
                   /\ \E j \in Window(r) : res[r].ctx = Eff(After(Init0, Program, j).map, res[r].idx)
                   /\ \E j \in Window(r) : res[r].out = Eff(After(Init0, Program, j).map, res[r].idx)
  }

  \* vfs.mount / mount_with_id_mapping / umount, one after the other, under Vfs.lock
  process (mounter = 0)
    variables pi = 1, o = [k |-> "none"], idx = 0, old = 0, sb1 = <<>>, mp1 = <<>>;
  {
   m_next:
    while (pi <= Len(Program)) {
      o := Program[pi];
      started := started + 1;
      if (o.k = "umount") {
        if (mp[o.p] = NoMp) {                          \* NotFound: no store
          done := done + 1; pi := pi + 1;
          hist := Append(hist, <<0, "call_ret">>);
        } else {
          \* st_mp: mountpoints without the entry
          idx := mp[o.p].idx;
          mp := [mp EXCEPT ![o.p] = NoMp];
          hist := Append(hist, <<0, "st_mp">>);
         u_sb:                                         \* st_sb: superblocks[idx] = None (fs.destroy())
          sb := [sb EXCEPT ![idx] = NoFs];
          hist := Append(hist, <<0, "st_sb">>);
         u_map:                                        \* st_map: mount_id_mappings[idx] = None
          map := [map EXCEPT ![idx] = NoTok];
          done := done + 1; pi := pi + 1;
          hist := Append(hist, <<0, "st_map">>);
        }
      } else {
        idx := Alloc(sb, nexts);
        if (idx = 0) {                                 \* "maximum mountpoints reached"
          done := done + 1; pi := pi + 1;
          hist := Append(hist, <<0, "call_ret">>);
        } else {
          \* st_map: the mapping given to the mount (None too) is stored first
          nexts := (idx + 1) % (NIdx + 1);
          map := [map EXCEPT ![idx] = o.m];
          hist := Append(hist, <<0, "st_map">>);
         m_ins:                                        \* insert_mount_locked: snapshots, convert_entry (ld_map), over-mount
          sb1 := sb; old := mp[o.p].idx;
          mp1 := [mp EXCEPT ![o.p] = [idx |-> idx, b |-> o.b, rtok |-> Eff(map, idx)]];
          hist := Append(hist, <<0, "ld_map">>);
          if (old # 0) {
           m_mapo:                                     \* st_map: the evicted file system's mapping goes
            map := [map EXCEPT ![old] = NoTok];
            sb1 := [sb1 EXCEPT ![old] = NoFs];
            hist := Append(hist, <<0, "st_map">>);
          };
         m_sb:                                         \* st_sb
          sb := [sb1 EXCEPT ![idx] = o.b];
          hist := Append(hist, <<0, "st_sb">>);
         m_mp:                                         \* st_mp
          mp := mp1;
          done := done + 1; pi := pi + 1;
          hist := Append(hist, <<0, "st_mp">>);
        }
      }
    }
  }

  \* one client request: Server::handle_message = id_remap_with_nodeid, then the Vfs operation
  process (req \in Reqs)
    variables cidx = 0, ctok = NoTok, tgt = NoMp, fs = NoFs;
  {
   r_call:
    cd[self] := done;
    if (ReqOps[self] = "getattr_in") {
      \* id_remap_with_nodeid: ld_map of the index in the node id
      ctok := Eff(map, I0(Init0)); cidx := I0(Init0);
      hist := Append(hist, <<self, "ld_map">>);
     gi_sb:                                            \* get_real_rootfs -> get_fs_by_idx: ld_sb
      fs := sb[cidx];
      hist := Append(hist, <<self, "ld_sb">>);
      if (fs = NoFs) { res[self] := Fail; rs[self] := started; }
      else {
       gi_out:                                         \* backend getattr(ctx, ino); convert_attr: ld_map
        res[self] := [kind |-> "backend", be |-> fs, ino |-> B0(Init0), ctx |-> ctok, out |-> Eff(map, cidx), idx |-> cidx];
        rs[self] := started;
        hist := Append(hist, <<self, "ld_map">>);
      }
    } else {
      \* node 1. id_remap_with_nodeid: ld_mp (is "/" mounted?)
      cidx := mp[R].idx;
      hist := Append(hist, <<self, "ld_mp">>);
     r_ctx:                                            \* ... ld_map of that index (0 = pseudo fs)
      ctok := IF cidx = 0 THEN GTok ELSE Eff(map, cidx);
      hist := Append(hist, <<self, "ld_map">>);
     r_root:                                           \* get_real_rootfs(1): ld_mp
      tgt := mp[R];
      hist := Append(hist, <<self, "ld_mp">>);
      if (tgt # NoMp) {
       rr_sb:                                          \* get_fs_by_idx(mnt.fs_idx): ld_sb
        fs := sb[tgt.idx];
        hist := Append(hist, <<self, "ld_sb">>);
        if (fs = NoFs) { res[self] := Fail; rs[self] := started; }
        else {
         rr_out:                                       \* backend call with mnt.ino; convert_*: ld_map
          res[self] := [kind |-> "backend", be |-> fs, ino |-> tgt.b, ctx |-> ctok, out |-> Eff(map, tgt.idx), idx |-> tgt.idx];
          rs[self] := started;
          hist := Append(hist, <<self, "ld_map">>);
        }
      } else if (ReqOps[self] = "getattr_root") {
        res[self] := [Fail EXCEPT !.kind = "pseudo"]; rs[self] := started;
      } else {
       rp_mp:                                          \* lookup_pseudo / readdirplus of the pseudo dir: ld_mp of the child
        tgt := mp[A];
        hist := Append(hist, <<self, "ld_mp">>);
        if (tgt # NoMp) {
          res[self] := [kind |-> "mproot", be |-> NoFs, ino |-> tgt.b, ctx |-> NoTok, out |-> tgt.rtok, idx |-> tgt.idx];
          rs[self] := started;
        } else if (ReqOps[self] = "rdp_root") {
          res[self] := [Fail EXCEPT !.kind = "pseudo"]; rs[self] := started;
        } else {
         rp_map:                                       \* convert_entry of the pseudo entry: ld_map (index 0)
          res[self] := [Fail EXCEPT !.kind = "pseudo"]; rs[self] := started;
          hist := Append(hist, <<self, "ld_map">>);
        }
      }
    }
  }
} *)
\* BEGIN TRANSLATION (chksum(pcal) = "fec14b4a" /\ chksum(tla) = "1844d3b7")
VARIABLES pc, Init0, Program, ReqOps, sb, mp, map, nexts, started, done, res, 
          cd, rs, hist

(* define statement *)
Window(r) == cd[r]..rs[r]
Finished(r) == rs[r] >= 0
Lin == \A r \in Reqs : Finished(r) => res[r].kind = "fail" \/ \E j \in Window(r) : res[r] = Run(Init0, After(Init0, Program, j), ReqOps[r])
StrictLin == \A r \in Reqs : Finished(r) => \E j \in Window(r) : res[r] = Run(Init0, After(Init0, Program, j), ReqOps[r])

NoForeign == \A r \in Reqs : Finished(r) /\ res[r].kind = "backend" => res[r].be = res[r].ino
MapOfSome == \A r \in Reqs : Finished(r) /\ res[r].kind = "backend" =>
               /\ \E j \in Window(r) : res[r].ctx = Eff(After(Init0, Program, j).map, res[r].idx)
               /\ \E j \in Window(r) : res[r].out = Eff(After(Init0, Program, j).map, res[r].idx)

VARIABLES pi, o, idx, old, sb1, mp1, cidx, ctok, tgt, fs

vars == << pc, Init0, Program, ReqOps, sb, mp, map, nexts, started, done, res, 
           cd, rs, hist, pi, o, idx, old, sb1, mp1, cidx, ctok, tgt, fs >>

ProcSet == {0} \cup (Reqs)

Init == (* Global variables *)
        /\ Init0 \in Inits
        /\ Program \in Programs
        /\ ReqOps \in ReqChoices
        /\ sb = Init0.sb
        /\ mp = Init0.mp
        /\ map = Init0.map
        /\ nexts = Init0.nexts
        /\ started = 0
        /\ done = 0
        /\ res = [r \in Reqs |-> Fail]
        /\ cd = [r \in Reqs |-> -1]
        /\ rs = [r \in Reqs |-> -1]
        /\ hist = <<>>
        (* Process mounter *)
        /\ pi = 1
        /\ o = [k |-> "none"]
        /\ idx = 0
        /\ old = 0
        /\ sb1 = <<>>
        /\ mp1 = <<>>
        (* Process req *)
        /\ cidx = [self \in Reqs |-> 0]
        /\ ctok = [self \in Reqs |-> NoTok]
        /\ tgt = [self \in Reqs |-> NoMp]
        /\ fs = [self \in Reqs |-> NoFs]
        /\ pc = [self \in ProcSet |-> CASE self = 0 -> "m_next"
                                        [] self \in Reqs -> "r_call"]

m_next == /\ pc[0] = "m_next"
          /\ IF pi <= Len(Program)
                THEN /\ o' = Program[pi]
                     /\ started' = started + 1
                     /\ IF o'.k = "umount"
                           THEN /\ IF mp[o'.p] = NoMp
                                      THEN /\ done' = done + 1
                                           /\ pi' = pi + 1
                                           /\ hist' = Append(hist, <<0, "call_ret">>)
                                           /\ pc' = [pc EXCEPT ![0] = "m_next"]
                                           /\ UNCHANGED << mp, idx >>
                                      ELSE /\ idx' = mp[o'.p].idx
                                           /\ mp' = [mp EXCEPT ![o'.p] = NoMp]
                                           /\ hist' = Append(hist, <<0, "st_mp">>)
                                           /\ pc' = [pc EXCEPT ![0] = "u_sb"]
                                           /\ UNCHANGED << done, pi >>
                                /\ UNCHANGED << map, nexts >>
                           ELSE /\ idx' = Alloc(sb, nexts)
                                /\ IF idx' = 0
                                      THEN /\ done' = done + 1
                                           /\ pi' = pi + 1
                                           /\ hist' = Append(hist, <<0, "call_ret">>)
                                           /\ pc' = [pc EXCEPT ![0] = "m_next"]
                                           /\ UNCHANGED << map, nexts >>
                                      ELSE /\ nexts' = (idx' + 1) % (NIdx + 1)
                                           /\ map' = [map EXCEPT ![idx'] = o'.m]
                                           /\ hist' = Append(hist, <<0, "st_map">>)
                                           /\ pc' = [pc EXCEPT ![0] = "m_ins"]
                                           /\ UNCHANGED << done, pi >>
                                /\ mp' = mp
                ELSE /\ pc' = [pc EXCEPT ![0] = "Done"]
                     /\ UNCHANGED << mp, map, nexts, started, done, hist, pi, 
                                     o, idx >>
          /\ UNCHANGED << Init0, Program, ReqOps, sb, res, cd, rs, old, sb1, 
                          mp1, cidx, ctok, tgt, fs >>

u_sb == /\ pc[0] = "u_sb"
        /\ sb' = [sb EXCEPT ![idx] = NoFs]
        /\ hist' = Append(hist, <<0, "st_sb">>)
        /\ pc' = [pc EXCEPT ![0] = "u_map"]
        /\ UNCHANGED << Init0, Program, ReqOps, mp, map, nexts, started, done, 
                        res, cd, rs, pi, o, idx, old, sb1, mp1, cidx, ctok, 
                        tgt, fs >>

u_map == /\ pc[0] = "u_map"
         /\ map' = [map EXCEPT ![idx] = NoTok]
         /\ done' = done + 1
         /\ pi' = pi + 1
         /\ hist' = Append(hist, <<0, "st_map">>)
         /\ pc' = [pc EXCEPT ![0] = "m_next"]
         /\ UNCHANGED << Init0, Program, ReqOps, sb, mp, nexts, started, res, 
                         cd, rs, o, idx, old, sb1, mp1, cidx, ctok, tgt, fs >>

m_ins == /\ pc[0] = "m_ins"
         /\ sb1' = sb
         /\ old' = mp[o.p].idx
         /\ mp1' = [mp EXCEPT ![o.p] = [idx |-> idx, b |-> o.b, rtok |-> Eff(map, idx)]]
         /\ hist' = Append(hist, <<0, "ld_map">>)
         /\ IF old' # 0
               THEN /\ pc' = [pc EXCEPT ![0] = "m_mapo"]
               ELSE /\ pc' = [pc EXCEPT ![0] = "m_sb"]
         /\ UNCHANGED << Init0, Program, ReqOps, sb, mp, map, nexts, started, 
                         done, res, cd, rs, pi, o, idx, cidx, ctok, tgt, fs >>

m_mapo == /\ pc[0] = "m_mapo"
          /\ map' = [map EXCEPT ![old] = NoTok]
          /\ sb1' = [sb1 EXCEPT ![old] = NoFs]
          /\ hist' = Append(hist, <<0, "st_map">>)
          /\ pc' = [pc EXCEPT ![0] = "m_sb"]
          /\ UNCHANGED << Init0, Program, ReqOps, sb, mp, nexts, started, done, 
                          res, cd, rs, pi, o, idx, old, mp1, cidx, ctok, tgt, 
                          fs >>

m_sb == /\ pc[0] = "m_sb"
        /\ sb' = [sb1 EXCEPT ![idx] = o.b]
        /\ hist' = Append(hist, <<0, "st_sb">>)
        /\ pc' = [pc EXCEPT ![0] = "m_mp"]
        /\ UNCHANGED << Init0, Program, ReqOps, mp, map, nexts, started, done, 
                        res, cd, rs, pi, o, idx, old, sb1, mp1, cidx, ctok, 
                        tgt, fs >>

m_mp == /\ pc[0] = "m_mp"
        /\ mp' = mp1
        /\ done' = done + 1
        /\ pi' = pi + 1
        /\ hist' = Append(hist, <<0, "st_mp">>)
        /\ pc' = [pc EXCEPT ![0] = "m_next"]
        /\ UNCHANGED << Init0, Program, ReqOps, sb, map, nexts, started, res, 
                        cd, rs, o, idx, old, sb1, mp1, cidx, ctok, tgt, fs >>

mounter == m_next \/ u_sb \/ u_map \/ m_ins \/ m_mapo \/ m_sb \/ m_mp

r_call(self) == /\ pc[self] = "r_call"
                /\ cd' = [cd EXCEPT ![self] = done]
                /\ IF ReqOps[self] = "getattr_in"
                      THEN /\ ctok' = [ctok EXCEPT ![self] = Eff(map, I0(Init0))]
                           /\ cidx' = [cidx EXCEPT ![self] = I0(Init0)]
                           /\ hist' = Append(hist, <<self, "ld_map">>)
                           /\ pc' = [pc EXCEPT ![self] = "gi_sb"]
                      ELSE /\ cidx' = [cidx EXCEPT ![self] = mp[R].idx]
                           /\ hist' = Append(hist, <<self, "ld_mp">>)
                           /\ pc' = [pc EXCEPT ![self] = "r_ctx"]
                           /\ ctok' = ctok
                /\ UNCHANGED << Init0, Program, ReqOps, sb, mp, map, nexts, 
                                started, done, res, rs, pi, o, idx, old, sb1, 
                                mp1, tgt, fs >>

gi_sb(self) == /\ pc[self] = "gi_sb"
               /\ fs' = [fs EXCEPT ![self] = sb[cidx[self]]]
               /\ hist' = Append(hist, <<self, "ld_sb">>)
               /\ IF fs'[self] = NoFs
                     THEN /\ res' = [res EXCEPT ![self] = Fail]
                          /\ rs' = [rs EXCEPT ![self] = started]
                          /\ pc' = [pc EXCEPT ![self] = "Done"]
                     ELSE /\ pc' = [pc EXCEPT ![self] = "gi_out"]
                          /\ UNCHANGED << res, rs >>
               /\ UNCHANGED << Init0, Program, ReqOps, sb, mp, map, nexts, 
                               started, done, cd, pi, o, idx, old, sb1, mp1, 
                               cidx, ctok, tgt >>

gi_out(self) == /\ pc[self] = "gi_out"
                /\ res' = [res EXCEPT ![self] = [kind |-> "backend", be |-> fs[self], ino |-> B0(Init0), ctx |-> ctok[self], out |-> Eff(map, cidx[self]), idx |-> cidx[self]]]
                /\ rs' = [rs EXCEPT ![self] = started]
                /\ hist' = Append(hist, <<self, "ld_map">>)
                /\ pc' = [pc EXCEPT ![self] = "Done"]
                /\ UNCHANGED << Init0, Program, ReqOps, sb, mp, map, nexts, 
                                started, done, cd, pi, o, idx, old, sb1, mp1, 
                                cidx, ctok, tgt, fs >>

r_ctx(self) == /\ pc[self] = "r_ctx"
               /\ ctok' = [ctok EXCEPT ![self] = IF cidx[self] = 0 THEN GTok ELSE Eff(map, cidx[self])]
               /\ hist' = Append(hist, <<self, "ld_map">>)
               /\ pc' = [pc EXCEPT ![self] = "r_root"]
               /\ UNCHANGED << Init0, Program, ReqOps, sb, mp, map, nexts, 
                               started, done, res, cd, rs, pi, o, idx, old, 
                               sb1, mp1, cidx, tgt, fs >>

r_root(self) == /\ pc[self] = "r_root"
                /\ tgt' = [tgt EXCEPT ![self] = mp[R]]
                /\ hist' = Append(hist, <<self, "ld_mp">>)
                /\ IF tgt'[self] # NoMp
                      THEN /\ pc' = [pc EXCEPT ![self] = "rr_sb"]
                           /\ UNCHANGED << res, rs >>
                      ELSE /\ IF ReqOps[self] = "getattr_root"
                                 THEN /\ res' = [res EXCEPT ![self] = [Fail EXCEPT !.kind = "pseudo"]]
                                      /\ rs' = [rs EXCEPT ![self] = started]
                                      /\ pc' = [pc EXCEPT ![self] = "Done"]
                                 ELSE /\ pc' = [pc EXCEPT ![self] = "rp_mp"]
                                      /\ UNCHANGED << res, rs >>
                /\ UNCHANGED << Init0, Program, ReqOps, sb, mp, map, nexts, 
                                started, done, cd, pi, o, idx, old, sb1, mp1, 
                                cidx, ctok, fs >>

rr_sb(self) == /\ pc[self] = "rr_sb"
               /\ fs' = [fs EXCEPT ![self] = sb[tgt[self].idx]]
               /\ hist' = Append(hist, <<self, "ld_sb">>)
               /\ IF fs'[self] = NoFs
                     THEN /\ res' = [res EXCEPT ![self] = Fail]
                          /\ rs' = [rs EXCEPT ![self] = started]
                          /\ pc' = [pc EXCEPT ![self] = "Done"]
                     ELSE /\ pc' = [pc EXCEPT ![self] = "rr_out"]
                          /\ UNCHANGED << res, rs >>
               /\ UNCHANGED << Init0, Program, ReqOps, sb, mp, map, nexts, 
                               started, done, cd, pi, o, idx, old, sb1, mp1, 
                               cidx, ctok, tgt >>

rr_out(self) == /\ pc[self] = "rr_out"
                /\ res' = [res EXCEPT ![self] = [kind |-> "backend", be |-> fs[self], ino |-> tgt[self].b, ctx |-> ctok[self], out |-> Eff(map, tgt[self].idx), idx |-> tgt[self].idx]]
                /\ rs' = [rs EXCEPT ![self] = started]
                /\ hist' = Append(hist, <<self, "ld_map">>)
                /\ pc' = [pc EXCEPT ![self] = "Done"]
                /\ UNCHANGED << Init0, Program, ReqOps, sb, mp, map, nexts, 
                                started, done, cd, pi, o, idx, old, sb1, mp1, 
                                cidx, ctok, tgt, fs >>

rp_mp(self) == /\ pc[self] = "rp_mp"
               /\ tgt' = [tgt EXCEPT ![self] = mp[A]]
               /\ hist' = Append(hist, <<self, "ld_mp">>)
               /\ IF tgt'[self] # NoMp
                     THEN /\ res' = [res EXCEPT ![self] = [kind |-> "mproot", be |-> NoFs, ino |-> tgt'[self].b, ctx |-> NoTok, out |-> tgt'[self].rtok, idx |-> tgt'[self].idx]]
                          /\ rs' = [rs EXCEPT ![self] = started]
                          /\ pc' = [pc EXCEPT ![self] = "Done"]
                     ELSE /\ IF ReqOps[self] = "rdp_root"
                                THEN /\ res' = [res EXCEPT ![self] = [Fail EXCEPT !.kind = "pseudo"]]
                                     /\ rs' = [rs EXCEPT ![self] = started]
                                     /\ pc' = [pc EXCEPT ![self] = "Done"]
                                ELSE /\ pc' = [pc EXCEPT ![self] = "rp_map"]
                                     /\ UNCHANGED << res, rs >>
               /\ UNCHANGED << Init0, Program, ReqOps, sb, mp, map, nexts, 
                               started, done, cd, pi, o, idx, old, sb1, mp1, 
                               cidx, ctok, fs >>

rp_map(self) == /\ pc[self] = "rp_map"
                /\ res' = [res EXCEPT ![self] = [Fail EXCEPT !.kind = "pseudo"]]
                /\ rs' = [rs EXCEPT ![self] = started]
                /\ hist' = Append(hist, <<self, "ld_map">>)
                /\ pc' = [pc EXCEPT ![self] = "Done"]
                /\ UNCHANGED << Init0, Program, ReqOps, sb, mp, map, nexts, 
                                started, done, cd, pi, o, idx, old, sb1, mp1, 
                                cidx, ctok, tgt, fs >>

req(self) == r_call(self) \/ gi_sb(self) \/ gi_out(self) \/ r_ctx(self)
                \/ r_root(self) \/ rr_sb(self) \/ rr_out(self)
                \/ rp_mp(self) \/ rp_map(self)

(* Allow infinite stuttering to prevent deadlock on termination. *)
Terminating == /\ \A self \in ProcSet: pc[self] = "Done"
               /\ UNCHANGED vars

Next == mounter
           \/ (\E self \in Reqs: req(self))
           \/ Terminating

Spec == Init /\ [][Next]_vars

Termination == <>(\A self \in ProcSet: pc[self] = "Done")

\* END TRANSLATION 
=============================================================================
