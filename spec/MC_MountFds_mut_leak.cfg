SPECIFICATION Spec
CONSTANTS
  Ops <- Ops_B_FAIL
  Held0Set <- H_a
  Names <- NamesAll
  Mounts <- MountsAll
  MountOf <- MountOfAll
  Ctx = FALSE
  DropAlways = FALSE
  NoReprobe = FALSE
  LeakProbe = TRUE
INVARIANTS S1 Refines LiveRegistered S2 S3 LockSane ResOK 
VIEW View
