SPECIFICATION Spec
CONSTANTS
  Programs <- MC_Programs
  ReqChoices <- MC_Req1
  Inits <- MC_Inits
  NReq = 1
CONSTRAINT Valid
CHECK_DEADLOCK FALSE
INVARIANTS Export
