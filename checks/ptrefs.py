"""Passthrough references / resources / directory streams (engine: ptrefs): C08, C15, C16.

  spec/PtRefs.tla        A level: Refs, Resources, DirStream as pure operators over one state record
  spec/PtRefsImpl.tla    I level: InodeStore, HandleMap + cookie cache, fd accounting, do_readdir, pseudo fs
  spec/MC_PtRefs*.cfg    TLC: I => A within small bounds (+ FailAt(n) injection, resume patterns), and the
                         behaviours exported from there are replayed on the real code
  spec/Trace_PtRefs.tla  judges the NDJSON logs of harness/src/bin/ptrefs.rs (monitor mode)

Python only builds scenario lists, runs the harness and TLC, and reports the signatures TLC printed."""
import json
import os
import re

from . import common as C
from .wire import export_abi

LEVEL = {"C08": "model_checking", "C15": "model_checking", "C16": "model_checking"}

TREE = [["a", "f"], ["b", "f"], ["d0", "d"], ["d0/x", "f"], ["d0/c", "f"], ["d1", "d"], ["l", "l"]]


def pick(beh, n, seed):
    """a deterministic sample of n exported behaviours, those reaching a model-level signature first"""
    hot = [b for b in beh if b.get("viol")]
    rest = [b for b in beh if not b.get("viol")]
    step = max(1, len(rest) // max(1, n - min(len(hot), n // 2)))
    return hot[: n // 2] + rest[seed % step::step][: n - min(len(hot), n // 2)]


def cfg(fh=False, hostino=False, no_open=False, no_opendir=False, via="pt", seal=False):
    return {"fh": fh, "hostino": hostino, "no_open": no_open, "no_opendir": no_opendir, "via": via, "seal": seal}


O_RDWR, O_EXCL, O_TRUNC = os.O_RDWR, os.O_EXCL, os.O_TRUNC


def refusal_script(c):
    """every way an entry-returning request is refused on an existing name (a refused request must leave the counts
    alone): create with O_TRUNC (EPERM with seal_size) on a known-and-forgotten and on a never-seen file, create of a
    directory / symlink, O_EXCL, mknod / mkdir / symlink / link on existing names and into a file"""
    ops = [{"op": "lookup", "p": 1, "name": "a"}, {"op": "forget", "p": 2, "n": 1},
           {"op": "create", "p": 1, "name": "a", "flags": O_RDWR | O_TRUNC},
           {"op": "create", "p": 1, "name": "b", "flags": O_RDWR | O_TRUNC},
           {"op": "create", "p": 1, "name": "d0", "flags": O_RDWR},
           {"op": "create", "p": 1, "name": "d1", "flags": O_RDWR | O_TRUNC},
           {"op": "create", "p": 1, "name": "l", "flags": O_RDWR},
           {"op": "create", "p": 1, "name": "a", "flags": O_RDWR | O_EXCL},
           {"op": "mknod", "p": 1, "name": "a"}, {"op": "mkdir", "p": 1, "name": "b"}, {"op": "symlink", "p": 1, "name": "d0"},
           {"op": "mkdir", "p": 1, "name": "l"},
           {"op": "lookup", "p": 1, "name": "a"}, {"op": "link", "p2": 2, "p": 1, "name": "b"}, {"op": "link", "p2": 2, "p": 2, "name": "z"},
           {"op": "link", "p2": 1, "p": 1, "name": "rootlink"}, {"op": "mknod", "p": 2, "name": "in-a-file"},
           {"op": "quiesce"}]
    return {"cfg": c, "tree": TREE, "ops": ops}


def positive_script(c):
    """every entry-returning operation succeeding once, forgets (single, batched, over-counted), rename / unlink / hard link of
    referenced files, readdirplus delivering entries: the operation gates of C08 do not depend on the seed"""
    # handle ids: 1 = the handle create returns, 2 = opendir
    hd = 0 if c["no_opendir"] else (1 if c["no_open"] else 2)
    ops = [{"op": "lookup", "p": 1, "name": "a"}, {"op": "lookup", "p": 1, "name": "b"}, {"op": "forget", "p": 2, "n": 1},
           {"op": "lookup", "p": 1, "name": "a"}, {"op": "lookup", "p": 1, "name": "a"}, {"op": "forget", "p": 2, "n": 100},
           {"op": "mkdir", "p": 1, "name": "nd"}, {"op": "mknod", "p": 4, "name": "nn"}, {"op": "symlink", "p": 4, "name": "ns"},
           {"op": "create", "p": 4, "name": "nc", "flags": O_RDWR}, {"op": "link", "p2": 3, "p": 4, "name": "hl"},
           {"op": "rename", "p": 1, "name": "b", "p2": 4, "name2": "b2"}, {"op": "unlink", "p": 4, "name": "hl"}, {"op": "unlink", "p": 4, "name": "b2"},
           {"op": "batch_forget", "items": [[3, 1], [5, 2]]}, {"op": "opendir", "p": 1},
           {"op": "readdir", "p": 1, "h": hd, "size": 4096, "plus": True}, {"op": "readdir", "p": 1, "h": hd, "size": 200, "plus": True},
           {"op": "readdir", "p": 1, "h": hd, "size": 4096, "plus": False}, {"op": "rename", "p": 1, "name": "nd", "p2": 1, "name2": "nd2"},
           {"op": "lookup", "p": 4, "name": "nn"}, {"op": "rmdir", "p": 1, "name": "d1"}, {"op": "quiesce"}]
    return {"cfg": c, "tree": TREE, "ops": ops}


def reuse_script(c, n=4):
    """a referenced file loses its last name and new files are made right away (ext4 hands the freed host inode number to
    the next file): the new files must get numbers of their own (or, with use_host_ino, inherit the vanished file's)"""
    ops = [{"op": "lookup", "p": 1, "name": "a"}, {"op": "lookup", "p": 1, "name": "a"}, {"op": "unlink", "p": 1, "name": "a"}]
    ops += [{"op": "mknod", "p": 1, "name": "n%d" % i} for i in range(n)]
    ops += [{"op": "lookup", "p": 1, "name": "n0"}, {"op": "forget", "p": 2, "n": 1}, {"op": "lookup", "p": 1, "name": "n1"},
            {"op": "unlink", "p": 1, "name": "b"}, {"op": "create", "p": 1, "name": "a", "flags": O_RDWR}, {"op": "quiesce"}]
    return {"cfg": c, "tree": TREE, "ops": ops}


# ------------------------------------------------------------------------------------------------
# running and judging

_RE_VIOL = re.compile(r'<<\s*"VIOL",\s*"([^"]+)",\s*(\d+),\s*(\d+),\s*(\d+)\s*>>')


def viol_lines(output):
    """VIOL tuples printed by the trace spec (TLC wraps long tuples over several lines)"""
    out = []
    for m in _RE_VIOL.finditer(output):
        sig, _, det = m.group(1).partition("#")
        out.append((sig, int(m.group(2)), int(m.group(3)), int(m.group(4)), det))
    return out


def run_trace(ctx, scens, name, abi=None, timeout=3000):
    """scenarios -> harness -> TLC. Returns (rows, [(sig, line, seg, i)])."""
    bindir = C.build_harness(bins=["ptrefs"])
    sf = ctx.path(name + ".scen.ndjson")
    C.write_ndjson(sf, scens)
    out = ctx.path(name + ".ndjson")
    args = ["run", ctx.path("trees_" + name), out, sf] + ([abi] if abi else [])
    C.run_bin(bindir, "ptrefs", args, env={"VERIF_SEED": ctx.seed}, timeout=timeout)
    res = C.tlc_trace(ctx, "Trace_PtRefs", out, timeout=timeout, xmx="10g")
    if not res["accepted"]:
        raise C.ToolError("ptrefs trace not consumed: %s" % res["stuck"])
    rows = C.read_ndjson(out)
    viols = viol_lines(res["output"])
    ctx.traces += sum(1 for r in rows if r["e"] == "Cfg")
    ctx.events += len(rows)
    return rows, viols, out


def report(ctx, pid, rows, viols, scens):
    """ctx.violation for every signature of property pid; replay = the scenario + the events around the failure."""
    seen = {}
    for sig, line, seg, i, det in viols:
        if not sig.startswith(pid + "|"):
            continue
        if sig in seen:
            seen[sig] += 1
            ctx.violation(sig, None, None)
            continue
        seen[sig] = 1
        ctxrows = rows[max(0, line - 8):line + 1]
        scen = scens[seg - 1] if 0 < seg <= len(scens) else None
        if scen is not None and "tree" in scen and len(scen["tree"]) > 40:
            scen = dict(scen, tree=scen["tree"][:40] + [["...", "%d more" % (len(scen["tree"]) - 40)]])
        ctx.violation(sig, {"segment": seg, "event_in_segment": i, "what": det, "events": ctxrows[-4:]},
                      replay_src={"scenario": scen, "events_before": ctxrows, "seed": ctx.seed})
    return seen


def binding(ctx, rows, mutate, want_prefix, n=600):
    """corrupt a copy of the first n events of a real trace; TLC must flag it with want_prefix."""
    bad = [json.loads(json.dumps(r)) for r in rows[:n]]
    # cut at a segment boundary so that the copy is a well-formed log
    what = mutate(bad)
    bf = ctx.path("corrupt_%s.ndjson" % want_prefix.strip("|"))
    C.write_ndjson(bf, bad)
    res = C.tlc_trace(ctx, "Trace_PtRefs", bf)
    sigs = sorted({v[0] for v in viol_lines(res["output"]) if v[0].startswith(want_prefix)})
    if not sigs:
        raise C.ToolError("binding demo failed: corrupted trace accepted (%s: %s)" % (want_prefix, what))
    return {"corruption": what, "rejected_with": sigs}


def replay_file(ctx, pid):
    """--replay FILE: re-run the recorded scenario alone."""
    with open(ctx.replay) as f:
        d = json.load(f)
    scen = d.get("scenario", {}).get("scenario")
    if not scen:
        raise C.ToolError("replay file has no scenario")
    abi = export_abi(ctx) if scen["cfg"].get("via") == "server" else None
    rows, viols, _ = run_trace(ctx, [scen], "replay", abi=abi)
    report(ctx, pid, rows, viols, [scen])


# ------------------------------------------------------------------------------------------------
# model checking (I => A) and exported behaviours

_RE_REPLAY = re.compile(r'<<\s*"REPLAY",\s*"((?:[^"\\]|\\.)*)"\s*>>')

# operations every MC mode must have taken (vacuity gate, measured on the exported behaviours: `-coverage 1`
# makes TLC ~10x slower on these specs because every sub-expression of the A-level operators is counted)
MUST_TAKE = {
    "refs": {"lookup", "mknod", "create", "link", "unlink", "rename", "forget", "batch_forget", "readdir"},
    "res": {"lookup", "create", "open", "opendir", "release", "releasedir", "read", "write", "readdir", "forget", "destroy", "init"},
    "dir": set(),
}


def exported(r):
    """behaviours printed by the MC run as <<"REPLAY", "<json>">> tuples"""
    out = []
    for m in _RE_REPLAY.finditer(r["output"]):
        try:
            out.append(json.loads(m.group(1).replace('\\"', '"').replace("\\\\", "\\")))
        except ValueError:
            pass
    return out


def mc(ctx, mode):
    """I => A by TLC. An invariant violation is a design-level candidate: reported as model drift / candidate in the
    evidence; the verdict on the CODE comes from replaying the exported behaviours (the trace spec is the judge)."""
    if os.environ.get("PTREFS_NOMC"):      # development aid only
        return [], {}
    cf = "MC_PtRefs_%s%s.cfg" % (mode, "_quick" if ctx.quick else "")
    r = C.tlc_mc(ctx, "MC_PtRefs", cfg=cf, workers=8, timeout=1500, cont=True, coverage=False, must_cover=False)
    beh = exported(r)
    if r["violated"]:
        ctx.drift.append({"mc": cf, "violated_invariants": r["violated"],
                          "note": "the I-level model admits an observation A rejects beyond the signatures of the BUG switches"})
        C.log("MC %s: invariants violated at model level: %s" % (cf, r["violated"]))
    taken = {}
    sigs = {}
    for b in beh:
        for o in b["ops"]:
            k = o["op"] if isinstance(o, dict) else "dirop"
            taken[k] = taken.get(k, 0) + 1
        for v in b.get("viol", []):
            sigs[v] = sigs.get(v, 0) + 1
    missing = MUST_TAKE[mode] - set(taken)
    if missing or not beh:
        raise C.ToolError("vacuity gate: MC %s never took %s (exported %d behaviours)" % (cf, sorted(missing), len(beh)))
    info = {"cfg": cf, "distinct": r["distinct"], "generated": r["generated"], "wall_s": r["wall_s"], "exported": len(beh),
            "ops_taken_in_exported": taken, "model_level_signatures": sigs, "invariants_violated": r["violated"]}
    info["anti_vacuity"] = asfound(ctx, mode)
    return beh, info


# the defect each check found in the code as it was (fixed in /repo): with the corresponding switch of the I-level model
# back on, TLC must find the old signature again
AS_FOUND = {
    "refs": ("BUG_CREATE_LEAK", r'C08\|create-failed\|(stale-number-resolves|inode-objects-surplus|refcount|inode-not-released)'),
    "res": ("BUG_PROBE_LEAK", r'C15\|mc\|any\|fds'),
    "dir": ("BUG_DOTS", r'C16\|pt\|empty-before-end\|dots-fill-buffer'),
}


def asfound(ctx, mode):
    """anti-vacuity self-test; nothing of this run is counted as evidence of the property"""
    switch, sig = AS_FOUND[mode]
    cf = "MC_PtRefs_%s_asfound.cfg" % mode
    r = C.tlc_mc(ctx, "MC_PtRefs", cfg=cf, workers=4, timeout=600, coverage=False, must_cover=False, expect_violation=True)
    ctx.states -= r["distinct"]
    ctx.transitions -= r["generated"]
    ctx.mc_runs.pop()
    found = sorted({m.group(0) for m in re.finditer(sig, r["output"])})
    if "NoViolStrict" not in r["violated"] or not found:
        C.log(r["output"][-2000:])
        raise C.ToolError("anti-vacuity: the I-level model with %s = TRUE (%s) no longer yields the signature %s" % (switch, cf, sig))
    return {"cfg": cf, "switch": switch, "invariant_violated": "NoViolStrict", "signatures_found": found, "wall_s": r["wall_s"]}


# ------------------------------------------------------------------------------------------------
# C08

def c08_scens(ctx):
    scens = []
    hist = 6 if ctx.quick else 30
    steps = 120 if ctx.quick else 400
    cfgs = [cfg(fh=fh, hostino=hostino) for fh in (False, True) for hostino in (False, True)]
    cfgs += [cfg(fh=fh, seal=True) for fh in (False, True)]
    for i, c in enumerate(cfgs):
        for k in range(hist if not c["seal"] else max(2, hist // 2)):
            scens.append({"cfg": c, "tree": TREE, "random": {"kind": "refs", "seed": ctx.seed * 1000 + k * 8 + i, "steps": steps}})
        scens.append(refusal_script(c))
        scens.append(reuse_script(c))
    # scripted scenarios first: the binding demonstration and the operation gates work on seed-independent events
    return [positive_script(c) for c in cfgs] + scens


def run_c08(ctx):
    if ctx.replay:
        return replay_file(ctx, "C08")
    beh, mcinfo = mc(ctx, "refs")
    scens = []
    for b in pick(beh, 200 if ctx.quick else 2000, ctx.seed):
        scens.append({"cfg": cfg(fh=b["fh"], hostino=b["hostino"], no_opendir=b["no_opendir"], seal=b["seal"]), "tree": [["a", "p" if b["special"] else "f"]],
                      "ops": b["ops"] + [{"op": "quiesce"}]})
    n_exp = len(scens)
    scens = c08_scens(ctx) + scens
    rows, viols, out = run_trace(ctx, scens, "c08")
    seen = report(ctx, "C08", rows, viols, scens)

    def mut(bad):
        done = []
        for r in bad:
            if r["e"] == "Probe" and len(r["rows"]) > 2 and "stale" not in done and any(x[1] == "EBADF" for x in r["rows"]):
                for x in r["rows"]:
                    if x[1] == "EBADF":
                        x[1], x[2] = "OK", 1
                        break
                done.append("stale")
            if r["e"] == "Op" and r["op"] == "forget" and r["n"] == 1 and "forget" not in done and r["p"] > 1:
                r["n"] = 0
                done.append("forget")
        return "one probe of a forgotten number answers OK; one forget(k,1) logged as forget(k,0): %s" % done
    demo = binding(ctx, rows, mut, "C08|", n=900)
    ops = {}
    for r in rows:
        if r["e"] == "Op":
            ops[(r["op"], r["status"])] = ops.get((r["op"], r["status"]), 0) + 1
    need = {("lookup", "OK"), ("create", "OK"), ("mkdir", "OK"), ("mknod", "OK"), ("symlink", "OK"), ("link", "OK"), ("forget", "OK"),
            ("batch_forget", "OK"), ("unlink", "OK"), ("rename", "OK"),
            # refused entry-returning requests (they must leave the counts alone)
            ("create", "EPERM"), ("create", "EISDIR"), ("create", "EEXIST"), ("mknod", "EEXIST"), ("mkdir", "EEXIST"), ("symlink", "EEXIST"),
            ("link", "EEXIST"), ("link", "ENOTDIR")}
    if not need <= set(ops):
        raise C.ToolError("coverage gate: operations never succeeded in C08 histories: %s" % sorted(need - set(ops)))
    plus = sum(1 for r in rows if r["e"] == "Dir" and r["plus"] and r["ents"])
    if plus == 0:
        raise C.ToolError("coverage gate: no readdirplus delivered entries in C08 histories")
    ctx.extra.update({
        "distinct_nontrivial": len(ops),
        "rule": "histories = %d TLC-exported behaviours of PtRefsImpl + %d seeded random histories x {inode_file_handles} x {use_host_ino}; after every step getattr on every number ever seen + verif_refcount + table sizes; distinct = (operation, status) pairs" % (n_exp, len(scens) - n_exp),
        "binding_demo": [demo],
        "op_status_counts": {"%s:%s" % k: v for k, v in sorted(ops.items())},
        "readdirplus_replies_with_entries": plus,
        "exported_behaviours_replayed": n_exp,
        "model_checking": mcinfo,
    })
    for r in [x for x in rows if x["e"] == "Op" and x["op"] in ("link", "rename")][:2]:
        ctx.sample(r)
    ctx.sample(next((x for x in rows if x["e"] == "Probe" and len(x["rows"]) > 3), rows[2]))
    ctx.assumptions += [
        "file identity = name_to_handle_at bytes (inode + generation) from a stat walk after every step",
        "inode_file_handles: once a referenced file has lost its last host name its number is unconstrained (the property exempts unlink there)",
        "destroy ends the session (numbers and counts start over)",
    ]


# ------------------------------------------------------------------------------------------------
# C15

def inj_scripts(c, nmax):
    """fault-injection scenarios for configuration c: set-up, ONE operation under FailAt(n), quiescence."""
    hf = 0 if c["no_open"] else 1
    hd = 0 if c["no_opendir"] else hf + 1
    setup = [{"op": "lookup", "p": 1, "name": "a"}, {"op": "lookup", "p": 1, "name": "d0"}]
    if hf:
        setup.append({"op": "open", "p": 2, "flags": os.O_RDWR})
    if hd:
        setup.append({"op": "opendir", "p": 3})
    targets = [
        {"op": "lookup", "p": 1, "name": "b"}, {"op": "lookup", "p": 1, "name": "a"}, {"op": "lookup", "p": 3, "name": "x"},
        {"op": "create", "p": 1, "name": "n", "flags": os.O_RDWR}, {"op": "create", "p": 1, "name": "a", "flags": os.O_RDWR},
        {"op": "create", "p": 1, "name": "l", "flags": os.O_RDWR}, {"op": "create", "p": 3, "name": "x", "flags": os.O_WRONLY},
        {"op": "mkdir", "p": 1, "name": "nd"}, {"op": "mknod", "p": 3, "name": "nn"}, {"op": "symlink", "p": 1, "name": "ns"},
        {"op": "link", "p2": 2, "p": 3, "name": "nl"},
        {"op": "open", "p": 2, "flags": os.O_RDWR}, {"op": "opendir", "p": 3},
        {"op": "read", "p": 2, "h": hf, "size": 8}, {"op": "write", "p": 2, "h": hf}, {"op": "fsync", "p": 2, "h": hf},
        {"op": "readdir", "p": 3, "h": hd, "size": 4096, "plus": False}, {"op": "readdir", "p": 3, "h": hd, "size": 4096, "plus": True},
        {"op": "readdir", "p": 1, "h": 99, "size": 200, "plus": True},
        {"op": "getattr", "p": 2}, {"op": "unlink", "p": 1, "name": "b"}, {"op": "rename", "p": 1, "name": "a", "p2": 3, "name2": "a2"},
        {"op": "destroy"}, {"op": "init"},
        # RELEASE with every flag combination (1 = FLUSH, 2 = FLOCK_UNLOCK) and RELEASEDIR: a release always ends the handle
        {"op": "release", "p": 2, "h": hf, "flags": 0}, {"op": "release", "p": 2, "h": hf, "flags": 1},
        {"op": "release", "p": 2, "h": hf, "flags": 2}, {"op": "release", "p": 2, "h": hf, "flags": 3},
        {"op": "releasedir", "p": 3, "h": hd},
    ]
    out = []
    for t in targets:
        for n in range(min(nmax, 2) if t["op"].startswith("release") else nmax):
            pre = list(setup)
            if t["op"] == "init":
                pre = pre + [{"op": "destroy"}]
            post = [{"op": "init"}] if t["op"] in ("destroy", "init") else []
            out.append({"cfg": c, "tree": TREE, "ops": pre + [dict(t, fail_at=n)] + post + [{"op": "quiesce"}]})
    return out


def refused_write_script(c):
    """a request on a handle is refused (seal_size: extending write -> EPERM; elsewhere: a write through a handle of another
    inode) and the handle is used again, with opens of other files in between: it must keep denoting its file"""
    hid = 0 if c["no_open"] else 1
    ops = [{"op": "lookup", "p": 1, "name": "a"}, {"op": "lookup", "p": 1, "name": "b"}, {"op": "open", "p": 2, "flags": O_RDWR},
           {"op": "write", "p": 2, "h": hid, "off": "100"}, {"op": "write", "p": 3, "h": hid, "off": "0"},
           {"op": "open", "p": 3, "flags": O_RDWR},
           {"op": "getattr_h", "p": 2, "h": hid}, {"op": "read", "p": 2, "h": hid, "size": 8}, {"op": "write", "p": 2, "h": hid, "off": "0"},
           {"op": "write", "p": 2, "h": hid, "off": "5000"}, {"op": "lookup", "p": 1, "name": "d0"}, {"op": "opendir", "p": 4},
           {"op": "getattr_h", "p": 2, "h": hid}, {"op": "release", "p": 2, "h": hid},
           {"op": "getattr_h", "p": 3, "h": 0 if c["no_open"] else 2}, {"op": "read", "p": 3, "h": 0 if c["no_open"] else 2, "size": 8},
           {"op": "quiesce"}]
    return {"cfg": c, "tree": TREE, "ops": ops}


def dir_open_script(c):
    """a DIRECTORY opened with OPEN (read-only), listed through that handle (the last read is not empty: a directory
    position is recorded for it) and released with RELEASE; OPENDIR handles released with RELEASEDIR; the census at
    quiescence must be back at the baseline (no directory-position record left)"""
    if c["no_open"]:
        return {"cfg": c, "tree": TREE, "ops": [{"op": "lookup", "p": 1, "name": "d0"}, {"op": "open", "p": 2, "flags": 0}, {"op": "quiesce"}]}
    ops = [{"op": "lookup", "p": 1, "name": "d0"}, {"op": "open", "p": 2, "flags": 0},
           {"op": "readdir", "p": 2, "h": 1, "size": 4096, "plus": False}, {"op": "readdir", "p": 2, "h": 1, "size": 64, "plus": False},
           {"op": "getattr_h", "p": 2, "h": 1}, {"op": "release", "p": 2, "h": 1, "flags": 0},
           {"op": "open", "p": 1, "flags": 0}, {"op": "readdir", "p": 1, "h": 2, "size": 4096, "plus": True}, {"op": "release", "p": 1, "h": 2, "flags": 1},
           {"op": "opendir", "p": 2}, {"op": "readdir", "p": 2, "h": 3, "size": 4096, "plus": False}, {"op": "releasedir", "p": 2, "h": 3},
           {"op": "quiesce"}]
    return {"cfg": c, "tree": TREE, "ops": ops}


def misuse_script(c):
    """handles used with another inode, after their release, and handles never issued: all refused"""
    hf = 0 if c["no_open"] else 1
    ops = [{"op": "lookup", "p": 1, "name": "a"}, {"op": "lookup", "p": 1, "name": "b"}, {"op": "open", "p": 2, "flags": O_RDWR},
           {"op": "read", "p": 3, "h": hf, "size": 8}, {"op": "release", "p": 3, "h": hf}, {"op": "read", "p": 2, "h": 9, "size": 8},
           {"op": "read", "p": 2, "h": hf, "size": 8}, {"op": "release", "p": 2, "h": hf, "flags": 3}, {"op": "release", "p": 2, "h": hf},
           {"op": "read", "p": 2, "h": hf, "size": 8}, {"op": "write", "p": 2, "h": hf, "off": "0"}, {"op": "releasedir", "p": 2, "h": hf},
           {"op": "quiesce"}]
    return {"cfg": c, "tree": TREE, "ops": ops}


def reinit_script(c):
    """INIT again without DESTROY while handles are open: the handles stay valid and distinct from every later one; then
    DESTROY + INIT (remount): everything is released"""
    f1 = 0 if c["no_open"] else 1
    d1 = 0 if c["no_opendir"] else f1 + 1
    ops = [{"op": "lookup", "p": 1, "name": "a"}, {"op": "lookup", "p": 1, "name": "b"}, {"op": "open", "p": 2, "flags": O_RDWR},
           {"op": "opendir", "p": 1}, {"op": "init"},
           {"op": "open", "p": 3, "flags": O_RDWR}, {"op": "getattr_h", "p": 2, "h": f1}, {"op": "read", "p": 2, "h": f1, "size": 8},
           {"op": "open", "p": 3, "flags": O_RDWR}, {"op": "opendir", "p": 1}, {"op": "readdir", "p": 1, "h": d1, "size": 4096, "plus": False},
           {"op": "getattr_h", "p": 2, "h": f1}, {"op": "create", "p": 1, "name": "n", "flags": O_RDWR}, {"op": "getattr_h", "p": 2, "h": f1},
           {"op": "release", "p": 2, "h": f1}, {"op": "init"}, {"op": "lookup", "p": 1, "name": "a"},
           {"op": "destroy"}, {"op": "init"}, {"op": "lookup", "p": 1, "name": "a"}, {"op": "open", "p": 2, "flags": O_RDWR}, {"op": "quiesce"}]
    return {"cfg": c, "tree": TREE, "ops": ops}


def c15_scens(ctx):
    scens = []
    cfgs = [cfg(fh=fh, no_open=no, no_opendir=nod, hostino=(fh and no)) for fh in (False, True) for no in (False, True) for nod in (False, True)]
    cfgs += [cfg(fh=fh, seal=True) for fh in (False, True)] + [cfg(no_open=True, no_opendir=True, seal=True)]
    hist = 3 if ctx.quick else 20
    steps = 100 if ctx.quick else 300
    n_inj = 0
    for c in cfgs:
        for k in range(hist):
            scens.append({"cfg": c, "tree": TREE, "random": {"kind": "res", "seed": ctx.seed * 1000 + k * 8 + cfgs.index(c), "steps": steps}})
        # quick: injection in the four configurations with no_open = no_opendir, n = 0..3; thorough: all eight, n = 0..8
        inj = [] if (c["seal"] or (ctx.quick and c["no_open"] != c["no_opendir"])) else inj_scripts(c, 4 if ctx.quick else 9)
        n_inj += len(inj)
        scens += inj
        scens.append(refused_write_script(c))
        scens.append(reinit_script(c))
        scens.append(dir_open_script(c))
    return scens, hist, n_inj, cfgs


def run_c15(ctx):
    if ctx.replay:
        return replay_file(ctx, "C15")
    beh, mcinfo = mc(ctx, "res")
    scens = []
    for b in pick(beh, 150 if ctx.quick else 2000, ctx.seed):
        scens.append({"cfg": cfg(fh=b["fh"], no_open=b["no_open"], no_opendir=b["no_opendir"], seal=b["seal"]), "tree": [["a", "p" if b["special"] else "f"]],
                      "ops": b["ops"] + [{"op": "quiesce"}]})
    n_exp = len(scens)
    more, hist, n_inj, cfgs = c15_scens(ctx)
    # scripted scenarios first: the binding demonstration and the gates work on seed-independent events
    scens = [misuse_script(c) for c in cfgs] + scens + more
    rows, viols, out = run_trace(ctx, scens, "c15")
    report(ctx, "C15", rows, viols, scens)

    def mut(bad):
        done = []
        for r in bad:
            if r["e"] == "Res" and r["handles"] == 0 and r["inodes"] == 1 and "fds" not in done and r["i"] > 20:
                r["fds"] += 1
                done.append("fds")
            if r["e"] == "Op" and r["op"] in ("release", "releasedir") and r["status"] == "EBADF" and "rel" not in done:
                r["status"] = "OK"
                done.append("rel")
        return "one quiescent census reports one descriptor more; one refused release logged as accepted: %s" % done
    demo = binding(ctx, rows, mut, "C15|", n=1500)
    # coverage gates: every configuration reached quiescence; injection produced EMFILE and succeeded for large n
    quiet = {}
    tag = None
    for r in rows:
        if r["e"] == "Cfg":
            tag = r["tag"]
        if r["e"] == "Res" and r["handles"] == 0 and r["inodes"] == 1:
            quiet[tag] = quiet.get(tag, 0) + 1
    inj_stat = {}
    for r in rows:
        if r["e"] in ("Op", "Dir") and r.get("fail_at", -1) >= 0:
            op = r.get("op", "readdir")
            inj_stat.setdefault(op, set()).add(r["status"])
    if len(quiet) < 11:
        raise C.ToolError("coverage gate: configurations without a quiescent census: %s" % sorted(quiet))
    if not any("EMFILE" in v for v in inj_stat.values()):
        raise C.ToolError("coverage gate: EMFILE injection never fired")
    up, reinits = True, 0
    for r in rows:
        if r["e"] == "Cfg":
            up = True
        elif r["e"] == "Op" and r["op"] == "destroy":
            up = False
        elif r["e"] == "Op" and r["op"] == "init" and r["status"] == "OK":
            reinits += up
            up = True
    if reinits == 0:
        raise C.ToolError("coverage gate: no second INIT without DESTROY in the C15 histories")
    refused_w = sum(1 for r in rows if r["e"] == "Op" and r["op"] == "write" and r["status"] == "EPERM")
    if refused_w == 0:
        raise C.ToolError("coverage gate: no write was refused by seal_size (the handle must survive a refused request)")
    misuse = sum(1 for r in rows if r["e"] == "Op" and r["op"] in ("release", "releasedir", "read", "write") and r["status"] == "EBADF")
    ctx.extra.update({
        "distinct_nontrivial": len(quiet) * len(inj_stat),
        "rule": "%d TLC-exported behaviours + %d random histories + %d injection scenarios (set-up, one operation under RLIMIT_NOFILE = highest fd + 1 + n, clean-up) x {no_open} x {no_opendir} x {inode_file_handles}; each in a fresh single-threaded process; distinct = configurations x injected operations" % (n_exp, hist * len(cfgs), n_inj),
        "binding_demo": [demo],
        "quiescent_censuses_per_cfg": quiet,
        "injected_op_statuses": {k: sorted(v) for k, v in sorted(inj_stat.items())},
        "refused_misuses": misuse,
        "writes_refused_by_seal_size": refused_w,
        "inits_without_destroy": reinits,
        "exported_behaviours_replayed": n_exp,
        "model_checking": mcinfo,
    })
    ctx.sample(next(x for x in rows if x["e"] == "Cfg"))
    ctx.sample(next((x for x in rows if x["e"] == "Op" and x.get("fail_at", -1) >= 0 and x["status"] == "EMFILE"), rows[4]))
    ctx.assumptions += [
        "baseline = census of the same server right after start-up in the same process (descriptors 0,1,2 + trace file + the server's own)",
        "only quiescent states are constrained (no live handle, every count zero), componentwise 'no more than'",
        "EMFILE at the (n+1)-th allocation by RLIMIT_NOFILE = highest open descriptor + 1 + n; with holes below the highest descriptor the failure moves to a later allocation, every n in 0..8 is tried",
    ]


# ------------------------------------------------------------------------------------------------
# C16

def dir_tree(n, seed):
    """n entries under dd/ with name lengths covering 1..255 (every length mod 8), a few directories, symlinks, fifos and dot-names"""
    lens = [1, 2, 3, 4, 5, 6, 7, 8, 9, 15, 16, 17, 23, 24, 25, 63, 64, 65, 127, 200, 248, 254, 255]
    if n > 400:
        lens = list(range(1, 256))
    tree = [["dd", "d"]]
    cnt = {}
    special = [".a", "..a", "...", ".hidden", "..", "."]
    for i in range(n):
        if i < 4 and n >= 17:
            nm = special[i]
        else:
            L = lens[(i * 7 + seed) % len(lens)]
            k = cnt.get(L, 0)
            cnt[L] = k + 1
            s = ""
            kk = k
            while True:
                s = "0123456789abcdefghijklmnopqrstuvwxyz"[kk % 36] + s
                kk //= 36
                if kk == 0:
                    break
            if len(s) > L:
                L = len(s) + 1
            nm = ("n" * (L - len(s))) + s if L > len(s) else s
        kind = "d" if i % 11 == 3 else "l" if i % 13 == 5 else "p" if i % 17 == 7 else "f"
        tree.append(["dd/" + nm, kind])
    return tree


def c16_scens(ctx):
    scens = []
    sizes = [0, 1, 2, 17, 300] if ctx.quick else [0, 1, 2, 17, 300, 3000]
    steps = 120 if ctx.quick else 900
    k = 0
    for n in sizes:
        for via in ("pt", "vfs", "server"):
            for nod in (False, True):
                # the biggest directory of a tier is listed on two routes only (TLC time is linear in events x directory size)
                if n == sizes[-1] and (via, nod) not in (("pt", False), ("server", True)):
                    continue
                k += 1
                st = 12 if n == 0 else steps // 3 if n >= 3000 else steps
                scens.append({"cfg": cfg(no_opendir=nod, via=via, fh=(k % 5 == 0)), "tree": dir_tree(n, ctx.seed + k), "dir": "dd",
                              "random": {"kind": "dir", "seed": ctx.seed * 100 + k, "steps": st}})
    for m in ([0, 1, 3, 40] if ctx.quick else [0, 1, 2, 3, 17, 120]):
        names = [x[0][3:] for x in dir_tree(m, ctx.seed)[1:] if x[0][3:] not in (".", "..")]
        for nod in (False, True):
            k += 1
            scens.append({"cfg": cfg(no_opendir=nod, via="pseudo"), "tree": [["a", "f"]], "mounts": names, "dir": "p" if names else "",
                          "random": {"kind": "dir", "seed": ctx.seed * 100 + k, "steps": steps if m else 12}})
    return scens, sizes, steps


def run_c16(ctx):
    if ctx.replay:
        return replay_file(ctx, "C16")
    abi = export_abi(ctx)
    beh, mcinfo = mc(ctx, "dir")
    scens = []
    for b in pick(beh, 200 if ctx.quick else 3000, ctx.seed):
        if b["via"] == "pseudo":
            scens.append({"cfg": cfg(no_opendir=b["no_opendir"], via="pseudo"), "tree": [["a", "f"]], "mounts": b["names"],
                          "dir": "p" if b["names"] else "", "pattern": b["ops"]})
        else:
            via = ["pt", "server", "vfs"][len(scens) % 3]
            scens.append({"cfg": cfg(no_opendir=b["no_opendir"], via=via), "tree": [["dd", "d"]] + [["dd/" + n, "f"] for n in b["names"]],
                          "dir": "dd", "pattern": b["ops"]})
    n_exp = len(scens)
    more, sizes, steps = c16_scens(ctx)
    scens += more
    rows, viols, out = run_trace(ctx, scens, "c16", abi=abi)
    report(ctx, "C16", rows, viols, scens)

    def mut(bad):
        done = []
        for r in bad:
            if r["e"] == "Dir" and len(r["ents"]) >= 2 and r["i"] > 30 and "swap" not in done:
                r["ents"][0][0], r["ents"][1][0] = r["ents"][1][0], r["ents"][0][0]
                done.append("swap")
            elif r["e"] == "Dir" and len(r["ents"]) >= 1 and r["i"] > 40 and "drop" not in done and "swap" in done:
                r["ents"] = []
                r["bytes"] = 0
                done.append("drop")
        return "names of two entries of a later reply swapped; one later non-empty reply logged as empty: %s" % done
    # the segment with the most multi-entry replies late enough to be resumptions (not the learning pass)
    starts = [i for i, r in enumerate(rows) if r["e"] == "Cfg"] + [len(rows)]
    score = lambda a, b: sum(1 for x in rows[a:min(b, a + 3000)] if x["e"] == "Dir" and len(x["ents"]) >= 2 and x["i"] > 40)
    big, end = max(zip(starts, starts[1:]), key=lambda ab: score(*ab))
    demo = binding(ctx, rows[big:end], mut, "C16|", n=3000)
    vias = {}
    shapes = set()
    via = None
    for r in rows:
        if r["e"] == "Cfg":
            via = (r["via"], r["no_opendir"])
        if r["e"] == "Dir" and r["status"] == "OK":
            vias[via] = vias.get(via, 0) + 1
            shapes.add((via, r["plus"], r["off"] == "0", len(r["ents"]) == 0, min(len(r["ents"]), 3)))
    if len(vias) < 8:
        raise C.ToolError("coverage gate: listing routes not all exercised: %s" % sorted(vias))
    ctx.extra.update({
        "distinct_nontrivial": len(shapes),
        "rule": "%d TLC-exported resume patterns + directories of %s entries (name lengths 1..255, dot-names, 4 file types) x {passthrough, Vfs-wrapped, Server+wire codec} x {no_opendir} and pseudo directories of mount points; %d random resume steps each over two handles (sequential, back, rewind, replay of any returned offset, exact-fit to 64 KiB buffers, plain/plus), closing sequential passes; distinct = (route, plus, from start, empty, entries delivered 0..3+)" % (n_exp, sizes, steps),
        "binding_demo": [demo],
        "replies_per_route": {"%s%s" % (k[0], "+no_opendir" if k[1] else ""): v for k, v in sorted(vias.items())},
        "exported_behaviours_replayed": n_exp,
        "model_checking": mcinfo,
    })
    ctx.sample(next((x for x in rows if x["e"] == "Dir" and len(x["ents"]) == 2), rows[3]))
    ctx.assumptions += [
        "the directory is unchanged while it is listed; the stream order is learned from the replies and must be the same on every later observation",
        "a buffer smaller than the packed size of the next entry may be answered by an error or an empty reply (precondition of the property)",
        "FUSE_LSEEK on a directory handle is not one of the property's ways of resuming and is not exercised",
        "dirent.ino is not constrained by C16 (readdirplus reports the host st_ino, readdir the FUSE number: DESIGN S11)",
    ]


PROPS = {"C08": run_c08, "C15": run_c15, "C16": run_c16}
