------------------------------ MODULE Trace_Wire ------------------------------
(* Trace specification for the wire family: judges recorded request transactions (`Tx` events
   written by harness/src/bin/wire.rs from runs of the real Server) against FuseWire.
   Monitor mode: each failed obligation prints <<"VIOL", signature, index, detail>> and
   validation continues. Signatures start with the property id (C01, C02, C03, C17). *)
EXTENDS FuseWire, Json, IOUtils, Sequences, Integers
Rec == ndJsonDeserialize(IOEnv.TRACE)
VARIABLES l
vars == <<l>>

Viol(sig, detail) == PrintT(<<"VIOL", sig, l, detail>>)
Chk(ok, sig, detail) == IF ok THEN TRUE ELSE Viol(sig, detail)
Dom(r) == DOMAIN r

NonRemap(t) == SelectSeq(t.calls, LAMBDA c : c.m # "id_remap")
Remaps(t) == SelectSeq(t.calls, LAMBDA c : c.m = "id_remap")

(* ---------------- C02: decode ---------------- *)
HdrCtx(t) == [uid |-> t.req.h.uid, gid |-> t.req.h.gid, pid |-> t.req.h.pid]
NoCtx == {"destroy", "notify_reply", "init"}
C02(t) ==
  LET o == t.op
      exp == Decode(o, t.req)
      ops == NonRemap(t)
      rm == Remaps(t)
  IN IF exp.m = "none"
     THEN Chk(ops = <<>>, "C02|" \o o \o "|unexpected-call", ops)
     ELSE /\ Chk(Len(ops) = 1, "C02|" \o o \o "|calls|" \o ToString(Len(ops)), [calls |-> [i \in 1..Len(ops) |-> ops[i].m]])
          /\ Len(ops) = 0 \/
             LET c == ops[1] IN
             /\ Chk(c.m = exp.m, "C02|" \o o \o "|method|" \o c.m, <<c.m, exp.m>>)
             /\ c.m # exp.m \/
                /\ \A a \in Dom(exp.args) :
                     /\ Chk(a \in Dom(c.args), "C02|" \o o \o "|arg-missing|" \o a, a)
                     /\ a \notin Dom(c.args) \/ Chk(c.args[a] = exp.args[a], "C02|" \o o \o "|arg|" \o a, <<c.args[a], exp.args[a]>>)
                /\ Chk(Dom(c.args) \subseteq Dom(exp.args) \cup {"data_some"}, "C02|" \o o \o "|arg-extra", Dom(c.args) \ Dom(exp.args))
                /\ o # "IOCTL" \/ Chk(c.args.data_some = (t.req.pay.len > 0), "C02|IOCTL|arg|data-none-when-empty", c.args.data_some)
             \* the caller ids the operation sees are the translated header ids
             /\ c.m \in NoCtx \/
                /\ Chk(Len(rm) >= 1, "C02|" \o o \o "|no-id-remap", rm)
                /\ Len(rm) = 0 \/
                   /\ Chk(rm[1]["in"] = HdrCtx(t) /\ rm[1].nodeid = t.req.h.nodeid, "C02|" \o o \o "|remap-input", <<rm[1], HdrCtx(t)>>)
                   /\ Chk(c.ctx = rm[Len(rm)].out, "C02|" \o o \o "|ctx", <<c.ctx, rm[Len(rm)].out>>)

(* ---------------- C03: encode ---------------- *)
ShapeSize(kind) == LET sh == ReplyShape[kind] IN
   IF Len(sh) = 0 THEN 0 ELSE IF Len(sh) = 1 THEN StructSize[sh[1]] ELSE StructSize[sh[1]] + StructSize[sh[2]]
HasPay(kind) == kind \in {"bytes", "ioctl"}
RECURSIVE DirentsOK(_, _, _, _, _, _)
\* offered entries (in order) against parsed entries: acceptance by remaining space, fields equal
DirentsOK(o, off, got, used, size, plus) ==
  IF off = <<>> THEN Chk(got = <<>>, "C03|" \o o \o "|dirents|extra-entries", got)
  ELSE LET d == Head(off)
           sz == PackedSize(d.namelen, plus)
           fits == sz <= size - used
       IN IF ~fits
          THEN /\ Chk(d.ret = 0, "C03|" \o o \o "|dirents|accepted-entry-that-does-not-fit", d)
               /\ Chk(got = <<>>, "C03|" \o o \o "|dirents|extra-entries", got)
          ELSE /\ Chk(d.ret = sz, "C03|" \o o \o "|dirents|add-entry-result", <<d.ret, sz>>)
               /\ Chk(got # <<>>, "C03|" \o o \o "|dirents|entry-lost", d)
               /\ got = <<>> \/
                  LET g == Head(got) IN
                  /\ Chk(g.ino = d.ino /\ g.off = d.off /\ g.type = d.type /\ g.namelen = d.namelen /\ g.name = d.name,
                         "C03|" \o o \o "|dirents|entry-fields", <<g, d>>)
                  /\ Chk(g.padzero /\ g.start = used /\ used % 8 = 0, "C03|" \o o \o "|dirents|alignment", <<g.start, used>>)
                  /\ ~plus \/ LET e == EntryOutOf(d.entry) IN
                       \A k \in Dom(e) : Chk(k \in Dom(g) /\ g[k] = e[k], "C03|" \o o \o "|dirents|" \o k, <<k, e[k]>>)
                  /\ DirentsOK(o, Tail(off), Tail(got), used + sz, size, plus)
C03(t) ==
  LET o == t.op
      ops == NonRemap(t)
      r == t.reply
  IN IF Len(ops) # 1 \/ o \in NoReplyOps \/ t.out.nmsgs # 1 \/ r.short THEN TRUE
     ELSE LET v == ops[1].ret IN
       IF v.kind = "err"
       THEN /\ Chk(r.error < 0 /\ (0 - r.error) \in ErrnoOf([os |-> v.os, kind |-> v.ekind]), "C03|" \o o \o "|errno", <<r.error, v>>)
            /\ Chk(r.bodylen = 0 /\ r.len = 16, "C03|" \o o \o "|error-reply-has-body", r.bodylen)
       ELSE IF o = "LOOKUP" /\ v.kind = "entry" /\ v.inode = "0" /\ "minor" \in DOMAIN t.x /\ t.x.minor < 4
       THEN \* a client older than 7.4 does not know negative entries: nodeid 0 must be sent as ENOENT
            Chk(r.error = 0 - 2 /\ r.bodylen = 0, "C03|LOOKUP|negative-entry-before-7.4", <<r.error, r.bodylen>>)
       ELSE /\ Chk(r.error = 0, "C03|" \o o \o "|error-for-success", r.error)
            /\ Chk(v.kind \in ResultKinds[o], "C03|" \o o \o "|result-kind", v.kind)    \* harness sanity
            /\ r.error # 0 \/
               /\ LET e == EncodeBody(o, v) IN
                  \A k \in Dom(e) : Chk(k \in Dom(r.body) /\ r.body[k] = e[k], "C03|" \o o \o "|" \o k,
                                        <<k, IF k \in Dom(r.body) THEN r.body[k] ELSE "absent", e[k]>>)
               /\ Chk(r.len = r.msglen, "C03|" \o o \o "|len", <<r.len, r.msglen>>)
               /\ v.kind = "dirents" \/
                    Chk(r.bodylen = ShapeSize(v.kind) + (IF HasPay(v.kind) THEN v.data.len ELSE 0), "C03|" \o o \o "|body-size",
                        <<r.bodylen, ShapeSize(v.kind)>>)
               /\ ~HasPay(v.kind) \/ Chk(r.pay = v.data, "C03|" \o o \o "|payload", <<r.pay, v.data>>)
               /\ v.kind # "dirents" \/
                    /\ Chk(r.parse_ok, "C03|" \o o \o "|dirents|partial-entry", r.bodylen)
                    /\ Chk(r.bodylen <= t.req.num.size, "C03|" \o o \o "|dirents|exceeds-size", <<r.bodylen, t.req.num.size>>)
                    /\ DirentsOK(o, v.offered, r.dirents, 0, t.req.num.size, o = "READDIRPLUS")

(* ---------------- C01: framing ---------------- *)
\* request classes exported from WireFrame.tla carry their class record: the A-level predicates of that
\* module, restated on the logged record
ClsWellFormed(c) == c.sup = "ge40" /\ c.lenf = "eq" /\ c.body = "ok" /\ c.op # "HOLE"
                    /\ (c.op \in {"SETUPMAPPING", "REMOVEMAPPING"} => c.vu)
ClsNeedsReply(c) == c.op \notin {"FORGET", "BATCH_FORGET", "INTERRUPT"} /\ ~(c.op = "NOTIFY_REPLY" /\ c.fsres = "ok")
\* agreement of the observed outcome with the outcome WireFrame (the I-level model) predicts: a
\* disagreement is model drift, not a violation
C01(t) ==
  LET o == t.op  r == t.reply  out == t.out IN
  /\ Chk(out.ret # "panic", "C01|" \o o \o "|panic", out)
  /\ Chk(out.nmsgs <= 1, "C01|" \o o \o "|multiple-replies|" \o t.tr, out.msglens)
  /\ Chk(out.canary_ok, "C01|" \o o \o "|out-of-bounds-write|" \o t.tr, out)
  \* symptom of a read outside the supplied request: a name handed to the file system that is not made of request bytes
  /\ Chk(out.names_from_request, "C01|" \o o \o "|name-bytes-not-from-request|" \o t.tr, out)
  \* READ / READDIR / READDIRPLUS let the file system write its output through a cursor behind the header space
  \* before the outcome is known: when it then fails, the error reply is the message and what was written
  \* behind it lies inside the supplied reply buffer (not outside it, and not a second message)
  /\ (out.nmsgs = 1 /\ o \in {"READ", "READDIR", "READDIRPLUS"} /\ ~r.short /\ r.error # 0)
        \/ Chk(out.tail_untouched, "C01|" \o o \o "|reply-tail-touched|" \o t.tr, out)
  /\ o \notin {"FORGET", "BATCH_FORGET"} \/ Chk(out.nmsgs = 0, "C01|" \o o \o "|reply-to-forget", out.msglens)
  /\ ~(t.gen = "wf" /\ o \notin NoReplyOps) \/ Chk(out.nmsgs = 1, "C01|" \o o \o "|no-reply-to-wellformed|" \o t.tr, out)
  /\ ~(t.gen = "class" /\ ClsWellFormed(t.x.cls) /\ ClsNeedsReply(t.x.cls) /\ t.x.cls.cap = "big")
        \/ Chk(out.nmsgs = 1, "C01|" \o o \o "|no-reply-to-wellformed|" \o t.tr, <<t.x.cls, out>>)
  /\ out.nmsgs = 0 \/
     /\ Chk(~r.short /\ r.len = r.msglen, "C01|" \o o \o "|length-field", <<r.len, r.msglen>>)
     /\ r.short \/ Chk(r.unique = t.req.h.unique, "C01|" \o o \o "|unique", <<r.unique, t.req.h.unique>>)
     /\ r.short \/ Chk(r.error = 0 \/ (r.error < 0 /\ r.error > -4096), "C01|" \o o \o "|error-not-negated-errno", r.error)

\* C03 on class transactions: a negative entry (nodeid 0) reaches a pre-7.4 client as ENOENT, any later client as an entry
NegClass(t) ==
  IF ~(t.x.cls.fsres = "neg" /\ Len(NonRemap(t)) = 1 /\ t.out.nmsgs = 1 /\ ~t.reply.short) THEN TRUE
  ELSE IF t.x.cls.sess = "pre74" THEN Chk(t.reply.error = 0 - 2, "C03|LOOKUP|negative-entry-before-7.4", t.reply.error)
  ELSE Chk(t.reply.error = 0, "C03|LOOKUP|negative-entry-refused", t.reply.error)

(* ---------------- C17: dirty pages of whole requests (virtio-fs) ---------------- *)
P == 4096
RECURSIVE PagesOf(_)
PagesOf(rs) == IF rs = <<>> THEN {} ELSE
   LET a == Head(rs)[1] n == Head(rs)[2] IN
   (IF n = 0 THEN {} ELSE (a \div P)..((a + n - 1) \div P)) \cup PagesOf(Tail(rs))
ToSet(s) == {s[i] : i \in 1..Len(s)}
C17(t) ==
  IF t.tr # "virtiofs" THEN TRUE ELSE
  LET want == PagesOf(t.out.touched)  got == ToSet(t.out.dirty_reply) IN
  /\ Chk(want \subseteq got, "C17|" \o t.op \o "|modified-page-not-dirty", <<want \ got, t.out.touched>>)
  /\ Chk(got \subseteq want, "C17|" \o t.op \o "|untouched-page-dirty", <<got \ want, t.out.touched>>)
  /\ Chk(t.out.dirty_req = <<>>, "C17|" \o t.op \o "|request-page-dirty", t.out.dirty_req)

\* beyond the listed properties (reported as EXTRA lines, never as violations): the MetricsHook protocol
Hooks(t) == LET h == t.x.hooks IN
  IF h.collect = h.release /\ h.collect <= 1 /\ h.init_params <= h.collect THEN TRUE
  ELSE PrintT(<<"EXTRA", "hook-protocol|collect-release-unbalanced", l, h>>)
Drift(t) == LET p == t.x.pred IN
  IF p.nreply = t.out.nmsgs /\ p.ret = t.out.retc /\ p.fscalls = Len(NonRemap(t)) /\ p.hooks = t.x.hooks.collect
     /\ (t.out.nmsgs # 1 \/ t.reply.short \/ p.rkind = (IF t.reply.error = 0 THEN "ok" ELSE "err")) THEN TRUE
  ELSE PrintT(<<"DRIFT", l, t.x.cls, p, t.out.ret, t.out.nmsgs>>)

(* ---------------- C03: notification messages ---------------- *)
Notify(n) ==
  LET code == CASE n.kind = "inval_entry" -> KConstN.FUSE_NOTIFY_INVAL_ENTRY [] n.kind = "inval_inode" -> KConstN.FUSE_NOTIFY_INVAL_INODE
                [] OTHER -> KConstN.FUSE_NOTIFY_RESEND
      sig == "C03|notify_" \o n.kind \o "|"
  IN /\ Chk(n.ok /\ n.nmsgs = 1, sig \o "not-one-message", <<n.ok, n.nmsgs>>)
     /\ n.nmsgs # 1 \/
        /\ Chk(n.hdr.len = n.msglen, sig \o "len", <<n.hdr.len, n.msglen>>)
        /\ Chk(n.hdr.code = code /\ n.hdr.unique = "0", sig \o "header", n.hdr)
        /\ n.kind # "inval_entry" \/
              /\ Chk(n.body.parent = n.args.parent, sig \o "parent", <<n.body, n.args>>)
              /\ Chk(n.body.namelen = ToString(n.args.namelen), sig \o "namelen-counts-the-name-without-NUL", <<n.body.namelen, n.args.namelen>>)
              /\ Chk(n.tail = n.args.name_nul, sig \o "name", <<n.tail, n.args.name_nul>>)
              /\ Chk(n.msglen = 16 + StructSize["fuse_notify_inval_entry_out"] + n.args.namelen + 1, sig \o "size", n.msglen)
        /\ n.kind # "inval_inode" \/
              /\ Chk(n.body.ino = n.args.ino /\ n.body.off = n.args.off /\ n.body.len = n.args.len, sig \o "fields", <<n.body, n.args>>)
              /\ Chk(n.msglen = 16 + StructSize["fuse_notify_inval_inode_out"] /\ n.taillen = 0, sig \o "size", n.msglen)
        /\ n.kind # "resend" \/ Chk(n.msglen = 16, sig \o "size", n.msglen)

Init == l = 1
Step ==
  /\ l <= Len(Rec)
  /\ LET t == Rec[l] IN
     TRUE = (CASE t.e = "Tx" /\ t.gen = "wf" -> (C01(t) /\ C02(t) /\ C03(t) /\ C17(t))
               [] t.e = "Tx" /\ t.gen = "class" -> (C01(t) /\ C17(t) /\ NegClass(t) /\ Drift(t) /\ Hooks(t))
               [] t.e = "Tx" -> (C01(t) /\ C17(t) /\ Hooks(t))
               [] t.e = "Notify" -> Notify(t)
               [] OTHER -> TRUE)
  /\ l' = l + 1
Done == l = Len(Rec) + 1 /\ PrintT(<<"ACCEPTED", Len(Rec)>>) /\ l' = l + 1
Next == Step \/ Done
Spec == Init /\ [][Next]_vars
=============================================================================
