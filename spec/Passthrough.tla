------------------------------ MODULE Passthrough ------------------------------
(* A level of C05 / C06 / C18: what a passthrough request must answer and do, said in terms of
   the environment model HostFs and nothing else ("reply = host result, tree = host tree").

   A request is a record q with the fields the harness logs (and the model-checking modules build):
     op, p / n / h (slot numbers of the parent reference, the object reference, the open handle;
     -1 = none), name + nk (name kind), flags decoded into fl (set/sequence of flag names), uid, gid, ...
   References are entries of S.of: key k for reference slot k, HKey(j) for handle slot j.

   Expect(S, X, q, ns, hs, nid) is the outcome the property allows:
     kind = "gate"   the property itself defines the answer (name gates, xattr switched off, no_open,
                     special files are never opened): an error out of errs, no effect, no host call
     kind = "host"   the paired system call(s) of HostFs: ok / errs / successor state / returned values
     kind = "free"   outside the modelled part of the environment: only "same as the host" is required
     kind = "noslot" the request names a reference the client does not hold (driver artefact, ignored)
   X = [root, no_open, no_opendir, xattr, wb, big] describes the export and the configuration.
   Callers: uid and gid are independent (root with a foreign group, a user with group 0): a created object
   belongs to q.uid : q.gid.  The kill flags of killpriv_v2 (q.kill) are only put on requests whose host
   equivalent does not depend on them (requests that fail, files without set-id bits): they never change
   what a LATER request does -- the serving thread's capabilities are part of the Creds obligation. *)
EXTENDS HostFs

HKey(j) == 1000 + j
TmpKey == 999999
ToSetOf(fl) == IF DOMAIN fl = {} THEN {} ELSE {fl[x] : x \in DOMAIN fl}      \* sequence of flag names -> set

Gate(S, es, why) == [kind |-> "gate", ok |-> FALSE, errs |-> es, S |-> S, ret |-> NoRet, why |-> why]
Host(r) == [kind |-> "host", ok |-> r.ok, errs |-> r.errs, S |-> r.S, ret |-> r.ret, why |-> ""]
Free(S) == [kind |-> "free", ok |-> TRUE, errs |-> {}, S |-> S, ret |-> NoRet, why |-> ""]
NoSlot(S) == [kind |-> "noslot", ok |-> FALSE, errs |-> {}, S |-> S, ret |-> NoRet, why |-> ""]

HasRef(S, k) == k >= 0 /\ k \in DOMAIN S.of
HasHandle(S, j) == j >= 0 /\ HKey(j) \in DOMAIN S.of
IdOf(S, k) == S.of[k].i
Cred(q) == [uid |-> q.uid, gid |-> q.gid, groups |-> {}]

(* ---------------- C06: name gates ---------------- *)
\* every lookup rejects names containing "/"; every create/remove/rename/link also "." and ".."
GatedName(nk, isLookup) == nk = "slash" \/ (~isLookup /\ nk \in {"dot", "dotdot"})
Mutators == {"mkdir", "mknod", "symlink", "create", "link", "unlink", "rmdir", "rename"}
NameTakers == Mutators \cup {"lookup"}

\* with a successful result r of an entry-returning call on inode id: take a reference in slot ns
WithRef(r, id, ns) == IF ~r.ok THEN Host(r)
                      ELSE LET S1 == OpenPath(r.S, id, ns) IN Host([r EXCEPT !.S = S1, !.ret = Attr(S1, id)])
SafeType(S, i) == S.ino[i].t \in {"reg", "dir"}

\* I/O through a handle, or (no_open) through a transient open of the referenced inode
WithIo(S, q, acc, F(_, _)) ==
  IF q.h >= 0 THEN (IF HasHandle(S, q.h) /\ HasRef(S, q.n) THEN Host(F(S, HKey(q.h))) ELSE NoSlot(S))
  ELSE IF ~HasRef(S, q.n) THEN NoSlot(S)
  ELSE IF ~SafeType(S, IdOf(S, q.n)) THEN Gate(S, AnyErr, "special")
  ELSE LET o == OpenIno(S, Root0, IdOf(S, q.n), acc, TmpKey) IN
       IF ~o.ok THEN Host(o)
       ELSE LET r == F(o.S, TmpKey) IN Host([r EXCEPT !.S = Close(r.S, TmpKey)])
\* the description's status flags are the request's flags (the client's description): F_SETFL, then the call
WithFl(S, key, fl, F(_)) == LET s1 == SetFl(S, key, "APPEND" \in fl) IN IF ~s1.ok THEN s1 ELSE F(s1.S)

SetattrSeq(S, q, X) ==
  LET v == ToSetOf(q.valid)
      id == IdOf(S, q.n)
      a == q.attr
      s1 == IF "MODE" \in v THEN Chmod(S, id, a.mode) ELSE Succ(S, NoRet)
      s2 == IF ~s1.ok THEN s1 ELSE IF v \cap {"UID", "GID"} # {}
            THEN Chown(s1.S, id, IF "UID" \in v THEN a.uid ELSE 0, IF "GID" \in v THEN a.gid ELSE 0, "UID" \in v, "GID" \in v) ELSE s1
      s3 == IF ~s2.ok \/ "SIZE" \notin v THEN s2
            ELSE IF q.h >= 0 THEN FTruncate(s2.S, HKey(q.h), a.size)
            ELSE LET o == OpenIno(s2.S, Root0, id, {"RDWR"}, TmpKey) IN
                 IF ~o.ok THEN o ELSE LET t == FTruncate(o.S, TmpKey, a.size) IN [t EXCEPT !.S = Close(t.S, TmpKey)]
  IN IF ~s3.ok THEN s3 ELSE Succ(s3.S, Attr(s3.S, id))

\* files too long for the token model (X.big): their content and size are outside the model; I/O on them is
\* only compared with the shadow ("free"), names and link counts are still modelled
BigTarget(S, X, q) ==
  q.op \in {"read", "write", "fallocate", "lseek"} /\
  ((("h" \in DOMAIN q) /\ q.h >= 0 /\ HasHandle(S, q.h) /\ IdOf(S, HKey(q.h)) \in X.big)
   \/ (("n" \in DOMAIN q) /\ HasRef(S, q.n) /\ IdOf(S, q.n) \in X.big))
\* With writeback caching negotiated (X.wb) the client kernel owns O_APPEND: it sends every WRITE with the offset the data has
\* to go to and the server must honour it. The host equivalent of a handle never carries O_APPEND there (the request's flags
\* word is only meaningful as the flags of the client's description: histories keep it equal to the flags of the OPEN).
Fl(X, q) == IF X.wb THEN ToSetOf(q.fl) \ {"APPEND"} ELSE ToSetOf(q.fl)
Expect(S, X, q, ns, hs, nid) ==
  LET o == q.op IN
  CASE BigTarget(S, X, q) -> Free(S)
    [] o = "lookup" ->
         IF ~HasRef(S, q.p) THEN NoSlot(S)
         ELSE IF GatedName(q.nk, TRUE) THEN Gate(S, {"EINVAL"}, "name")
         ELSE LET p == IdOf(S, q.p)
                  k == IF p = X.root /\ q.nk = "dotdot" THEN "dot" ELSE q.nk       \* RootDotDot
                  r == Lookup(S, p, q.name, k)
              IN IF r.ok THEN WithRef(r, r.ret.id, ns) ELSE Host(r)
    [] o = "forget" -> IF q.n > 0 /\ HasRef(S, q.n) THEN Host(Succ(Close(S, q.n), NoRet)) ELSE NoSlot(S)
    \* the root is never forgotten: FORGET / BATCH_FORGET naming it have no effect whatever the count; the other items
    \* of a BATCH_FORGET each drop the one reference their slot stands for
    [] o = "forget_root" -> Host(Succ(S, NoRet))
    [] o = "batch_forget" ->
         LET keys == {q.items[k][1] : k \in DOMAIN q.items} \ {0} IN
         Host(Succ(Gc([S EXCEPT !.of = Restrict(S.of, DOMAIN S.of \ keys)]), NoRet))
    \* DESTROY + INIT on the same object: the session is over (every reference and handle of the client is gone), the
    \* export and the configured switches (X, sealing) stay as configured
    [] o = "remount" -> Host(Succ(Gc([S EXCEPT !.of = Restrict(S.of, DOMAIN S.of \cap {0})]), NoRet))
    [] o = "getattr" ->
         IF ~HasRef(S, q.n) \/ (q.h >= 0 /\ ~HasHandle(S, q.h)) THEN NoSlot(S)
         ELSE Host(Stat(S, IF q.h >= 0 THEN IdOf(S, HKey(q.h)) ELSE IdOf(S, q.n)))
    [] o \in {"mkdir", "mknod", "symlink"} ->
         IF ~HasRef(S, q.p) THEN NoSlot(S)
         ELSE IF GatedName(q.nk, FALSE) THEN Gate(S, {"EINVAL"}, "name")
         ELSE LET p == IdOf(S, q.p)
                  r == IF o = "mkdir" THEN Mkdir(S, Cred(q), p, q.name, q.nk, q.emode, nid)
                       ELSE IF o = "mknod" THEN Mknod(S, Cred(q), p, q.name, q.nk, q.type, q.emode, q.rdev, nid)
                       ELSE Symlink(S, Cred(q), p, q.name, q.nk, q.target, q.tsize, nid)
              IN WithRef(r, nid, ns)
    [] o = "create" ->
         IF ~HasRef(S, q.p) THEN NoSlot(S)
         ELSE IF GatedName(q.nk, FALSE) THEN Gate(S, {"EINVAL"}, "name")
         ELSE LET p == IdOf(S, q.p)  fl == Fl(X, q) IN
              IF IsDir(S, p) /\ q.nk = "plain" /\ q.name \in Names(S, p) /\ "EXCL" \notin fl /\ ~SafeType(S, S.dent[p][q.name])
              THEN Gate(S, AnyErr, "special")
              ELSE LET r == OpenCreate(S, Cred(q), p, q.name, q.nk, fl, q.emode, nid, HKey(hs)) IN
                   IF ~r.ok THEN Host(r)
                   ELSE LET w == WithRef(r, r.ret.id, ns) IN
                        IF X.no_open THEN [w EXCEPT !.S = Close(w.S, HKey(hs))] ELSE w
    [] o = "link" ->
         IF ~HasRef(S, q.p) \/ ~HasRef(S, q.n) THEN NoSlot(S)
         ELSE IF GatedName(q.nk, FALSE) THEN Gate(S, {"EINVAL"}, "name")
         ELSE WithRef(Link(S, IdOf(S, q.n), IdOf(S, q.p), q.name, q.nk), IdOf(S, q.n), ns)
    [] o \in {"unlink", "rmdir"} ->
         IF ~HasRef(S, q.p) THEN NoSlot(S)
         ELSE IF GatedName(q.nk, FALSE) THEN Gate(S, {"EINVAL"}, "name")
         ELSE Host(IF o = "unlink" THEN Unlink(S, IdOf(S, q.p), q.name, q.nk) ELSE Rmdir(S, IdOf(S, q.p), q.name, q.nk))
    [] o = "rename" ->
         IF ~HasRef(S, q.p) \/ ~HasRef(S, q.p2) THEN NoSlot(S)
         ELSE IF GatedName(q.nk, FALSE) \/ GatedName(q.nk2, FALSE) THEN Gate(S, {"EINVAL"}, "name")
         ELSE Host(Rename(S, IdOf(S, q.p), q.name, q.nk, IdOf(S, q.p2), q.name2, q.nk2, q.rf))
    [] o \in {"open", "opendir"} ->
         IF ~HasRef(S, q.n) THEN NoSlot(S)
         ELSE IF (o = "open" /\ X.no_open) \/ (o = "opendir" /\ X.no_opendir) THEN Gate(S, {"ENOSYS"}, "nohandle")
         ELSE IF ~SafeType(S, IdOf(S, q.n)) THEN Gate(S, AnyErr, "special")
         ELSE LET r == OpenIno(S, Root0, IdOf(S, q.n), Fl(X, q), HKey(hs)) IN Host([r EXCEPT !.ret = NoRet])
    [] o \in {"release", "releasedir"} ->
         IF (o = "release" /\ X.no_open) \/ (o = "releasedir" /\ X.no_opendir) THEN Gate(S, {"ENOSYS"}, "nohandle")
         ELSE IF ~HasHandle(S, q.h) THEN NoSlot(S)
         ELSE Host(Succ(Close(S, HKey(q.h)), NoRet))
    [] o = "read" -> WithIo(S, q, {}, LAMBDA s, k : WithFl(s, k, Fl(X, q), LAMBDA s2 : PRead(s2, k, q.off, q.len)))
    [] o = "write" -> WithIo(S, q, {"RDWR"}, LAMBDA s, k : WithFl(s, k, Fl(X, q), LAMBDA s2 : PWrite(s2, k, q.off, q.data)))
    [] o = "fallocate" -> IF "OTHER" \in ToSetOf(q.fm) THEN WithIo(S, q, {"RDWR"}, LAMBDA s, k : Fail(s, AnyErr))
                          ELSE WithIo(S, q, {"RDWR"}, LAMBDA s, k : Fallocate(s, k, ToSetOf(q.fm), q.off, q.len))
    [] o \in {"fsync", "fsyncdir"} -> WithIo(S, q, {}, LAMBDA s, k : Fsync(s, k))
    [] o = "lseek" -> IF ~HasHandle(S, q.h) \/ ~HasRef(S, q.n) THEN NoSlot(S)
                      ELSE IF q.wh \notin {"SET", "CUR", "END"} THEN Free(S)
                      ELSE IF S.ino[IdOf(S, HKey(q.h))].t # "reg" THEN Free(S)      \* directory offsets are file-system specific
                      ELSE Host(Lseek(S, HKey(q.h), q.off, q.wh))
    [] o = "setattr" ->
         IF ~HasRef(S, q.n) \/ (q.h >= 0 /\ ~HasHandle(S, q.h)) THEN NoSlot(S)
         ELSE IF "SIZE" \in ToSetOf(q.valid) /\ q.h < 0 /\ ~SafeType(S, IdOf(S, q.n)) /\ ToSetOf(q.valid) = {"SIZE"} THEN Gate(S, AnyErr, "special")
         ELSE Host(SetattrSeq(S, q, X))
    [] o = "readlink" -> IF ~HasRef(S, q.n) THEN NoSlot(S) ELSE Host(Readlink(S, IdOf(S, q.n)))
    [] o = "statfs" -> IF ~HasRef(S, q.n) THEN NoSlot(S) ELSE Free(S)
    [] o \in {"setxattr", "getxattr", "listxattr", "removexattr"} ->
         IF ~HasRef(S, q.n) THEN NoSlot(S)
         ELSE IF ~X.xattr THEN Gate(S, {"ENOSYS"}, "xattr-off")
         ELSE LET i == IdOf(S, q.n) IN
              IF o = "setxattr" THEN Host(SetXattr(S, i, q.xname, q.xval, q.xf))
              ELSE IF o = "getxattr" THEN Host(GetXattr(S, i, q.xname, q.size))
              ELSE IF o = "removexattr" THEN Host(RemoveXattr(S, i, q.xname))
              ELSE IF q.size = 0 THEN Free(S) ELSE Host(ListXattr(S, i))
    [] OTHER -> Free(S)

(* ---------------- C06 ---------------- *)
\* Contained: the object an answer describes lies in the export (its file id is none of the outside ids
\* and is known); OutsideFrozen: the digest of everything around the export never changes.
Contained(id, outside) == id \notin outside /\ id # -1

(* ---------------- C18: sealing ---------------- *)
\* Reading (2): plainly size-neutral requests -- no O_TRUNC / O_APPEND in the flags, WRITE entirely within
\* the current size, fallocate allocate/punch/zero within the size, SETATTR without SIZE.
Neutral(q, cur) ==
  CASE q.op \in {"open", "create"} -> ToSetOf(q.fl) \cap {"TRUNC", "APPEND"} = {}
    [] q.op = "write" -> ToSetOf(q.fl) \cap {"TRUNC", "APPEND"} = {} /\ q.off + q.len <= cur
    [] q.op = "fallocate" -> (ToSetOf(q.fm) \ {"KEEP", "UNSHARE"}) \in {{}, {"PUNCH"}, {"ZERO"}} /\ q.off + q.len <= cur
    [] q.op = "setattr" -> "SIZE" \notin ToSetOf(q.valid)
    [] OTHER -> TRUE
\* the A-level class of a request, used in signatures so that known findings are matched narrowly
RECURSIVE JoinSeq(_, _)
JoinSeq(s, k) == IF k > Len(s) THEN "" ELSE (IF k > 1 THEN "+" ELSE "") \o s[k] \o JoinSeq(s, k + 1)
Class(q, cur) ==
  CASE q.op \in {"open", "create", "opendir"} -> JoinSeq(q.fl, 1)
    [] q.op = "write" -> JoinSeq(q.fl, 1) \o (IF q.off + q.len <= cur THEN "|inbounds" ELSE "|beyond")
    [] q.op = "read" -> JoinSeq(q.fl, 1)
    [] q.op = "fallocate" -> JoinSeq(q.fm, 1) \o (IF q.off + q.len <= cur THEN "|inbounds" ELSE "|beyond")
    [] q.op = "setattr" -> JoinSeq(q.valid, 1)
    [] OTHER -> ""
=============================================================================
