SPECIFICATION Spec
CONSTANTS
  MaxLen = 3
  MaxN = 4
INVARIANT PlainView
CHECK_DEADLOCK FALSE
