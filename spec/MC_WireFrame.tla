---------------------------- MODULE MC_WireFrame ----------------------------
(* Export of every request class of WireFrame with its predicted outcome, one JSON line per class. *)
EXTENDS WireFrame, Json
ExportCases == Done => PrintT(ToJson([c |-> c, o |-> Outcome]))
=============================================================================
