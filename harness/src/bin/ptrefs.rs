//! Engine `ptrefs` (C08 lookup references, C15 handles/descriptors, C16 directory streams).
//!
//! Drives a REAL `PassthroughFs` (directly, wrapped in a `Vfs`, on `Vfs` pseudo directories, or behind
//! `Server::handle_message` with the spec-exported wire codec) over fresh temp trees. Every scenario
//! runs in a freshly forked single-threaded child whose own descriptors are dense (0,1,2 + its trace
//! part), so that `/proc/self/fd` counts and `RLIMIT_NOFILE` based EMFILE injection are exact.
//!
//! After every step the child logs (NDJSON, judged by spec/Trace_PtRefs.tla):
//!   Op    {op,p,name,p2,name2,h,n,items,size,off,plus,fail_at,status,ino_ret,file_id,h_ret}
//!   Dir   {d,h,off,size,plus,status,bytes,ents[[name,type,off,ino_id,file_id]],via}   (readdir / readdirplus)
//!   Host  {files[[file_id,nlink]]}      host files alive (stat walk; identity = file handle bytes), when changed
//!   HostDir{d,names[[name,type]]}       host listing of a directory (the stream A learns is reset)
//!   Probe {rows[[ino_id,status,refcount|-1,attr_file_id,nlink]]}  getattr on every inode number ever seen
//!   Res   {fds,inodes,handles,cookies}  /proc/self/fd count + verif_table_sizes
//! Inode numbers / handles are projected to small ids by first appearance (root = 1). Nothing is judged here.
//!
//!   ptrefs run <workdir> <out.ndjson> <scenarios.ndjson> [abi.json]
//! One scenario per line of <scenarios.ndjson> (written by checks/ptrefs.py):
//!   {cfg{fh,hostino,no_open,no_opendir,via}, tree[[path,kind d|f|l|p]], ops[{op,p,name,p2,name2,h,n,items,size,off,plus,fail_at,flags}]}
//!       a fixed script in ids (TLC-exported behaviour of PtRefsImpl, EMFILE-injection scenario); op "quiesce" = release/forget all
//!   {cfg, tree, random{kind refs|res|dir, seed, steps}, dir?, mounts?}   seeded random driver (C08 / C15 / C16)
//!   {cfg, tree, dir, pattern[[slot, j, fit, plus]], mounts?}             TLC-exported resume pattern (C16)
//! via: "pt" PassthroughFs directly, "vfs" Vfs with the passthrough mounted at /, "pseudo" the Vfs pseudo directory /p
//! whose children are mount points, "server" Server<Arc<Vfs>>::handle_message with the spec-exported wire codec (abi.json).
use fuse_backend_rs::abi::fuse_abi::{CreateIn, FsOptions};
use fuse_backend_rs::api::filesystem::{Context, DirEntry, Entry, FileSystem, ZeroCopyReader, ZeroCopyWriter};
use fuse_backend_rs::api::server::Server;
use fuse_backend_rs::api::{BackFileSystem, Vfs, VfsOptions};
use fuse_backend_rs::file_buf::FileVolatileSlice;
use fuse_backend_rs::file_traits::FileReadWriteVolatile;
use fuse_backend_rs::passthrough::{CachePolicy, Config, PassthroughFs};
use serde_json::{json, Value};
use std::collections::{BTreeMap, HashMap};
use std::ffi::CString;
use std::io::{self, Read, Write};
use std::os::unix::ffi::OsStrExt;
use std::os::unix::fs::MetadataExt;
use std::path::{Path, PathBuf};
use std::sync::Arc;
use vharness::util::{env_u64, Rng, Trace};
use vharness::wirecodec::{Abi, Vals};
use vharness::xport::{run_fusedev, SeqPair};

const ROOT: u64 = 1;

// ------------------------------------------------------------------------------------------------
// errno names

fn ename(e: i32) -> String {
    let s = match e {
        0 => "OK",
        libc::EPERM => "EPERM",
        libc::ENOENT => "ENOENT",
        libc::EIO => "EIO",
        libc::EBADF => "EBADF",
        libc::ENOMEM => "ENOMEM",
        libc::EACCES => "EACCES",
        libc::EEXIST => "EEXIST",
        libc::EXDEV => "EXDEV",
        libc::ENOTDIR => "ENOTDIR",
        libc::EISDIR => "EISDIR",
        libc::EINVAL => "EINVAL",
        libc::ENFILE => "ENFILE",
        libc::EMFILE => "EMFILE",
        libc::ENOSPC => "ENOSPC",
        libc::EMLINK => "EMLINK",
        libc::ENAMETOOLONG => "ENAMETOOLONG",
        libc::ENOSYS => "ENOSYS",
        libc::ENOTEMPTY => "ENOTEMPTY",
        libc::ELOOP => "ELOOP",
        libc::ESTALE => "ESTALE",
        libc::EOPNOTSUPP => "EOPNOTSUPP",
        libc::ENXIO => "ENXIO",
        _ => return format!("E{e}"),
    };
    s.to_string()
}

fn eno(e: &io::Error) -> i32 {
    e.raw_os_error().unwrap_or(libc::EIO)
}

// ------------------------------------------------------------------------------------------------
// what the client sees

#[derive(Clone, Debug, Default)]
struct St {
    dev: u64,
    ino: u64,
    nlink: u64,
    mode: u32,
}

#[derive(Clone, Debug)]
struct DEnt {
    name: String,
    typ: u32,
    off: u64,
    /// inode number of the entry (readdirplus: nodeid of the entry_out; plain: 0)
    nodeid: u64,
}

#[derive(Clone, Debug, Default)]
struct DirReply {
    ents: Vec<DEnt>,
    bytes: usize,
}

type R<T> = Result<T, i32>;

/// The client-side API the scenarios are written against.
trait Client {
    fn lookup(&self, p: u64, name: &str) -> R<(u64, St)>;
    fn forget(&self, k: u64, n: u64);
    fn batch_forget(&self, v: Vec<(u64, u64)>);
    fn getattr(&self, k: u64, h: Option<u64>) -> R<St>;
    fn mkdir(&self, p: u64, name: &str) -> R<(u64, St)>;
    fn mknod(&self, p: u64, name: &str) -> R<(u64, St)>;
    fn symlink(&self, p: u64, name: &str, target: &str) -> R<(u64, St)>;
    fn link(&self, k: u64, p: u64, name: &str) -> R<(u64, St)>;
    fn create(&self, p: u64, name: &str, flags: u32) -> R<((u64, St), Option<u64>)>;
    fn unlink(&self, p: u64, name: &str) -> R<()>;
    fn rmdir(&self, p: u64, name: &str) -> R<()>;
    fn rename(&self, p: u64, name: &str, p2: u64, name2: &str) -> R<()>;
    fn open(&self, k: u64, flags: u32) -> R<Option<u64>>;
    /// flush = FUSE_RELEASE_FLUSH, flock = FUSE_RELEASE_FLOCK_UNLOCK (with a lock owner)
    fn release(&self, k: u64, h: u64, flush: bool, flock: bool) -> R<()>;
    fn opendir(&self, k: u64) -> R<Option<u64>>;
    fn releasedir(&self, k: u64, h: u64) -> R<()>;
    fn read(&self, k: u64, h: u64, size: u32, off: u64) -> R<usize>;
    fn write(&self, k: u64, h: u64, data: &[u8], off: u64) -> R<usize>;
    fn flush(&self, k: u64, h: u64) -> R<()>;
    fn fsync(&self, k: u64, h: u64) -> R<()>;
    fn readdir(&self, k: u64, h: u64, size: u32, off: u64, plus: bool) -> R<DirReply>;
    fn destroy(&self);
    fn init(&self) -> R<()>;
    /// (inodes, handles, cookies) of the passthrough instance behind this client
    fn sizes(&self) -> (usize, usize, usize);
    fn refcount(&self, k: u64) -> Option<u64>;
}

fn st_of(s: &libc::stat64) -> St {
    St { dev: s.st_dev, ino: s.st_ino, nlink: s.st_nlink as u64, mode: s.st_mode }
}

fn cs(s: &str) -> CString {
    CString::new(s.as_bytes()).unwrap()
}

struct VecWriter(Vec<u8>);
impl Write for VecWriter {
    fn write(&mut self, b: &[u8]) -> io::Result<usize> {
        self.0.extend_from_slice(b);
        Ok(b.len())
    }
    fn flush(&mut self) -> io::Result<()> {
        Ok(())
    }
}
impl ZeroCopyWriter for VecWriter {
    fn write_from(&mut self, f: &mut dyn FileReadWriteVolatile, count: usize, off: u64) -> io::Result<usize> {
        let mut buf = vec![0u8; count];
        let n = f.read_at_volatile(unsafe { FileVolatileSlice::from_mut_slice(&mut buf) }, off)?;
        self.0.extend_from_slice(&buf[..n]);
        Ok(n)
    }
    fn available_bytes(&self) -> usize {
        usize::MAX
    }
}
struct SliceReader<'a>(&'a [u8]);
impl Read for SliceReader<'_> {
    fn read(&mut self, b: &mut [u8]) -> io::Result<usize> {
        let n = b.len().min(self.0.len());
        b[..n].copy_from_slice(&self.0[..n]);
        self.0 = &self.0[n..];
        Ok(n)
    }
}
impl ZeroCopyReader for SliceReader<'_> {
    fn read_to(&mut self, f: &mut dyn FileReadWriteVolatile, count: usize, off: u64) -> io::Result<usize> {
        let n = count.min(self.0.len());
        let mut buf = self.0[..n].to_vec();
        let w = f.write_at_volatile(unsafe { FileVolatileSlice::from_mut_slice(&mut buf) }, off)?;
        self.0 = &self.0[w..];
        Ok(w)
    }
}

/// packed size of one directory entry in a FUSE reply (the rule of the kernel ABI)
fn packed(namelen: usize, plus: bool) -> usize {
    ((24 + namelen + 7) & !7) + if plus { 128 } else { 0 }
}

/// Calls the `FileSystem` API of F directly (PassthroughFs or Vfs).
struct Direct<F: FileSystem + Sync> {
    fs: Arc<F>,
    /// the passthrough instance whose tables the hooks read (None: pseudo directories only)
    pt: Option<Arc<BackFileSystem>>,
    pt_direct: Option<Arc<PassthroughFs<()>>>,
    /// bits to strip from inode numbers before asking the passthrough hooks (Vfs: fs index in the top byte)
    caps: FsOptions,
}

impl<F: FileSystem + Sync> Direct<F>
where
    F::Inode: From<u64> + Into<u64>,
    F::Handle: From<u64> + Into<u64>,
{
    fn ctx(&self) -> Context {
        Context { uid: 0, gid: 0, pid: 1 }
    }
    fn ent(&self, e: Entry) -> (u64, St) {
        (e.inode, st_of(&e.attr))
    }
    fn with_pt<T>(&self, f: impl FnOnce(&PassthroughFs<()>) -> T) -> Option<T> {
        if let Some(p) = &self.pt_direct {
            return Some(f(p));
        }
        let b = self.pt.as_ref()?;
        b.as_any().downcast_ref::<PassthroughFs<()>>().map(f)
    }
}

macro_rules! guard {
    ($e:expr) => {
        match std::panic::catch_unwind(std::panic::AssertUnwindSafe(|| $e)) {
            Ok(r) => r.map_err(|e| eno(&e)),
            Err(_) => Err(-1),
        }
    };
}

impl<F: FileSystem + Sync> Client for Direct<F>
where
    F::Inode: From<u64> + Into<u64>,
    F::Handle: From<u64> + Into<u64>,
{
    fn lookup(&self, p: u64, name: &str) -> R<(u64, St)> {
        guard!(self.fs.lookup(&self.ctx(), p.into(), &cs(name))).map(|e| self.ent(e))
    }
    fn forget(&self, k: u64, n: u64) {
        self.fs.forget(&self.ctx(), k.into(), n)
    }
    fn batch_forget(&self, v: Vec<(u64, u64)>) {
        self.fs.batch_forget(&self.ctx(), v.into_iter().map(|(k, n)| (k.into(), n)).collect())
    }
    fn getattr(&self, k: u64, h: Option<u64>) -> R<St> {
        guard!(self.fs.getattr(&self.ctx(), k.into(), h.map(|x| x.into()))).map(|(s, _)| st_of(&s))
    }
    fn mkdir(&self, p: u64, name: &str) -> R<(u64, St)> {
        guard!(self.fs.mkdir(&self.ctx(), p.into(), &cs(name), 0o755, 0)).map(|e| self.ent(e))
    }
    fn mknod(&self, p: u64, name: &str) -> R<(u64, St)> {
        guard!(self.fs.mknod(&self.ctx(), p.into(), &cs(name), libc::S_IFIFO | 0o644, 0, 0)).map(|e| self.ent(e))
    }
    fn symlink(&self, p: u64, name: &str, target: &str) -> R<(u64, St)> {
        guard!(self.fs.symlink(&self.ctx(), &cs(target), p.into(), &cs(name))).map(|e| self.ent(e))
    }
    fn link(&self, k: u64, p: u64, name: &str) -> R<(u64, St)> {
        guard!(self.fs.link(&self.ctx(), k.into(), p.into(), &cs(name))).map(|e| self.ent(e))
    }
    fn create(&self, p: u64, name: &str, flags: u32) -> R<((u64, St), Option<u64>)> {
        let args = CreateIn { flags, mode: 0o644, umask: 0, fuse_flags: 0 };
        guard!(self.fs.create(&self.ctx(), p.into(), &cs(name), args)).map(|(e, h, _, _)| (self.ent(e), h.map(|x| x.into())))
    }
    fn unlink(&self, p: u64, name: &str) -> R<()> {
        guard!(self.fs.unlink(&self.ctx(), p.into(), &cs(name)))
    }
    fn rmdir(&self, p: u64, name: &str) -> R<()> {
        guard!(self.fs.rmdir(&self.ctx(), p.into(), &cs(name)))
    }
    fn rename(&self, p: u64, name: &str, p2: u64, name2: &str) -> R<()> {
        guard!(self.fs.rename(&self.ctx(), p.into(), &cs(name), p2.into(), &cs(name2), 0))
    }
    fn open(&self, k: u64, flags: u32) -> R<Option<u64>> {
        guard!(self.fs.open(&self.ctx(), k.into(), flags, 0)).map(|(h, _, _)| h.map(|x| x.into()))
    }
    fn release(&self, k: u64, h: u64, flush: bool, flock: bool) -> R<()> {
        guard!(self.fs.release(&self.ctx(), k.into(), 0, h.into(), flush, flock, if flock { Some(7) } else { None }))
    }
    fn opendir(&self, k: u64) -> R<Option<u64>> {
        guard!(self.fs.opendir(&self.ctx(), k.into(), libc::O_RDONLY as u32)).map(|(h, _)| h.map(|x| x.into()))
    }
    fn releasedir(&self, k: u64, h: u64) -> R<()> {
        guard!(self.fs.releasedir(&self.ctx(), k.into(), 0, h.into()))
    }
    fn read(&self, k: u64, h: u64, size: u32, off: u64) -> R<usize> {
        let mut w = VecWriter(Vec::new());
        guard!(self.fs.read(&self.ctx(), k.into(), h.into(), &mut w, size, off, None, libc::O_RDWR as u32))
    }
    fn write(&self, k: u64, h: u64, data: &[u8], off: u64) -> R<usize> {
        let mut r = SliceReader(data);
        guard!(self.fs.write(&self.ctx(), k.into(), h.into(), &mut r, data.len() as u32, off, None, false, libc::O_RDWR as u32, 0))
    }
    fn flush(&self, k: u64, h: u64) -> R<()> {
        guard!(self.fs.flush(&self.ctx(), k.into(), h.into(), 0))
    }
    fn fsync(&self, k: u64, h: u64) -> R<()> {
        guard!(self.fs.fsync(&self.ctx(), k.into(), false, h.into()))
    }
    fn readdir(&self, k: u64, h: u64, size: u32, off: u64, plus: bool) -> R<DirReply> {
        // the transport's part (what Server::add_dirent does): an entry is taken iff it still fits
        let mut rep = DirReply::default();
        let r = if plus {
            guard!(self.fs.readdirplus(&self.ctx(), k.into(), h.into(), size, off, &mut |d: DirEntry, e: Entry| {
                let l = packed(d.name.len(), true);
                if rep.bytes + l > size as usize {
                    return Ok(0);
                }
                rep.bytes += l;
                rep.ents.push(DEnt { name: String::from_utf8_lossy(d.name).to_string(), typ: d.type_, off: d.offset, nodeid: e.inode });
                Ok(l)
            }))
        } else {
            guard!(self.fs.readdir(&self.ctx(), k.into(), h.into(), size, off, &mut |d: DirEntry| {
                let l = packed(d.name.len(), false);
                if rep.bytes + l > size as usize {
                    return Ok(0);
                }
                rep.bytes += l;
                rep.ents.push(DEnt { name: String::from_utf8_lossy(d.name).to_string(), typ: d.type_, off: d.offset, nodeid: 0 });
                Ok(l)
            }))
        };
        r.map(|_| rep)
    }
    fn destroy(&self) {
        self.fs.destroy()
    }
    fn init(&self) -> R<()> {
        guard!(self.fs.init(self.caps)).map(|_| ())
    }
    fn sizes(&self) -> (usize, usize, usize) {
        self.with_pt(|p| p.verif_table_sizes()).unwrap_or((0, 0, 0))
    }
    fn refcount(&self, k: u64) -> Option<u64> {
        self.with_pt(|p| p.verif_refcount(k & ((1u64 << 56) - 1))).flatten()
    }
}

/// Talks FUSE wire format to `Server<Arc<Vfs>>::handle_message` (fusedev transport), encoding requests and
/// decoding replies with the layouts exported from the TLA+ ABI table (abi.json). Only the operations the
/// directory-listing scenarios need are wired; the others answer ENOSYS.
struct Wire {
    srv: Server<Arc<Vfs>>,
    vfs: Arc<Vfs>,
    pt: Option<Arc<BackFileSystem>>,
    abi: Abi,
    pair: SeqPair,
    unique: std::cell::Cell<u64>,
}

impl Wire {
    fn call(&self, op: &str, nodeid: u64, body: Option<(&str, Vals)>, tail: &[u8], cap: usize) -> R<Vec<u8>> {
        let opj = self.abi.op(op).clone();
        let bodyb = match body {
            Some((s, v)) => self.abi.encode(s, &v),
            None => vec![],
        };
        let u = self.unique.get() + 1;
        self.unique.set(u);
        let mut h = Vals::new();
        h.insert("len".into(), (40 + bodyb.len() + tail.len()) as u64);
        h.insert("opcode".into(), self.abi.konst(opj["code"].as_str().unwrap()));
        h.insert("unique".into(), u);
        h.insert("nodeid".into(), nodeid);
        h.insert("pid".into(), 1);
        let mut bytes = self.abi.encode("fuse_in_header", &h);
        bytes.extend_from_slice(&bodyb);
        bytes.extend_from_slice(tail);
        // room beyond what was asked for, so that a reply that is too long arrives as such
        let o = run_fusedev(&self.srv, &bytes, cap + 16 + 64, None, &self.pair);
        if o.ret == "panic" {
            return Err(-1);
        }
        if opj["noreply"].as_bool().unwrap_or(false) {
            return Ok(vec![]);
        }
        if o.msgs.len() != 1 || o.msgs[0].len() < 16 {
            return Err(-2);
        }
        let m = &o.msgs[0];
        let len = u32::from_le_bytes([m[0], m[1], m[2], m[3]]) as usize;
        let err = i32::from_le_bytes([m[4], m[5], m[6], m[7]]);
        if len != m.len() {
            return Err(-3);
        }
        if err != 0 {
            return Err(-err);
        }
        Ok(m[16..].to_vec())
    }
    fn fld(&self, s: &str, b: &[u8], name: &str) -> u64 {
        let f = self.abi.flat_fields(s).into_iter().find(|f| f.name == name).unwrap_or_else(|| panic!("no field {s}.{name}"));
        let mut a = [0u8; 8];
        a[..f.w].copy_from_slice(&b[f.off..f.off + f.w]);
        u64::from_le_bytes(a)
    }
    fn attr(&self, s: &str, b: &[u8]) -> St {
        St { dev: 0, ino: self.fld(s, b, "attr.ino"), nlink: self.fld(s, b, "attr.nlink"), mode: self.fld(s, b, "attr.mode") as u32 }
    }
}

impl Client for Wire {
    fn lookup(&self, p: u64, name: &str) -> R<(u64, St)> {
        let mut t = name.as_bytes().to_vec();
        t.push(0);
        let b = self.call("LOOKUP", p, None, &t, 4096)?;
        if b.len() < self.abi.size("fuse_entry_out") {
            return Err(-4);
        }
        Ok((self.fld("fuse_entry_out", &b, "nodeid"), self.attr("fuse_entry_out", &b)))
    }
    fn forget(&self, k: u64, n: u64) {
        let mut v = Vals::new();
        v.insert("nlookup".into(), n);
        let _ = self.call("FORGET", k, Some(("fuse_forget_in", v)), &[], 0);
    }
    fn batch_forget(&self, v: Vec<(u64, u64)>) {
        for (k, n) in v {
            self.forget(k, n)
        }
    }
    fn getattr(&self, k: u64, _h: Option<u64>) -> R<St> {
        let b = self.call("GETATTR", k, Some(("fuse_getattr_in", Vals::new())), &[], 4096)?;
        if b.len() < self.abi.size("fuse_attr_out") {
            return Err(-4);
        }
        Ok(self.attr("fuse_attr_out", &b))
    }
    fn mkdir(&self, _: u64, _: &str) -> R<(u64, St)> {
        Err(libc::ENOSYS)
    }
    fn mknod(&self, _: u64, _: &str) -> R<(u64, St)> {
        Err(libc::ENOSYS)
    }
    fn symlink(&self, _: u64, _: &str, _: &str) -> R<(u64, St)> {
        Err(libc::ENOSYS)
    }
    fn link(&self, _: u64, _: u64, _: &str) -> R<(u64, St)> {
        Err(libc::ENOSYS)
    }
    fn create(&self, _: u64, _: &str, _: u32) -> R<((u64, St), Option<u64>)> {
        Err(libc::ENOSYS)
    }
    fn unlink(&self, _: u64, _: &str) -> R<()> {
        Err(libc::ENOSYS)
    }
    fn rmdir(&self, _: u64, _: &str) -> R<()> {
        Err(libc::ENOSYS)
    }
    fn rename(&self, _: u64, _: &str, _: u64, _: &str) -> R<()> {
        Err(libc::ENOSYS)
    }
    fn open(&self, _: u64, _: u32) -> R<Option<u64>> {
        Err(libc::ENOSYS)
    }
    fn release(&self, _: u64, _: u64, _: bool, _: bool) -> R<()> {
        Err(libc::ENOSYS)
    }
    fn opendir(&self, k: u64) -> R<Option<u64>> {
        let mut v = Vals::new();
        v.insert("flags".into(), libc::O_RDONLY as u64);
        let b = self.call("OPENDIR", k, Some(("fuse_open_in", v)), &[], 4096)?;
        if b.len() < self.abi.size("fuse_open_out") {
            return Err(-4);
        }
        Ok(Some(self.fld("fuse_open_out", &b, "fh")))
    }
    fn releasedir(&self, k: u64, h: u64) -> R<()> {
        let mut v = Vals::new();
        v.insert("fh".into(), h);
        self.call("RELEASEDIR", k, Some(("fuse_release_in", v)), &[], 4096).map(|_| ())
    }
    fn read(&self, _: u64, _: u64, _: u32, _: u64) -> R<usize> {
        Err(libc::ENOSYS)
    }
    fn write(&self, _: u64, _: u64, _: &[u8], _: u64) -> R<usize> {
        Err(libc::ENOSYS)
    }
    fn flush(&self, _: u64, _: u64) -> R<()> {
        Err(libc::ENOSYS)
    }
    fn fsync(&self, _: u64, _: u64) -> R<()> {
        Err(libc::ENOSYS)
    }
    fn readdir(&self, k: u64, h: u64, size: u32, off: u64, plus: bool) -> R<DirReply> {
        let mut v = Vals::new();
        v.insert("fh".into(), h);
        v.insert("offset".into(), off);
        v.insert("size".into(), size as u64);
        let b = self.call(if plus { "READDIRPLUS" } else { "READDIR" }, k, Some(("fuse_read_in", v)), &[], size as usize)?;
        let mut rep = DirReply { ents: vec![], bytes: b.len() };
        let esz = self.abi.size("fuse_entry_out");
        let dsz = self.abi.size("fuse_dirent");
        let mut o = 0usize;
        while o < b.len() {
            let mut nodeid = 0;
            if plus {
                if o + esz > b.len() {
                    return Err(-5);
                }
                nodeid = self.fld("fuse_entry_out", &b[o..], "nodeid");
                o += esz;
            }
            if o + dsz > b.len() {
                return Err(-5);
            }
            let nl = self.fld("fuse_dirent", &b[o..], "namelen") as usize;
            let doff = self.fld("fuse_dirent", &b[o..], "off");
            let typ = self.fld("fuse_dirent", &b[o..], "type") as u32;
            if o + dsz + nl > b.len() {
                return Err(-5);
            }
            let name = String::from_utf8_lossy(&b[o + dsz..o + dsz + nl]).to_string();
            o += (dsz + nl + 7) & !7;
            if o > b.len() {
                return Err(-5);
            }
            rep.ents.push(DEnt { name, typ, off: doff, nodeid });
        }
        Ok(rep)
    }
    fn destroy(&self) {
        self.vfs.destroy()
    }
    fn init(&self) -> R<()> {
        Err(libc::ENOSYS)
    }
    fn sizes(&self) -> (usize, usize, usize) {
        self.pt.as_ref().and_then(|b| b.as_any().downcast_ref::<PassthroughFs<()>>().map(|p| p.verif_table_sizes())).unwrap_or((0, 0, 0))
    }
    fn refcount(&self, k: u64) -> Option<u64> {
        self.pt.as_ref().and_then(|b| b.as_any().downcast_ref::<PassthroughFs<()>>().and_then(|p| p.verif_refcount(k & ((1u64 << 56) - 1))))
    }
}

// ------------------------------------------------------------------------------------------------
// configuration and construction

#[derive(Clone, Debug)]
struct Cfg {
    fh: bool,
    hostino: bool,
    no_open: bool,
    no_opendir: bool,
    /// seal_size: requests that would change a file's size are refused (EPERM)
    seal: bool,
    /// "pt" | "vfs" | "pseudo" | "server"
    via: String,
}

impl Cfg {
    fn tag(&self) -> String {
        format!(
            "{}{}{}{}{}",
            if self.fh { "fh" } else { "fd" },
            if self.hostino { "+hostino" } else { "" },
            if self.no_open { "+no_open" } else { "" },
            if self.no_opendir { "+no_opendir" } else { "" },
            if self.seal { "+seal" } else { "" }
        )
    }
    fn caps(&self) -> FsOptions {
        let mut c = FsOptions::DO_READDIRPLUS | FsOptions::READDIRPLUS_AUTO;
        if self.no_open {
            c |= FsOptions::ZERO_MESSAGE_OPEN;
        }
        if self.no_opendir {
            c |= FsOptions::ZERO_MESSAGE_OPENDIR;
        }
        c
    }
    fn ptcfg(&self, root: &Path, under_vfs: bool) -> Config {
        Config {
            root_dir: root.to_str().unwrap().to_string(),
            do_import: !under_vfs,
            cache_policy: CachePolicy::Always,
            no_open: self.no_open,
            no_opendir: self.no_opendir,
            inode_file_handles: self.fh,
            use_host_ino: self.hostino,
            seal_size: self.seal,
            xattr: false,
            ..Default::default()
        }
    }
}

fn mk_pt(cfg: &Cfg, root: &Path, under_vfs: bool) -> PassthroughFs<()> {
    let fs = PassthroughFs::<()>::new(cfg.ptcfg(root, under_vfs)).expect("PassthroughFs::new");
    if under_vfs {
        fs.import().expect("import");
    }
    fs
}

/// Build the client for a configuration. For "pseudo" `mounts` names the mount points created below /p.
fn build(cfg: &Cfg, root: &Path, abi: Option<&str>, mounts: &[String]) -> Box<dyn Client> {
    match cfg.via.as_str() {
        "pt" => {
            let fs = Arc::new(mk_pt(cfg, root, false));
            let c = Direct { fs: fs.clone(), pt: None, pt_direct: Some(fs), caps: cfg.caps() };
            c.init().expect("init");
            Box::new(c)
        }
        _ => {
            let vfs = Vfs::new(VfsOptions { no_open: cfg.no_open, no_opendir: cfg.no_opendir, seal_size: cfg.seal, ..Default::default() });
            let mut pt = None;
            if cfg.via == "pseudo" {
                // a pseudo directory /p whose children are mount points (one tiny passthrough each)
                for m in mounts {
                    vfs.mount(Box::new(mk_pt(cfg, root, true)), &format!("/p/{m}")).expect("mount");
                }
            } else {
                vfs.mount(Box::new(mk_pt(cfg, root, true)), "/").expect("mount");
                pt = vfs.get_rootfs("/").expect("get_rootfs").map(|(a, _)| a);
            }
            let vfs = Arc::new(vfs);
            vfs.init(cfg.caps()).expect("vfs init");
            if cfg.via == "server" {
                Box::new(Wire {
                    srv: Server::new(vfs.clone()),
                    vfs,
                    pt,
                    abi: Abi::load(abi.expect("abi.json path")),
                    pair: SeqPair::new(),
                    unique: std::cell::Cell::new(100),
                })
            } else {
                Box::new(Direct { fs: vfs, pt, pt_direct: None, caps: cfg.caps() })
            }
        }
    }
}

// ------------------------------------------------------------------------------------------------
// host side: identity of files (file handle bytes: inode + generation), stat walk, fd census

#[repr(C)]
struct FhBuf {
    handle_bytes: u32,
    handle_type: i32,
    f_handle: [u8; 128],
}
extern "C" {
    fn name_to_handle_at(dirfd: libc::c_int, pathname: *const libc::c_char, handle: *mut FhBuf, mount_id: *mut libc::c_int, flags: libc::c_int) -> libc::c_int;
}

fn file_key(path: &Path) -> Option<Vec<u8>> {
    let c = CString::new(path.as_os_str().as_bytes()).ok()?;
    let mut fh = FhBuf { handle_bytes: 128, handle_type: 0, f_handle: [0; 128] };
    let mut mnt: libc::c_int = 0;
    let r = unsafe { name_to_handle_at(libc::AT_FDCWD, c.as_ptr(), &mut fh, &mut mnt, 0) };
    if r != 0 {
        return None;
    }
    let mut k = fh.handle_type.to_le_bytes().to_vec();
    k.extend_from_slice(&fh.f_handle[..fh.handle_bytes as usize]);
    Some(k)
}

struct HostRow {
    rel: String,
    is_dir: bool,
    is_file: bool,
    key: Vec<u8>,
    dev: u64,
    ino: u64,
    nlink: u64,
}

fn walk(root: &Path, out: &mut Vec<HostRow>) {
    fn rec(root: &Path, p: &Path, out: &mut Vec<HostRow>) {
        if let (Ok(md), Some(key)) = (std::fs::symlink_metadata(p), file_key(p)) {
            let rel = p.strip_prefix(root).map(|r| r.to_string_lossy().to_string()).unwrap_or_default();
            out.push(HostRow { rel, is_dir: md.is_dir(), is_file: md.is_file(), key, dev: md.dev(), ino: md.ino(), nlink: md.nlink() });
            if md.is_dir() {
                if let Ok(rd) = std::fs::read_dir(p) {
                    let mut names: Vec<PathBuf> = rd.flatten().map(|e| e.path()).collect();
                    names.sort();
                    for n in names {
                        rec(root, &n, out);
                    }
                }
            }
        }
    }
    rec(root, root, out)
}

/// open descriptors of this process (the descriptor used for the census itself excluded); (count, highest, dense)
fn fd_census() -> (usize, i32, bool) {
    let mut v: Vec<i32> = Vec::new();
    let rd = std::fs::read_dir("/proc/self/fd").expect("/proc/self/fd");
    for e in rd.flatten() {
        if let Ok(n) = e.file_name().to_string_lossy().parse::<i32>() {
            v.push(n);
        }
    }
    // the directory stream's own descriptor is listed too: it is the highest or fills a hole; remove it by
    // re-checking which descriptors are still open now that the stream is closed
    v.retain(|fd| unsafe { libc::fcntl(*fd, libc::F_GETFD) } >= 0);
    v.sort();
    let hi = v.last().copied().unwrap_or(-1);
    (v.len(), hi, hi + 1 == v.len() as i32)
}

/// getdents64 over a directory: (name, d_type, d_off) in host order, "." and ".." included
fn raw_getdents(path: &Path) -> Vec<(String, u32, u64)> {
    let mut out = Vec::new();
    let c = match CString::new(path.as_os_str().as_bytes()) {
        Ok(c) => c,
        Err(_) => return out,
    };
    let fd = unsafe { libc::open(c.as_ptr(), libc::O_RDONLY | libc::O_DIRECTORY | libc::O_CLOEXEC) };
    if fd < 0 {
        return out;
    }
    let mut buf = vec![0u8; 1 << 16];
    loop {
        let n = unsafe { libc::syscall(libc::SYS_getdents64, fd, buf.as_mut_ptr(), buf.len()) };
        if n <= 0 {
            break;
        }
        let mut o = 0usize;
        while o < n as usize {
            let off = u64::from_le_bytes(buf[o + 8..o + 16].try_into().unwrap());
            let reclen = u16::from_le_bytes(buf[o + 16..o + 18].try_into().unwrap()) as usize;
            let typ = buf[o + 18] as u32;
            let nm = &buf[o + 19..o + reclen];
            let end = nm.iter().position(|b| *b == 0).unwrap_or(nm.len());
            out.push((String::from_utf8_lossy(&nm[..end]).to_string(), typ, off));
            o += reclen;
        }
    }
    unsafe { libc::close(fd) };
    out
}

// ------------------------------------------------------------------------------------------------
// the executor: abstract operations (ids) -> real calls -> events

#[derive(Clone, Debug, Default)]
struct Op {
    op: String,
    p: usize,
    name: String,
    p2: usize,
    name2: String,
    h: usize,
    n: u64,
    items: Vec<(usize, u64)>,
    size: u32,
    off: u64,
    plus: bool,
    fail_at: i64,
    flags: u32,
}

impl Op {
    fn new(op: &str) -> Op {
        Op { op: op.to_string(), fail_at: -1, ..Default::default() }
    }
    fn from_json(v: &Value) -> Op {
        let g = |k: &str| v.get(k).and_then(|x| x.as_u64()).unwrap_or(0);
        let s = |k: &str| v.get(k).and_then(|x| x.as_str()).unwrap_or("").to_string();
        Op {
            op: s("op"),
            p: g("p") as usize,
            name: s("name"),
            p2: g("p2") as usize,
            name2: s("name2"),
            h: g("h") as usize,
            n: g("n"),
            items: v.get("items").and_then(|x| x.as_array()).map(|a| a.iter().map(|t| (t[0].as_u64().unwrap_or(0) as usize, t[1].as_u64().unwrap_or(0))).collect()).unwrap_or_default(),
            size: g("size") as u32,
            off: v.get("off").and_then(|x| x.as_str()).and_then(|x| x.parse().ok()).unwrap_or(g("off")),
            plus: v.get("plus").and_then(|x| x.as_bool()).unwrap_or(false),
            fail_at: v.get("fail_at").and_then(|x| x.as_i64()).unwrap_or(-1),
            flags: g("flags") as u32,
        }
    }
}

struct World {
    cli: Box<dyn Client>,
    cfg: Cfg,
    root: PathBuf,
    /// inode numbers by id-1 (first appearance); nums[0] = root
    nums: Vec<u64>,
    hvals: Vec<u64>,
    /// path (relative to root) the client reached a directory/file number by; "" = root
    /// identity (file-handle bytes) of the host object each number was first delivered for; where that object lives
    /// NOW is looked up in the latest stat walk (`cur`), so renames need no tracking
    keys: HashMap<u64, Vec<u8>>,
    /// latest walk: (path relative to root, identity, is_dir, is_regular)
    cur: Vec<(String, Vec<u8>, bool, bool)>,
    fkeys: HashMap<Vec<u8>, u32>,
    by_ino: HashMap<(u64, u64), u32>,
    last_host: Vec<(u32, u64)>,
    tr: Trace,
    seg: u64,
    i: u64,
    probes: bool,
    sparse_probes: bool,
    /// number of names in the host listing logged last
    last_listing: usize,
    /// offsets learned per directory number: name -> (off, index) and the order
    last_status: String,
    /// per handle id: opened by opendir (released with releasedir) or by open/create (released with release)
    hdir: Vec<bool>,
    /// id of the number the last entry-returning operation delivered (0: none)
    last_ino_ret: usize,
}

impl World {
    fn emit(&mut self, mut v: Value) {
        v["seg"] = json!(self.seg);
        v["i"] = json!(self.i);
        self.i += 1;
        self.tr.emit(&v);
    }
    fn num(&self, id: usize) -> u64 {
        if id >= 1 && id <= self.nums.len() {
            self.nums[id - 1]
        } else {
            // a number the server never issued
            0x00de_ad00_0000 + id as u64
        }
    }
    fn hval(&self, id: usize) -> u64 {
        if id >= 1 && id <= self.hvals.len() {
            self.hvals[id - 1]
        } else if id == 0 {
            0
        } else {
            0x00be_ef00 + id as u64
        }
    }
    fn ino_id(&mut self, k: u64) -> usize {
        if let Some(i) = self.nums.iter().position(|x| *x == k) {
            i + 1
        } else {
            self.nums.push(k);
            self.nums.len()
        }
    }
    fn h_id(&mut self, h: u64) -> usize {
        // handle values are projected by first appearance as well; a value handed out again after its release
        // gets the same id (A decides whether that is allowed)
        if let Some(i) = self.hvals.iter().position(|x| *x == h) {
            i + 1
        } else {
            self.hvals.push(h);
            self.hvals.len()
        }
    }
    fn file_id_of_key(&mut self, key: Vec<u8>) -> u32 {
        let n = self.fkeys.len() as u32 + 1;
        *self.fkeys.entry(key).or_insert(n)
    }
    fn host_path(&self, rel: &str) -> PathBuf {
        if rel.is_empty() {
            self.root.clone()
        } else {
            self.root.join(rel)
        }
    }
    /// where the host object number k was delivered for lives now (None: it has no name any more)
    fn rel_of(&self, k: u64) -> Option<String> {
        let key = self.keys.get(&k)?;
        self.cur.iter().find(|r| &r.1 == key).map(|r| r.0.clone())
    }
    fn is_dir_num(&self, k: u64) -> bool {
        self.keys.get(&k).and_then(|key| self.cur.iter().find(|r| &r.1 == key)).map(|r| r.2).unwrap_or(false)
    }
    fn is_file_num(&self, k: u64) -> bool {
        self.keys.get(&k).and_then(|key| self.cur.iter().find(|r| &r.1 == key)).map(|r| r.3).unwrap_or(false)
    }
    fn refresh(&mut self) {
        let mut rows = Vec::new();
        walk(&self.root.clone(), &mut rows);
        self.cur = rows.iter().map(|r| (r.rel.clone(), r.key.clone(), r.is_dir, r.is_file)).collect();
    }
    fn child_rel(&self, p: u64, name: &str) -> Option<String> {
        let base = self.rel_of(p)?;
        // "." and ".." are resolved lexically (no directory symlinks in the trees); the server maps ".." at the
        // root to "."
        if name == "." {
            return Some(base);
        }
        if name == ".." {
            return Some(match base.rfind('/') {
                Some(i) => base[..i].to_string(),
                None => String::new(),
            });
        }
        Some(if base.is_empty() { name.to_string() } else { format!("{base}/{name}") })
    }
    /// remember which host object number k stands for (first delivery wins)
    fn learn(&mut self, k: u64, p: u64, name: &str) {
        if self.keys.contains_key(&k) {
            return;
        }
        if let Some(rel) = self.child_rel(p, name) {
            if let Some(key) = file_key(&self.host_path(&rel)) {
                self.keys.insert(k, key);
            }
        }
    }
    /// file id of the host object at path(p)/name (0 = none)
    fn file_id_at(&mut self, p: u64, name: &str) -> u32 {
        match self.child_rel(p, name) {
            Some(rel) => match file_key(&self.host_path(&rel)) {
                Some(k) => self.file_id_of_key(k),
                None => 0,
            },
            None => 0,
        }
    }
    fn host(&mut self, force: bool) {
        let mut rows = Vec::new();
        walk(&self.root.clone(), &mut rows);
        self.cur = rows.iter().map(|r| (r.rel.clone(), r.key.clone(), r.is_dir, r.is_file)).collect();
        let mut cur: Vec<(u32, u64)> = Vec::new();
        for r in rows {
            let id = self.file_id_of_key(r.key);
            self.by_ino.insert((r.dev, r.ino), id);
            if !cur.iter().any(|(i, _)| *i == id) {
                cur.push((id, r.nlink));
            }
        }
        cur.sort();
        if force || cur != self.last_host {
            let files: Vec<Value> = cur.iter().map(|(i, n)| json!([i, n])).collect();
            self.emit(json!({"e": "Host", "files": files}));
            self.last_host = cur;
        }
    }
    fn probe_res(&mut self) {
        self.probe_some(None)
    }
    /// getattr + refcount on the numbers with the given ids (None: every number ever seen), then the census
    fn probe_some(&mut self, only: Option<Vec<usize>>) {
        if self.probes {
            let mut rows = Vec::new();
            for (i, k) in self.nums.clone().iter().enumerate() {
                if let Some(o) = &only {
                    if !o.contains(&(i + 1)) {
                        continue;
                    }
                }
                let (st, af, nl) = match self.cli.getattr(*k, None) {
                    // through Vfs/Server the attributes carry the translated number, not the host's: cannot tell (-1)
                    Ok(s) => ("OK".to_string(), if self.cfg.via == "pt" { self.by_ino.get(&(s.dev, s.ino)).copied().map(|x| x as i64).unwrap_or(0) } else { -1 }, s.nlink),
                    Err(e) => (if e < 0 { "panic".to_string() } else { ename(e) }, 0i64, 0),
                };
                let rc = self.cli.refcount(*k).map(|x| x.min(1 << 30) as i64).unwrap_or(-1);
                rows.push(json!([i + 1, st, rc, af, nl]));
            }
            self.emit(json!({"e": "Probe", "rows": rows}));
        }
        let (fds, _, _) = fd_census();
        let (a, b, c) = self.cli.sizes();
        self.emit(json!({"e": "Res", "fds": fds, "inodes": a, "handles": b, "cookies": c}));
        // a step is complete: should the code under test take the process down later, the history so far is on disk
        self.tr.flush();
    }
    fn host_dir(&mut self, did: usize) {
        let k = self.num(did);
        let mut names = Vec::new();
        let mut raw = Vec::new();
        if let Some(rel) = self.rel_of(k) {
            // the host's own stream (plain getdents64 on a descriptor of ours, closed before the next census)
            for (name, typ, off) in raw_getdents(&self.host_path(&rel)) {
                if name != "." && name != ".." {
                    names.push((name.clone(), typ));
                }
                raw.push(json!([name, typ, off.to_string()]));
            }
        }
        names.sort();
        let v: Vec<Value> = names.iter().map(|(n, t)| json!([n, t])).collect();
        self.last_listing = names.len();
        self.emit(json!({"e": "HostDir", "d": did, "names": v, "raw": raw}));
    }

    /// run `f` with EMFILE injected at the (n+1)-th descriptor allocation (n < 0: no injection)
    fn injected<T>(&self, n: i64, f: impl FnOnce(&dyn Client) -> T) -> T {
        if n < 0 {
            return f(self.cli.as_ref());
        }
        let (_, hi, _) = fd_census();
        let mut old = libc::rlimit { rlim_cur: 0, rlim_max: 0 };
        unsafe { libc::getrlimit(libc::RLIMIT_NOFILE, &mut old) };
        let lim = libc::rlimit { rlim_cur: (hi as i64 + 1 + n) as u64, rlim_max: old.rlim_max };
        unsafe { libc::setrlimit(libc::RLIMIT_NOFILE, &lim) };
        let r = f(self.cli.as_ref());
        unsafe { libc::setrlimit(libc::RLIMIT_NOFILE, &old) };
        r
    }

    fn exec(&mut self, o: &Op) {
        let p = self.num(o.p);
        let p2 = self.num(o.p2);
        let h = self.hval(o.h);
        let mut ev = json!({"e": "Op", "op": o.op, "p": o.p, "name": o.name, "p2": o.p2, "name2": o.name2, "h": o.h, "n": o.n,
            "items": o.items.iter().map(|(a, b)| json!([a, b])).collect::<Vec<_>>(), "size": o.size, "off": o.off.to_string(), "plus": o.plus,
            "fail_at": o.fail_at, "status": "OK", "ino_ret": 0, "file_id": 0, "h_ret": 0, "af": -1, "flags": o.flags});
        let fa = o.fail_at;
        let st = |r: &R<()>| match r {
            Ok(()) => "OK".to_string(),
            Err(e) if *e < 0 => "panic".to_string(),
            Err(e) => ename(*e),
        };
        let mut entry: Option<R<(u64, St)>> = None;
        let mut hret: Option<u64> = None;
        match o.op.as_str() {
            "lookup" => entry = Some(self.injected(fa, |c| c.lookup(p, &o.name))),
            "mkdir" => entry = Some(self.injected(fa, |c| c.mkdir(p, &o.name))),
            "mknod" => entry = Some(self.injected(fa, |c| c.mknod(p, &o.name))),
            "symlink" => entry = Some(self.injected(fa, |c| c.symlink(p, &o.name, "target"))),
            "link" => entry = Some(self.injected(fa, |c| c.link(p2, p, &o.name))),
            "create" => {
                let r = self.injected(fa, |c| c.create(p, &o.name, o.flags));
                entry = Some(r.map(|(e, hh)| {
                    hret = hh;
                    e
                }));
            }
            "forget" => self.cli.forget(p, o.n),
            "batch_forget" => {
                let v = o.items.iter().map(|(i, n)| (self.num(*i), *n)).collect();
                self.cli.batch_forget(v)
            }
            "unlink" => ev["status"] = json!(st(&self.injected(fa, |c| c.unlink(p, &o.name)))),
            "rmdir" => ev["status"] = json!(st(&self.injected(fa, |c| c.rmdir(p, &o.name)))),
            "rename" => {
                let r = self.injected(fa, |c| c.rename(p, &o.name, p2, &o.name2));
                ev["status"] = json!(st(&r));
            }
            "open" | "opendir" => {
                let r = self.injected(fa, |c| if o.op == "open" { c.open(p, o.flags) } else { c.opendir(p) });
                match r {
                    Ok(hh) => hret = hh,
                    Err(e) => ev["status"] = json!(st(&Err(e))),
                }
            }
            // flags: 1 = FUSE_RELEASE_FLUSH, 2 = FUSE_RELEASE_FLOCK_UNLOCK; fault injection applies to releases too
            "release" => ev["status"] = json!(st(&self.injected(fa, |c| c.release(p, h, o.flags & 1 != 0, o.flags & 2 != 0)))),
            "releasedir" => ev["status"] = json!(st(&self.injected(fa, |c| c.releasedir(p, h)))),
            "read" => ev["status"] = json!(st(&self.injected(fa, |c| c.read(p, h, o.size.max(1), 0)).map(|_| ()))),
            // o.off = file offset: beyond the end of the file the write extends it (refused with seal_size)
            "write" => ev["status"] = json!(st(&self.injected(fa, |c| c.write(p, h, b"xy", o.off)).map(|_| ()))),
            "flush" => ev["status"] = json!(st(&self.cli.flush(p, h))),
            "fsync" => ev["status"] = json!(st(&self.injected(fa, |c| c.fsync(p, h)))),
            "getattr_h" => {
                // fstat through the handle: which host file do the attributes belong to (passthrough directly only)
                let r = self.cli.getattr(p, Some(h));
                if let Ok(a) = &r {
                    if self.cfg.via == "pt" {
                        ev["af"] = json!(self.by_ino.get(&(a.dev, a.ino)).copied().map(|x| x as i64).unwrap_or(0));
                    }
                }
                ev["status"] = json!(st(&r.map(|_| ())));
            }
            "getattr" => ev["status"] = json!(st(&self.injected(fa, |c| c.getattr(p, None)).map(|_| ()))),
            "destroy" => {
                self.injected(fa, |c| c.destroy());
            }
            "init" => ev["status"] = json!(st(&self.injected(fa, |c| c.init()))),
            "readdir" => {
                self.readdir(o);
                return;
            }
            x => panic!("unknown op {x}"),
        }
        if let Some(r) = entry {
            match r {
                Ok((k, _s)) => {
                    let id = self.ino_id(k);
                    // the operation may have created the object: look at the host again before identifying it
                    self.refresh();
                    self.learn(k, p, &o.name);
                    ev["ino_ret"] = json!(id);
                    ev["file_id"] = json!(self.file_id_at(p, &o.name));
                }
                Err(e) => ev["status"] = json!(st(&Err(e))),
            }
        }
        if let Some(hh) = hret {
            let id = self.h_id(hh);
            ev["h_ret"] = json!(id);
            if self.hdir.len() < id {
                self.hdir.resize(id, false);
            }
            self.hdir[id - 1] = o.op == "opendir";
        }
        self.last_status = ev["status"].as_str().unwrap_or("").to_string();
        self.last_ino_ret = ev["ino_ret"].as_u64().unwrap_or(0) as usize;
        self.emit(ev);
        self.host(false);
        self.probe_res();
    }

    fn readdir(&mut self, o: &Op) -> Option<DirReply> {
        let d = self.num(o.p);
        let h = self.hval(o.h);
        let r = self.injected(o.fail_at, |c| c.readdir(d, h, o.size, o.off, o.plus));
        let mut ev = json!({"e": "Dir", "d": o.p, "h": o.h, "off": o.off.to_string(), "size": o.size, "plus": o.plus, "status": "OK", "bytes": 0,
            "ents": [], "via": self.cfg.via, "fail_at": o.fail_at});
        let mut out = None;
        match r {
            Ok(rep) => {
                let mut ents = Vec::new();
                for e in &rep.ents {
                    let (iid, fid) = if o.plus {
                        let iid = self.ino_id(e.nodeid);
                        self.learn(e.nodeid, d, &e.name);
                        (iid, self.file_id_at(d, &e.name))
                    } else {
                        (0, 0)
                    };
                    ents.push(json!([e.name, e.typ, e.off.to_string(), iid, fid]));
                }
                ev["ents"] = json!(ents);
                ev["bytes"] = json!(rep.bytes);
                out = Some(rep);
            }
            Err(e) => ev["status"] = json!(if e < 0 { "panic".to_string() } else { ename(e) }),
        }
        self.last_status = ev["status"].as_str().unwrap_or("").to_string();
        let touched: Vec<usize> = ev["ents"].as_array().map(|a| a.iter().filter_map(|e| e[3].as_u64().map(|x| x as usize)).collect()).unwrap_or_default();
        self.emit(ev);
        if self.sparse_probes {
            // big directories: probe the directory and the numbers this reply delivered; everything after forgets
            let mut t = touched;
            t.push(o.p);
            t.push(1);
            self.probe_some(Some(t));
        } else {
            self.probe_res();
        }
        out
    }
}

// ------------------------------------------------------------------------------------------------
// scenarios

struct Scen {
    cfg: Cfg,
    /// initial tree: (relative path, kind 'd'|'f'|'l')
    tree: Vec<(String, char)>,
    kind: ScenKind,
    mounts: Vec<String>,
}

enum ScenKind {
    /// a fixed list of abstract operations (TLC export, fault injection set-ups)
    Script(Vec<Op>),
    /// seeded random C08 history of n steps
    RandRefs(u64, u64),
    /// seeded random C15 history of n steps
    RandRes(u64, u64),
    /// C16: list directory `dir` (relative path; pseudo: "p") with resume patterns; seed, steps
    RandDir(String, u64, u64),
    /// C16: TLC-exported resume pattern over directory `dir`: steps [slot, from_pos, fit, plus]
    DirPattern(String, Vec<(usize, usize, usize, bool)>),
}

fn mk_tree(root: &Path, tree: &[(String, char)]) {
    std::fs::create_dir_all(root).unwrap();
    for (p, k) in tree {
        let q = root.join(p);
        match k {
            'd' => std::fs::create_dir_all(&q).unwrap(),
            'f' => {
                if let Some(d) = q.parent() {
                    std::fs::create_dir_all(d).unwrap();
                }
                std::fs::write(&q, b"0123456789").unwrap()
            }
            'l' => std::os::unix::fs::symlink("target", &q).unwrap(),
            'p' => {
                let c = CString::new(q.as_os_str().as_bytes()).unwrap();
                unsafe { libc::mkfifo(c.as_ptr(), 0o644) };
            }
            _ => {}
        }
    }
}

const NAMES: [&str; 6] = ["a", "b", "c", "d0", "d1", "x"];

fn rand_refs(w: &mut World, seed: u64, steps: u64) {
    let mut rng = Rng::new(seed);
    let mut dir_handles: Vec<(usize, usize)> = Vec::new(); // (dir id, handle id)
    let mut offs: HashMap<usize, Vec<u64>> = HashMap::new();
    for _ in 0..steps {
        // directories the client knows (by id): numbers whose recorded path is a directory right now
        let mut dirs: Vec<usize> = vec![1];
        let mut files: Vec<usize> = Vec::new();
        for (i, k) in w.nums.iter().enumerate().skip(1) {
            if w.rel_of(*k).is_some() {
                if w.is_dir_num(*k) {
                    dirs.push(i + 1)
                } else {
                    files.push(i + 1)
                }
            }
        }
        let any = |rng: &mut Rng, n: usize| rng.range(1, n.max(1) as u64) as usize;
        let pd = *rng.pick(&dirs);
        let name = rng.pick(&NAMES).to_string();
        let mut o = Op::new("lookup");
        o.p = pd;
        o.name = name.clone();
        match rng.below(100) {
            0..=29 => {}
            30..=33 => {
                o.name = (*rng.pick(&[".", ".."])).to_string();
                if o.p == 1 {
                    o.name = ".".into()
                }
            }
            34..=41 => {
                o.op = "create".into();
                // O_EXCL / O_TRUNC on existing names: the refusal paths (EEXIST; EPERM with seal_size) must leave the counts alone
                o.flags = (libc::O_RDWR | if rng.chance(1, 3) { libc::O_EXCL } else { 0 } | if rng.chance(1, 3) { libc::O_TRUNC } else { 0 }) as u32;
            }
            42..=45 => o.op = "mkdir".into(),
            46..=48 => o.op = "mknod".into(),
            49..=51 => o.op = "symlink".into(),
            52..=58 => {
                o.op = "link".into();
                o.p2 = if !files.is_empty() && rng.chance(5, 6) { *rng.pick(&files) } else { any(&mut rng, w.nums.len()) };
            }
            59..=72 => {
                o.op = "forget".into();
                o.p = any(&mut rng, w.nums.len() + 1);
                o.n = *rng.pick(&[1, 1, 1, 2, 3, 100]);
            }
            73..=76 => {
                o.op = "batch_forget".into();
                for _ in 0..rng.range(1, 4) {
                    o.items.push((any(&mut rng, w.nums.len() + 1), *rng.pick(&[1, 1, 2, 50])));
                }
            }
            77..=82 => o.op = "unlink".into(),
            83 => o.op = "rmdir".into(),
            84 => o.op = if rng.chance(1, 2) { "rmdir" } else { "init" }.into(),
            85..=90 => {
                o.op = "rename".into();
                o.p2 = *rng.pick(&dirs);
                o.name2 = rng.pick(&NAMES).to_string();
            }
            _ => {
                // readdir / readdirplus on a known directory through a handle (opened on demand)
                let hid = match dir_handles.iter().find(|(d, _)| *d == pd) {
                    Some((_, h)) => *h,
                    None => {
                        let mut oo = Op::new("opendir");
                        oo.p = pd;
                        let before = w.hvals.len();
                        w.exec(&oo);
                        if w.hvals.len() > before {
                            dir_handles.push((pd, w.hvals.len()));
                            w.hvals.len()
                        } else {
                            0
                        }
                    }
                };
                o.op = "readdir".into();
                o.h = hid;
                o.plus = rng.chance(4, 5);
                o.size = *rng.pick(&[152u32, 160, 200, 320, 480, 1000, 4096]);
                let known = offs.entry(pd).or_default();
                o.off = if known.is_empty() || rng.chance(1, 2) { 0 } else { *rng.pick(known) };
                w.host_dir(pd);
                if let Some(rep) = w.readdir(&o) {
                    let known = offs.entry(pd).or_default();
                    for e in rep.ents {
                        if !known.contains(&e.off) {
                            known.push(e.off);
                        }
                    }
                }
                continue;
            }
        }
        if o.op == "unlink" || o.op == "rmdir" || o.op == "rename" || o.op == "create" || o.op == "mkdir" {
            // directory content changes: stream positions learned so far are void
            offs.clear();
        }
        w.exec(&o);
    }
    quiesce(w);
}

/// release every handle and forget every number the client holds: the quiescent end of a history
fn quiesce(w: &mut World) {
    for hid in 1..=w.hvals.len() {
        // the client remembers what it opened: (number, handle) pairs are in the trace; release is tried for
        // every number it knows until one succeeds (only the owner can succeed)
        let mut done = false;
        for id in 1..=w.nums.len() {
            if done {
                break;
            }
            let k = w.num(id);
            let h = w.hval(hid);
            // the client releases a handle the way it opened it (OPENDIR -> RELEASEDIR, OPEN/CREATE -> RELEASE, also for a
            // directory opened with OPEN); the other request only as a fall-back
            let is_dir = w.hdir.get(hid - 1).copied().unwrap_or(false);
            let r = if is_dir { w.cli.releasedir(k, h) } else { w.cli.release(k, h, false, false) };
            let r2 = if r.is_err() && w.cfg.no_open != w.cfg.no_opendir { if is_dir { w.cli.release(k, h, false, false) } else { w.cli.releasedir(k, h) } } else { r };
            if r2.is_ok() {
                let mut ev = json!({"e": "Op", "op": "release", "p": id, "name": "", "p2": 0, "name2": "", "h": hid, "n": 0, "items": [], "size": 0,
                    "off": "0", "plus": false, "fail_at": -1, "status": "OK", "ino_ret": 0, "file_id": 0, "h_ret": 0});
                ev["op"] = json!(if is_dir { "releasedir" } else { "release" });
                w.emit(ev);
                done = true;
            }
        }
    }
    let mut o = Op::new("batch_forget");
    for id in 2..=w.nums.len() {
        o.items.push((id, 1 << 20));
    }
    w.exec(&o);
    let mut f = Op::new("forget");
    f.p = 1;
    f.n = 1 << 20;
    w.exec(&f);
}

fn rand_res(w: &mut World, seed: u64, steps: u64) {
    let mut rng = Rng::new(seed);
    // live (number id, handle id, is_dir) pairs the client believes it holds, plus released ones for misuse
    let mut live: Vec<(usize, usize, bool)> = Vec::new();
    let mut dead: Vec<(usize, usize, bool)> = Vec::new();
    for _ in 0..steps {
        let mut dirs: Vec<usize> = vec![1];
        let mut files: Vec<usize> = Vec::new();
        for (i, k) in w.nums.iter().enumerate().skip(1) {
            if w.is_dir_num(*k) {
                dirs.push(i + 1)
            } else if w.is_file_num(*k) {
                files.push(i + 1)
            }
        }
        let mut o = Op::new("lookup");
        o.p = *rng.pick(&dirs);
        o.name = rng.pick(&NAMES).to_string();
        let nh = w.hvals.len();
        match rng.below(100) {
            0..=17 => {}
            18..=29 => {
                o.op = "open".into();
                o.p = if !files.is_empty() && rng.chance(7, 8) { *rng.pick(&files) } else { rng.range(1, w.nums.len() as u64) as usize };
                o.flags = libc::O_RDWR as u32;
                if rng.chance(1, 5) {
                    // OPEN (not OPENDIR) of a directory, read-only: listed through and released with RELEASE
                    o.p = *rng.pick(&dirs);
                    o.flags = libc::O_RDONLY as u32;
                }
            }
            30..=35 => {
                o.op = "create".into();
                // O_EXCL / O_TRUNC on existing names: the refusal paths (EEXIST; EPERM with seal_size) must leave the counts alone
                o.flags = (libc::O_RDWR | if rng.chance(1, 3) { libc::O_EXCL } else { 0 } | if rng.chance(1, 3) { libc::O_TRUNC } else { 0 }) as u32;
            }
            36..=43 => o.op = "opendir".into(),
            44..=61 => {
                // use of a handle: mostly right pairs, sometimes a wrong inode or a released handle
                let (mut id, mut hid, mut isd) = if !live.is_empty() { *rng.pick(&live) } else { (1, 1, true) };
                match rng.below(6) {
                    0 if !dead.is_empty() => (id, hid, isd) = *rng.pick(&dead),
                    1 => id = rng.range(1, w.nums.len() as u64) as usize,
                    _ => {}
                }
                o.p = id;
                o.h = hid;
                o.op = if isd || w.is_dir_num(w.num(id)) {
                    (*rng.pick(&["readdir", "readdir", "getattr_h"])).to_string()
                } else {
                    (*rng.pick(&["read", "write", "flush", "fsync", "getattr_h"])).to_string()
                };
                if (w.cfg.no_open && !isd) || (w.cfg.no_opendir && isd) {
                    o.h = 0;
                    o.p = if isd { *rng.pick(&dirs) } else if !files.is_empty() { *rng.pick(&files) } else { 1 };
                }
                o.size = *rng.pick(&[64u32, 200, 1000, 4096]);
                o.plus = rng.chance(1, 2);
                if o.op == "write" {
                    // inside the file or extending it (refused with seal_size); the handle must stay what it was
                    o.off = *rng.pick(&[0u64, 0, 4, 100, 5000]);
                }
                if o.op == "readdir" {
                    w.host_dir(o.p);
                }
            }
            62..=79 => {
                let (mut id, hid, isd) = if !live.is_empty() && rng.chance(5, 6) {
                    *rng.pick(&live)
                } else if !dead.is_empty() {
                    *rng.pick(&dead)
                } else {
                    (1, 1, false)
                };
                if rng.chance(1, 6) {
                    id = rng.range(1, w.nums.len() as u64) as usize;
                }
                o.op = if isd { "releasedir" } else { "release" }.into();
                o.p = id;
                o.h = hid;
                o.flags = rng.below(4) as u32;
            }
            80..=89 => {
                o.op = "forget".into();
                o.p = rng.range(1, w.nums.len() as u64 + 1) as usize;
                o.n = *rng.pick(&[1, 1, 2, 100]);
            }
            90..=92 => o.op = "unlink".into(),
            93..=94 => {
                o.op = "rename".into();
                o.p2 = *rng.pick(&dirs);
                o.name2 = rng.pick(&NAMES).to_string();
            }
            95 => o.op = "mkdir".into(),
            // a second INIT without a DESTROY: everything the client holds stays valid
            96 => o.op = "init".into(),
            _ => {
                let d = Op::new("destroy");
                w.exec(&d);
                live.clear();
                dead.clear();
                o.op = "init".into();
            }
        }
        w.exec(&o);
        if w.hvals.len() > nh && matches!(o.op.as_str(), "open" | "opendir" | "create") {
            // the number the handle belongs to: open/opendir -> o.p; create -> the returned number (last id seen)
            let id = if o.op == "create" { w.last_ino_ret } else { o.p };
            live.push((id, w.hvals.len(), o.op == "opendir"));
        }
        if (o.op == "release" || o.op == "releasedir") && w.last_status == "OK" {
            if let Some(ix) = live.iter().position(|(_, h, _)| *h == o.h) {
                dead.push(live.remove(ix));
            }
        }
    }
    quiesce(w);
}

/// C16: list one directory in many ways. `dir` is looked up from the root component by component.
fn rand_dir(w: &mut World, dir: &str, seed: u64, steps: u64, mounts: &[String]) {
    let mut rng = Rng::new(seed);
    // reach the directory
    let mut did = 1usize;
    for comp in dir.split('/').filter(|c| !c.is_empty()) {
        let mut o = Op::new("lookup");
        o.p = did;
        o.name = comp.to_string();
        w.exec(&o);
        did = w.nums.len();
    }
    if w.cfg.via != "pseudo" {
        w.host_dir(did);
    } else {
        // the "host listing" of a pseudo directory is the list of mount points below it (type: unknown)
        let v: Vec<Value> = mounts.iter().map(|m| json!([m, 0])).collect();
        w.last_listing = mounts.len();
        w.emit(json!({"e": "HostDir", "d": did, "names": v, "raw": []}));
    }
    let maxp = |plus: bool| packed(255, plus) as u32;
    let open = |w: &mut World| -> usize {
        if w.cfg.no_opendir {
            return 0;
        }
        let mut o = Op::new("opendir");
        o.p = did;
        let n = w.hvals.len();
        w.exec(&o);
        if w.hvals.len() > n {
            w.hvals.len()
        } else {
            0
        }
    };
    let mut handles = vec![open(w), open(w)];
    // a first complete sequential pass with a comfortable buffer: the client learns names, order and offsets
    let mut order: Vec<(String, u64)> = Vec::new();
    let mut off = 0u64;
    loop {
        let mut o = Op::new("readdir");
        o.p = did;
        o.h = handles[0];
        o.size = 4096;
        o.off = off;
        match w.readdir(&o) {
            Some(rep) if !rep.ents.is_empty() => {
                for e in &rep.ents {
                    order.push((e.name.clone(), e.off));
                }
                off = rep.ents.last().unwrap().off;
            }
            _ => break,
        }
        // a misbehaving server must not make the driver spin: the directory is unchanged, so there is nothing
        // to learn beyond its size
        if order.len() > w.last_listing + 8 {
            break;
        }
    }
    // position j = resume after the j-th entry (0 = start); size classes relative to the entries that follow
    let pos_off = |j: usize| if j == 0 { 0 } else { order[j - 1].1 };
    let size_for = |j: usize, m: usize, plus: bool| -> u32 {
        let mut s = 0usize;
        for e in order.iter().skip(j).take(m.max(1)) {
            s += packed(e.0.len(), plus);
        }
        s.max(packed(1, plus)) as u32
    };
    let n = order.len();
    let mut cur = vec![0usize, 0usize];
    // Host quirk (ext4, Linux 6.18): a directory descriptor whose FIRST getdents64 happened at the end-of-directory
    // position is not rewound by a later lseek(0) (plain syscalls show the same). The driver therefore does not start
    // a fresh handle at the end position.
    let mut fresh = vec![false, true];
    for step in 0..steps {
        let slot = rng.below(2) as usize;
        let plus = rng.chance(1, 3);
        let j = match rng.below(10) {
            0 => 0,
            1 | 2 if n > 0 => rng.below(n as u64 + 1) as usize,
            3 if cur[slot] > 0 => cur[slot] - 1,
            4 if cur[slot] > 3 => cur[slot] - rng.range(1, 3) as usize,
            _ => cur[slot],
        }
        .min(n);
        let j = if fresh[slot] && j == n { 0 } else { j };
        fresh[slot] = false;
        let mut o = Op::new("readdir");
        o.p = did;
        o.h = handles[slot];
        o.plus = plus;
        o.off = pos_off(j);
        o.size = match rng.below(13) {
            // sizes that are no multiple of 8: the space left before the last entry lies between its unpadded and its
            // padded length
            10 | 11 => size_for(j, rng.range(2, 9) as usize, plus).saturating_sub(rng.range(1, 7) as u32).max(1),
            12 => *rng.pick(&[58u32, 4093, 250, 333, 1001, 4099]),
            0 | 1 | 2 => size_for(j, 1, plus),
            3 => size_for(j, 1, plus) + rng.below(8) as u32,
            4 => size_for(j, 2, plus),
            5 => size_for(j, rng.range(1, 9) as usize, plus) + rng.below(24) as u32,
            6 => maxp(plus),
            7 => 4096,
            8 => *rng.pick(&[8192u32, 65536, 1000, 2000]),
            _ => size_for(j, rng.range(1, 40) as usize, plus),
        };
        match w.readdir(&o) {
            Some(rep) => cur[slot] = (j + rep.ents.len()).min(n),
            None => {}
        }
        if w.cfg.via != "pseudo" && step % 16 == 15 {
            // readdirplus references pile up: give them back now and then (forget counts are exact per number)
            forget_all(w, did);
        }
        if !w.cfg.no_opendir && rng.chance(1, 40) {
            // swap a handle for a fresh one
            let mut o = Op::new("releasedir");
            o.p = did;
            o.h = handles[slot];
            w.exec(&o);
            handles[slot] = open(w);
            cur[slot] = 0;
            fresh[slot] = true;
        }
    }
    // closing sequential pass with the smallest sizes that must still make progress, from the start, then
    // an end-of-stream probe; the trace judge requires the chain from 0 to cover the host listing
    for (slot, plus) in [(0usize, false), (1usize, true)] {
        let mut j = 0usize;
        let mut rounds = 0usize;
        loop {
            // a misbehaving server must not make the driver spin
            rounds += 1;
            if rounds > 2 * n + 8 {
                break;
            }
            let mut o = Op::new("readdir");
            o.p = did;
            o.h = handles[slot];
            o.plus = plus;
            o.off = pos_off(j);
            o.size = if j >= n {
                maxp(plus)
            } else if j % 3 == 0 {
                size_for(j, 1, plus)
            } else {
                // room for 2..3 entries, the last one short of 0..7 bytes
                size_for(j, 1 + (j % 3), plus) - (j % 8) as u32
            };
            match w.readdir(&o) {
                Some(rep) if !rep.ents.is_empty() => j = (j + rep.ents.len()).min(n),
                _ => break,
            }
        }
        forget_all(w, did);
    }
    w.emit(json!({"e": "DirEnd", "d": did}));
    for h in handles {
        if h != 0 {
            let mut o = Op::new("releasedir");
            o.p = did;
            o.h = h;
            w.exec(&o);
        }
    }
    quiesce(w);
}

fn forget_all(w: &mut World, keep: usize) {
    let mut o = Op::new("batch_forget");
    for id in 2..=w.nums.len() {
        if id != keep {
            o.items.push((id, 1 << 20));
        }
    }
    if !o.items.is_empty() {
        w.exec(&o);
    }
}

/// C16: a TLC-exported resume pattern. Steps: (handle slot, resume position j in stream order, fit = number of
/// following entries the buffer is sized for (0 = exactly the next entry), plus).
fn dir_pattern(w: &mut World, dir: &str, pat: &[(usize, usize, usize, bool)], mounts: &[String]) {
    let mut did = 1usize;
    for comp in dir.split('/').filter(|c| !c.is_empty()) {
        let mut o = Op::new("lookup");
        o.p = did;
        o.name = comp.to_string();
        w.exec(&o);
        did = w.nums.len();
    }
    if w.cfg.via != "pseudo" {
        w.host_dir(did);
    } else {
        let v: Vec<Value> = mounts.iter().map(|m| json!([m, 0])).collect();
        w.last_listing = mounts.len();
        w.emit(json!({"e": "HostDir", "d": did, "names": v, "raw": []}));
    }
    let mut handles = Vec::new();
    for _ in 0..2 {
        if w.cfg.no_opendir {
            handles.push(0);
        } else {
            let mut o = Op::new("opendir");
            o.p = did;
            w.exec(&o);
            handles.push(w.hvals.len());
        }
    }
    let mut order: Vec<(String, u64)> = Vec::new();
    let mut off = 0u64;
    loop {
        let mut o = Op::new("readdir");
        o.p = did;
        o.h = handles[0];
        o.size = 4096;
        o.off = off;
        match w.readdir(&o) {
            Some(rep) if !rep.ents.is_empty() => {
                for e in &rep.ents {
                    order.push((e.name.clone(), e.off));
                }
                off = rep.ents.last().unwrap().off;
            }
            _ => break,
        }
        // a misbehaving server must not make the driver spin: the directory is unchanged, so there is nothing
        // to learn beyond its size
        if order.len() > w.last_listing + 8 {
            break;
        }
    }
    let n = order.len();
    let mut fresh = [false, true];
    for (slot, j, fit, plus) in pat {
        let j = (*j).min(n);
        // see rand_dir: a fresh handle is not started at the end position (host quirk)
        let j = if fresh[*slot % 2] && j == n { 0 } else { j };
        fresh[*slot % 2] = false;
        let mut o = Op::new("readdir");
        o.p = did;
        o.h = handles[*slot % 2];
        o.plus = *plus;
        o.off = if j == 0 { 0 } else { order[j - 1].1 };
        let mut s = 0usize;
        for e in order.iter().skip(j).take((*fit).max(1)) {
            s += packed(e.0.len(), *plus);
        }
        o.size = s.max(packed(1, *plus)) as u32;
        w.readdir(&o);
    }
    w.emit(json!({"e": "DirEnd", "d": did}));
    quiesce(w);
}

fn run_scenario(s: &Scen, work: &Path, part: &str, seg: u64, abi: Option<&str>) {
    let root = work.join(format!("t{seg}"));
    let _ = std::fs::remove_dir_all(&root);
    mk_tree(&root, &s.tree);
    let tr = Trace::create(part);
    let cli = build(&s.cfg, &root, abi, &s.mounts);
    let mut w = World {
        cli,
        cfg: s.cfg.clone(),
        root: root.clone(),
        nums: vec![ROOT],
        hvals: vec![],
        keys: HashMap::new(),
        cur: Vec::new(),
        fkeys: HashMap::new(),
        by_ino: HashMap::new(),
        last_host: vec![],
        tr,
        seg,
        i: 0,
        probes: true,
        last_listing: 0,
        sparse_probes: matches!(s.kind, ScenKind::RandDir(..) | ScenKind::DirPattern(..)),
        last_status: String::new(),
        hdir: Vec::new(),
        last_ino_ret: 0,
    };
    if let Some(k) = file_key(&root) {
        w.keys.insert(ROOT, k);
    }
    w.refresh();
    let (fds, _, dense) = fd_census();
    let (a, b, c) = w.cli.sizes();
    let kind = match &s.kind {
        ScenKind::Script(_) => "script",
        ScenKind::RandRefs(..) => "refs",
        ScenKind::RandRes(..) => "res",
        ScenKind::RandDir(..) => "dir",
        ScenKind::DirPattern(..) => "dirpat",
    };
    w.emit(json!({"e": "Cfg", "fh": s.cfg.fh, "hostino": s.cfg.hostino, "no_open": s.cfg.no_open, "no_opendir": s.cfg.no_opendir, "via": s.cfg.via,
        "tag": s.cfg.tag(), "kind": kind, "dense": dense, "base": {"fds": fds, "inodes": a, "handles": b, "cookies": c}}));
    if s.cfg.via == "pseudo" {
        w.probes = false;
    } else {
        w.host(true);
    }
    w.probe_res();
    match &s.kind {
        ScenKind::Script(ops) => {
            for o in ops {
                if o.op == "readdir" {
                    w.host_dir(o.p);
                }
                if o.op == "quiesce" {
                    quiesce(&mut w);
                } else {
                    w.exec(o);
                }
            }
        }
        ScenKind::RandRefs(seed, n) => rand_refs(&mut w, *seed, *n),
        ScenKind::RandRes(seed, n) => rand_res(&mut w, *seed, *n),
        ScenKind::RandDir(d, seed, n) => rand_dir(&mut w, d, *seed, *n, &s.mounts),
        ScenKind::DirPattern(d, pat) => dir_pattern(&mut w, d, pat, &s.mounts),
    }
    w.emit(json!({"e": "End"}));
    w.tr.flush();
    drop(w);
    let _ = std::fs::remove_dir_all(&root);
}

/// Run every scenario in a freshly forked child; the parent holds no descriptors besides 0,1,2.
fn run_all(scens: &[Scen], work: &Path, out: &str, abi: Option<&str>) {
    let _ = std::fs::remove_file(out);
    let mut n_ev = 0usize;
    for (ix, s) in scens.iter().enumerate() {
        let seg = ix as u64 + 1;
        let part = format!("{out}.part");
        let pid = unsafe { libc::fork() };
        if pid == 0 {
            let r = std::panic::catch_unwind(std::panic::AssertUnwindSafe(|| run_scenario(s, work, &part, seg, abi)));
            unsafe { libc::_exit(if r.is_ok() { 0 } else { 3 }) };
        }
        let mut status = 0;
        unsafe { libc::waitpid(pid, &mut status, 0) };
        let mut data = std::fs::read(&part).unwrap_or_default();
        // keep complete lines only
        if let Some(p) = data.iter().rposition(|b| *b == b'\n') {
            data.truncate(p + 1);
        } else {
            data.clear();
        }
        let ok = libc::WIFEXITED(status) && libc::WEXITSTATUS(status) == 0;
        if !ok {
            data.extend_from_slice(format!("{{\"e\":\"Crash\",\"seg\":{seg},\"i\":0,\"status\":{status}}}\n").as_bytes());
        }
        n_ev += data.iter().filter(|b| **b == b'\n').count();
        let mut f = std::fs::OpenOptions::new().create(true).append(true).open(out).unwrap();
        f.write_all(&data).unwrap();
        drop(f);
        let _ = std::fs::remove_file(&part);
    }
    println!("scenarios {} events {}", scens.len(), n_ev);
}

fn cfg_of(v: &Value) -> Cfg {
    let b = |k: &str| v.get(k).and_then(|x| x.as_bool()).unwrap_or(false);
    Cfg { fh: b("fh"), hostino: b("hostino"), no_open: b("no_open"), no_opendir: b("no_opendir"), seal: b("seal"), via: v.get("via").and_then(|x| x.as_str()).unwrap_or("pt").to_string() }
}

fn tree_of(v: &Value) -> Vec<(String, char)> {
    v.get("tree")
        .and_then(|t| t.as_array())
        .map(|a| a.iter().map(|r| (r[0].as_str().unwrap().to_string(), r[1].as_str().unwrap().chars().next().unwrap())).collect())
        .unwrap_or_default()
}

/// scenario files: one JSON object per line {cfg{..}, tree[[path,kind]], ops[..]} or {cfg, tree, dir, pattern[[slot,j,fit,plus]]}
fn load_scens(path: &str) -> Vec<Scen> {
    let mut out = Vec::new();
    let txt = std::fs::read_to_string(path).unwrap_or_default();
    for l in txt.lines().filter(|l| !l.trim().is_empty()) {
        let v: Value = serde_json::from_str(l).expect("scenario json");
        let cfg = cfg_of(&v["cfg"]);
        let tree = tree_of(&v);
        let mounts: Vec<String> = v.get("mounts").and_then(|m| m.as_array()).map(|a| a.iter().map(|x| x.as_str().unwrap().to_string()).collect()).unwrap_or_default();
        let kind = if let Some(p) = v.get("pattern") {
            ScenKind::DirPattern(
                v["dir"].as_str().unwrap_or("").to_string(),
                p.as_array().unwrap().iter().map(|s| (s[0].as_u64().unwrap() as usize, s[1].as_u64().unwrap() as usize, s[2].as_u64().unwrap() as usize, s[3].as_bool().unwrap_or(false))).collect(),
            )
        } else if let Some(r) = v.get("random") {
            let seed = r["seed"].as_u64().unwrap_or(1);
            let steps = r["steps"].as_u64().unwrap_or(100);
            match r["kind"].as_str().unwrap_or("refs") {
                "refs" => ScenKind::RandRefs(seed, steps),
                "res" => ScenKind::RandRes(seed, steps),
                _ => ScenKind::RandDir(v["dir"].as_str().unwrap_or("").to_string(), seed, steps),
            }
        } else {
            ScenKind::Script(v["ops"].as_array().unwrap().iter().map(Op::from_json).collect())
        };
        out.push(Scen { cfg, tree, kind, mounts });
    }
    out
}

fn main() {
    let a: Vec<String> = std::env::args().collect();
    if a.len() < 4 {
        eprintln!("usage: ptrefs run <workdir> <out.ndjson> <scenarios.ndjson> [abi.json]");
        std::process::exit(2);
    }
    let _ = env_u64("VERIF_SEED", 1);
    let work = PathBuf::from(&a[2]);
    std::fs::create_dir_all(&work).unwrap();
    let scens = load_scens(&a[4]);
    run_all(&scens, &work, &a[3], a.get(5).map(|s| s.as_str()));
    let _ = BTreeMap::<u8, u8>::new();
}
