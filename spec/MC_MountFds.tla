----------------------------- MODULE MC_MountFds -----------------------------
(* Model-checking, export and mutation configurations of MountFdsImpl (X07).
   MC_MountFds_<shape>.cfg      exhaustive check (VIEW hides `hist`)
   MC_MountFds_<shape>_x.cfg    export: `hist` is part of the state, TLC walks the tree of ALL
                                interleavings and prints one "SCHED {json}" line per maximal one
   MC_MountFds_mut_*.cfg        mutation self-tests (an invariant must be violated)
   Shapes B_* : the bare object (Ctx = FALSE; names are reference slots, one per getter).
   Shapes C_* : inside PassthroughFs (Ctx = TRUE): "m" = the mount point directory of mount 1,
                "a", "b" = files on it, "n" = the mount point of mount 2. *)
EXTENDS MountFdsImpl, Json

LKP(x) == [op |-> "lookup", nm |-> x, n |-> 0, fail |-> "none"]
LKF(x, f) == [op |-> "lookup", nm |-> x, n |-> 0, fail |-> f]
FGT(x, k) == [op |-> "forget", nm |-> x, n |-> k, fail |-> "none"]

NamesAll == {"m", "a", "b", "n", "g1", "g2", "g3"}
MountsAll == {1, 2}
MountOfAll == [x \in NamesAll |-> IF x = "n" THEN 2 ELSE 1]

\* bare object
Ops_B_GD == <<LKP("g1"), FGT("a", 1)>>                              \* get || drop-last
Ops_B_GG == <<LKP("g1"), LKP("g2")>>                                \* get || get
Ops_B_2G1D == <<LKP("g1"), LKP("g2"), FGT("a", 1)>>                 \* 2 getters + 1 dropper
Ops_B_G2D == <<LKP("g1"), FGT("a", 1), FGT("b", 1)>>                \* 1 getter + 2 droppers
Ops_B_3G == <<LKP("g1"), LKP("g2"), LKP("g3")>>
Ops_B_GPG == <<LKP("g1"), FGT("g1", 1), LKP("g2")>>                 \* a reference released while another get runs
Ops_B_FAIL == <<LKF("g1", "reopen"), LKF("g2", "validate"), FGT("a", 1)>>
Ops_B_FAIL2 == <<LKF("g1", "open"), LKP("g2"), FGT("a", 1)>>
Ops_B_2M == <<LKP("g1"), LKP("n"), FGT("a", 1)>>                    \* two mounts are independent
\* inside PassthroughFs
Ops_C_LF == <<LKP("m"), FGT("a", 1)>>
Ops_C_LL == <<LKP("m"), LKP("m")>>
Ops_C_2L1F == <<LKP("m"), LKP("m"), FGT("a", 1)>>
Ops_C_L2F == <<LKP("m"), FGT("a", 1), FGT("b", 1)>>
Ops_C_3L == <<LKP("m"), LKP("m"), LKP("m")>>
Ops_C_LFM == <<LKP("m"), FGT("m", 1), FGT("a", 1)>>
Ops_C_LLFM == <<LKP("m"), LKP("m"), FGT("m", 2)>>
Ops_C_FAIL == <<LKF("m", "reopen"), LKP("m"), FGT("a", 1)>>
Ops_C_FAIL2 == <<LKF("m", "open"), LKF("m", "reopen"), FGT("a", 1)>>
Ops_C_2M == <<LKP("m"), LKP("n"), FGT("a", 1)>>

H_0 == {{}}
H_a == {{"a"}}
H_0a == {{}, {"a"}}
H_a_ab == {{"a"}, {"a", "b"}}
H_ab == {{"a", "b"}}
H_0_a_ab == {{}, {"a"}, {"a", "b"}}
H_m_ma == {{"m"}, {"m", "a"}, {"a"}}
H_0_m == {{}, {"m"}, {"a"}}

ASSUME PrintT("OPS " \o ToJson(Ops))

SetToSeq(S) == LET RECURSIVE f(_)
                   f(T) == IF T = {} THEN <<>> ELSE LET x == CHOOSE y \in T : TRUE IN <<x>> \o f(T \ {x})
               IN f(S)
\* one line per maximal interleaving (export configs only)
Export == AllDone => PrintT("SCHED " \o ToJson([h0 |-> SetToSeq(held0), s |-> hist]))
=============================================================================
