//! Runs one request through `Server::handle_message` over either transport and records what came
//! out: number of write(2) calls and their bytes (fusedev: an AF_UNIX SOCK_SEQPACKET pair, one
//! message per write), or the bytes placed in guest memory (virtio-fs: real `GuestMemoryMmap` with
//! dirty bitmap and a descriptor chain built through virtio-queue), canaries, dirty pages.
use fuse_backend_rs::api::filesystem::FileSystem;
use fuse_backend_rs::api::server::{MetricsHook, Server};
use fuse_backend_rs::transport::{FsCacheReqHandler, FuseBuf, FuseDevWriter, Reader, VirtioFsWriter, Writer};
use serde_json::{json, Value};
use std::os::unix::io::RawFd;
use virtio_queue::desc::{split::Descriptor as SplitDescriptor, RawDescriptor};
use virtio_queue::mock::MockSplitQueue;
use vm_memory::bitmap::{AtomicBitmap, Bitmap, MS};
use vm_memory::{Bytes, GuestAddress, GuestMemory, GuestMemoryRegion};

pub type Mem = vm_memory::GuestMemoryMmap<AtomicBitmap>;

pub const CANARY: u8 = 0xC5;
pub const POISON: u8 = 0x5A;

#[derive(Debug, Clone)]
pub struct Outcome {
    /// "ok:<n>" | "err:<variant>" | "panic"
    pub ret: String,
    /// messages emitted (fusedev: one per write call; virtio-fs: at most one = the bytes written at the
    /// start of the writable space)
    pub msgs: Vec<Vec<u8>>,
    pub canary_ok: bool,
    /// bytes of the reply buffer beyond what was emitted are unchanged
    pub tail_untouched: bool,
    /// virtio-fs only: [start,len] ranges (offsets in the flattened writable space) that differ from poison
    pub written: Vec<(usize, usize)>,
    /// virtio-fs only: pages (guest page numbers) marked dirty in the reply region / request region
    pub dirty_reply: Vec<u64>,
    pub dirty_req: Vec<u64>,
    /// virtio-fs only: guest address ranges of the writable segments [addr,len]
    pub wsegs: Vec<(u64, usize)>,
}

fn err_variant<E: std::fmt::Debug>(e: &E) -> String {
    let s = format!("{e:?}");
    s.split(|c: char| !c.is_alphanumeric()).next().unwrap_or("").to_string()
}

pub struct SeqPair {
    pub tx: RawFd,
    pub rx: RawFd,
}

impl SeqPair {
    pub fn new() -> SeqPair {
        let mut fds = [0 as RawFd; 2];
        let r = unsafe { libc::socketpair(libc::AF_UNIX, libc::SOCK_SEQPACKET | libc::SOCK_NONBLOCK, 0, fds.as_mut_ptr()) };
        assert_eq!(r, 0, "socketpair");
        let sz: libc::c_int = 8 << 20;
        for (fd, opt) in [(fds[0], libc::SO_SNDBUFFORCE), (fds[1], libc::SO_RCVBUFFORCE)] {
            unsafe {
                libc::setsockopt(fd, libc::SOL_SOCKET, opt, &sz as *const _ as *const libc::c_void, 4);
            }
        }
        SeqPair { tx: fds[0], rx: fds[1] }
    }
    pub fn drain(&self) -> Vec<Vec<u8>> {
        let mut out = Vec::new();
        let mut buf = vec![0u8; (2 << 20) + 4096];
        loop {
            let n = unsafe { libc::recv(self.rx, buf.as_mut_ptr() as *mut libc::c_void, buf.len(), 0) };
            if n < 0 {
                break;
            }
            out.push(buf[..n as usize].to_vec());
            if n == 0 {
                break;
            }
        }
        out
    }
}

impl Drop for SeqPair {
    fn drop(&mut self) {
        unsafe {
            libc::close(self.tx);
            libc::close(self.rx);
        }
    }
}

/// /dev/fuse style: one contiguous request buffer, one contiguous reply buffer of `cap` bytes.
pub fn run_fusedev<F: FileSystem + Sync>(
    server: &Server<F>,
    req: &[u8],
    cap: usize,
    vu: Option<&mut dyn FsCacheReqHandler>,
    pair: &SeqPair,
) -> Outcome {
    run_fusedev_hook(server, req, cap, vu, pair, None)
}

/// Same, with a `MetricsHook` (used to observe the negotiated INIT parameters).
pub fn run_fusedev_hook<F: FileSystem + Sync>(
    server: &Server<F>,
    req: &[u8],
    cap: usize,
    vu: Option<&mut dyn FsCacheReqHandler>,
    pair: &SeqPair,
    hook: Option<&dyn MetricsHook>,
) -> Outcome {
    let (ret, canary_ok) = run_fusedev_with(req, cap, pair.tx, |reader, writer| match server.handle_message(reader, writer, vu, hook) {
        Ok(n) => format!("ok:{n}"),
        Err(e) => format!("err:{}", err_variant(&e)),
    });
    Outcome {
        ret,
        msgs: pair.drain(),
        canary_ok,
        tail_untouched: true,
        written: vec![],
        dirty_reply: vec![],
        dirty_req: vec![],
        wsegs: vec![],
    }
}

/// One contiguous request buffer and one contiguous reply buffer of `cap` bytes over `fd`, canaries around
/// the reply buffer; `call` receives the Reader/Writer pair. Returns (result string or "panic", canary_ok).
pub fn run_fusedev_with(req: &[u8], cap: usize, fd: RawFd, call: impl FnOnce(Reader<'_, ()>, Writer<'_, ()>) -> String) -> (String, bool) {
    const PAD: usize = 256;
    let mut rbuf = req.to_vec();
    let mut wall = vec![CANARY; cap + 2 * PAD];
    for b in wall[PAD..PAD + cap].iter_mut() {
        *b = POISON;
    }
    let ret = {
        let (_, rest) = wall.split_at_mut(PAD);
        let (wbuf, _) = rest.split_at_mut(cap);
        let res = std::panic::catch_unwind(std::panic::AssertUnwindSafe(|| {
            let reader = match Reader::<()>::from_fuse_buffer(FuseBuf::new(&mut rbuf)) {
                Ok(r) => r,
                Err(e) => return format!("err:reader:{}", err_variant(&e)),
            };
            let writer = match FuseDevWriter::<()>::new(fd, wbuf) {
                Ok(w) => w,
                Err(e) => return format!("err:writer:{}", err_variant(&e)),
            };
            call(reader, Writer::FuseDev(writer))
        }));
        res.unwrap_or_else(|_| "panic".to_string())
    };
    let canary_ok = wall[..PAD].iter().all(|b| *b == CANARY) && wall[PAD + cap..].iter().all(|b| *b == CANARY);
    (ret, canary_ok)
}

/// As `run_fusedev_with`, but Reader and Writer share ONE buffer, exactly as the production `FuseChannel::get_request`
/// hands them out ("we assume Reader won't be used anymore once we start to write to the Writer"): a handler that
/// writes reply bytes before it has finished reading the request corrupts its own input here, as it would in production.
pub fn run_fusedev_aliased(req: &[u8], cap: usize, fd: RawFd, call: impl FnOnce(Reader<'_, ()>, Writer<'_, ()>) -> String) -> (String, bool) {
    const PAD: usize = 256;
    let size = cap.max(req.len());
    let mut wall = vec![CANARY; size + 2 * PAD];
    for b in wall[PAD..PAD + size].iter_mut() {
        *b = POISON;
    }
    wall[PAD..PAD + req.len()].copy_from_slice(req);
    let ret = {
        let base = unsafe { wall.as_mut_ptr().add(PAD) };
        // two views of the same memory, like the production channel
        let rbuf: &mut [u8] = unsafe { std::slice::from_raw_parts_mut(base, req.len()) };
        let wbuf: &mut [u8] = unsafe { std::slice::from_raw_parts_mut(base, cap) };
        let res = std::panic::catch_unwind(std::panic::AssertUnwindSafe(|| {
            let reader = match Reader::<()>::from_fuse_buffer(FuseBuf::new(rbuf)) {
                Ok(r) => r,
                Err(e) => return format!("err:reader:{}", err_variant(&e)),
            };
            let writer = match FuseDevWriter::<()>::new(fd, wbuf) {
                Ok(w) => w,
                Err(e) => return format!("err:writer:{}", err_variant(&e)),
            };
            call(reader, Writer::FuseDev(writer))
        }));
        res.unwrap_or_else(|_| "panic".to_string())
    };
    let canary_ok = wall[..PAD].iter().all(|b| *b == CANARY) && wall[PAD + size..].iter().all(|b| *b == CANARY);
    (ret, canary_ok)
}

pub fn err_name<E: std::fmt::Debug>(e: &E) -> String {
    err_variant(e)
}

pub const QUEUE_BASE: u64 = 0;
pub const REQ_BASE: u64 = 0x0100_0000;
pub const REPLY_BASE: u64 = 0x0400_0000;
pub const PAGE: u64 = 4096;

/// Lay out `lens` as segments starting at base+first_off, separated by `gap` bytes; returns (addr,len).
pub fn layout(base: u64, first_off: u64, lens: &[usize], gap: u64) -> Vec<(u64, usize)> {
    let mut out = Vec::new();
    let mut a = base + first_off;
    for l in lens {
        out.push((a, *l));
        a += *l as u64 + gap;
    }
    out
}

/// virtio-fs style: the request split over readable descriptors `rlens` (sum >= req.len(); the excess is
/// zero padding the request does not cover), reply space = writable descriptors `wlens`.
pub fn run_virtio<F: FileSystem + Sync>(
    server: &Server<F>,
    req: &[u8],
    rlens: &[usize],
    wlens: &[usize],
    roff: u64,
    woff: u64,
    gap: u64,
    vu: Option<&mut dyn FsCacheReqHandler>,
) -> Outcome {
    run_virtio_with(req, rlens, wlens, roff, woff, gap, |reader, writer| match server.handle_message(reader, writer, vu, None) {
        Ok(n) => format!("ok:{n}"),
        Err(e) => format!("err:{}", err_variant(&e)),
    })
}

/// Same layout, `call` receives the Reader/Writer pair built over the descriptor chain.
pub fn run_virtio_with(
    req: &[u8],
    rlens: &[usize],
    wlens: &[usize],
    roff: u64,
    woff: u64,
    gap: u64,
    call: impl for<'a> FnOnce(Reader<'a, MS<'a, Mem>>, Writer<'a, MS<'a, Mem>>) -> String,
) -> Outcome {
    let rsegs = layout(REQ_BASE, roff, rlens, gap);
    let wsegs = layout(REPLY_BASE, woff, wlens, gap);
    let rspan = rsegs.last().map(|(a, l)| a + *l as u64 - REQ_BASE).unwrap_or(0) + gap + PAGE;
    let wspan = wsegs.last().map(|(a, l)| a + *l as u64 - REPLY_BASE).unwrap_or(0) + gap + PAGE;
    let rsize = ((rspan + PAGE - 1) / PAGE * PAGE) as usize;
    let wsize = ((wspan + PAGE - 1) / PAGE * PAGE) as usize;
    let mem: Mem = Mem::from_ranges(&[
        (GuestAddress(QUEUE_BASE), 0x10000),
        (GuestAddress(REQ_BASE), rsize),
        (GuestAddress(REPLY_BASE), wsize),
    ])
    .expect("guest memory");
    // fill request and reply regions with canaries, then request bytes / poison
    // set-up writes go through the host mapping so that they do not touch the dirty bitmap
    let poke = |addr: u64, data: &[u8]| {
        let p = mem.get_host_address(GuestAddress(addr)).expect("host address");
        unsafe { std::ptr::copy_nonoverlapping(data.as_ptr(), p, data.len()) };
    };
    poke(REQ_BASE, &vec![CANARY; rsize]);
    poke(REPLY_BASE, &vec![CANARY; wsize]);
    let mut pos = 0usize;
    for (a, l) in &rsegs {
        let mut seg = vec![0u8; *l];
        let n = (*l).min(req.len().saturating_sub(pos));
        seg[..n].copy_from_slice(&req[pos..pos + n]);
        pos += n;
        if !seg.is_empty() {
            poke(*a, &seg);
        }
    }
    for (a, l) in &wsegs {
        if *l > 0 {
            poke(*a, &vec![POISON; *l]);
        }
    }
    let before_req = dump(&mem, REQ_BASE, rsize);
    let before_reply = dump(&mem, REPLY_BASE, wsize);
    // descriptors
    let mut descs: Vec<RawDescriptor> = Vec::new();
    for (a, l) in &rsegs {
        descs.push(RawDescriptor::from(SplitDescriptor::new(*a, *l as u32, 0, 0)));
    }
    for (a, l) in &wsegs {
        descs.push(RawDescriptor::from(SplitDescriptor::new(*a, *l as u32, 2, 0)));
    }
    let q = MockSplitQueue::new(&mem, 256);
    let ret = {
        let res = std::panic::catch_unwind(std::panic::AssertUnwindSafe(|| {
            let chain = match q.build_desc_chain(&descs) {
                Ok(c) => c,
                Err(e) => return format!("err:chain:{}", err_variant(&e)),
            };
            let reader = match Reader::from_descriptor_chain(&mem, chain.clone()) {
                Ok(r) => r,
                Err(e) => return format!("err:reader:{}", err_variant(&e)),
            };
            let writer = match VirtioFsWriter::new(&mem, chain) {
                Ok(w) => w,
                Err(e) => return format!("err:writer:{}", err_variant(&e)),
            };
            call(reader, Writer::VirtioFs(writer))
        }));
        res.unwrap_or_else(|_| "panic".to_string())
    };
    let after_req = dump(&mem, REQ_BASE, rsize);
    let after_reply = dump(&mem, REPLY_BASE, wsize);
    // request region must be byte-identical; reply region may only change inside writable segments
    let mut canary_ok = before_req == after_req;
    let mut inside = vec![false; wsize];
    for (a, l) in &wsegs {
        for i in 0..*l {
            inside[(*a - REPLY_BASE) as usize + i] = true;
        }
    }
    for i in 0..wsize {
        if !inside[i] && before_reply[i] != after_reply[i] {
            canary_ok = false;
        }
    }
    // flattened writable space
    let mut flat = Vec::new();
    for (a, l) in &wsegs {
        let o = (*a - REPLY_BASE) as usize;
        flat.extend_from_slice(&after_reply[o..o + *l]);
    }
    let mut written = Vec::new();
    let mut i = 0;
    while i < flat.len() {
        if flat[i] != POISON {
            let s = i;
            while i < flat.len() && flat[i] != POISON {
                i += 1;
            }
            written.push((s, i - s));
        } else {
            i += 1;
        }
    }
    // the message, if any: header length field at the start of the writable space
    let mut msgs = Vec::new();
    let mut tail_untouched = true;
    if !written.is_empty() || flat.iter().any(|b| *b != POISON) {
        let hl = if flat.len() >= 4 { u32::from_le_bytes([flat[0], flat[1], flat[2], flat[3]]) as usize } else { 0 };
        let n = hl.min(flat.len());
        msgs.push(flat[..n].to_vec());
        tail_untouched = flat[n..].iter().all(|b| *b == POISON);
    }
    let dirty = |base: u64, size: usize| -> Vec<u64> {
        let mut v = Vec::new();
        let region = mem.find_region(GuestAddress(base)).unwrap();
        let mut off = 0usize;
        while off < size {
            if region.bitmap().dirty_at(off) {
                v.push((base + off as u64) / PAGE);
            }
            off += PAGE as usize;
        }
        v
    };
    Outcome {
        ret,
        msgs,
        canary_ok,
        tail_untouched,
        written,
        dirty_reply: dirty(REPLY_BASE, wsize),
        dirty_req: dirty(REQ_BASE, rsize),
        wsegs,
    }
}

fn dump(mem: &Mem, base: u64, size: usize) -> Vec<u8> {
    let mut v = vec![0u8; size];
    mem.read_slice(&mut v, GuestAddress(base)).unwrap();
    v
}

pub fn outcome_json(o: &Outcome) -> Value {
    json!({"ret": o.ret, "nmsgs": o.msgs.len(), "canary_ok": o.canary_ok, "tail_untouched": o.tail_untouched})
}
