SPECIFICATION Spec
CONSTANTS
  Ops <- Ops_1LF2
  R0Set <- R0_012
  Eager = TRUE
  SkipZeroRetry = FALSE
  NoReprobe = FALSE
  BlindStore = FALSE
INVARIANTS Refines Final RetInMap NoZeroVisible OneNumber LockSane Export

