SPECIFICATION Spec
CHECK_DEADLOCK FALSE
CONSTANTS
  Names = {"a", "b", "c"}
  MaxDepth = 3
