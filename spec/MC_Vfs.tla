------------------------------- MODULE MC_Vfs -------------------------------
(* Model-checking instances of VfsImpl (I => A). Ids are pairs to base 4 (16 ids). *)
EXTENDS VfsImpl
MC_Paths == {<<"">>, <<"", "a">>, <<"", "a", "b">>}
MC_Paths2 == {<<"">>, <<"", "a">>}
MC_BadPath == <<"bad">>
MC_Backends == {"b1", "b2"}
\* overlapping ranges: internal 0..7 <-> external 1..8 (translating twice moves an id twice)
M1 == [i |-> Id(0, 0), e |-> Id(0, 1), r |-> Id(2, 0)]
\* reversed, disjoint: internal 8..11 <-> external 4..7
M2 == [i |-> Id(2, 0), e |-> Id(1, 0), r |-> Id(1, 0)]
\* touches the top of the id space: internal 12..15 <-> external 0..3
M3 == [i |-> Id(3, 0), e |-> Id(0, 0), r |-> Id(1, 0)]
MC_Maps == {M1, M2}
MC_Maps3 == {M1, M2, M3}
MC_GMaps == {NoMap, M1}
MC_GMaps3 == {NoMap, M1, M3}
MC_RootUid == Zero
MC_TestUid == Id(0, 1)
MC_AllDefects == {"S6a", "S6b", "S7a", "S7b", "RM"}
MC_None == {}
MC_Bug_S6a == {"S6a"}
MC_Bug_S6b == {"S6b"}
MC_Bug_S7a == {"S7a"}
MC_Bug_S7b == {"S7b"}
MC_Bug_RM == {"RM"}
ASSUME \A m \in MC_Maps3 : WellFormed(m)
=============================================================================
