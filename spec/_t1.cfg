SPECIFICATION Spec
CONSTANTS
  P = 2
  M = 100000
  MaxSegs = 2
  MaxLen = 2
  Bases <- MC_Bases4
  FLens <- MC_FLens
  Kinds <- MC_KindsAll
  MaxOps = 3
  MaxN = 2
  FileSize = 2
  Chunks <- MC_Chunks
VIEW View
INVARIANTS FlatAgree Counters InOrderOnce Placed FailClean Results NoOOB DirtyExact ObjCount
CHECK_DEADLOCK FALSE
