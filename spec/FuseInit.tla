------------------------------- MODULE FuseInit -------------------------------
(* INIT negotiation (C12).
   A-level: what a reply to FUSE_INIT must say, as a function of what the client sent and what the
   filesystem asked for, and which behaviour switches may be on afterwards.
   I-level: the negotiation code transcribed: Server::init (src/api/server/sync_io.rs), Vfs::init
   (src/api/vfs/sync_io.rs), PassthroughFs::init (src/passthrough/sync_io.rs), OverlayFs::init
   (src/overlayfs/sync_io.rs).
   One behaviour = one negotiation on one stack, followed by a second INIT that offers something else (the same, nothing,
   everything the client's minor allows, the complement), with or without a DESTROY in between (a re-mount on the same
   server object). TLC enumerates every case within the bit universe below and exports it for replay on the real stacks. *)
EXTENDS Naturals, FiniteSets, TLC
CONSTANT ExtMarker     \* TRUE: Server::init announces extended (flags2) bits under the INIT_EXT marker (the code after the
                       \* "fix:" commit for C12); FALSE: the code as found, kept to reproduce the finding
CONSTANT StickySw      \* TRUE: PassthroughFs::init / OverlayFs::init only ever switch behaviour ON (the code as found: a later
                       \* INIT that negotiates less leaves the switches of the earlier session on); FALSE: init stores what this
                       \* INIT negotiated

\* capability bits that the code inspects, plus one inert bit of each half
LowBits == {"ASYNC_READ", "BIG_WRITES", "ATOMIC_O_TRUNC", "WRITEBACK_CACHE", "ZERO_MESSAGE_OPEN", "ZERO_MESSAGE_OPENDIR",
            "HANDLE_KILLPRIV_V2", "MAX_PAGES", "INIT_EXT", "DO_READDIRPLUS", "READDIRPLUS_AUTO"}
HighBits == {"PERFILE_DAX", "HAS_RESEND"}
Bits == LowBits \cup HighBits
Minors == {"m4", "m22", "m33"}            \* classes of the client's minor version: < 5, 5..22, >= 23
Stacks == {"scripted", "pt", "vfs_pt", "ovl"}

\* configuration switches: pt/ovl: cfg.{no_open,no_opendir,writeback,killpriv_v2}; vfs: VfsOptions.{no_open,no_opendir,no_writeback,killpriv_v2}
Sw == [no_open : BOOLEAN, no_opendir : BOOLEAN, wb : BOOLEAN, killpriv : BOOLEAN]

Case == [stack : Stacks, major : {"lt", "eq", "gt"}, minor : Minors, flags : SUBSET LowBits, flags2 : SUBSET HighBits,
         ext : BOOLEAN, want : SUBSET Bits, sw : Sw]

(* ------------------------------- A level ------------------------------- *)
\* what the client offered, as far as the protocol lets a server see it: the second word only counts
\* when the marker is set and the extended payload is there
Offered(k) == k.flags \cup (IF "INIT_EXT" \in k.flags /\ k.ext THEN k.flags2 ELSE {})
Features(S) == S \ {"INIT_EXT"}                \* INIT_EXT is an encoding marker, not a feature
\* what a client honours of a reply: the first word, and the second word only under the marker
Honoured(r) == r.flags \cup (IF "INIT_EXT" \in r.flags THEN r.flags2 ELSE {})
ReplySize(minor) == CASE minor = "m4" -> 8 [] minor = "m22" -> 24 [] OTHER -> 64
MaxBuffer == 1048576                             \* MAX_BUFFER_SIZE: request buffers are MAX_BUFFER_SIZE + 4096 bytes

\* r = [status, size, flags, flags2, major, max_write, max_pages], want = what the filesystem's init returned
ReplyOK(k, r, want) ==
  CASE k.major = "lt" -> r.status = "EPROTO"
    [] k.major = "gt" -> r.status = "ok" /\ r.size = 64 /\ r.major = 7 /\ r.flags = {} /\ r.flags2 = {}
    [] OTHER ->
       /\ r.status = "ok" /\ r.major = 7
       /\ r.size = ReplySize(k.minor)
       /\ Features(r.flags \cup r.flags2) = Features(Offered(k)) \cap Features(want)         \* precisely the intersection
       /\ (r.flags2 # {} => "INIT_EXT" \in r.flags)                                           \* ... encoded so that it is honoured
       \* the 8-byte reply to a pre-7.5 client carries only the version
       /\ k.minor = "m4" \/ (r.max_write <= MaxBuffer /\ r.max_write >= 4096)
       /\ k.minor = "m4" \/ (("BIG_WRITES" \in r.flags \/ "MAX_PAGES" \in r.flags) => r.max_write = MaxBuffer)
       /\ (r.max_pages # 0 => "MAX_PAGES" \in r.flags)
\* behaviour switches t = [no_open, no_opendir, writeback, killpriv, dax] may be on only if negotiated
SwitchesOK(r, t) ==
  LET h == IF r.status = "ok" THEN Honoured(r) ELSE {} IN
  /\ t.no_open => "ZERO_MESSAGE_OPEN" \in h
  /\ t.no_opendir => "ZERO_MESSAGE_OPENDIR" \in h
  /\ t.writeback => "WRITEBACK_CACHE" \in h
  /\ t.killpriv => "HANDLE_KILLPRIV_V2" \in h
  /\ t.dax => "PERFILE_DAX" \in h

(* ------------------------------- I level ------------------------------- *)
NoSw == [no_open |-> FALSE, no_opendir |-> FALSE, writeback |-> FALSE, killpriv |-> FALSE, dax |-> FALSE]
\* PassthroughFs::init / OverlayFs::init: imported = standalone (do_import), else under the VFS
LayerInit(capable, sw, imported, daxcfg) ==
  LET on(cfgbit, b) == (~imported \/ cfgbit) /\ b \in capable
      wb == on(sw.wb, "WRITEBACK_CACHE")  no == on(sw.no_open, "ZERO_MESSAGE_OPEN")
      nod == on(sw.no_opendir, "ZERO_MESSAGE_OPENDIR")  kp == on(sw.killpriv, "HANDLE_KILLPRIV_V2")
      dax == daxcfg /\ "PERFILE_DAX" \in capable
  IN [want |-> {"DO_READDIRPLUS", "READDIRPLUS_AUTO"} \cup (IF wb THEN {"WRITEBACK_CACHE"} ELSE {}) \cup (IF no THEN {"ZERO_MESSAGE_OPEN"} ELSE {})
                 \cup (IF nod THEN {"ZERO_MESSAGE_OPENDIR"} ELSE {}) \cup (IF kp THEN {"HANDLE_KILLPRIV_V2"} ELSE {})
                 \cup (IF dax THEN {"PERFILE_DAX"} ELSE {}),
      t |-> [no_open |-> no, no_opendir |-> nod, writeback |-> wb, killpriv |-> kp, dax |-> dax]]
\* VfsOptions::default().out_opts restricted to the bit universe
VfsDefaultOut == {"ASYNC_READ", "BIG_WRITES", "WRITEBACK_CACHE", "ZERO_MESSAGE_OPEN", "MAX_PAGES", "ATOMIC_O_TRUNC", "DO_READDIRPLUS",
                  "READDIRPLUS_AUTO", "ZERO_MESSAGE_OPENDIR", "HANDLE_KILLPRIV_V2", "PERFILE_DAX"}
\* Vfs::init: sw.wb means VfsOptions.no_writeback = FALSE
VfsOutFrom(base, capable, sw) ==
  LET o1 == IF sw.no_open THEN base \ {"ATOMIC_O_TRUNC"} ELSE base \ {"ZERO_MESSAGE_OPEN"}
      o2 == IF sw.no_opendir THEN o1 ELSE o1 \ {"ZERO_MESSAGE_OPENDIR"}
      o3 == IF ~sw.wb THEN o2 \ {"WRITEBACK_CACHE"} ELSE o2
      o4 == IF ~sw.killpriv THEN o3 \ {"HANDLE_KILLPRIV_V2"} ELSE o3
  IN o4 \cap capable
VfsOut(capable, sw) == VfsOutFrom(VfsDefaultOut, capable, sw)
\* the filesystem side of a stack: what init(capable) returns and which switches it turns on
FsInit(k, capable) ==
  CASE k.stack = "scripted" -> [want |-> k.want, t |-> NoSw]
    [] k.stack = "pt" -> LayerInit(capable, k.sw, TRUE, TRUE)
    [] k.stack = "ovl" -> LayerInit(capable, k.sw, TRUE, TRUE)
    [] OTHER -> LET out == VfsOut(capable, k.sw) IN [want |-> out, t |-> LayerInit(out, k.sw, FALSE, TRUE).t]
\* Server::init
ServerInit(k) ==
  IF k.major = "lt" THEN [r |-> [status |-> "EPROTO", size |-> 0, flags |-> {}, flags2 |-> {}, major |-> 0, max_write |-> 0, max_pages |-> 0],
                          t |-> NoSw, called |-> FALSE]
  ELSE IF k.major = "gt" THEN [r |-> [status |-> "ok", size |-> 64, flags |-> {}, flags2 |-> {}, major |-> 7, max_write |-> 0, max_pages |-> 0],
                               t |-> NoSw, called |-> FALSE]
  ELSE LET capable == IF "INIT_EXT" \in k.flags THEN (IF k.ext THEN k.flags \cup k.flags2 ELSE k.flags \ {"INIT_EXT"}) ELSE k.flags
           f == FsInit(k, capable)
           enabled == capable \cap f.want
           hi == enabled \cap HighBits
           \* extended bits are announced under the INIT_EXT marker
           lo == (enabled \cap LowBits) \cup (IF ExtMarker /\ hi # {} THEN {"INIT_EXT"} ELSE {})
           big == "BIG_WRITES" \in enabled \/ "MAX_PAGES" \in enabled
       IN [r |-> [status |-> "ok", size |-> ReplySize(k.minor), flags |-> lo, flags2 |-> hi, major |-> 7,
                  max_write |-> IF big THEN MaxBuffer ELSE 4096, max_pages |-> IF "MAX_PAGES" \in enabled THEN 256 ELSE 0],
           t |-> f.t, called |-> TRUE]

\* what Server::init makes of a request: the capability set handed to the filesystem
CapableOf(c) == IF "INIT_EXT" \in c.flags THEN (IF c.ext THEN c.flags \cup c.flags2 ELSE c.flags \ {"INIT_EXT"}) ELSE c.flags
OrSw(a, b) == [x \in DOMAIN a |-> a[x] \/ b[x]]
\* the reply Server::init builds from capable and the filesystem's answer (same arithmetic as in ServerInit)
ReplyFrom(c, want) ==
  LET capable == CapableOf(c)  enabled == capable \cap want  hi == enabled \cap HighBits
      lo == (enabled \cap LowBits) \cup (IF ExtMarker /\ hi # {} THEN {"INIT_EXT"} ELSE {})
      big == "BIG_WRITES" \in enabled \/ "MAX_PAGES" \in enabled
  IN [status |-> "ok", size |-> ReplySize(c.minor), flags |-> lo, flags2 |-> hi, major |-> 7,
      max_write |-> IF big THEN MaxBuffer ELSE 4096, max_pages |-> IF "MAX_PAGES" \in enabled THEN 256 ELSE 0]
Refused == [status |-> "EINVAL", size |-> 0, flags |-> {}, flags2 |-> {}, major |-> 0, max_write |-> 0, max_pages |-> 0]
(* A second INIT c2 on a stack that answered the first one (c1, outcome res1), after a DESTROY or not.
   - Server::init keeps no state that matters here; a major mismatch is answered without the filesystem.
   - scripted: the filesystem answers as before.
   - pt / ovl standalone: init() runs again (DESTROY re-imports and touches no switch).
   - VFS: refused with EINVAL while initialised; DESTROY clears `initialized`, and the next init starts from the options the
     first one stored (no_open / no_opendir and out_opts already narrowed), and re-initialises its backends. *)
SecondSession(c1, res1, c2, destroyed) ==
  IF c2.major # "eq" THEN [r |-> ServerInit(c2).r, t |-> res1.t, want |-> {}, called |-> FALSE]
  ELSE IF ~res1.called THEN   \* the first INIT never reached the file system (major mismatch): this one is the negotiation
       [r |-> ServerInit(c2).r, t |-> ServerInit(c2).t, want |-> FsInit(c2, CapableOf(c2)).want, called |-> TRUE]
  ELSE LET cap1 == CapableOf(c1)  cap2 == CapableOf(c2) IN
    CASE c1.stack = "scripted" -> [r |-> ReplyFrom(c2, c1.want), t |-> NoSw, want |-> c1.want, called |-> TRUE]
      [] c1.stack \in {"pt", "ovl"} ->
           LET f == LayerInit(cap2, c1.sw, TRUE, TRUE) IN
           [r |-> ReplyFrom(c2, f.want), t |-> IF StickySw THEN OrSw(res1.t, f.t) ELSE f.t, want |-> f.want, called |-> TRUE]
      [] OTHER ->
           IF ~destroyed THEN [r |-> Refused, t |-> res1.t, want |-> {}, called |-> FALSE]
           ELSE LET sw2 == [c1.sw EXCEPT !.no_open = @ /\ "ZERO_MESSAGE_OPEN" \in cap1, !.no_opendir = @ /\ "ZERO_MESSAGE_OPENDIR" \in cap1]
                    out2 == VfsOutFrom(VfsOut(cap1, c1.sw), cap2, sw2)
                    f == LayerInit(out2, sw2, FALSE, TRUE)
                IN [r |-> ReplyFrom(c2, out2), t |-> IF StickySw THEN OrSw(res1.t, f.t) ELSE f.t, want |-> out2, called |-> TRUE]

VARIABLES k, stage, res, second
vars == <<k, stage, res, second>>
SwOff == [no_open |-> FALSE, no_opendir |-> FALSE, wb |-> FALSE, killpriv |-> FALSE]
\* the case universe, built per stack (inert bits vary only on the scripted stack, whose filesystem
\* answer `want` is arbitrary; switch-related bits vary on the real stacks)
SLow == {"ASYNC_READ", "BIG_WRITES", "MAX_PAGES", "INIT_EXT"}
SWant == {"ASYNC_READ", "BIG_WRITES", "MAX_PAGES", "INIT_EXT", "PERFILE_DAX", "HAS_RESEND"}
LLow == {"BIG_WRITES", "WRITEBACK_CACHE", "ZERO_MESSAGE_OPEN", "ZERO_MESSAGE_OPENDIR", "HANDLE_KILLPRIV_V2", "MAX_PAGES", "INIT_EXT"}
\* "capability words a client may send": a client announces only capabilities that exist in its own protocol minor:
\* none before 7.6 (no flags word), nothing newer than 7.22 for the 24-byte-reply clients (in the universe: ASYNC_READ,
\* BIG_WRITES, ATOMIC_O_TRUNC, DO_READDIRPLUS, READDIRPLUS_AUTO), and the extended word only from 7.36 on
Old22 == {"ASYNC_READ", "BIG_WRITES", "ATOMIC_O_TRUNC", "DO_READDIRPLUS", "READDIRPLUS_AUTO"}
MaySend(c) == /\ (~c.ext => c.flags2 = {})
              /\ (c.minor = "m4" => (c.flags = {} /\ ~c.ext))
              /\ (c.minor = "m22" => (c.flags \subseteq Old22 /\ ~c.ext))
ScriptedCases == {c \in [stack : {"scripted"}, major : {"eq"}, minor : Minors, flags : SUBSET SLow, flags2 : SUBSET HighBits, ext : BOOLEAN,
                         want : SUBSET SWant, sw : {SwOff}] : MaySend(c)}
LayerCases == {c \in [stack : Stacks \ {"scripted"}, major : {"eq"}, minor : Minors, flags : SUBSET LLow, flags2 : SUBSET {"PERFILE_DAX"},
                      ext : BOOLEAN, want : {{}}, sw : Sw] : MaySend(c)}
MajorCases == [stack : Stacks, major : {"lt", "gt"}, minor : Minors, flags : {{}}, flags2 : {{}}, ext : {FALSE}, want : {{}}, sw : {SwOff}]
Universe == ScriptedCases \cup LayerCases \cup MajorCases
\* what the second INIT offers, relative to the first (always something the client's minor lets it send)
Hows == {"same", "none", "full", "compl"}
K2(c, how) ==
  LET lo == IF c.stack = "scripted" THEN SLow ELSE LLow
      hi == IF c.stack = "scripted" THEN HighBits ELSE {"PERFILE_DAX"}
      allow == IF c.minor = "m4" THEN {} ELSE IF c.minor = "m22" THEN lo \cap Old22 ELSE lo
      allow2 == IF c.minor = "m33" THEN hi ELSE {}
  IN IF c.major = "gt" THEN [c EXCEPT !.major = "eq", !.flags = IF how \in {"full", "compl"} THEN allow ELSE {},
                                      !.flags2 = IF how \in {"full", "compl"} THEN allow2 ELSE {}, !.ext = (how \in {"full", "compl"} /\ c.minor = "m33")]
     ELSE
     CASE how = "same" -> c
       [] how = "none" -> [c EXCEPT !.flags = {}, !.flags2 = {}, !.ext = FALSE]
       [] how = "full" -> [c EXCEPT !.flags = allow, !.flags2 = allow2, !.ext = (c.minor = "m33")]
       [] OTHER -> [c EXCEPT !.flags = allow \ c.flags, !.flags2 = allow2 \ c.flags2, !.ext = (c.minor = "m33")]
NoSecond == [how |-> "none", destroyed |-> FALSE, k2 |-> <<>>, r |-> Refused, t |-> NoSw, want |-> {}, called |-> FALSE]
Init == k \in Universe /\ stage = "start" /\ res = ServerInit(k) /\ second = NoSecond
Negotiate == stage = "start" /\ stage' = "inited" /\ UNCHANGED <<k, res, second>>
SecondInit == /\ stage = "inited" /\ stage' = "done"
              /\ \E how \in Hows, d \in BOOLEAN :
                   LET c2 == K2(k, how)  s == SecondSession(k, res, c2, d)
                   IN second' = [how |-> how, destroyed |-> d, k2 |-> c2, r |-> s.r, t |-> s.t, want |-> s.want, called |-> s.called]
              /\ UNCHANGED <<k, res>>
Next == Negotiate \/ SecondInit
Spec == Init /\ [][Next]_vars

WantOf(c) == IF c.major = "eq" THEN FsInit(c, IF "INIT_EXT" \in c.flags THEN (IF c.ext THEN c.flags \cup c.flags2 ELSE c.flags \ {"INIT_EXT"}) ELSE c.flags).want ELSE {}
InvReply == ReplyOK(k, res.r, WantOf(k))
InvSwitches == SwitchesOK(res.r, res.t)
\* the VFS refuses a second INIT while it is initialised, and a refused INIT changes nothing
InvSecond == (stage = "done" /\ k.stack = "vfs_pt" /\ res.called /\ ~second.destroyed) => (second.r.status = "EINVAL" /\ second.t = res.t)
\* A-level for the second session: the switches that are on were negotiated by the INIT that is in force
InForce(r1, r2) == IF r2.status = "ok" THEN r2 ELSE r1
InvSecondReply == (stage = "done" /\ second.called) => (MaySend(second.k2) /\ ReplyOK(second.k2, second.r, second.want))
InvSecondSwitches == stage = "done" => SwitchesOK(InForce(res.r, second.r), second.t)
=============================================================================
