SPECIFICATION Spec
CONSTANTS
  Ops <- Ops_3L2F
  R0Set <- R0_12
  Eager = FALSE
  SkipZeroRetry = FALSE
  NoReprobe = FALSE
  BlindStore = FALSE
INVARIANTS Refines Final RetInMap NoZeroVisible OneNumber LockSane 
VIEW View
