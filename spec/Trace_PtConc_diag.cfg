SPECIFICATION Spec
CHECK_DEADLOCK FALSE
CONSTRAINT Track
POSTCONDITION Post
