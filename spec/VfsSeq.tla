------------------------------- MODULE VfsSeq -------------------------------
(* The sequential semantics of the VFS mount table on tokens (what Vfs.tla prescribes for mount, over-mount,
   umount and for the requests of VfsRace), shared by the concurrent model VfsRace.tla and by the judge of
   recorded concurrent histories Trace_VfsRace.tla. A table state is [sb, mp, map, nexts]. *)
EXTENDS Integers, Sequences, FiniteSets
NIdx == 3
NoFs == "nofs"
NoTok == "notok"
GTok == "G"                                   \* the global mapping (a token)
NoMp == [idx |-> 0, b |-> NoFs, rtok |-> NoTok]
R == "R"                                      \* pseudo root (node 1)
A == "A"                                      \* pseudo directory /a (exists from the start)
Eff(m, i) == IF m[i] # NoTok THEN m[i] ELSE GTok        \* get_effective_id_mapping
\* the inode the client uses for getattr_in: issued by the backend mounted at /a (else at /) at the start
I0(Init0) == IF Init0.mp[A] # NoMp THEN Init0.mp[A].idx ELSE IF Init0.mp[R] # NoMp THEN Init0.mp[R].idx ELSE 1
B0(Init0) == Init0.sb[I0(Init0)]

(* ---------------- sequential semantics (what Vfs.tla prescribes, on tokens) ---------------- *)
Fail == [kind |-> "fail", be |-> NoFs, ino |-> NoFs, ctx |-> NoTok, out |-> NoTok, idx |-> 0]
\* allocate_fs_idx on a snapshot
Alloc(s, nx) == LET cand == {i \in 1..NIdx : s[i] = NoFs}
                    d(i) == (i - nx) % (NIdx + 1)
                IN IF cand = {} THEN 0 ELSE CHOOSE i \in cand : \A j \in cand : d(i) <= d(j)
ApplyOp(S, o) ==
  IF o.k = "umount" THEN
     IF S.mp[o.p] = NoMp THEN S
     ELSE LET i == S.mp[o.p].idx IN
          [S EXCEPT !.mp[o.p] = NoMp, !.sb[i] = NoFs, !.map[i] = NoTok]
  ELSE LET i == Alloc(S.sb, S.nexts) IN
       IF i = 0 THEN S ELSE
       LET old == S.mp[o.p].idx
           m1 == [S.map EXCEPT ![i] = o.m]
           m2 == IF old # 0 THEN [m1 EXCEPT ![old] = NoTok] ELSE m1
           s2 == [j \in 1..NIdx |-> IF j = i THEN o.b ELSE IF j = old THEN NoFs ELSE S.sb[j]]
       IN [sb |-> s2, map |-> m2, nexts |-> (i + 1) % (NIdx + 1),
           mp |-> [S.mp EXCEPT ![o.p] = [idx |-> i, b |-> o.b, rtok |-> Eff(m1, i)]]]
RECURSIVE After(_, _, _)
After(Init0, Program, j) == IF j = 0 THEN Init0 ELSE ApplyOp(After(Init0, Program, j - 1), Program[j])
\* a request executed atomically on state S
Backend(S, i, ino) ==
  IF S.sb[i] = NoFs THEN Fail
  ELSE [kind |-> "backend", be |-> S.sb[i], ino |-> ino, ctx |-> Eff(S.map, i), out |-> Eff(S.map, i), idx |-> i]
Run(Init0, S, op) ==
  CASE op = "getattr_in" -> Backend(S, I0(Init0), B0(Init0))
    [] op = "getattr_root" -> IF S.mp[R] # NoMp THEN Backend(S, S.mp[R].idx, S.mp[R].b)
                              ELSE [Fail EXCEPT !.kind = "pseudo"]
    [] op = "rdp_root" -> IF S.mp[R] # NoMp THEN Backend(S, S.mp[R].idx, S.mp[R].b)
                          ELSE IF S.mp[A] # NoMp
                          THEN [kind |-> "mproot", be |-> NoFs, ino |-> S.mp[A].b, ctx |-> NoTok, out |-> S.mp[A].rtok, idx |-> S.mp[A].idx]
                          ELSE [Fail EXCEPT !.kind = "pseudo"]
    [] op = "lookup_a" -> IF S.mp[R] # NoMp THEN Backend(S, S.mp[R].idx, S.mp[R].b)
                          ELSE IF S.mp[A] # NoMp
                          THEN [kind |-> "mproot", be |-> NoFs, ino |-> S.mp[A].b, ctx |-> NoTok, out |-> S.mp[A].rtok, idx |-> S.mp[A].idx]
                          ELSE [Fail EXCEPT !.kind = "pseudo"]
=============================================================================
