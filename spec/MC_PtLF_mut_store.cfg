SPECIFICATION Spec
CONSTANTS
  Ops <- Ops_2L1F
  R0Set <- R0_12
  Eager = FALSE
  SkipZeroRetry = FALSE
  NoReprobe = FALSE
  BlindStore = TRUE
INVARIANTS Refines Final RetInMap NoZeroVisible OneNumber LockSane 
VIEW View
