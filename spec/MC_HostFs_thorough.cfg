SPECIFICATION Spec
CONSTANTS
  Nm = {"a", "b", "l"}
  MaxOps = 4
  MaxIno = 7
INVARIANTS TreeOK FailClean WalkOK SizeOK
CHECK_DEADLOCK FALSE
