//! The passthrough side: the same abstract step sent through the FileSystem trait of the real code.
use crate::host::{bytes, i, name_bytes, names_json, s, u, StepRes};
use crate::tree::*;
use fuse_backend_rs::abi::fuse_abi::{CreateIn, SetattrValid};
use fuse_backend_rs::api::filesystem::{Context, FileSystem, GetxattrReply, ListxattrReply, ZeroCopyReader, ZeroCopyWriter};
use fuse_backend_rs::file_buf::FileVolatileSlice;
use fuse_backend_rs::file_traits::FileReadWriteVolatile;
use serde_json::json;
use std::io;

pub struct VecW(pub Vec<u8>);
impl io::Write for VecW {
    fn write(&mut self, b: &[u8]) -> io::Result<usize> {
        self.0.extend_from_slice(b);
        Ok(b.len())
    }
    fn flush(&mut self) -> io::Result<()> {
        Ok(())
    }
}
impl ZeroCopyWriter for VecW {
    fn write_from(&mut self, f: &mut dyn FileReadWriteVolatile, count: usize, off: u64) -> io::Result<usize> {
        let mut buf = vec![0u8; count];
        let n = {
            let sl = unsafe { FileVolatileSlice::from_raw_ptr(buf.as_mut_ptr(), count) };
            f.read_at_volatile(sl, off)?
        };
        self.0.extend_from_slice(&buf[..n]);
        Ok(n)
    }
    fn available_bytes(&self) -> usize {
        usize::MAX
    }
}

pub struct VecR(pub Vec<u8>, pub usize);
impl io::Read for VecR {
    fn read(&mut self, b: &mut [u8]) -> io::Result<usize> {
        let n = b.len().min(self.0.len() - self.1);
        b[..n].copy_from_slice(&self.0[self.1..self.1 + n]);
        self.1 += n;
        Ok(n)
    }
}
impl ZeroCopyReader for VecR {
    fn read_to(&mut self, f: &mut dyn FileReadWriteVolatile, count: usize, off: u64) -> io::Result<usize> {
        let n = count.min(self.0.len() - self.1);
        if n == 0 {
            return Ok(0);
        }
        let w = {
            let sl = unsafe { FileVolatileSlice::from_raw_ptr(self.0[self.1..].as_mut_ptr(), n) };
            f.write_at_volatile(sl, off)?
        };
        self.1 += w;
        Ok(w)
    }
}

pub struct PtH {
    pub h: u64,
    pub node: usize,
}

pub struct PtSide {
    pub ns: Vec<Option<u64>>,
    pub hs: Vec<Option<PtH>>,
    pub no_open: bool,
    pub no_opendir: bool,
    /// capabilities offered at INIT (offered again after DESTROY)
    pub caps: fuse_backend_rs::abi::fuse_abi::FsOptions,
}

fn fail(e: &io::Error) -> StepRes {
    StepRes::new(&err_status(e))
}

impl PtSide {
    pub fn new(root_ino: u64) -> Self {
        PtSide { ns: vec![Some(root_ino)], hs: Vec::new(), no_open: false, no_opendir: false, caps: fuse_backend_rs::abi::fuse_abi::FsOptions::empty() }
    }
    fn node(&self, op: &J, k: &str) -> Option<u64> {
        let x = i(op, k);
        if x < 0 {
            return None;
        }
        self.ns.get(x as usize).and_then(|v| *v)
    }
    fn handle(&self, op: &J) -> Option<u64> {
        let x = i(op, "h");
        if x < 0 {
            return None;
        }
        self.hs.get(x as usize).and_then(|v| v.as_ref()).map(|h| h.h)
    }
    /// handle argument of I/O requests: the handle, or 0 in no_open mode (what the kernel sends)
    fn io_handle(&self, op: &J) -> Option<u64> {
        if i(op, "h") >= 0 {
            self.handle(op)
        } else {
            Some(0)
        }
    }

    pub fn step<F>(&mut self, fs: &F, op: &J) -> StepRes
    where
        F: FileSystem,
        F::Inode: From<u64> + Into<u64> + Copy,
        F::Handle: From<u64> + Into<u64> + Copy,
    {
        let o = s(op, "op");
        let ctx = Context { uid: u(op, "uid") as u32, gid: u(op, "gid") as u32, pid: 4242 };
        macro_rules! node {
            ($k:expr) => {
                match self.node(op, $k) {
                    Some(v) => v,
                    None => return StepRes::new("NOSLOT"),
                }
            };
        }
        match o.as_str() {
            "lookup" => {
                let p = node!("p");
                let name = cstr(&name_bytes(op, "name"));
                match fs.lookup(&ctx, p.into(), &name) {
                    Ok(e) => {
                        self.ns.push(Some(e.inode));
                        StepRes::ok().with_stat(e.attr)
                    }
                    Err(e) => fail(&e),
                }
            }
            "forget" => {
                let x = i(op, "n");
                if x <= 0 {
                    return StepRes::new("NOSLOT");
                }
                match self.ns.get_mut(x as usize).and_then(|v| v.take()) {
                    Some(ino) => {
                        fs.forget(&ctx, ino.into(), 1);
                        StepRes::ok()
                    }
                    None => StepRes::new("NOSLOT"),
                }
            }
            "forget_root" => {
                fs.forget(&ctx, F::Inode::from(self.ns[0].unwrap_or(1)), u(op, "count"));
                StepRes::ok()
            }
            "batch_forget" => {
                let mut v: Vec<(F::Inode, u64)> = Vec::new();
                for it in op["items"].as_array().cloned().unwrap_or_default() {
                    let n = it[0].as_i64().unwrap_or(-1);
                    if n == 0 {
                        v.push((F::Inode::from(self.ns[0].unwrap_or(1)), it[1].as_u64().unwrap_or(1)));
                    } else if n > 0 {
                        if let Some(ino) = self.ns.get_mut(n as usize).and_then(|x| x.take()) {
                            v.push((F::Inode::from(ino), 1));
                        }
                    }
                }
                fs.batch_forget(&ctx, v);
                StepRes::ok()
            }
            "remount" => {
                fs.destroy();
                match fs.init(self.caps) {
                    Ok(_) => {
                        for h in self.hs.iter_mut() {
                            *h = None;
                        }
                        for n in self.ns.iter_mut().skip(1) {
                            *n = None;
                        }
                        StepRes::ok()
                    }
                    Err(e) => fail(&e),
                }
            }
            "getattr" => {
                let n = node!("n");
                let h = if i(op, "h") >= 0 {
                    match self.handle(op) {
                        Some(h) => Some(F::Handle::from(h)),
                        None => return StepRes::new("NOSLOT"),
                    }
                } else {
                    None
                };
                match fs.getattr(&ctx, n.into(), h) {
                    Ok((st, _)) => StepRes::ok().with_stat(st),
                    Err(e) => fail(&e),
                }
            }
            "mkdir" | "mknod" | "symlink" => {
                let p = node!("p");
                let name = cstr(&name_bytes(op, "name"));
                let r = match o.as_str() {
                    "mkdir" => fs.mkdir(&ctx, p.into(), &name, u(op, "mode") as u32, u(op, "umask") as u32),
                    "mknod" => fs.mknod(&ctx, p.into(), &name, u(op, "mode") as u32, u(op, "rdev") as u32, u(op, "umask") as u32),
                    _ => {
                        let t = cstr(&name_bytes(op, "target"));
                        fs.symlink(&ctx, &t, p.into(), &name)
                    }
                };
                match r {
                    Ok(e) => {
                        self.ns.push(Some(e.inode));
                        StepRes::ok().with_stat(e.attr)
                    }
                    Err(e) => fail(&e),
                }
            }
            "create" => {
                let p = node!("p");
                let name = cstr(&name_bytes(op, "name"));
                let args = CreateIn { flags: u(op, "flags") as u32, mode: u(op, "mode") as u32, umask: u(op, "umask") as u32, fuse_flags: if op["kill"].as_bool().unwrap_or(false) { 1 } else { 0 } };
                match fs.create(&ctx, p.into(), &name, args) {
                    Ok((e, h, _, _)) => {
                        self.ns.push(Some(e.inode));
                        let mut r = StepRes::ok().with_stat(e.attr);
                        if let Some(h) = h {
                            self.hs.push(Some(PtH { h: h.into(), node: self.ns.len() - 1 }));
                            r = r.set("handle", json!(true));
                        } else {
                            r = r.set("handle", json!(false));
                        }
                        r
                    }
                    Err(e) => fail(&e),
                }
            }
            "link" => {
                let n = node!("n");
                let p = node!("p");
                let name = cstr(&name_bytes(op, "name"));
                match fs.link(&ctx, n.into(), p.into(), &name) {
                    Ok(e) => {
                        self.ns.push(Some(e.inode));
                        StepRes::ok().with_stat(e.attr)
                    }
                    Err(e) => fail(&e),
                }
            }
            "unlink" | "rmdir" => {
                let p = node!("p");
                let name = cstr(&name_bytes(op, "name"));
                let r = if o == "rmdir" { fs.rmdir(&ctx, p.into(), &name) } else { fs.unlink(&ctx, p.into(), &name) };
                match r {
                    Ok(()) => StepRes::ok(),
                    Err(e) => fail(&e),
                }
            }
            "rename" => {
                let p = node!("p");
                let p2 = node!("p2");
                let a = cstr(&name_bytes(op, "name"));
                let b = cstr(&name_bytes(op, "name2"));
                match fs.rename(&ctx, p.into(), &a, p2.into(), &b, u(op, "flags") as u32) {
                    Ok(()) => StepRes::ok(),
                    Err(e) => fail(&e),
                }
            }
            "open" => {
                let n = node!("n");
                match fs.open(&ctx, n.into(), u(op, "flags") as u32, if op["kill"].as_bool().unwrap_or(false) { 1 } else { 0 }) {
                    Ok((h, _, _)) => {
                        match h {
                            Some(h) => self.hs.push(Some(PtH { h: h.into(), node: i(op, "n") as usize })),
                            None => return StepRes::new("NOHANDLE"),
                        }
                        StepRes::ok()
                    }
                    Err(e) => fail(&e),
                }
            }
            "opendir" => {
                let n = node!("n");
                match fs.opendir(&ctx, n.into(), u(op, "flags") as u32) {
                    Ok((h, _)) => {
                        match h {
                            Some(h) => self.hs.push(Some(PtH { h: h.into(), node: i(op, "n") as usize })),
                            None => return StepRes::new("NOHANDLE"),
                        }
                        StepRes::ok()
                    }
                    Err(e) => fail(&e),
                }
            }
            "release" | "releasedir" => {
                let x = i(op, "h");
                if (o == "release" && self.no_open) || (o == "releasedir" && self.no_opendir) {
                    // what a client without handles would send: handle 0
                    let n = self.node(op, "n").unwrap_or(1);
                    let r = if o == "release" {
                        fs.release(&ctx, n.into(), 0, F::Handle::from(0), false, false, None)
                    } else {
                        fs.releasedir(&ctx, n.into(), 0, F::Handle::from(0))
                    };
                    return match r {
                        Ok(()) => StepRes::ok(),
                        Err(e) => fail(&e),
                    };
                }
                match if x >= 0 { self.hs.get_mut(x as usize).and_then(|v| v.take()) } else { None } {
                    Some(h) => {
                        let n = self.ns.get(h.node).and_then(|v| *v).unwrap_or(0);
                        let r = if o == "release" {
                            fs.release(&ctx, n.into(), 0, F::Handle::from(h.h), false, false, None)
                        } else {
                            fs.releasedir(&ctx, n.into(), 0, F::Handle::from(h.h))
                        };
                        match r {
                            Ok(()) => StepRes::ok(),
                            Err(e) => fail(&e),
                        }
                    }
                    None => StepRes::new("NOSLOT"),
                }
            }
            "read" => {
                let n = node!("n");
                let Some(h) = self.io_handle(op) else { return StepRes::new("NOSLOT") };
                let mut w = VecW(Vec::new());
                match fs.read(&ctx, n.into(), F::Handle::from(h), &mut w, u(op, "len") as u32, u(op, "off"), None, u(op, "flags") as u32) {
                    Ok(k) => StepRes::ok().set("data", json!(w.0[..k.min(w.0.len())].to_vec())),
                    Err(e) => fail(&e),
                }
            }
            "write" => {
                let n = node!("n");
                let Some(h) = self.io_handle(op) else { return StepRes::new("NOSLOT") };
                let data = bytes(op, "data");
                let len = data.len() as u32;
                let mut r = VecR(data, 0);
                match fs.write(&ctx, n.into(), F::Handle::from(h), &mut r, len, u(op, "off"), None, op["cache"].as_bool().unwrap_or(false), u(op, "flags") as u32,
                               (if op["kill"].as_bool().unwrap_or(false) { 4 } else { 0 }) | (if op["cache"].as_bool().unwrap_or(false) { 1 } else { 0 })) {
                    Ok(k) => StepRes::ok().set("n", json!(k)),
                    Err(e) => fail(&e),
                }
            }
            "fallocate" => {
                let n = node!("n");
                let Some(h) = self.io_handle(op) else { return StepRes::new("NOSLOT") };
                match fs.fallocate(&ctx, n.into(), F::Handle::from(h), u(op, "mode") as u32, u(op, "off"), u(op, "len")) {
                    Ok(()) => StepRes::ok(),
                    Err(e) => fail(&e),
                }
            }
            "fsync" | "fsyncdir" => {
                let n = node!("n");
                let Some(h) = self.io_handle(op) else { return StepRes::new("NOSLOT") };
                let r = if o == "fsync" {
                    fs.fsync(&ctx, n.into(), u(op, "datasync") != 0, F::Handle::from(h))
                } else {
                    fs.fsyncdir(&ctx, n.into(), u(op, "datasync") != 0, F::Handle::from(h))
                };
                match r {
                    Ok(()) => StepRes::ok(),
                    Err(e) => fail(&e),
                }
            }
            "lseek" => {
                let n = node!("n");
                let Some(h) = self.handle(op) else { return StepRes::new("NOSLOT") };
                match fs.lseek(&ctx, n.into(), F::Handle::from(h), u(op, "off"), u(op, "whence") as u32) {
                    Ok(p) => StepRes::ok().set("pos", json!(p)),
                    Err(e) => fail(&e),
                }
            }
            "setattr" => {
                let n = node!("n");
                let h = if i(op, "h") >= 0 {
                    match self.handle(op) {
                        Some(h) => Some(F::Handle::from(h)),
                        None => return StepRes::new("NOSLOT"),
                    }
                } else {
                    None
                };
                let mut valid = SetattrValid::empty();
                for v in op["valid"].as_array().cloned().unwrap_or_default() {
                    valid |= match v.as_str().unwrap_or("") {
                        "MODE" => SetattrValid::MODE,
                        "UID" => SetattrValid::UID,
                        "GID" => SetattrValid::GID,
                        "SIZE" => SetattrValid::SIZE,
                        "ATIME" => SetattrValid::ATIME,
                        "MTIME" => SetattrValid::MTIME,
                        "ATIME_NOW" => SetattrValid::ATIME_NOW,
                        "MTIME_NOW" => SetattrValid::MTIME_NOW,
                        _ => SetattrValid::empty(),
                    };
                }
                if op["kill"].as_bool().unwrap_or(false) {
                    valid |= SetattrValid::KILL_SUIDGID;
                }
                let a = &op["attr"];
                let mut st: libc::stat64 = unsafe { std::mem::zeroed() };
                st.st_mode = u(a, "mode") as u32;
                st.st_uid = u(a, "uid") as u32;
                st.st_gid = u(a, "gid") as u32;
                st.st_size = u(a, "size") as i64;
                st.st_atime = u(a, "atime") as i64;
                st.st_mtime = u(a, "mtime") as i64;
                st.st_atime_nsec = u(a, "atime_ns") as i64;
                st.st_mtime_nsec = u(a, "mtime_ns") as i64;
                match fs.setattr(&ctx, n.into(), st, h, valid) {
                    Ok((st, _)) => StepRes::ok().with_stat(st),
                    Err(e) => fail(&e),
                }
            }
            "readlink" => {
                let n = node!("n");
                match fs.readlink(&ctx, n.into()) {
                    Ok(v) => StepRes::ok().set("tgt", json!(String::from_utf8_lossy(&v).to_string())),
                    Err(e) => fail(&e),
                }
            }
            "statfs" => {
                let n = node!("n");
                match fs.statfs(&ctx, n.into()) {
                    Ok(v) => StepRes::ok().set("statfs", json!({"bsize": v.f_bsize, "frsize": v.f_frsize, "namemax": v.f_namemax})),
                    Err(e) => fail(&e),
                }
            }
            "setxattr" => {
                let n = node!("n");
                let xn = cstr(s(op, "xname").as_bytes());
                match fs.setxattr(&ctx, n.into(), &xn, &bytes(op, "xval"), u(op, "xflags") as u32) {
                    Ok(()) => StepRes::ok(),
                    Err(e) => fail(&e),
                }
            }
            "getxattr" => {
                let n = node!("n");
                let xn = cstr(s(op, "xname").as_bytes());
                match fs.getxattr(&ctx, n.into(), &xn, u(op, "size") as u32) {
                    Ok(GetxattrReply::Value(v)) => StepRes::ok().set("val", json!(v)),
                    Ok(GetxattrReply::Count(c)) => StepRes::ok().set("n", json!(c)),
                    Err(e) => fail(&e),
                }
            }
            "listxattr" => {
                let n = node!("n");
                match fs.listxattr(&ctx, n.into(), u(op, "size") as u32) {
                    Ok(ListxattrReply::Names(v)) => StepRes::ok().set("names", names_json(&v)),
                    Ok(ListxattrReply::Count(c)) => StepRes::ok().set("n", json!(c)),
                    Err(e) => fail(&e),
                }
            }
            "removexattr" => {
                let n = node!("n");
                let xn = cstr(s(op, "xname").as_bytes());
                match fs.removexattr(&ctx, n.into(), &xn) {
                    Ok(()) => StepRes::ok(),
                    Err(e) => fail(&e),
                }
            }
            _ => StepRes::new("BADOP"),
        }
    }
}
