SPECIFICATION Spec
CONSTANTS
  Msgs = {1, 2, 3}
  MaxOps = 5
CHECK_DEADLOCK FALSE
INVARIANTS InvType InvAtMostOnce InvNoInvention InvFifo InvAfterClose InvRecvErrOnlyDrained InvErrReturnsMessage
