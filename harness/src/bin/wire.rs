//! Wire-family driver (C02, C03, and the well-formed part of C01): for every opcode of the
//! specification's table (abi.json exported by TLC) x every subset of the flag bits Decode
//! inspects x k random field valuations x both transports, encodes a request with the
//! spec-driven codec, runs it through the real `Server<ScriptedFs>::handle_message`, and logs one
//! `Tx` event: request fields, the calls the filesystem received, the result it returned and the
//! reply decoded by the kernel layouts. Judge: spec/Trace_Wire.tla.
use fuse_backend_rs::api::filesystem::{Entry, FileLock};
use fuse_backend_rs::api::server::Server;
use serde_json::{json, Map, Value};
use std::sync::Arc;
use std::time::Duration;
use vharness::scripted::{NullCache, OwnedDirent, Ret, ScriptedFs};
use vharness::util::{env_u64, Rng, Trace};
use vharness::wirecodec::{pay, Abi, Vals};
use vharness::xport::{run_fusedev, run_virtio, Outcome, SeqPair};

fn boundary(rng: &mut Rng, w: usize) -> u64 {
    let max = if w >= 8 { u64::MAX } else { (1u64 << (8 * w)) - 1 };
    match rng.below(10) {
        0 => 0,
        1 => 1,
        2 => max,
        3 => max - 1,
        4 => (max >> 1) + 1,
        5 => max >> 1,
        _ => rng.next() & max,
    }
}

fn rname(rng: &mut Rng, maxlen: usize) -> Vec<u8> {
    const AL: &[u8] = b"abcdefghijklmnopqrstuvwxyzABCDEFGHIJKLMNOPQRSTUVWXYZ0123456789._-+=,@";
    let len = match rng.below(8) {
        0 => 1,
        1 => 2,
        2 => 7,
        3 => 8,
        4 => 9,
        5 => 255,
        6 => rng.range(1, maxlen as u64) as usize,
        _ => rng.range(1, 40) as usize,
    }
    .min(maxlen)
    .max(1);
    (0..len).map(|_| *rng.pick(AL)).collect()
}

fn rstat(rng: &mut Rng) -> libc::stat64 {
    // values the wire format can carry: 64-bit fields full range, 32-bit wire fields below 2^32
    let mut st: libc::stat64 = unsafe { std::mem::zeroed() };
    st.st_ino = boundary(rng, 8);
    st.st_size = boundary(rng, 8) as i64;
    st.st_blocks = boundary(rng, 8) as i64;
    st.st_atime = boundary(rng, 8) as i64;
    st.st_mtime = boundary(rng, 8) as i64;
    st.st_ctime = boundary(rng, 8) as i64;
    st.st_atime_nsec = boundary(rng, 4) as i64;
    st.st_mtime_nsec = boundary(rng, 4) as i64;
    st.st_ctime_nsec = boundary(rng, 4) as i64;
    st.st_mode = boundary(rng, 4) as u32;
    st.st_nlink = boundary(rng, 4);
    st.st_uid = boundary(rng, 4) as u32;
    st.st_gid = boundary(rng, 4) as u32;
    st.st_rdev = boundary(rng, 4);
    st.st_blksize = boundary(rng, 4) as i64;
    st
}

fn rdur(rng: &mut Rng) -> Duration {
    Duration::new(boundary(rng, 8), rng.below(1_000_000_000) as u32)
}

fn rentry(rng: &mut Rng) -> Entry {
    Entry {
        inode: boundary(rng, 8).max(1),
        generation: boundary(rng, 8),
        attr: rstat(rng),
        attr_flags: boundary(rng, 4) as u32,
        attr_timeout: rdur(rng),
        entry_timeout: rdur(rng),
    }
}

fn rerr(rng: &mut Rng) -> Ret {
    use std::io::ErrorKind::*;
    if rng.chance(2, 3) {
        Ret::Err { os: rng.range(1, 133) as i32, kind: None }
    } else {
        let k = *rng.pick(&[NotFound, AlreadyExists, WouldBlock, Interrupted, PermissionDenied, TimedOut, InvalidInput, Other, UnexpectedEof]);
        Ret::Err { os: 0, kind: Some(k) }
    }
}

struct Built {
    bytes: Vec<u8>,
    req: Value,
    script: Ret,
    /// reply capacity needed beyond the fixed part
    cap_hint: usize,
}

fn build(abi: &Abi, rng: &mut Rng, opname: &str, bits_on: &[String], want_err: bool) -> Built {
    let op = abi.op(opname).clone();
    let body = op["body"].as_str().unwrap().to_string();
    let tail = op["tail"].as_str().unwrap().to_string();
    let ff = op["ff"].as_str().unwrap().to_string();
    let allbits: Vec<String> = op["bits"].as_array().unwrap().iter().map(|x| x.as_str().unwrap().to_string()).collect();
    let numf: Vec<String> = op["num"].as_array().unwrap().iter().map(|x| x.as_str().unwrap().to_string()).collect();
    let mut vals: Vals = Vals::new();
    let mut f = Map::new();
    let mut num = Map::new();
    let mut bitsj = Map::new();
    let mut cap_hint = 0usize;
    // tail first (sizes feed body fields)
    let mut names: Vec<Vec<u8>> = Vec::new();
    let mut payload: Vec<u8> = Vec::new();
    let mut tailbytes: Vec<u8> = Vec::new();
    let mut list: Vec<Value> = Vec::new();
    let mut listn = 0u64;
    match tail.as_str() {
        "names1" => names.push(rname(rng, 4000)),
        "names2" => {
            names.push(rname(rng, 2000));
            names.push(rname(rng, 2000));
        }
        "payload" => {
            let n = *rng.pick(&[0usize, 1, 2, 7, 8, 9, 100, 4095, 4096, 4097, 65536, 131072]);
            payload = vec![0u8; n];
            rng.fill(&mut payload);
        }
        "name+payload" => {
            names.push(rname(rng, 255));
            let n = *rng.pick(&[0usize, 1, 2, 7, 8, 100, 4096, 65536]);
            payload = vec![0u8; n];
            rng.fill(&mut payload);
        }
        t if t.starts_with("list:") => {
            let st = &t[5..];
            listn = *rng.pick(&[0u64, 1, 2, 3, 17, 200]);
            for _ in 0..listn {
                let mut v = Vals::new();
                let mut row = Vec::new();
                for fl in abi.flat_fields(st) {
                    let x = boundary(rng, fl.w);
                    v.insert(fl.name.clone(), x);
                    row.push(json!(x.to_string()));
                }
                tailbytes.extend(abi.encode(st, &v));
                list.push(Value::Array(row));
            }
        }
        _ => {}
    }
    for n in &names {
        tailbytes.extend_from_slice(n);
        tailbytes.push(0);
    }
    if tail == "payload" || tail == "name+payload" {
        tailbytes.extend_from_slice(&payload);
    }
    // body fields
    if !body.is_empty() {
        for fl in abi.flat_fields(&body) {
            let mut v = boundary(rng, fl.w);
            if fl.name == ff {
                // chosen bits on, the other inspected bits off, uninspected bits random
                let mut known = 0u64;
                for b in &allbits {
                    known |= abi.konst(b);
                }
                v &= !known;
                for b in bits_on {
                    v |= abi.konst(b);
                }
            }
            if numf.contains(&fl.name) {
                v &= 0x7fff_ffff;
            }
            // size-carrying fields
            match (opname, fl.name.as_str()) {
                ("WRITE", "size") | ("SETXATTR", "size") => v = payload.len() as u64,
                ("IOCTL", "in_size") => v = payload.len() as u64,
                ("BATCH_FORGET", "count") | ("REMOVEMAPPING", "count") => v = listn,
                ("READ", "size") | ("READDIR", "size") | ("READDIRPLUS", "size") => {
                    v = *rng.pick(&[0u64, 1, 16, 24, 31, 32, 33, 100, 152, 160, 161, 1000, 4096, 8192, 65536]);
                    cap_hint = v as usize;
                    num.insert("size".into(), json!(v));
                }
                ("GETXATTR", "size") | ("LISTXATTR", "size") => {
                    v = *rng.pick(&[0u64, 0, 1, 100, 4096, 65536]);
                    cap_hint = v as usize;
                }
                ("IOCTL", "out_size") => {
                    v = *rng.pick(&[0u64, 1, 100, 4096]);
                    cap_hint = v as usize;
                }
                _ => {}
            }
            // the library's 8-byte setxattr_in: the 7.33+ extension fields do not exist on the wire
            if opname == "SETXATTR" && (fl.name == "setxattr_flags" || fl.name == "padding") {
                continue;
            }
            vals.insert(fl.name.clone(), v);
            f.insert(fl.name.clone(), json!(v.to_string()));
            if numf.contains(&fl.name) {
                num.insert(fl.name.clone(), json!(v));
            }
            if fl.name == ff {
                let mut all: Vec<String> = allbits.clone();
                // bits named by Decode but not enumerated (e.g. release) are in allbits already
                all.sort();
                bitsj.insert(fl.name.clone(), json!(abi.bits_set(v, &all)));
            }
        }
    }
    let mut bodybytes = if body.is_empty() { vec![] } else { abi.encode(&body, &vals) };
    if opname == "SETXATTR" {
        bodybytes.truncate(abi.konst("FUSE_COMPAT_SETXATTR_IN_SIZE") as usize);
    }
    // header
    let total = 40 + bodybytes.len() + tailbytes.len();
    let mut h = Vals::new();
    h.insert("len".into(), total as u64);
    h.insert("opcode".into(), abi.konst(op["code"].as_str().unwrap()));
    h.insert("unique".into(), boundary(rng, 8));
    h.insert("nodeid".into(), boundary(rng, 8));
    h.insert("uid".into(), boundary(rng, 4));
    h.insert("gid".into(), boundary(rng, 4));
    h.insert("pid".into(), boundary(rng, 4));
    let mut bytes = abi.encode("fuse_in_header", &h);
    bytes.extend_from_slice(&bodybytes);
    bytes.extend_from_slice(&tailbytes);
    let hj: Map<String, Value> = h.iter().map(|(k, v)| (k.clone(), json!(v.to_string()))).collect();
    // script
    let kinds: Vec<String> = op["kinds"].as_array().unwrap().iter().map(|x| x.as_str().unwrap().to_string()).collect();
    let script = if want_err {
        rerr(rng)
    } else {
        let kind = if (opname == "GETXATTR" || opname == "LISTXATTR") && vals.get("size").copied().unwrap_or(0) == 0 {
            "xcount".to_string()
        } else if opname == "GETXATTR" || opname == "LISTXATTR" {
            "bytes".to_string()
        } else {
            rng.pick(&kinds).clone()
        };
        match kind.as_str() {
            "entry" => Ret::Entry(rentry(rng)),
            "create" => Ret::Create {
                entry: rentry(rng),
                handle: if rng.chance(3, 4) { Some(boundary(rng, 8)) } else { None },
                opts: boundary(rng, 4) as u32,
                passthrough: if rng.chance(1, 2) { Some(boundary(rng, 4) as u32) } else { None },
            },
            "attr" => Ret::Attr(rstat(rng), rdur(rng)),
            "bytes" => {
                let lim = if opname == "READLINK" { 4095 } else { cap_hint };
                let n = if lim == 0 { 0 } else { rng.range(0, lim as u64) as usize };
                let mut b = vec![0u8; n];
                rng.fill(&mut b);
                if opname == "READLINK" {
                    cap_hint = 4096;
                }
                Ret::Bytes(b)
            }
            "open" => Ret::Open {
                handle: if rng.chance(3, 4) { Some(boundary(rng, 8)) } else { None },
                opts: boundary(rng, 4) as u32,
                passthrough: if rng.chance(1, 2) { Some(boundary(rng, 4) as u32) } else { None },
            },
            "count" => Ret::Count(boundary(rng, 4) as usize),
            "statfs" => {
                let mut st: libc::statvfs64 = unsafe { std::mem::zeroed() };
                st.f_bsize = boundary(rng, 4);
                st.f_frsize = boundary(rng, 4);
                st.f_blocks = boundary(rng, 8);
                st.f_bfree = boundary(rng, 8);
                st.f_bavail = boundary(rng, 8);
                st.f_files = boundary(rng, 8);
                st.f_ffree = boundary(rng, 8);
                st.f_namemax = boundary(rng, 4);
                Ret::Statfs(st)
            }
            "xcount" => Ret::XCount(boundary(rng, 4) as u32),
            "lock" => Ret::Lock(FileLock { start: boundary(rng, 8), end: boundary(rng, 8), lock_type: boundary(rng, 4) as u32, pid: boundary(rng, 4) as u32 }),
            "bmap" | "lseek" => Ret::U64(boundary(rng, 8)),
            "poll" => Ret::U32(boundary(rng, 4) as u32),
            "ioctl" => {
                let n = if cap_hint == 0 { 0 } else { rng.range(0, cap_hint as u64) as usize };
                let mut b = vec![0u8; n];
                rng.fill(&mut b);
                Ret::Ioctl { result: boundary(rng, 4) as i32, data: b }
            }
            "dirents" => {
                let n = rng.range(0, 12) as usize;
                let mut v = Vec::new();
                for i in 0..n {
                    v.push(OwnedDirent {
                        ino: boundary(rng, 8),
                        offset: boundary(rng, 8).max(1) ^ (i as u64),
                        type_: boundary(rng, 4) as u32,
                        name: rname(rng, 300),
                        entry: rentry(rng),
                    });
                }
                Ret::Dirents(v)
            }
            _ => Ret::Unit,
        }
    };
    let namesj: Vec<Value> = names.iter().map(|n| json!(String::from_utf8_lossy(n).to_string())).collect();
    let req = json!({"h": hj, "f": f, "bits": bitsj, "num": num, "names": namesj, "pay": pay(&payload), "list": list});
    Built { bytes, req, script, cap_hint }
}

fn u32le(b: &[u8], o: usize) -> u32 {
    u32::from_le_bytes([b[o], b[o + 1], b[o + 2], b[o + 3]])
}
fn u64le(b: &[u8], o: usize) -> u64 {
    let mut a = [0u8; 8];
    a.copy_from_slice(&b[o..o + 8]);
    u64::from_le_bytes(a)
}

/// Decode a reply message by the kernel layouts. `kind` = result kind the filesystem returned.
fn decode_reply(abi: &Abi, msg: &[u8], kind: &str, plus: bool) -> Value {
    if msg.len() < 16 {
        return json!({"present": true, "short": true, "msglen": msg.len(), "len": 0, "error": 0, "unique": "0", "body": {}, "bodylen": 0,
                      "pay": pay(&[]), "dirents": [], "parse_ok": false});
    }
    let len = u32le(msg, 0);
    let error = u32le(msg, 4) as i32;
    let unique = u64le(msg, 8);
    let mut body = Map::new();
    let mut pos = 16usize;
    let mut parse_ok = true;
    let mut dirents: Vec<Value> = Vec::new();
    let mut payload: &[u8] = &[];
    if error == 0 {
        let shape: Vec<String> = abi.doc["replyshape"][kind].as_array().map(|a| a.iter().map(|x| x.as_str().unwrap().to_string()).collect()).unwrap_or_default();
        for s in &shape {
            let sz = abi.size(s);
            if pos + sz <= msg.len() {
                abi.decode(s, &msg[pos..pos + sz], &format!("{s}."), &mut body);
                pos += sz;
            } else {
                parse_ok = false;
            }
        }
        if kind == "dirents" {
            let eo = abi.size("fuse_entry_out");
            while pos < msg.len() {
                let mut ent = Map::new();
                if plus {
                    if pos + eo > msg.len() {
                        parse_ok = false;
                        break;
                    }
                    abi.decode("fuse_entry_out", &msg[pos..pos + eo], "fuse_entry_out.", &mut ent);
                    pos += eo;
                }
                if pos + 24 > msg.len() {
                    parse_ok = false;
                    break;
                }
                let ino = u64le(msg, pos);
                let off = u64le(msg, pos + 8);
                let namelen = u32le(msg, pos + 16) as usize;
                let typ = u32le(msg, pos + 20);
                let padded = (24 + namelen + 7) & !7;
                if pos + padded > msg.len() {
                    parse_ok = false;
                    break;
                }
                let name = &msg[pos + 24..pos + 24 + namelen];
                let padzero = msg[pos + 24 + namelen..pos + padded].iter().all(|b| *b == 0);
                ent.insert("ino".into(), json!(ino.to_string()));
                ent.insert("off".into(), json!(off.to_string()));
                ent.insert("type".into(), json!((typ as u64).to_string()));
                ent.insert("namelen".into(), json!(namelen));
                ent.insert("name".into(), json!(String::from_utf8_lossy(name).to_string()));
                ent.insert("padzero".into(), json!(padzero));
                ent.insert("start".into(), json!(pos - 16 - if plus { eo } else { 0 }));
                dirents.push(Value::Object(ent));
                pos += padded;
            }
        } else {
            payload = &msg[pos.min(msg.len())..];
        }
    } else {
        payload = &msg[16..];
    }
    json!({"present": true, "short": false, "msglen": msg.len(), "len": len, "error": error, "unique": unique.to_string(),
           "body": body, "bodylen": msg.len() - 16, "pay": pay(payload), "dirents": dirents, "parse_ok": parse_ok})
}

fn no_reply() -> Value {
    json!({"present": false, "short": false, "msglen": 0, "len": 0, "error": 0, "unique": "0", "body": {}, "bodylen": 0, "pay": pay(&[]),
           "dirents": [], "parse_ok": true})
}

fn split_lens(rng: &mut Rng, total: usize, pad: usize) -> Vec<usize> {
    // random segmentation of total(+pad) bytes: 1 segment, split inside the header, many small, ...
    let t = total + pad;
    match rng.below(5) {
        0 => vec![t],
        1 => {
            let a = rng.range(1, 39.min(t.max(2) as u64 - 1).max(1)) as usize;
            vec![a.min(t), t - a.min(t)]
        }
        2 => {
            let mut v = Vec::new();
            let mut left = t;
            while left > 0 && v.len() < 60 {
                let s = (rng.range(1, 64) as usize).min(left);
                v.push(s);
                left -= s;
            }
            if left > 0 {
                v.push(left);
            }
            v
        }
        3 => vec![40.min(t), t - 40.min(t)],
        _ => {
            let a = rng.range(0, t as u64) as usize;
            vec![a, 0, t - a]
        }
    }
    .into_iter()
    .collect()
}

fn emit_tx(tr: &mut Trace, abi: &Abi, fs: &ScriptedFs, transport: &str, opname: &str, gen: &str, b: &Built, o: &Outcome, extra: Value) {
    let calls = fs.take_log();
    let kind = calls
        .iter()
        .rev()
        .find(|c| c["m"] != "id_remap")
        .map(|c| c["ret"]["kind"].as_str().unwrap_or("unit").to_string())
        .unwrap_or_else(|| "unit".to_string());
    let reply = if o.msgs.is_empty() { no_reply() } else { decode_reply(abi, &o.msgs[0], &kind, opname == "READDIRPLUS") };
    // guest ranges the server is known to have modified: the emitted message (prefix of the flattened
    // writable space) united with every byte that no longer holds the poison pattern
    let mut flat_ranges: Vec<(usize, usize)> = o.written.clone();
    if let Some(m) = o.msgs.first() {
        if !o.wsegs.is_empty() && !m.is_empty() {
            flat_ranges.push((0, m.len()));
        }
    }
    let mut touched: Vec<Value> = Vec::new();
    for (fo, fl) in flat_ranges {
        let (mut pos, mut left, mut base) = (fo, fl, 0usize);
        for (a, l) in &o.wsegs {
            if left == 0 {
                break;
            }
            if pos < base + *l {
                let inseg = pos - base;
                let n = left.min(*l - inseg);
                touched.push(json!([*a + inseg as u64, n]));
                pos += n;
                left -= n;
            }
            base += *l;
        }
    }
    let written: Vec<Value> = o.written.iter().map(|(a, l)| json!([a, l])).collect();
    let wsegs: Vec<Value> = o.wsegs.iter().map(|(a, l)| json!([a, l])).collect();
    let ev = json!({"e": "Tx", "tr": transport, "op": opname, "gen": gen, "req": b.req, "calls": calls,
        "out": {"ret": o.ret, "nmsgs": o.msgs.len(), "canary_ok": o.canary_ok, "tail_untouched": o.tail_untouched,
                "written": written, "touched": touched, "dirty_reply": o.dirty_reply, "dirty_req": o.dirty_req, "wsegs": wsegs,
                "msglens": o.msgs.iter().map(|m| m.len()).collect::<Vec<_>>()},
        "reply": reply, "x": extra});
    tr.emit(&ev);
}

fn main() {
    let args: Vec<String> = std::env::args().collect();
    let abi = Abi::load(&args[1]);
    let out = &args[2];
    let k = args.get(3).map(|s| s.parse::<usize>().unwrap()).unwrap_or(2);
    let seed = env_u64("VERIF_SEED", 1);
    let mut rng = Rng::new(seed);
    let mut tr = Trace::create(out);
    let fs = Arc::new(ScriptedFs { remap_xor: 0x0055_00aa, ..ScriptedFs::new("s") });
    let server = Server::new(fs.clone());
    let pair = SeqPair::new();
    let mut ops = abi.op_names();
    ops.sort();
    for opname in &ops {
        let op = abi.op(opname).clone();
        let allbits: Vec<String> = op["bits"].as_array().unwrap().iter().map(|x| x.as_str().unwrap().to_string()).collect();
        for mask in 0..(1u32 << allbits.len()) {
            let bits_on: Vec<String> = allbits.iter().enumerate().filter(|(i, _)| mask & (1 << i) != 0).map(|(_, b)| b.clone()).collect();
            for rep in 0..k {
                for transport in ["fusedev", "virtiofs"] {
                    let want_err = rep % 3 == 2;
                    let b = build(&abi, &mut rng, opname, &bits_on, want_err);
                    fs.set(b.script.clone());
                    fs.take_log();
                    let cap = 16 + 160 + b.cap_hint + 4096 + rng.below(64) as usize;
                    let mut vu = NullCache;
                    let o = if transport == "fusedev" {
                        run_fusedev(&server, &b.bytes, cap, Some(&mut vu), &pair)
                    } else {
                        let rl = split_lens(&mut rng, b.bytes.len(), 0);
                        let wl = split_lens(&mut rng, cap, 0);
                        let roff = rng.below(4096);
                        let woff = rng.below(4096);
                        let gap = *rng.pick(&[0u64, 1, 64, 4096]);
                        run_virtio(&server, &b.bytes, &rl, &wl, roff, woff, gap, Some(&mut vu))
                    };
                    emit_tx(&mut tr, &abi, &fs, transport, opname, "wf", &b, &o, json!({"cap": cap}));
                }
            }
        }
    }
    tr.emit(&json!({"e": "End", "n": tr.n}));
    tr.flush();
}
