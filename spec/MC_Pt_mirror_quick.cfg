SPECIFICATION Spec
CONSTANTS
  PlainNames <- MC_Names2
  HostileNames <- MC_NoHostile
  MaxOps = 2
  MaxIno = 10
  Cfg <- MC_Cfg_plain
  AsFound <- MC_AF_none
  Mode = "c05"
  InitS <- MC_S_plain
  ScenCfg <- MC_Scen_plain
  ScenTree <- MC_Tree_plain
VIEW View
INVARIANTS TreeOK HandlesOK SwitchesOK MirrorOK NameGateOK Report
CHECK_DEADLOCK FALSE
