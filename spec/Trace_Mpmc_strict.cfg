SPECIFICATION Spec
CONSTANT Mode = "strict"
CHECK_DEADLOCK FALSE
POSTCONDITION Post
