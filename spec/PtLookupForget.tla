--------------------------- MODULE PtLookupForget ---------------------------
(* I-level step model of PassthroughFs::do_lookup / forget / batch_forget / readdirplus acting on
   ONE host file (property C09). One PlusCal label = the code of /repo between two yield points
   (`verif_yield!("<label>")` in src/passthrough/mod.rs and sync_io.rs); the label carries the
   name of the yield point that PRECEDES the code it models:

     lookup   L_probe   inode_map.get(parent) + get_alt(): probe under the read lock
              L_load    refcount.load(); `if curr == 0 { continue 'search }`
              L_cas     compare_exchange(curr, curr+1); success = return, failure = probe again
              L_wlock   get_map_mut(): take the map write lock
              L_locked  get_alt_locked() again; fetch_add or allocate+insert; unlock; return
     forget   F_wlock   take the write lock          F_locked  inodes.get(inode)
              F_load    refcount.load()              F_cas     compare_exchange(curr, curr -| n)
              F_rm      inodes.remove(); (further batch items find nothing); unlock
     readdirplus (entry did not fit) = lookup, then forget_one under a write lock that is taken
              WITHOUT a yield point: R_lock (model-only label) R_load R_cas R_rm = F_load F_cas F_rm.

   The RwLock is `owner` (0 = free, else the thread holding it for writing); readers hold it only
   inside one step, so a step that needs it just waits for `owner = 0`: TLC never schedules a
   thread that would block. Entry objects (Arc<InodeData>) are generations g with count rc[g];
   `cur` = the generation in the map (0 = none); a thread may keep `d` = a generation that has
   left the map. Inode numbers are sticky (`num`, the by_id/by_handle mapping survives forget).
   `arc` = the abstract count of PtConc, updated at the linearisation points; `hist` = the
   schedule so far (hidden by a VIEW when model checking, part of the state when exporting all
   interleavings).

   Eager = FALSE: the general model (any delay between a readdirplus lookup and its lock
   acquisition) - this is what is model-checked. Eager = TRUE: the schedules a cooperative
   scheduler can realise (no yield point before that lock acquisition: the thread takes the lock
   at once or queues for it) - this is what is exported for replay on the real code.
   Mutation switches (all FALSE = the code as read): SkipZeroRetry, NoReprobe, BlindStore. *)
EXTENDS PtConc, Naturals, Sequences, FiniteSets, TLC

CONSTANTS Ops,            \* sequence of [op |-> "lookup"|"forget"|"rdp", cnts |-> <<forget counts>>, fit |-> BOOLEAN, name |-> STRING]
          R0Set,          \* initial reference counts explored
          Eager,
          SkipZeroRetry,  \* mutant: CAS even when the count was read as 0
          NoReprobe,      \* mutant: slow path always inserts a new entry
          BlindStore      \* mutant: store(curr+1) instead of compare_exchange

Threads == 1..Len(Ops)
LK == {t \in Threads : Ops[t].op \in {"lookup", "rdp"}}
FG == {t \in Threads : Ops[t].op = "forget"}
MaxGen == 1 + Cardinality(LK)
NoFit(t) == Ops[t].op = "rdp" /\ ~Ops[t].fit
Cnt(t, k) == Ops[t].cnts[k]

RECURSIVE DecFrom(_, _, _)
DecFrom(r, cnts, k) == IF k > Len(cnts) THEN r ELSE DecFrom(RefsDec(r, cnts[k]), cnts, k + 1)

(* --algorithm LF
variables
  r0 \in R0Set,
  rc = [k \in 1..MaxGen |-> IF k = 1 THEN r0 ELSE 0],             \* refcount of entry object k
  ino = [k \in 1..MaxGen |-> IF k = 1 /\ r0 > 0 THEN 1 ELSE 0],   \* inode number stored in entry object k
  num = IF r0 > 0 THEN 1 ELSE 0,                                  \* sticky number of the file (0 = never assigned)
  cur = IF r0 > 0 THEN 1 ELSE 0,                                  \* entry object in the map (0 = none)
  nextg = 2,
  owner = 0,                                                      \* write-lock holder
  waiting = {},                                                   \* Eager: readdirplus threads queued on the lock
  arc = r0,                                                       \* abstract count (history variable)
  ret = [t \in Threads |-> 0],                                    \* entry object whose number was returned to t
  retok = TRUE,                                                   \* every returned entry was in the map at return
  hist = <<>>;                                                    \* schedule: <<thread, label>>

macro Release() begin
  if waiting # {} then
    with w \in waiting do owner := w; waiting := waiting \ {w}; end with;
  else
    owner := 0;
  end if;
end macro;

process lk \in LK
variables d = 0, c = 0, g = 0, fc = 0;
begin
L_probe:
  await owner = 0;
  hist := Append(hist, <<self, "L_probe">>);
  d := cur;
  if d = 0 then goto L_wlock; end if;
L_load:
  hist := Append(hist, <<self, "L_load">>);
  c := rc[d];
  if c = 0 /\ ~SkipZeroRetry then goto L_probe; end if;
L_cas:
  hist := Append(hist, <<self, "L_cas">>);
  if BlindStore \/ rc[d] = c then
    rc[d] := c + 1;
    arc := RefsInc(arc);                       \* linearisation point (fast path)
    ret[self] := d;
    retok := retok /\ (cur = d);
    if NoFit(self) then
      if Eager then
        if owner = 0 then owner := self; else waiting := waiting \cup {self}; end if;
      end if;
      goto R_lock;
    else
      goto Done;
    end if;
  else
    goto L_probe;
  end if;
L_wlock:
  await owner = 0;
  hist := Append(hist, <<self, "L_wlock">>);
  owner := self;
L_locked:
  hist := Append(hist, <<self, "L_locked">>);
  if cur # 0 /\ ~NoReprobe then
    d := cur;
    rc[d] := rc[d] + 1;
  else
    d := nextg;
    nextg := nextg + 1;
    rc[d] := 1;
    ino[d] := IF num # 0 THEN num ELSE 1;
    num := IF num # 0 THEN num ELSE 1;
    cur := d;
  end if;
  arc := RefsInc(arc);                         \* linearisation point (slow path)
  ret[self] := d;
  retok := retok /\ (cur = d);
  if NoFit(self) then
    if Eager then
      with w \in waiting \cup {self} do
        owner := w;
        waiting := (waiting \cup {self}) \ {w};
      end with;
    else
      owner := 0;
    end if;
    goto R_lock;
  else
    Release();
    goto Done;
  end if;
R_lock:                                        \* model-only label: no yield point in the code
  await IF Eager THEN owner = self ELSE owner = 0;
  hist := Append(hist, <<self, "R_lock">>);
  g := cur;
  if g = 0 then
    arc := RefsDec(arc, 1);
    Release();
    goto Done;
  else
    owner := self;
  end if;
R_load:
  hist := Append(hist, <<self, "R_load">>);
  fc := rc[g];
R_cas:
  hist := Append(hist, <<self, "R_cas">>);
  if rc[g] = fc then
    rc[g] := RefsDec(fc, 1);
    arc := RefsDec(arc, 1);                    \* linearisation point
    if RefsDec(fc, 1) = 0 then
      goto R_rm;
    else
      Release();
      goto Done;
    end if;
  else
    goto R_load;
  end if;
R_rm:
  hist := Append(hist, <<self, "R_rm">>);
  cur := 0;
  Release();
end process;

process fg \in FG
variables e = 0, ec = 0, i = 1;
begin
F_wlock:
  await owner = 0;
  hist := Append(hist, <<self, "F_wlock">>);
  owner := self;
F_locked:
  hist := Append(hist, <<self, "F_locked">>);
  e := cur;
  if e = 0 then
    arc := DecFrom(arc, Ops[self].cnts, 1);    \* every item finds nothing
    Release();
    goto Done;
  end if;
F_load:
  hist := Append(hist, <<self, "F_load">>);
  ec := rc[e];
F_cas:
  hist := Append(hist, <<self, "F_cas">>);
  if rc[e] = ec then
    rc[e] := RefsDec(ec, Cnt(self, i));
    arc := RefsDec(arc, Cnt(self, i));         \* linearisation point of item i
    if RefsDec(ec, Cnt(self, i)) = 0 then
      goto F_rm;
    elsif i < Len(Ops[self].cnts) then
      i := i + 1;
      goto F_load;
    else
      Release();
      goto Done;
    end if;
  else
    goto F_load;
  end if;
F_rm:
  hist := Append(hist, <<self, "F_rm">>);
  cur := 0;
  arc := DecFrom(arc, Ops[self].cnts, i + 1);  \* the remaining items find nothing
  Release();
end process;
end algorithm; *)
\* BEGIN TRANSLATION (chksum(pcal) = "204b4a33" /\ chksum(tla) = "884b80a2")
VARIABLES pc, r0, rc, ino, num, cur, nextg, owner, waiting, arc, ret, retok, 
          hist, d, c, g, fc, e, ec, i

vars == << pc, r0, rc, ino, num, cur, nextg, owner, waiting, arc, ret, retok, 
           hist, d, c, g, fc, e, ec, i >>

ProcSet == (LK) \cup (FG)

Init == (* Global variables *)
        /\ r0 \in R0Set
        /\ rc = [k \in 1..MaxGen |-> IF k = 1 THEN r0 ELSE 0]
        /\ ino = [k \in 1..MaxGen |-> IF k = 1 /\ r0 > 0 THEN 1 ELSE 0]
        /\ num = (IF r0 > 0 THEN 1 ELSE 0)
        /\ cur = (IF r0 > 0 THEN 1 ELSE 0)
        /\ nextg = 2
        /\ owner = 0
        /\ waiting = {}
        /\ arc = r0
        /\ ret = [t \in Threads |-> 0]
        /\ retok = TRUE
        /\ hist = <<>>
        (* Process lk *)
        /\ d = [self \in LK |-> 0]
        /\ c = [self \in LK |-> 0]
        /\ g = [self \in LK |-> 0]
        /\ fc = [self \in LK |-> 0]
        (* Process fg *)
        /\ e = [self \in FG |-> 0]
        /\ ec = [self \in FG |-> 0]
        /\ i = [self \in FG |-> 1]
        /\ pc = [self \in ProcSet |-> CASE self \in LK -> "L_probe"
                                        [] self \in FG -> "F_wlock"]

L_probe(self) == /\ pc[self] = "L_probe"
                 /\ owner = 0
                 /\ hist' = Append(hist, <<self, "L_probe">>)
                 /\ d' = [d EXCEPT ![self] = cur]
                 /\ IF d'[self] = 0
                       THEN /\ pc' = [pc EXCEPT ![self] = "L_wlock"]
                       ELSE /\ pc' = [pc EXCEPT ![self] = "L_load"]
                 /\ UNCHANGED << r0, rc, ino, num, cur, nextg, owner, waiting, 
                                 arc, ret, retok, c, g, fc, e, ec, i >>

L_load(self) == /\ pc[self] = "L_load"
                /\ hist' = Append(hist, <<self, "L_load">>)
                /\ c' = [c EXCEPT ![self] = rc[d[self]]]
                /\ IF c'[self] = 0 /\ ~SkipZeroRetry
                      THEN /\ pc' = [pc EXCEPT ![self] = "L_probe"]
                      ELSE /\ pc' = [pc EXCEPT ![self] = "L_cas"]
                /\ UNCHANGED << r0, rc, ino, num, cur, nextg, owner, waiting, 
                                arc, ret, retok, d, g, fc, e, ec, i >>

L_cas(self) == /\ pc[self] = "L_cas"
               /\ hist' = Append(hist, <<self, "L_cas">>)
               /\ IF BlindStore \/ rc[d[self]] = c[self]
                     THEN /\ rc' = [rc EXCEPT ![d[self]] = c[self] + 1]
                          /\ arc' = RefsInc(arc)
                          /\ ret' = [ret EXCEPT ![self] = d[self]]
                          /\ retok' = (retok /\ (cur = d[self]))
                          /\ IF NoFit(self)
                                THEN /\ IF Eager
                                           THEN /\ IF owner = 0
                                                      THEN /\ owner' = self
                                                           /\ UNCHANGED waiting
                                                      ELSE /\ waiting' = (waiting \cup {self})
                                                           /\ owner' = owner
                                           ELSE /\ TRUE
                                                /\ UNCHANGED << owner, waiting >>
                                     /\ pc' = [pc EXCEPT ![self] = "R_lock"]
                                ELSE /\ pc' = [pc EXCEPT ![self] = "Done"]
                                     /\ UNCHANGED << owner, waiting >>
                     ELSE /\ pc' = [pc EXCEPT ![self] = "L_probe"]
                          /\ UNCHANGED << rc, owner, waiting, arc, ret, retok >>
               /\ UNCHANGED << r0, ino, num, cur, nextg, d, c, g, fc, e, ec, i >>

L_wlock(self) == /\ pc[self] = "L_wlock"
                 /\ owner = 0
                 /\ hist' = Append(hist, <<self, "L_wlock">>)
                 /\ owner' = self
                 /\ pc' = [pc EXCEPT ![self] = "L_locked"]
                 /\ UNCHANGED << r0, rc, ino, num, cur, nextg, waiting, arc, 
                                 ret, retok, d, c, g, fc, e, ec, i >>

L_locked(self) == /\ pc[self] = "L_locked"
                  /\ hist' = Append(hist, <<self, "L_locked">>)
                  /\ IF cur # 0 /\ ~NoReprobe
                        THEN /\ d' = [d EXCEPT ![self] = cur]
                             /\ rc' = [rc EXCEPT ![d'[self]] = rc[d'[self]] + 1]
                             /\ UNCHANGED << ino, num, cur, nextg >>
                        ELSE /\ d' = [d EXCEPT ![self] = nextg]
                             /\ nextg' = nextg + 1
                             /\ rc' = [rc EXCEPT ![d'[self]] = 1]
                             /\ ino' = [ino EXCEPT ![d'[self]] = IF num # 0 THEN num ELSE 1]
                             /\ num' = (IF num # 0 THEN num ELSE 1)
                             /\ cur' = d'[self]
                  /\ arc' = RefsInc(arc)
                  /\ ret' = [ret EXCEPT ![self] = d'[self]]
                  /\ retok' = (retok /\ (cur' = d'[self]))
                  /\ IF NoFit(self)
                        THEN /\ IF Eager
                                   THEN /\ \E w \in waiting \cup {self}:
                                             /\ owner' = w
                                             /\ waiting' = (waiting \cup {self}) \ {w}
                                   ELSE /\ owner' = 0
                                        /\ UNCHANGED waiting
                             /\ pc' = [pc EXCEPT ![self] = "R_lock"]
                        ELSE /\ IF waiting # {}
                                   THEN /\ \E w \in waiting:
                                             /\ owner' = w
                                             /\ waiting' = waiting \ {w}
                                   ELSE /\ owner' = 0
                                        /\ UNCHANGED waiting
                             /\ pc' = [pc EXCEPT ![self] = "Done"]
                  /\ UNCHANGED << r0, c, g, fc, e, ec, i >>

R_lock(self) == /\ pc[self] = "R_lock"
                /\ IF Eager THEN owner = self ELSE owner = 0
                /\ hist' = Append(hist, <<self, "R_lock">>)
                /\ g' = [g EXCEPT ![self] = cur]
                /\ IF g'[self] = 0
                      THEN /\ arc' = RefsDec(arc, 1)
                           /\ IF waiting # {}
                                 THEN /\ \E w \in waiting:
                                           /\ owner' = w
                                           /\ waiting' = waiting \ {w}
                                 ELSE /\ owner' = 0
                                      /\ UNCHANGED waiting
                           /\ pc' = [pc EXCEPT ![self] = "Done"]
                      ELSE /\ owner' = self
                           /\ pc' = [pc EXCEPT ![self] = "R_load"]
                           /\ UNCHANGED << waiting, arc >>
                /\ UNCHANGED << r0, rc, ino, num, cur, nextg, ret, retok, d, c, 
                                fc, e, ec, i >>

R_load(self) == /\ pc[self] = "R_load"
                /\ hist' = Append(hist, <<self, "R_load">>)
                /\ fc' = [fc EXCEPT ![self] = rc[g[self]]]
                /\ pc' = [pc EXCEPT ![self] = "R_cas"]
                /\ UNCHANGED << r0, rc, ino, num, cur, nextg, owner, waiting, 
                                arc, ret, retok, d, c, g, e, ec, i >>

R_cas(self) == /\ pc[self] = "R_cas"
               /\ hist' = Append(hist, <<self, "R_cas">>)
               /\ IF rc[g[self]] = fc[self]
                     THEN /\ rc' = [rc EXCEPT ![g[self]] = RefsDec(fc[self], 1)]
                          /\ arc' = RefsDec(arc, 1)
                          /\ IF RefsDec(fc[self], 1) = 0
                                THEN /\ pc' = [pc EXCEPT ![self] = "R_rm"]
                                     /\ UNCHANGED << owner, waiting >>
                                ELSE /\ IF waiting # {}
                                           THEN /\ \E w \in waiting:
                                                     /\ owner' = w
                                                     /\ waiting' = waiting \ {w}
                                           ELSE /\ owner' = 0
                                                /\ UNCHANGED waiting
                                     /\ pc' = [pc EXCEPT ![self] = "Done"]
                     ELSE /\ pc' = [pc EXCEPT ![self] = "R_load"]
                          /\ UNCHANGED << rc, owner, waiting, arc >>
               /\ UNCHANGED << r0, ino, num, cur, nextg, ret, retok, d, c, g, 
                               fc, e, ec, i >>

R_rm(self) == /\ pc[self] = "R_rm"
              /\ hist' = Append(hist, <<self, "R_rm">>)
              /\ cur' = 0
              /\ IF waiting # {}
                    THEN /\ \E w \in waiting:
                              /\ owner' = w
                              /\ waiting' = waiting \ {w}
                    ELSE /\ owner' = 0
                         /\ UNCHANGED waiting
              /\ pc' = [pc EXCEPT ![self] = "Done"]
              /\ UNCHANGED << r0, rc, ino, num, nextg, arc, ret, retok, d, c, 
                              g, fc, e, ec, i >>

lk(self) == L_probe(self) \/ L_load(self) \/ L_cas(self) \/ L_wlock(self)
               \/ L_locked(self) \/ R_lock(self) \/ R_load(self)
               \/ R_cas(self) \/ R_rm(self)

F_wlock(self) == /\ pc[self] = "F_wlock"
                 /\ owner = 0
                 /\ hist' = Append(hist, <<self, "F_wlock">>)
                 /\ owner' = self
                 /\ pc' = [pc EXCEPT ![self] = "F_locked"]
                 /\ UNCHANGED << r0, rc, ino, num, cur, nextg, waiting, arc, 
                                 ret, retok, d, c, g, fc, e, ec, i >>

F_locked(self) == /\ pc[self] = "F_locked"
                  /\ hist' = Append(hist, <<self, "F_locked">>)
                  /\ e' = [e EXCEPT ![self] = cur]
                  /\ IF e'[self] = 0
                        THEN /\ arc' = DecFrom(arc, Ops[self].cnts, 1)
                             /\ IF waiting # {}
                                   THEN /\ \E w \in waiting:
                                             /\ owner' = w
                                             /\ waiting' = waiting \ {w}
                                   ELSE /\ owner' = 0
                                        /\ UNCHANGED waiting
                             /\ pc' = [pc EXCEPT ![self] = "Done"]
                        ELSE /\ pc' = [pc EXCEPT ![self] = "F_load"]
                             /\ UNCHANGED << owner, waiting, arc >>
                  /\ UNCHANGED << r0, rc, ino, num, cur, nextg, ret, retok, d, 
                                  c, g, fc, ec, i >>

F_load(self) == /\ pc[self] = "F_load"
                /\ hist' = Append(hist, <<self, "F_load">>)
                /\ ec' = [ec EXCEPT ![self] = rc[e[self]]]
                /\ pc' = [pc EXCEPT ![self] = "F_cas"]
                /\ UNCHANGED << r0, rc, ino, num, cur, nextg, owner, waiting, 
                                arc, ret, retok, d, c, g, fc, e, i >>

F_cas(self) == /\ pc[self] = "F_cas"
               /\ hist' = Append(hist, <<self, "F_cas">>)
               /\ IF rc[e[self]] = ec[self]
                     THEN /\ rc' = [rc EXCEPT ![e[self]] = RefsDec(ec[self], Cnt(self, i[self]))]
                          /\ arc' = RefsDec(arc, Cnt(self, i[self]))
                          /\ IF RefsDec(ec[self], Cnt(self, i[self])) = 0
                                THEN /\ pc' = [pc EXCEPT ![self] = "F_rm"]
                                     /\ UNCHANGED << owner, waiting, i >>
                                ELSE /\ IF i[self] < Len(Ops[self].cnts)
                                           THEN /\ i' = [i EXCEPT ![self] = i[self] + 1]
                                                /\ pc' = [pc EXCEPT ![self] = "F_load"]
                                                /\ UNCHANGED << owner, waiting >>
                                           ELSE /\ IF waiting # {}
                                                      THEN /\ \E w \in waiting:
                                                                /\ owner' = w
                                                                /\ waiting' = waiting \ {w}
                                                      ELSE /\ owner' = 0
                                                           /\ UNCHANGED waiting
                                                /\ pc' = [pc EXCEPT ![self] = "Done"]
                                                /\ i' = i
                     ELSE /\ pc' = [pc EXCEPT ![self] = "F_load"]
                          /\ UNCHANGED << rc, owner, waiting, arc, i >>
               /\ UNCHANGED << r0, ino, num, cur, nextg, ret, retok, d, c, g, 
                               fc, e, ec >>

F_rm(self) == /\ pc[self] = "F_rm"
              /\ hist' = Append(hist, <<self, "F_rm">>)
              /\ cur' = 0
              /\ arc' = DecFrom(arc, Ops[self].cnts, i[self] + 1)
              /\ IF waiting # {}
                    THEN /\ \E w \in waiting:
                              /\ owner' = w
                              /\ waiting' = waiting \ {w}
                    ELSE /\ owner' = 0
                         /\ UNCHANGED waiting
              /\ pc' = [pc EXCEPT ![self] = "Done"]
              /\ UNCHANGED << r0, rc, ino, num, nextg, ret, retok, d, c, g, fc, 
                              e, ec, i >>

fg(self) == F_wlock(self) \/ F_locked(self) \/ F_load(self) \/ F_cas(self)
               \/ F_rm(self)

(* Allow infinite stuttering to prevent deadlock on termination. *)
Terminating == /\ \A self \in ProcSet: pc[self] = "Done"
               /\ UNCHANGED vars

Next == (\E self \in LK: lk(self))
           \/ (\E self \in FG: fg(self))
           \/ Terminating

Spec == Init /\ [][Next]_vars

Termination == <>(\A self \in ProcSet: pc[self] = "Done")

\* END TRANSLATION 

-----------------------------------------------------------------------------
\* the abstract object is refined at every step: the entry in the map carries the abstract count
Refines == /\ (cur # 0 => rc[cur] = arc)
           /\ (cur = 0 => arc = 0)
AllDone == \A t \in Threads : pc[t] = "Done"
\* at quiescence the map holds a live entry iff the abstract count is positive; lock released
Final == AllDone => /\ ((arc > 0) <=> (cur # 0))
                    /\ owner = 0 /\ waiting = {}
\* returned inode is in the map at return
RetInMap == retok
\* no entry with count 0 visible outside the write lock
NoZeroVisible == owner = 0 => (cur # 0 => rc[cur] > 0)
\* every lookup returned the one sticky number of the file
OneNumber == \A t \in Threads : ret[t] # 0 => (num # 0 /\ ino[ret[t]] = num)
\* the lock is never held by a finished thread
LockSane == owner # 0 => pc[owner] # "Done"

View == <<r0, rc, ino, num, cur, nextg, owner, waiting, arc, ret, retok, pc, d, c, g, fc, e, ec, i>>
=============================================================================
