SPECIFICATION Spec
CONSTANTS
  Programs <- MC_Programs
  ReqChoices <- MC_Req1
  Inits <- MC_Inits
  NReq = 1
VIEW NoHist
CONSTRAINT Valid
CHECK_DEADLOCK FALSE
INVARIANTS Lin StrictLin NoForeign MapOfSome
