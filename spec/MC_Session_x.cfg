SPECIFICATION Spec
CONSTANTS
  Chans = {1, 2}
  MaxConn = 2
  AsFoundAbort = TRUE
  AsFoundRemount = TRUE
  MaxOps = 7
  Excuse = TRUE
  Sticky = FALSE
VIEW NoHist
ACTION_CONSTRAINT Export
CHECK_DEADLOCK FALSE
INVARIANTS InvType InvNoLeak InvReq InvSettled
