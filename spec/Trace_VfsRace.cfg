SPECIFICATION Spec
CONSTANT Relaxed = TRUE
CHECK_DEADLOCK FALSE
POSTCONDITION Post
