SPECIFICATION Spec
CONSTANTS
  NameSeq <- NamesAB
  MaxFile = 3
  MaxLen = 3
  Counts <- Counts12
  CfgSet <- CfgDir
  MODE = "dir"
  Fails <- NoFail
  MAXHOST = 2
  BUG_CREATE_LEAK = FALSE
  BUG_PROBE_LEAK = FALSE
  BUG_DOTS = TRUE
  DirN <- Dir02
  MAXSEEK = 25
  SPECIAL_A = FALSE
  Sample = 20
  WithDetail <- NoDetail
  BlameLabel <- AnyBlame
INVARIANTS NoViolStrict
VIEW View
CHECK_DEADLOCK FALSE
