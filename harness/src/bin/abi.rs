//! C13 probe: emits one NDJSON fact per ABI item of the crate (layouts, constants, the
//! `Opcode::from` map over all 2^32 inputs compressed to ranges, and the stat/attr conversions
//! analysed by tokenised sampling). The judge is spec/Trace_Abi.tla.
use fuse_backend_rs::abi::fuse_abi::*;
use fuse_backend_rs::abi::virtio_fs::SetupmappingFlags;
use serde_json::{json, Value};
use vharness::util::{env_u64, Rng, Trace};

use vharness::abi_gen;

fn consts(emit: &mut dyn FnMut(Value)) {
    let mut c = |name: &str, v: u64| emit(json!({"e":"Const","src":"crate","name":name,"val":v.to_string()}));
    c("FUSE_KERNEL_VERSION", KERNEL_VERSION as u64);
    c("FUSE_ROOT_ID", ROOT_ID);
    macro_rules! sv { ($($n:ident),*) => { $( c(concat!("FATTR_", stringify!($n)), SetattrValid::$n.bits() as u64); )* } }
    sv!(MODE, UID, GID, SIZE, ATIME, MTIME, ATIME_NOW, MTIME_NOW, CTIME, KILL_SUIDGID);
    c("FATTR_FH", FATTR_FH as u64);
    c("FATTR_LOCKOWNER", FATTR_LOCKOWNER as u64);
    c("FUSE_OPEN_KILL_SUIDGID", FOPEN_IN_KILL_SUIDGID as u64);
    macro_rules! oo { ($($n:ident),*) => { $( c(concat!("FOPEN_", stringify!($n)), OpenOptions::$n.bits() as u64); )* } }
    oo!(DIRECT_IO, KEEP_CACHE, NONSEEKABLE, CACHE_DIR, STREAM);
    macro_rules! fo { ($($n:ident),*) => { $( c(concat!("FUSE_", stringify!($n)), FsOptions::$n.bits()); )* } }
    fo!(
        ASYNC_READ, POSIX_LOCKS, FILE_OPS, ATOMIC_O_TRUNC, EXPORT_SUPPORT, BIG_WRITES, DONT_MASK,
        SPLICE_WRITE, SPLICE_MOVE, SPLICE_READ, FLOCK_LOCKS, HAS_IOCTL_DIR, AUTO_INVAL_DATA,
        DO_READDIRPLUS, READDIRPLUS_AUTO, ASYNC_DIO, WRITEBACK_CACHE, PARALLEL_DIROPS,
        HANDLE_KILLPRIV, POSIX_ACL, ABORT_ERROR, MAX_PAGES, CACHE_SYMLINKS, EXPLICIT_INVAL_DATA,
        MAP_ALIGNMENT, SUBMOUNTS, HANDLE_KILLPRIV_V2, INIT_EXT, HAS_RESEND
    );
    c("FUSE_NO_OPEN_SUPPORT", FsOptions::ZERO_MESSAGE_OPEN.bits());
    c("FUSE_NO_OPENDIR_SUPPORT", FsOptions::ZERO_MESSAGE_OPENDIR.bits());
    c("FUSE_HAS_INODE_DAX", FsOptions::PERFILE_DAX.bits());
    c("ANOLIS_FUSE_FD_PASSTHROUGH", FsOptions::FD_PASSTHROUGH.bits());
    c("FUSE_RELEASE_FLUSH", RELEASE_FLUSH as u64);
    c("FUSE_RELEASE_FLOCK_UNLOCK", RELEASE_FLOCK_UNLOCK as u64);
    c("FUSE_GETATTR_FH", GETATTR_FH as u64);
    c("FUSE_LK_FLOCK", LK_FLOCK as u64);
    c("FUSE_WRITE_CACHE", WRITE_CACHE as u64);
    c("FUSE_WRITE_LOCKOWNER", WRITE_LOCKOWNER as u64);
    c("FUSE_WRITE_KILL_SUIDGID", WRITE_KILL_PRIV as u64);
    c("FUSE_READ_LOCKOWNER", READ_LOCKOWNER as u64);
    macro_rules! io { ($($n:ident),*) => { $( c(concat!("FUSE_", stringify!($n)), IoctlFlags::$n.bits() as u64); )* } }
    io!(IOCTL_COMPAT, IOCTL_UNRESTRICTED, IOCTL_RETRY, IOCTL_32BIT, IOCTL_DIR, IOCTL_COMPAT_X32, IOCTL_MAX_IOV);
    c("FUSE_ATTR_SUBMOUNT", ATTR_SUBMOUNT as u64);
    c("FUSE_ATTR_DAX", FUSE_ATTR_DAX as u64);
    c("FUSE_POLL_SCHEDULE_NOTIFY", POLL_SCHEDULE_NOTIFY as u64);
    c("FUSE_FSYNC_FDATASYNC", FSYNC_FDATASYNC as u64);
    c("FUSE_MIN_READ_BUFFER", FUSE_MIN_READ_BUFFER as u64);
    c("FUSE_COMPAT_ENTRY_OUT_SIZE", FUSE_COMPAT_ENTRY_OUT_SIZE as u64);
    c("FUSE_COMPAT_ATTR_OUT_SIZE", FUSE_COMPAT_ATTR_OUT_SIZE as u64);
    c("FUSE_COMPAT_MKNOD_IN_SIZE", FUSE_COMPAT_MKNOD_IN_SIZE as u64);
    c("FUSE_COMPAT_WRITE_IN_SIZE", FUSE_COMPAT_WRITE_IN_SIZE as u64);
    c("FUSE_COMPAT_STATFS_SIZE", FUSE_COMPAT_STATFS_SIZE as u64);
    c("FUSE_COMPAT_INIT_OUT_SIZE", FUSE_COMPAT_INIT_OUT_SIZE as u64);
    c("FUSE_COMPAT_22_INIT_OUT_SIZE", FUSE_COMPAT_22_INIT_OUT_SIZE as u64);
    c("FUSE_SETUPMAPPING_FLAG_WRITE", SetupmappingFlags::WRITE.bits());
    c("FUSE_SETUPMAPPING_FLAG_READ", SetupmappingFlags::READ.bits());
    macro_rules! op { ($($v:ident => $k:literal),*) => { $( c($k, Opcode::$v as u32 as u64); )* } }
    op!(Lookup => "FUSE_LOOKUP", Forget => "FUSE_FORGET", Getattr => "FUSE_GETATTR", Setattr => "FUSE_SETATTR",
        Readlink => "FUSE_READLINK", Symlink => "FUSE_SYMLINK", Mknod => "FUSE_MKNOD", Mkdir => "FUSE_MKDIR",
        Unlink => "FUSE_UNLINK", Rmdir => "FUSE_RMDIR", Rename => "FUSE_RENAME", Link => "FUSE_LINK",
        Open => "FUSE_OPEN", Read => "FUSE_READ", Write => "FUSE_WRITE", Statfs => "FUSE_STATFS",
        Release => "FUSE_RELEASE", Fsync => "FUSE_FSYNC", Setxattr => "FUSE_SETXATTR", Getxattr => "FUSE_GETXATTR",
        Listxattr => "FUSE_LISTXATTR", Removexattr => "FUSE_REMOVEXATTR", Flush => "FUSE_FLUSH", Init => "FUSE_INIT",
        Opendir => "FUSE_OPENDIR", Readdir => "FUSE_READDIR", Releasedir => "FUSE_RELEASEDIR",
        Fsyncdir => "FUSE_FSYNCDIR", Getlk => "FUSE_GETLK", Setlk => "FUSE_SETLK", Setlkw => "FUSE_SETLKW",
        Access => "FUSE_ACCESS", Create => "FUSE_CREATE", Interrupt => "FUSE_INTERRUPT", Bmap => "FUSE_BMAP",
        Destroy => "FUSE_DESTROY", Ioctl => "FUSE_IOCTL", Poll => "FUSE_POLL", NotifyReply => "FUSE_NOTIFY_REPLY",
        BatchForget => "FUSE_BATCH_FORGET", Fallocate => "FUSE_FALLOCATE", Readdirplus => "FUSE_READDIRPLUS",
        Rename2 => "FUSE_RENAME2", Lseek => "FUSE_LSEEK", CopyFileRange => "FUSE_COPY_FILE_RANGE",
        SetupMapping => "FUSE_SETUPMAPPING", RemoveMapping => "FUSE_REMOVEMAPPING",
        CuseInitBswapReserved => "CUSE_INIT_BSWAP_RESERVED", InitBswapReserved => "FUSE_INIT_BSWAP_RESERVED");
    macro_rules! no { ($($v:ident => $k:literal),*) => { $( c($k, NotifyOpcode::$v as u32 as u64); )* } }
    no!(Poll => "FUSE_NOTIFY_POLL", InvalInode => "FUSE_NOTIFY_INVAL_INODE", InvalEntry => "FUSE_NOTIFY_INVAL_ENTRY",
        Store => "FUSE_NOTIFY_STORE", Retrieve => "FUSE_NOTIFY_RETRIEVE", Delete => "FUSE_NOTIFY_DELETE",
        Resend => "FUSE_NOTIFY_RESEND");
}

/// `Opcode::from` over the whole u32 domain, run-length compressed by outcome kind.
fn opcode_ranges(emit: &mut dyn FnMut(Value), full: bool) {
    let kind = |n: u32| -> i64 {
        let o = Opcode::from(n) as u32;
        if o == n && n != Opcode::MaxOpcode as u32 {
            -1 // identity on a supported opcode
        } else {
            o as i64
        }
    };
    let limit: u64 = if full { 1u64 << 32 } else { 1u64 << 24 };
    let nthreads = 16u64;
    let chunk = limit / nthreads;
    let mut parts: Vec<Vec<(u64, u64, i64)>> = Vec::new();
    std::thread::scope(|s| {
        let hs: Vec<_> = (0..nthreads)
            .map(|t| {
                s.spawn(move || {
                    let lo = t * chunk;
                    let hi = if t == nthreads - 1 { limit } else { lo + chunk };
                    let mut v: Vec<(u64, u64, i64)> = Vec::new();
                    let mut cur = (lo, lo, kind(lo as u32));
                    for n in lo + 1..hi {
                        let k = kind(n as u32);
                        if k == cur.2 && k != -1 {
                            cur.1 = n;
                        } else {
                            v.push(cur);
                            cur = (n, n, k);
                        }
                    }
                    v.push(cur);
                    v
                })
            })
            .collect();
        for h in hs {
            parts.push(h.join().unwrap());
        }
    });
    let mut all: Vec<(u64, u64, i64)> = Vec::new();
    for p in parts {
        for r in p {
            if let Some(last) = all.last_mut() {
                if last.2 == r.2 && r.2 != -1 && last.1 + 1 == r.0 {
                    last.1 = r.1;
                    continue;
                }
            }
            all.push(r);
        }
    }
    if !full {
        // quick tier: the top of the domain and the reserved byte-swapped values are probed pointwise
        for n in [1_048_576u64, 436_207_616, (1 << 31) - 1, 1 << 31, (1u64 << 32) - 1, 0x1a00_0000, 0x0100_0000] {
            if n >= limit {
                all.push((n, n, kind(n as u32)));
            }
        }
        all.sort();
        all.dedup();
    }
    for (lo, hi, k) in all {
        emit(json!({"e":"OpRange","lo":lo.to_string(),"hi":hi.to_string(),
                    "lo31": lo.min(i32::MAX as u64), "hi31": hi.min(i32::MAX as u64),
                    "kind": if k == -1 {"id".to_string()} else {k.to_string()}}));
    }
    emit(json!({"e":"OpScan","full":full,"limit":limit.to_string()}));
}

/// For one conversion: find, per output field, the unique input that explains it on all samples.
/// `ins[s]` = input field values, `outs[s]` = (output field, width in bytes, value).
fn analyse(emit: &mut dyn FnMut(Value), fname: &str, in_names: &[&str], ins: &[Vec<u64>], out_names: &[(&str, u32)], outs: &[Vec<u64>]) {
    for (oi, (on, w)) in out_names.iter().enumerate() {
        let mask = if *w >= 8 { u64::MAX } else { (1u64 << (8 * w)) - 1 };
        let mut src: Vec<&str> = Vec::new();
        for (ii, inn) in in_names.iter().enumerate() {
            if (0..ins.len()).all(|s| outs[s][oi] == ins[s][ii] & mask) {
                src.push(inn);
            }
        }
        let zero = (0..ins.len()).all(|s| outs[s][oi] == 0);
        let r = if src.len() == 1 {
            src[0].to_string()
        } else if zero {
            "zero".to_string()
        } else {
            "?".to_string()
        };
        emit(json!({"e":"Conv","fn":fname,"out":on,"w":w,"src":r}));
    }
}

fn conversions(emit: &mut dyn FnMut(Value), rng: &mut Rng, nsamples: usize) {
    // every input value has high bits set so that a narrowing on the way is visible, and all
    // values of one sample are pairwise distinct also after truncation to 32 bits.
    let fresh = |rng: &mut Rng, n: usize| -> Vec<u64> {
        loop {
            let v: Vec<u64> = (0..n).map(|_| rng.next() | 0x8000_0000_8000_0000).collect();
            let mut lo: Vec<u32> = v.iter().map(|x| *x as u32).collect();
            lo.sort();
            lo.dedup();
            if lo.len() == n {
                return v;
            }
        }
    };
    // Attr::with_flags(stat64, flags)
    let st_in = ["st_ino", "st_size", "st_blocks", "st_atime", "st_mtime", "st_ctime", "st_atime_nsec", "st_mtime_nsec",
        "st_ctime_nsec", "st_mode", "st_nlink", "st_uid", "st_gid", "st_rdev", "st_blksize", "flags_arg", "st_dev"];
    let attr_out = [("ino", 8), ("size", 8), ("blocks", 8), ("atime", 8), ("mtime", 8), ("ctime", 8), ("atimensec", 4),
        ("mtimensec", 4), ("ctimensec", 4), ("mode", 4), ("nlink", 4), ("uid", 4), ("gid", 4), ("rdev", 4), ("blksize", 4), ("flags", 4)];
    let (mut ins, mut outs, mut outs2) = (Vec::new(), Vec::new(), Vec::new());
    for _ in 0..nsamples {
        let v = fresh(rng, st_in.len());
        let mut st: libc::stat64 = unsafe { std::mem::zeroed() };
        st.st_ino = v[0];
        st.st_size = v[1] as i64;
        st.st_blocks = v[2] as i64;
        st.st_atime = v[3] as i64;
        st.st_mtime = v[4] as i64;
        st.st_ctime = v[5] as i64;
        st.st_atime_nsec = v[6] as i64;
        st.st_mtime_nsec = v[7] as i64;
        st.st_ctime_nsec = v[8] as i64;
        st.st_mode = v[9] as u32;
        st.st_nlink = v[10] as libc::nlink_t;
        st.st_uid = v[11] as u32;
        st.st_gid = v[12] as u32;
        st.st_rdev = v[13] as libc::dev_t;
        st.st_blksize = v[14] as libc::blksize_t;
        st.st_dev = v[16] as libc::dev_t;
        let a = Attr::with_flags(st, v[15] as u32);
        let pack = |a: &Attr| vec![a.ino, a.size, a.blocks, a.atime, a.mtime, a.ctime, a.atimensec as u64, a.mtimensec as u64,
            a.ctimensec as u64, a.mode as u64, a.nlink as u64, a.uid as u64, a.gid as u64, a.rdev as u64, a.blksize as u64, a.flags as u64];
        outs.push(pack(&a));
        let a2 = Attr::from(st);
        outs2.push(pack(&a2));
        // input values as the wire can carry them (st_mode/uid/gid are 32-bit in stat64 already)
        let mut vi = v.clone();
        vi[9] &= 0xffff_ffff;
        vi[11] &= 0xffff_ffff;
        vi[12] &= 0xffff_ffff;
        vi[15] &= 0xffff_ffff;
        ins.push(vi);
    }
    analyse(emit, "Attr::with_flags(stat64,flags)", &st_in, &ins, &attr_out, &outs);
    analyse(emit, "Attr::from(stat64)", &st_in, &ins, &attr_out, &outs2);

    // stat64::from(Attr)
    let attr_in = ["ino", "size", "blocks", "atime", "mtime", "ctime", "atimensec", "mtimensec", "ctimensec", "mode",
        "nlink", "uid", "gid", "rdev", "blksize", "flags"];
    let st_out = [("st_ino", 8), ("st_size", 8), ("st_blocks", 8), ("st_atime", 8), ("st_mtime", 8), ("st_ctime", 8),
        ("st_atime_nsec", 8), ("st_mtime_nsec", 8), ("st_ctime_nsec", 8), ("st_mode", 4), ("st_nlink", 8), ("st_uid", 4),
        ("st_gid", 4), ("st_rdev", 8), ("st_blksize", 8), ("st_dev", 8)];
    let pack_st = |st: &libc::stat64| vec![st.st_ino, st.st_size as u64, st.st_blocks as u64, st.st_atime as u64, st.st_mtime as u64,
        st.st_ctime as u64, st.st_atime_nsec as u64, st.st_mtime_nsec as u64, st.st_ctime_nsec as u64, st.st_mode as u64,
        st.st_nlink as u64, st.st_uid as u64, st.st_gid as u64, st.st_rdev as u64, st.st_blksize as u64, st.st_dev as u64];
    let (mut ins, mut outs) = (Vec::new(), Vec::new());
    for _ in 0..nsamples {
        let mut v = fresh(rng, attr_in.len());
        for i in 6..16 {
            v[i] &= 0xffff_ffff; // 32-bit wire fields
        }
        let a = Attr { ino: v[0], size: v[1], blocks: v[2], atime: v[3], mtime: v[4], ctime: v[5], atimensec: v[6] as u32,
            mtimensec: v[7] as u32, ctimensec: v[8] as u32, mode: v[9] as u32, nlink: v[10] as u32, uid: v[11] as u32,
            gid: v[12] as u32, rdev: v[13] as u32, blksize: v[14] as u32, flags: v[15] as u32 };
        let st: libc::stat64 = a.into();
        outs.push(pack_st(&st));
        ins.push(v);
    }
    analyse(emit, "stat64::from(Attr)", &attr_in, &ins, &st_out, &outs);

    // stat64::from(SetattrIn)
    let sa_in = ["valid", "fh", "size", "lock_owner", "atime", "mtime", "ctime", "atimensec", "mtimensec", "ctimensec",
        "mode", "uid", "gid"];
    let (mut ins, mut outs) = (Vec::new(), Vec::new());
    for _ in 0..nsamples {
        let mut v = fresh(rng, sa_in.len());
        for i in [0usize, 7, 8, 9, 10, 11, 12] {
            v[i] &= 0xffff_ffff;
        }
        let s = SetattrIn { valid: v[0] as u32, padding: 0, fh: v[1], size: v[2], lock_owner: v[3], atime: v[4], mtime: v[5],
            ctime: v[6], atimensec: v[7] as u32, mtimensec: v[8] as u32, ctimensec: v[9] as u32, mode: v[10] as u32,
            unused4: 0, uid: v[11] as u32, gid: v[12] as u32, unused5: 0 };
        let st: libc::stat64 = s.into();
        outs.push(pack_st(&st));
        ins.push(v);
    }
    analyse(emit, "stat64::from(SetattrIn)", &sa_in, &ins, &st_out, &outs);

    // EntryOut::from(Entry): the reply structure of every entry-carrying answer
    let en_in = ["inode", "generation", "entry_timeout.secs", "attr_timeout.secs", "entry_timeout.nanos", "attr_timeout.nanos",
        "attr_flags", "attr.st_ino", "attr.st_size"];
    let en_out = [("nodeid", 8), ("generation", 8), ("entry_valid", 8), ("attr_valid", 8), ("entry_valid_nsec", 4), ("attr_valid_nsec", 4),
        ("attr_flags", 4), ("attr_ino", 8), ("attr_size", 8)];
    let (mut ins, mut outs) = (Vec::new(), Vec::new());
    for _ in 0..nsamples {
        let mut v = fresh(rng, en_in.len());
        v[4] %= 1_000_000_000;
        v[5] %= 1_000_000_000;
        v[6] &= 0xffff_ffff;
        let mut st: libc::stat64 = unsafe { std::mem::zeroed() };
        st.st_ino = v[7];
        st.st_size = v[8] as i64;
        let e = fuse_backend_rs::api::filesystem::Entry {
            inode: v[0],
            generation: v[1],
            attr: st,
            attr_flags: v[6] as u32,
            attr_timeout: std::time::Duration::new(v[3], v[5] as u32),
            entry_timeout: std::time::Duration::new(v[2], v[4] as u32),
        };
        let o: fuse_backend_rs::abi::fuse_abi::EntryOut = e.into();
        outs.push(vec![o.nodeid, o.generation, o.entry_valid, o.attr_valid, o.entry_valid_nsec as u64, o.attr_valid_nsec as u64,
            o.attr.flags as u64, o.attr.ino, o.attr.size]);
        ins.push(v);
    }
    analyse(emit, "EntryOut::from(Entry)", &en_in, &ins, &en_out, &outs);

    // Kstatfs::from(statvfs64)
    let sv_in = ["f_bsize", "f_frsize", "f_blocks", "f_bfree", "f_bavail", "f_files", "f_ffree", "f_favail", "f_fsid", "f_flag", "f_namemax"];
    let ks_out = [("blocks", 8), ("bfree", 8), ("bavail", 8), ("files", 8), ("ffree", 8), ("bsize", 4), ("namelen", 4), ("frsize", 4), ("padding", 4)];
    let (mut ins, mut outs) = (Vec::new(), Vec::new());
    for _ in 0..nsamples {
        let v = fresh(rng, sv_in.len());
        let mut sv: libc::statvfs64 = unsafe { std::mem::zeroed() };
        sv.f_bsize = v[0];
        sv.f_frsize = v[1];
        sv.f_blocks = v[2];
        sv.f_bfree = v[3];
        sv.f_bavail = v[4];
        sv.f_files = v[5];
        sv.f_ffree = v[6];
        sv.f_favail = v[7];
        sv.f_fsid = v[8];
        sv.f_flag = v[9];
        sv.f_namemax = v[10];
        let k = Kstatfs::from(sv);
        outs.push(vec![k.blocks, k.bfree, k.bavail, k.files, k.ffree, k.bsize as u64, k.namelen as u64, k.frsize as u64, k.padding as u64]);
        ins.push(v);
    }
    analyse(emit, "Kstatfs::from(statvfs64)", &sv_in, &ins, &ks_out, &outs);
}

fn main() {
    let args: Vec<String> = std::env::args().collect();
    let out = args.get(1).expect("usage: abi OUT.ndjson [full]");
    let full = args.get(2).map(|s| s == "full").unwrap_or(false);
    let mut rng = Rng::new(env_u64("VERIF_SEED", 1));
    let mut tr = Trace::create(out);
    let mut emit = |v: Value| tr.emit(&v);
    abi_gen::facts(&mut emit);
    consts(&mut emit);
    opcode_ranges(&mut emit, full);
    conversions(&mut emit, &mut rng, if full { 2000 } else { 200 });
    emit(json!({"e":"End","src":"crate"}));
    tr.flush();
}
