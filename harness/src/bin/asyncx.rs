//! C20 driver: runs the same request bytes (same reply capacity, same segmentation) through
//! Server::handle_message and Server::async_handle_message of one Server<ScriptedFs> and records, for
//! both paths, the filesystem calls received, the Ok/Err outcome and the reply bytes (digest) or their
//! absence. Inputs: every request class exported from WireFrame.tla, the well-formed valuation set of
//! the wire driver, and random / bit-flipped byte strings. Judge: spec/Trace_Async.tla.
#[allow(dead_code, unused_imports)]
#[path = "wire.rs"]
mod wire;

use fuse_backend_rs::api::server::Server;
use fuse_backend_rs::transport::FsCacheReqHandler;
use serde_json::{json, Value};
use std::future::Future;
use std::os::unix::io::{AsRawFd, FromRawFd};
use std::pin::pin;
use std::sync::Arc;
use std::task::{Context as TaskCx, Poll, RawWaker, RawWakerVTable, Waker};
use vharness::scripted::{NullCache, Ret, ScriptedFs};
use vharness::util::{env_u64, Rng, Trace};
use vharness::wirecodec::{fnv, Abi};
use vharness::xport::{err_name, run_fusedev_with, run_virtio_with};

fn noop_waker() -> Waker {
    fn clone(_: *const ()) -> RawWaker {
        RawWaker::new(std::ptr::null(), &VT)
    }
    fn noop(_: *const ()) {}
    static VT: RawWakerVTable = RawWakerVTable::new(clone, noop, noop, noop);
    unsafe { Waker::from_raw(RawWaker::new(std::ptr::null(), &VT)) }
}

/// Poll a future that never really waits (the scripted filesystem is ready at once, replies go to a memfd /
/// guest memory with plain system calls).
fn block_on<T>(f: impl Future<Output = T>) -> Option<T> {
    let w = noop_waker();
    let mut cx = TaskCx::from_waker(&w);
    let mut f = pin!(f);
    for _ in 0..1000 {
        if let Poll::Ready(v) = f.as_mut().poll(&mut cx) {
            return Some(v);
        }
    }
    None
}

struct Side {
    ret: String,
    calls: Vec<Value>,
    present: bool,
    len: usize,
    sum: String,
    canary_ok: bool,
}

fn memfd() -> std::fs::File {
    let fd = unsafe { libc::memfd_create(b"reply\0".as_ptr() as *const libc::c_char, 0) };
    assert!(fd >= 0);
    unsafe { std::fs::File::from_raw_fd(fd) }
}

#[allow(clippy::too_many_arguments)]
fn run_side(server: &Server<Arc<ScriptedFs>>, fs: &ScriptedFs, script: &Ret, asynch: bool, tr: &str, bytes: &[u8], cap: usize, vu: bool,
            seg: &(Vec<usize>, Vec<usize>, u64, u64, u64)) -> Side {
    fs.set(script.clone());
    fs.take_log();
    let mut cache = NullCache;
    let vuo: Option<&mut dyn FsCacheReqHandler> = if vu { Some(&mut cache) } else { None };
    let fmt = |r: Option<fuse_backend_rs::Result<usize>>| match r {
        Some(Ok(n)) => format!("ok:{n}"),
        Some(Err(e)) => format!("err:{}", err_name(&e)),
        None => "pending".to_string(),
    };
    if tr == "fusedev" {
        let file = memfd();
        let (ret, canary_ok) = run_fusedev_with(bytes, cap, file.as_raw_fd(), |r, w| {
            if asynch {
                fmt(block_on(unsafe { server.async_handle_message(r, w, vuo, None) }))
            } else {
                fmt(Some(server.handle_message(r, w, vuo, None)))
            }
        });
        use std::io::{Read, Seek, SeekFrom};
        let mut f = file;
        let mut out = Vec::new();
        f.seek(SeekFrom::Start(0)).unwrap();
        f.read_to_end(&mut out).unwrap();
        Side { ret, calls: fs.take_log(), present: !out.is_empty(), len: out.len(), sum: fnv(&out), canary_ok }
    } else {
        let o = run_virtio_with(bytes, &seg.0, &seg.1, seg.2, seg.3, seg.4, |r, w| {
            if asynch {
                fmt(block_on(unsafe { server.async_handle_message(r, w, vuo, None) }))
            } else {
                fmt(Some(server.handle_message(r, w, vuo, None)))
            }
        });
        let m = o.msgs.first().cloned().unwrap_or_default();
        Side { ret: o.ret, calls: fs.take_log(), present: !o.msgs.is_empty(), len: m.len(), sum: fnv(&m), canary_ok: o.canary_ok && o.tail_untouched }
    }
}

fn side_json(s: &Side) -> Value {
    let retc = if s.ret.starts_with("ok") { "Ok" } else if s.ret.starts_with("err") { "Err" } else { s.ret.as_str() };
    // the operation the filesystem saw: method, context and arguments (results are scripted, identical by construction)
    let calls: Vec<Value> = s.calls.iter().map(|c| {
        let mut c = c.clone();
        c.as_object_mut().unwrap().remove("ret");
        c
    }).collect();
    json!({"ret": s.ret, "retc": retc, "calls": calls, "present": s.present, "len": s.len, "sum": s.sum, "canary_ok": s.canary_ok})
}

#[allow(clippy::too_many_arguments)]
fn pair(tr: &mut Trace, server: &Server<Arc<ScriptedFs>>, fs: &ScriptedFs, rng: &mut Rng, gen: &str, op: &str, transport: &str, bytes: &[u8], cap: usize,
        script: &Ret, vu: bool, cls: Value) -> usize {
    let seg = (wire::split_lens(rng, bytes.len(), 0), wire::split_lens(rng, cap, 0), rng.below(4096), rng.below(4096), *rng.pick(&[0u64, 1, 64, 4096]));
    // a crash of the process (abort after memory corruption, stack overflow) must be attributable: say what is about to run
    let hex = if bytes.len() <= 128 { bytes.iter().map(|x| format!("{x:02x}")).collect::<String>() } else { String::new() };
    tr.emit(&json!({"e": "Run", "side": "sync", "gen": gen, "op": op, "tr": transport, "cap": cap, "nbytes": bytes.len(), "hex": hex}));
    tr.flush();
    let s = run_side(server, fs, script, false, transport, bytes, cap, vu, &seg);
    tr.emit(&json!({"e": "Run", "side": "async", "gen": gen, "op": op, "tr": transport, "cap": cap, "nbytes": bytes.len(), "hex": hex}));
    tr.flush();
    let a = run_side(server, fs, script, true, transport, bytes, cap, vu, &seg);
    let huge = bytes.len() >= 4 && wire::u32le(bytes, 0) as u64 > (1 << 20) + 4096;
    let wsz = if op == "WRITE" && bytes.len() >= 60 { wire::u32le(bytes, 56) as u64 } else { 0 };
    tr.emit(&json!({"e": "Pair", "gen": gen, "op": op, "tr": transport, "cap": cap, "nbytes": bytes.len(), "len_huge": huge,
        "write_size_gt_max": wsz > (1 << 20), "cls": cls, "hex": hex, "sync": side_json(&s), "async": side_json(&a)}));
    if s.present { s.len } else { 0 }
}

fn main() {
    let args: Vec<String> = std::env::args().collect();
    let abi = Abi::load(&args[1]);
    let mut tr = Trace::create(&args[2]);
    let cases = std::fs::read_to_string(&args[3]).expect("cases");
    let stride = args[4].parse::<usize>().unwrap();
    let kwf = args[5].parse::<usize>().unwrap();
    let nrand = args[6].parse::<usize>().unwrap();
    let seed = env_u64("VERIF_SEED", 1);
    let mut rng = Rng::new(seed);
    let fs = Arc::new(ScriptedFs::new("s"));
    let server = Server::new(fs.clone());
    // 1. request classes of WireFrame
    let pre: Vec<_> = [0u64, 1, 2, 3].iter().map(|m| wire::negotiated_server(&abi, *m)).collect();
    let post: Vec<_> = [4u64, 5, 33].iter().map(|m| wire::negotiated_server(&abi, *m)).collect();
    for (i, line) in cases.lines().enumerate() {
        if line.trim().is_empty() || (i + seed as usize) % stride != 0 {
            continue;
        }
        let case: Value = serde_json::from_str(line).unwrap();
        let c = &case["c"];
        if let Some(cr) = wire::concretise(&abi, &mut rng, c) {
            // LOOKUP reads the negotiated version: it runs on servers that only ever saw one INIT
            let (fsx, srv) = if c["op"] == "LOOKUP" {
                let p = if c["sess"] == "pre74" { &pre[rng.below(4) as usize] } else { &post[rng.below(3) as usize] };
                (&p.0, &p.1)
            } else {
                (&fs, &server)
            };
            pair(&mut tr, srv, fsx, &mut rng, "class", c["op"].as_str().unwrap(), c["tr"].as_str().unwrap(), &cr.bytes, cr.cap, &cr.script,
                 c["vu"].as_bool().unwrap(), c.clone());
        }
    }
    // 2. well-formed valuations of every opcode
    let mut ops = abi.op_names();
    ops.sort();
    for opname in &ops {
        for rep in 0..kwf {
            for transport in ["fusedev", "virtiofs"] {
                let b = wire::build(&abi, &mut rng, opname, &[], rep % 3 == 2);
                // the asynchronous filesystem API has no way to return a passthrough backing id
                let script = match b.script.clone() {
                    Ret::Open { handle, opts, .. } => Ret::Open { handle, opts, passthrough: None },
                    Ret::Create { entry, handle, opts, .. } => Ret::Create { entry, handle, opts, passthrough: None },
                    x => x,
                };
                let cap = 16 + 160 + b.cap_hint + 4096;
                let len = pair(&mut tr, &server, &fs, &mut rng, "wf", opname, transport, &b.bytes, cap, &script, true, json!({}));
                // the same request with reply buffers that are just too small for the reply it produced: one byte, the last
                // 8 / 16 bytes (replies written in parts), everything but the header
                if rep < 2 && len > 16 && opname != "INIT" {
                    for short in [1usize, 8, 16, 17, len - 16] {
                        if short < len {
                            pair(&mut tr, &server, &fs, &mut rng, "short", opname, transport, &b.bytes, len - short, &script, true, json!({"short_by": short}));
                        }
                    }
                }
            }
        }
    }
    // 3. random and mutated byte strings
    for i in 0..nrand {
        let opname = rng.pick(&ops).clone();
        let we = rng.chance(1, 4);
        let b = wire::build(&abi, &mut rng, &opname, &[], we);
        let mut bytes = b.bytes.clone();
        bytes.truncate(70_000);
        if i % 2 == 0 {
            for _ in 0..rng.range(1, 3) {
                if bytes.is_empty() {
                    break;
                }
                match rng.below(4) {
                    0 => {
                        let p = rng.below(bytes.len() as u64) as usize;
                        bytes[p] ^= 1 << rng.below(8);
                    }
                    1 => {
                        let nl = rng.below(bytes.len() as u64 + 1) as usize;
                        bytes.truncate(nl);
                    }
                    2 => {
                        if bytes.len() >= 4 {
                            let l = wire::boundary(&mut rng, 4) as u32;
                            bytes[..4].copy_from_slice(&l.to_le_bytes());
                        }
                    }
                    _ => {
                        let extra = rng.range(1, 64) as usize;
                        let mut g = vec![0u8; extra];
                        rng.fill(&mut g);
                        bytes.extend(g);
                    }
                }
            }
        } else {
            let nl = *rng.pick(&[0usize, 16, 39, 40, 48, 64, 104, 200]);
            bytes = vec![0u8; nl];
            rng.fill(&mut bytes);
            if nl >= 8 {
                bytes[4..8].copy_from_slice(&(rng.below(54) as u32).to_le_bytes());
            }
        }
        let script = match b.script.clone() {
            Ret::Open { handle, opts, .. } => Ret::Open { handle, opts, passthrough: None },
            Ret::Create { entry, handle, opts, .. } => Ret::Create { entry, handle, opts, passthrough: None },
            x => x,
        };
        let cap = *rng.pick(&[0usize, 8, 16, 24, 144, 4096, 70_000]);
        let transport = if rng.chance(1, 2) { "fusedev" } else { "virtiofs" };
        let code = if bytes.len() >= 8 { wire::u32le(&bytes, 4) as u64 } else { u64::MAX };
        let seen = ops.iter().find(|o| abi.konst(abi.op(o)["code"].as_str().unwrap()) == code).cloned().unwrap_or_else(|| "OTHER".to_string());
        let vu = rng.chance(1, 2);
        pair(&mut tr, &server, &fs, &mut rng, "random", &seen, transport, &bytes, cap, &script, vu, json!({}));
    }
    // 4. state carried from INIT to later requests (Server::vers): servers negotiated at the minors around every version test
    //    of the handlers, then negative and positive LOOKUP answers and one valuation of every opcode
    for minor in [0u64, 3, 4, 5, 11, 12, 22, 23, 33, 38] {
        let fs2 = Arc::new(ScriptedFs::new("s"));
        let server2 = Server::new(fs2.clone());
        let mut iv = vharness::wirecodec::Vals::new();
        iv.insert("major".into(), 7);
        iv.insert("minor".into(), minor);
        let mut body = abi.encode("fuse_init_in", &iv);
        body.truncate(16);
        let mut h = vharness::wirecodec::Vals::new();
        h.insert("len".into(), 56);
        h.insert("opcode".into(), abi.konst("FUSE_INIT"));
        h.insert("unique".into(), 1);
        let mut ib = abi.encode("fuse_in_header", &h);
        ib.extend(body);
        pair(&mut tr, &server2, &fs2, &mut rng, "neg", "INIT", "fusedev", &ib, 4096, &Ret::Init(0), false, json!({"minor": minor}));
        for rep in 0..(4 * kwf.max(1)) {
            let b = wire::build(&abi, &mut rng, "LOOKUP", &[], false);
            let mut e = wire::rentry(&mut rng);
            if rep % 2 == 0 {
                e.inode = 0;
            }
            let transport = if rep % 4 < 2 { "fusedev" } else { "virtiofs" };
            pair(&mut tr, &server2, &fs2, &mut rng, "neg", "LOOKUP", transport, &b.bytes, 4096, &Ret::Entry(e), false,
                 json!({"minor": minor, "negative": rep % 2 == 0}));
        }
        for opname in &ops {
            if opname == "INIT" || opname == "DESTROY" {
                continue;
            }
            let b = wire::build(&abi, &mut rng, opname, &[], false);
            if b.bytes.len() > 70_000 {
                continue;
            }
            let script = match b.script.clone() {
                Ret::Open { handle, opts, .. } => Ret::Open { handle, opts, passthrough: None },
                Ret::Create { entry, handle, opts, .. } => Ret::Create { entry, handle, opts, passthrough: None },
                x => x,
            };
            let cap = 16 + 160 + b.cap_hint + 4096;
            pair(&mut tr, &server2, &fs2, &mut rng, "neg", opname, "fusedev", &b.bytes, cap, &script, true, json!({"minor": minor}));
        }
    }
    tr.emit(&json!({"e": "End"}));
    tr.flush();
}
