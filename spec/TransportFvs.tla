------------------------------ MODULE TransportFvs ------------------------------
(* PlainView (C04, last sentence) at model level: the byte containers of src/common/file_buf.rs.

   I: `impl Bytes<usize> for FileVolatileSlice` is pure delegation: every method calls one method of
   vm_memory::VolatileSlice on `self.as_volatile_slice()`.  The delegation table is DATA: the check
   extracts it from the source file at run time (checks/transport.py, passed as IOEnv.FVS_TABLE); the
   default below is the table of the pinned tree.  VsPrim gives the behaviour of the VolatileSlice
   methods (the environment, read from vm-memory 0.17.1 volatile_memory.rs), FvsOffset and the
   FileVolatileBuf operators transcribe the arithmetic of file_buf.rs.

   A: a container is a window [off, off + len) on a byte sequence.  A method whose NAME says read
   (read, read_slice, load, write_volatile_to, write_all_volatile_to) never modifies the bytes and,
   when it succeeds, hands out window[a .. a + k); a method whose name says write (write,
   write_slice, store, read_volatile_from, read_exact_volatile_from) leaves the caller's data alone
   and places exactly its first k bytes at window[a ..]; nothing outside the window changes. *)
EXTENDS Naturals, Sequences, TLC, Json, IOUtils

CONSTANTS MaxLen, MaxN

DefaultTable == [write |-> "write", read |-> "read", write_slice |-> "write_slice", read_slice |-> "read_slice",
                 read_volatile_from |-> "read_volatile_from", read_exact_volatile_from |-> "read_exact_volatile_from",
                 write_volatile_to |-> "write_volatile_to", write_all_volatile_to |-> "write_all_volatile_to",
                 store |-> "store", load |-> "load"]
Table == IF "FVS_TABLE" \in DOMAIN IOEnv THEN JsonDeserialize(IOEnv.FVS_TABLE) ELSE DefaultTable
Methods == DOMAIN DefaultTable
ReadM  == {"read", "read_slice", "load", "write_volatile_to", "write_all_volatile_to"}
WriteM == Methods \ ReadM
ASSUME DOMAIN Table = Methods

Min(a, b) == IF a < b THEN a ELSE b
Tok(i) == 100 + i                                   \* caller's data: tokens 101, 102, ...
Caller(n) == [i \in 1..n |-> Tok(i)]
Sub(s, a, k) == SubSeq(s, a + 1, a + k)             \* 0-based offset, k bytes
Put(s, a, d) == [i \in 1..Len(s) |-> IF i > a /\ i <= a + Len(d) THEN d[i - a] ELSE s[i]]

(* ---- environment: vm_memory::VolatileSlice as Bytes<usize> on the window w = <<off, len>> of mem.
   Every primitive gets the caller's buffer `buf` (its content for write-like calls, its length for
   read-like calls) and returns the new memory, the new caller buffer, result and count. ---- *)
R(m, b, res, ret) == [mem |-> m, buf |-> b, res |-> res, ret |-> ret]
VsWrite(mem, w, buf, a) ==
  IF buf = <<>> THEN R(mem, buf, "ok", 0)
  ELSE IF a >= w[2] THEN R(mem, buf, "err", 0)
  ELSE LET k == Min(Len(buf), w[2] - a) IN R(Put(mem, w[1] + a, SubSeq(buf, 1, k)), buf, "ok", k)
VsRead(mem, w, buf, a) ==
  IF buf = <<>> THEN R(mem, buf, "ok", 0)
  ELSE IF a >= w[2] THEN R(mem, buf, "err", 0)
  ELSE LET k == Min(Len(buf), w[2] - a) IN R(mem, Put(buf, 0, Sub(mem, w[1] + a, k)), "ok", k)
VsPrim(p, mem, w, buf, a) ==
  CASE p = "write" -> VsWrite(mem, w, buf, a)
    [] p = "read" -> VsRead(mem, w, buf, a)
    [] p = "write_slice" -> LET r == VsWrite(mem, w, buf, a) IN
                            IF r.res = "ok" /\ r.ret # Len(buf) THEN [r EXCEPT !.res = "err"] ELSE r   \* PartialBuffer after storing
    [] p = "read_slice" -> LET r == VsRead(mem, w, buf, a) IN
                           IF r.res = "ok" /\ r.ret # Len(buf) THEN [r EXCEPT !.res = "err"] ELSE r
    [] p = "read_volatile_from" ->      \* offset(addr)?, subslice(0, min(len, count)), src.read_volatile
         IF a > w[2] THEN R(mem, buf, "err", 0)
         ELSE LET k == Min(Len(buf), w[2] - a) IN R(Put(mem, w[1] + a, SubSeq(buf, 1, k)), buf, "ok", k)
    [] p = "read_exact_volatile_from" ->   \* get_slice(addr, count)? then read_exact
         IF a + Len(buf) > w[2] THEN R(mem, buf, "err", 0) ELSE R(Put(mem, w[1] + a, buf), buf, "ok", Len(buf))
    [] p = "write_volatile_to" ->
         IF a > w[2] THEN R(mem, buf, "err", 0)
         ELSE LET k == Min(Len(buf), w[2] - a) IN R(mem, Put(buf, 0, Sub(mem, w[1] + a, k)), "ok", k)
    [] p = "write_all_volatile_to" ->
         IF a + Len(buf) > w[2] THEN R(mem, buf, "err", 0) ELSE R(mem, Sub(mem, w[1] + a, Len(buf)), "ok", Len(buf))
    [] p = "store" ->                   \* get_atomic_ref: in bounds and aligned
         IF a + Len(buf) > w[2] \/ (w[1] + a) % Len(buf) # 0 THEN R(mem, buf, "err", 0)
         ELSE R(Put(mem, w[1] + a, buf), buf, "ok", Len(buf))
    [] p = "load" ->
         IF a + Len(buf) > w[2] \/ (w[1] + a) % Len(buf) # 0 THEN R(mem, buf, "err", 0)
         ELSE R(mem, Sub(mem, w[1] + a, Len(buf)), "ok", Len(buf))

(* ---- I: file_buf.rs ---- *)
FvsCall(m, mem, w, buf, a) == VsPrim(Table[m], mem, w, buf, a)      \* VolatileSlice::<Table[m]>(&self.as_volatile_slice(), buf, addr)
\* offset(count): new_addr = addr.checked_add(count)?; new_size = size.checked_sub(count)?
FvsOffset(w, c) == IF c > w[2] THEN <<FALSE, w>> ELSE <<TRUE, <<w[1] + c, w[2] - c>> >>
\* FileVolatileBuf {addr, size, cap}: io_slice = [addr, size), io_slice_mut = [addr + size, cap - size), set_size: if size <= cap
BufIoSlice(b) == <<b[1], b[2]>>
BufIoSliceMut(b) == <<b[1] + b[2], b[3] - b[2]>>
BufSetSize(b, n) == IF n <= b[3] THEN <<b[1], n, b[3]>> ELSE b
BorrowAsBuf(w, inited) == <<w[1], IF inited THEN w[2] ELSE 0, w[2]>>

(* ---- I x A ---- *)
VARIABLES mem, win, bad, nops
vars == <<mem, win, bad, nops>>
Mem0 == [i \in 1..(MaxLen + 2) |-> i]        \* one guard byte on each side of the largest window

Init == /\ mem = Mem0 /\ bad = {} /\ nops = 0
        /\ \E l \in 0..MaxLen : win = <<1, l>>

Judge(m, a, n, r) ==
  LET inwin == Sub(mem, win[1], win[2])
      k == IF r.res = "ok" THEN r.ret ELSE 0
      widthOps == {"store", "load"} IN
  (IF m \in ReadM /\ r.mem # mem THEN {<<m, "mem-modified">>} ELSE {}) \cup
  (IF m \in ReadM /\ r.res = "ok" /\ (a + k > win[2] \/ SubSeq(r.buf, 1, k) # Sub(mem, win[1] + a, k)) /\ k > 0
     THEN {<<m, "bytes">>} ELSE {}) \cup
  (IF m \in WriteM /\ r.buf # Caller(n) THEN {<<m, "caller-data-modified">>} ELSE {}) \cup
  (IF m \in WriteM /\ r.res = "ok" /\ ((k > 0 /\ a + k > win[2]) \/ r.mem # Put(mem, win[1] + a, SubSeq(Caller(n), 1, k)))
     THEN {<<m, "placed">>} ELSE {}) \cup
  \* a failing write may have stored the part that fitted (PartialBuffer), nothing else
  (IF m \in WriteM /\ r.res # "ok" /\ r.mem # mem
      /\ r.mem # Put(mem, win[1] + a, SubSeq(Caller(n), 1, IF a < win[2] THEN Min(n, win[2] - a) ELSE 0))
     THEN {<<m, "placed">>} ELSE {}) \cup
  (IF r.mem[1] # Mem0[1] \/ r.mem[Len(mem)] # Mem0[Len(mem)] THEN {<<m, "oob">>} ELSE {}) \cup
  (IF r.res = "ok" /\ k > n THEN {<<m, "ret">>} ELSE {}) \cup
  (IF m \in {"read_slice", "write_slice", "read_exact_volatile_from", "write_all_volatile_to"} /\ n > 0
      /\ ((r.res = "ok") # (a + n <= win[2])) THEN {<<m, "result">>} ELSE {})

Call(m, a, n) ==
  /\ nops < 2
  /\ m \in {"store", "load"} => n \in {1, 2}
  /\ LET r == FvsCall(m, mem, win, Caller(n), a) IN
     /\ bad' = bad \cup Judge(m, a, n, r)
     /\ mem' = r.mem
  /\ nops' = nops + 1 /\ UNCHANGED win
Offset(c) ==
  /\ nops < 2
  /\ LET r == FvsOffset(win, c) IN
     /\ bad' = bad \cup (IF (r[1] # (c <= win[2])) \/ (r[1] /\ r[2] # <<win[1] + c, win[2] - c>>) THEN {<<"offset", "window">>} ELSE {})
     /\ win' = r[2]
  /\ nops' = nops + 1 /\ UNCHANGED mem
BufOps(inited, n) ==
  /\ nops < 2
  /\ LET b == BorrowAsBuf(win, inited)
         b2 == BufSetSize(b, n)
         okb(x) == x[2] <= x[3] /\ BufIoSlice(x) = <<win[1], x[2]>> /\ BufIoSliceMut(x) = <<win[1] + x[2], win[2] - x[2]>> IN
     bad' = bad \cup (IF ~okb(b) \/ ~okb(b2) \/ (n <= win[2] /\ b2[2] # n) THEN {<<"buf", "window">>} ELSE {})
  /\ nops' = nops + 1 /\ UNCHANGED <<mem, win>>
DoCall == \E m \in Methods, a \in 0..(MaxLen + 1), n \in 0..MaxN : Call(m, a, n)
DoOffset == \E c \in 0..(MaxLen + 1) : Offset(c)
DoBuf == \E i \in BOOLEAN, n \in 0..(MaxLen + 1) : BufOps(i, n)
Next == DoCall \/ DoOffset \/ DoBuf
Spec == Init /\ [][Next]_vars

PlainView == bad = {}
=============================================================================
