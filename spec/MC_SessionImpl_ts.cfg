SPECIFICATION Spec
CONSTANTS
  Readers = {1, 2}
  Late = {3}
  NReq = 1
  Interrupts = FALSE
  Mut = "none"
  UmountWaits = TRUE
INVARIANTS TypeOK DeliveredOnce BufferIsRequest ExitWins NoneJustified NoLostWake NoLostReadiness ResultsAllowed NothingLost
