SPECIFICATION Spec
CONSTANTS
  Prog <- P_S2RR
  Procs = {1,2,3,4}
  Fixed = FALSE
  EnableFirst = TRUE
INVARIANTS LinStrict LinWeak QuiescentAgrees AtMostOnceI NoInventionI NoLostWakeupQ ParkedRegistered WaitersSane
