--------------------------- MODULE Trace_OvlRefs ---------------------------
(* Trace specification for X04: judges the logs of `ovl refs*` (harness/src/bin/ovl.rs) with OvlRefs.tla.
   The objects numbers denote are the file identities of the A view of Overlay.tla, which is carried along
   (updated by AOp for successful operations, re-synchronised with the logged walk; C10 judges the view itself).
   Per segment: Reset, Layers, View, Probe, Fds, (Op, View, Probe, Fds)*, End. Monitor mode. *)
EXTENDS Overlay, OvlRefs, Json, IOUtils, Integers
Rec == ndJsonDeserialize(IOEnv.TRACE)

VARIABLES l, S, view, hasUpper, B, fresh, lastf, lop, fdbase, since, rdirs, rmd
vars == <<l, S, view, hasUpper, B, fresh, lastf, lop, fdbase, since, rdirs, rmd>>

Markers == {"trusted.overlay.opaque", "user.overlay.opaque", "user.fuseoverlayfs.opaque"}
Tok(s, i) == IF s = "Z" THEN "Z" ELSE s \o "." \o ToString(i)
RECURSIVE Expand(_)
Expand(runs) == IF runs = <<>> THEN <<>>
                ELSE LET r == Head(runs) IN [k \in 1..r[3] |-> Tok(r[1], r[2] + k - 1)] \o Expand(Tail(runs))
NodeOfRow(r) == [t |-> r.t, m |-> IF Has(r, "m") THEN r.m ELSE 0, c |-> IF Has(r, "c") THEN Expand(r.c) ELSE <<>>,
                 tg |-> IF Has(r, "tg") THEN r.tg ELSE "", x |-> {}, o |-> FALSE, id |-> r.p]
TreeOf(rows) == [p \in Paths |-> LET I == {i \in DOMAIN rows : rows[i].p = p}
                                 IN IF I = {} THEN NoneN ELSE NodeOfRow(rows[CHOOSE i \in I : TRUE])]
Shape(v) == [p \in Paths |-> v[p].t]
Resync(logged, bs) ==
  [p \in Paths |-> IF logged[p].t # "none" /\ bs[p].t = logged[p].t THEN [logged[p] EXCEPT !.id = bs[p].id, !.x = bs[p].x]
                   ELSE IF logged[p].t # "none" THEN [logged[p] EXCEPT !.id = <<"r", ToString(l)>> \o p]
                   ELSE NoneN]
ObjAt(v, p) == IF p = Root THEN <<"root">> ELSE IF p \in Paths /\ v[p].t # "none" THEN v[p].id ELSE <<"?", ToString(l)>>
Ids(v) == {v[p].id : p \in {q \in Paths : v[q].t # "none"}}
OpOf(r) == IF Has(r, "c") THEN [r EXCEPT !.c = Expand(r.c)] ELSE r

\* print what this event added to S.viol
Report(S2, detail) == \A s \in S2.viol \ S.viol : PrintT(<<"VIOL", s, l, detail>>)
PanicOf(r) == IF Has(r, "st") /\ r.st = -2 THEN {RSig(r.op, "panic")} ELSE {}

RECURSIVE Entries(_, _, _, _)
Entries(S0, v, dir, ents) ==
  IF ents = <<>> THEN S0
  ELSE LET e == Head(ents) IN
       Entries(IF e[1] \in {".", ".."} THEN S0 ELSE REntry(S0, "readdirplus", e[2], ObjAt(v, Append(dir, e[1])), Append(dir, e[1])), v, dir, Tail(ents))

\* does this forget / batch_forget name more references than the client holds (also when it did so before)?
OverNow(r) == IF r.op = "forget" THEN Has(r, "ino") /\ r.ino # RootNum /\ r.n > RGet(S.refs, r.ino, 0)
              ELSE \E i \in DOMAIN r.items : r.items[i][1] # RootNum /\ r.items[i][2] > RGet(S.refs, r.items[i][1], 0)

AfterOp(r) ==
  LET o == OpOf(r) IN
  CASE r.op = "lookup" ->
         <<IF r.st = 0 /\ Has(r, "ino") THEN REntry(S, "lookup", r.ino, ObjAt(view, r.p), r.p)
           ELSE IF r.st # -2 /\ r.p \in Paths /\ view[r.p].t # "none" THEN RViol(S, {RSig("lookup", "named-object-unresolvable")})
           ELSE S, view>>
    [] r.op = "rdplus" -> <<IF r.st = 0 THEN Entries(S, view, r.p, r.ents) ELSE S, view>>
    [] r.op = "forget" -> <<IF Has(r, "ino") THEN RForget(S, r.ino, r.n) ELSE S, view>>
    [] r.op = "batch_forget" -> <<RForgetAll(S, r.items), view>>
    [] OTHER ->
         LET ex == AOp(view, o, hasUpper, <<"n", ToString(l)>>)
             vnew == IF r.st = 0 /\ r.op # "rename" THEN ex.v ELSE view
             \* unlink / rmdir may keep the victim's entry (looked up before the removal): it denotes the old object
             S1 == IF Has(r, "ino") THEN REntry(S, r.op, r.ino, ObjAt(IF r.op \in {"unlink", "rmdir"} THEN view ELSE vnew, r.p), r.p) ELSE S
             S2 == IF r.st = 0 /\ r.op \in {"unlink", "rmdir"} THEN RUnlinked(S1, r.p) ELSE S1
         IN <<RDead(S2, Ids(view) \ Ids(vnew)), vnew>>

SameAs(S0, v, r) ==
  LET P == {p \in Paths : v[p].t # "none" /\ r.ino \in DOMAIN S0.obj /\ v[p].id = S0.obj[r.ino]}
  IN IF P = {} THEN TRUE
     ELSE \E p \in P : /\ r.t = v[p].t /\ (v[p].t = "sym" \/ r.m = v[p].m)
                       /\ (v[p].t # "file" \/ r.sz = B * Len(v[p].c))
RECURSIVE Probes(_, _)
Probes(S0, rows) == IF rows = <<>> THEN S0
                    ELSE LET r == Head(rows) IN
                         Probes(RViol(RProbe(S0, r.ino, r.st = 0, r.st # 0 \/ SameAs(S0, view, r)),
                                      IF r.st = -2 THEN {RSig("probe", "panic")} ELSE {}), Tail(rows))

Init == l = 1 /\ S = RInit /\ view = EmptyTree /\ hasUpper = TRUE /\ B = 1 /\ fresh = TRUE /\ lastf = "" /\ lop = [op |-> "start", p |-> <<>>] /\ fdbase = -1000 /\ since = "" /\ rdirs = {} /\ rmd = FALSE

Step ==
  /\ l <= Len(Rec)
  /\ LET r == Rec[l] IN
     CASE r.e = "Reset" -> /\ S' = RInit /\ view' = EmptyTree /\ hasUpper' = r.upper /\ B' = r.B /\ fresh' = TRUE /\ lastf' = "" /\ lop' = [op |-> "start", p |-> <<>>] /\ fdbase' = -1000 /\ since' = "" /\ rdirs' = {} /\ rmd' = FALSE
       [] r.e = "View" ->
            LET logged == TreeOf(r.rows)
                \* a forget must never change the tree
                S2 == IF ~fresh /\ lastf # "" /\ Shape(logged) # Shape(view)
                      THEN RViol(S, {RSig(lastf, "tree-changed")}) ELSE S
            IN /\ TRUE = Report(S2, [lost |-> {p \in Paths : Shape(logged)[p] # Shape(view)[p]}])
               /\ S' = S2
               /\ view' = IF fresh THEN logged ELSE Resync(logged, view)
               /\ fresh' = FALSE /\ UNCHANGED <<hasUpper, B, lastf, lop, fdbase, since, rdirs, rmd>>
       [] r.e = "Op" ->
            LET res == AfterOp(r)
                S2 == RViol(res[1], PanicOf(r))
            IN /\ TRUE = Report(S2, r)
               /\ S' = S2 /\ view' = res[2]
               /\ lastf' = IF r.op \in {"forget", "batch_forget"}
                           THEN (IF OverNow(r) THEN "over-forget" ELSE "forget") ELSE ""
               /\ lop' = [op |-> r.op, p |-> IF Has(r, "p") THEN r.p ELSE <<>>]
               \* directories a readdirplus reply listed "." for, and their parents ("..")
               /\ rdirs' = IF r.op = "rdplus" /\ r.st = 0 THEN rdirs \cup {r.p} \cup (IF r.p # Root THEN {Parent(r.p)} ELSE {}) ELSE rdirs
               /\ rmd' = (rmd \/ (r.op = "rmdir" /\ r.st = 0))
               /\ UNCHANGED <<hasUpper, B, fresh, fdbase, since>>
       [] r.e = "Probe" ->
            LET S2 == Probes(S, r.rows)
            IN /\ TRUE = Report(S2, r.rows) /\ S' = S2 /\ UNCHANGED <<view, hasUpper, B, fresh, lastf, lop, fdbase, since, rdirs, rmd>>
       [] r.e = "End" ->
            LET S2 == REnd(S, since # "", rdirs \ {Root} # {}, rmd)
            IN /\ TRUE = Report(S2, r) /\ S' = S2 /\ UNCHANGED <<view, hasUpper, B, fresh, lastf, lop, fdbase, since, rdirs, rmd>>
       [] r.e = "Fds" ->
            \* descriptors beyond a fresh instance; the first measurement of a segment is the fdbase line
            LET e == r.live - r.fresh IN
            /\ fdbase' = IF fdbase = -1000 THEN e ELSE fdbase
            /\ since' = IF fdbase = -1000 \/ e <= fdbase THEN "" ELSE "x"
            /\ UNCHANGED <<S, view, hasUpper, B, fresh, lastf, lop, rdirs, rmd>>
       [] OTHER -> UNCHANGED <<S, view, hasUpper, B, fresh, lastf, lop, fdbase, since, rdirs, rmd>>
  /\ l' = l + 1
Done == l = Len(Rec) + 1 /\ PrintT(<<"ACCEPTED", Len(Rec)>>) /\ l' = l + 1 /\ UNCHANGED <<S, view, hasUpper, B, fresh, lastf, lop, fdbase, since, rdirs, rmd>>
Next == Step \/ Done
Spec == Init /\ [][Next]_vars
=============================================================================
