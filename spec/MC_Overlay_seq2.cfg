SPECIFICATION Spec
VIEW StateView
CHECK_DEADLOCK FALSE
CONSTANTS
  Paths <- MCPaths
  Names = {"a", "b"}
  MaxDepth = 2
  NLower = 1
  MaxOps = 2
  HasUpper = TRUE
  Known = {}
  AsFound = {}
  UpperTypes = {"none", "file", "dir", "wh"}
  LowerTypes = {"none", "file", "dir"}
INVARIANTS LoadAgrees LiveIsView StatusAgrees RestartSame LowersFrozen
