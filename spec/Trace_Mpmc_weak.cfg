SPECIFICATION Spec
CONSTANT Mode = "weak"
CHECK_DEADLOCK FALSE
POSTCONDITION Post
