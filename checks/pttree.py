"""Passthrough tree family (engine: pttree): C05 (requests mirror the host system calls), C06
(nothing outside the export is reachable, name gates), C18 (size sealing).

HostFs.tla is the environment model (POSIX tree + open descriptions), Passthrough.tla the A level
("reply = host result, tree = host tree", name gates, sealing), PassthroughImpl.tla the I level.
The harness runs every history against a real PassthroughFs (each point of the configuration cube)
and, in lock step, with plain system calls on a shadow copy; Trace_Passthrough.tla judges the log:
the shadow's own trace first calibrates HostFs (CAL signatures => exit 2), then the passthrough
side is compared with the shadow and with the A-level rules."""
import json
import os
import re

from . import common as C

LEVEL = {"C05": "model_checking", "C06": "model_checking", "C18": "model_checking"}

_RE_V = re.compile(r'<<\s*"VIOL",\s*"([^"]+)",\s*(\d+),(.*?)>>\s*(?=<<\s*"(?:VIOL|ACCEPTED)"|Progress\(|Model checking|Checkpointing|$)')


def viols_of(res):
    txt = res["output"].replace("\n", " ")
    return [(m.group(1), int(m.group(2)), " ".join(m.group(3).split())[:700]) for m in _RE_V.finditer(txt)]


# ------------------------------------------------------------------------------------------------
# model checking (I => A, environment self-invariants)

MC = {
    "C05": [("MC_HostFs", "MC_HostFs_quick.cfg", "MC_HostFs_thorough.cfg"), ("MC_Passthrough", "MC_Pt_mirror_quick.cfg", "MC_Pt_mirror_thorough.cfg"),
            ("MC_Passthrough", None, "MC_Pt_mirror_ifh.cfg"), ("MC_Passthrough", None, "MC_Pt_mirror_noopen.cfg")],
    "C06": [("MC_Passthrough", "MC_Pt_contained_quick.cfg", "MC_Pt_contained_thorough.cfg")],
    "C18": [("MC_Passthrough", "MC_Pt_sealed_quick.cfg", "MC_Pt_sealed_thorough.cfg"), ("MC_Passthrough", "MC_Pt_sealed_noopen_quick.cfg", "MC_Pt_sealed_noopen.cfg"),
            ("MC_Passthrough", "MC_Pt_sealed_wb_quick.cfg", "MC_Pt_sealed_wb_quick.cfg")],
}
# anti-vacuity: the same I-level model with the code AS FOUND switched back on (constant AsFound) must violate the
# invariant again; exit 2 otherwise. These runs are not evidence: their states are not counted.
MC_ASFOUND = {"C05": [("MC_Pt_asfound_c05.cfg", "MirrorOK"), ("MC_Pt_asfound_c05g.cfg", "MirrorOK")],
              "C06": [("MC_Pt_asfound_c06.cfg", "ContainedOK")],
              "C18": [("MC_Pt_asfound_c18.cfg", "Sealed"), ("MC_Pt_asfound_c18fd.cfg", "HandlesOK"), ("MC_Pt_asfound_c18r.cfg", "SwitchesOK"), ("MC_Pt_asfound_c18w.cfg", "Sealed")]}


def run_mc(ctx, pid):
    """Model-check the I-level spec against the A-level invariants; returns scenarios exported by TLC."""
    scen = []
    acts = {}
    for module, qcfg, tcfg in MC[pid]:
        cfg = qcfg if ctx.quick else tcfg
        if cfg is None:
            continue
        if not os.path.exists(os.path.join(C.SPEC, module + ".tla")) or not os.path.exists(os.path.join(C.SPEC, cfg)):
            raise C.ToolError("missing model-checking config %s/%s" % (module, cfg))
        # -coverage makes TLC run out of memory on these modules (cost statistics of the nested LET/RECURSIVE
        # operators); the vacuity gate is computed from the exported histories instead (below)
        r = C.tlc_mc(ctx, module, cfg=cfg, workers=8, timeout=900 if ctx.quick else 1500, cont=True, coverage=module == "MC_HostFs")
        if r["violated"]:
            # with known findings tainted, any violated invariant of I => A is a design-level defect candidate
            ctx.violation("%s|MC|%s|%s" % (pid, module, ",".join(r["violated"])), {"cfg": cfg, "output": r["output"][-3000:]}, replay_src={"module": module, "cfg": cfg})
        got = []
        for m in re.finditer(r'<<"REPLAY", "((?:[^"\\]|\\.)*)">>', r["output"]):
            try:
                got.append(json.loads(m.group(1).encode().decode("unicode_escape")))
            except Exception:
                pass
        if module == "MC_Passthrough":
            for sc in got:
                for q in sc["ops"]:
                    acts[(q["op"], q.get("st") == "OK")] = acts.get((q["op"], q.get("st") == "OK"), 0) + 1
            if not got:
                raise C.ToolError("vacuity gate: %s/%s exported no history" % (module, cfg))
        scen += got
        ctx.extra.setdefault("mc_taint", {})[cfg] = sorted(set(re.findall(r'<<"TAINT", "([^"]+)">>', r["output"])))
    # vacuity gate over all I-level configurations of this property. Computed from the exported histories (one per
    # distinct terminal state), hence only for requests whose success changes the state.
    need = {"C05": ["lookup", "forget", "mkdir", "mknod", "symlink", "create", "link", "unlink", "rmdir", "rename", "open", "write"],
            "C06": ["lookup", "mkdir", "symlink", "create", "link", "unlink", "rename", "open"],
            "C18": ["lookup", "create", "open", "write", "fallocate"]}[pid]
    never = [o for o in need if not acts.get((o, True))]
    if never:
        raise C.ToolError("vacuity gate: actions never taken successfully in the I-level configurations of %s: %s" % (pid, never))
    ctx.extra["action_coverage"] = {"%s/%s" % (k[0], "ok" if k[1] else "fail"): v for k, v in sorted(acts.items())}
    for cfg, inv in MC_ASFOUND.get(pid, []):
        keep = (ctx.states, ctx.transitions, list(ctx.mc_runs))
        r = C.tlc_mc(ctx, "MC_Passthrough", cfg=cfg, workers=8, timeout=600, cont=False, coverage=False, expect_violation=True)   # stops at the first violation
        ctx.states, ctx.transitions, ctx.mc_runs = keep
        if inv not in r["violated"]:
            raise C.ToolError("anti-vacuity: with the as-found code switched on TLC must violate %s in %s (got %s)" % (inv, cfg, r["violated"]))
        ctx.extra.setdefault("binding_demo", []).append({"corruption": "as-found code switched back on in the I-level model (%s)" % cfg, "rejected_with": r["violated"]})
    # replay a seeded sample of the exported histories on the real code
    import random
    rnd = random.Random(ctx.seed)
    k = 120 if ctx.quick else 1000
    ctx.extra["tlc_histories_exported"] = len(scen)
    if len(scen) > k:
        scen = rnd.sample(scen, k)
    return scen


# ------------------------------------------------------------------------------------------------
# conformance

OPS_REQUIRED = {
    "C05": ["lookup", "create", "mkdir", "mknod", "symlink", "link", "unlink", "rmdir", "rename", "open", "read", "write", "setattr",
            "fallocate", "lseek", "setxattr", "getxattr", "listxattr", "removexattr", "readlink", "statfs", "fsync", "getattr", "forget", "release"],
    "C06": ["lookup", "create", "mkdir", "mknod", "symlink", "link", "unlink", "rmdir", "rename", "open", "read", "readlink"],
    "C18": ["open", "create", "write", "fallocate", "setattr", "read"],
}


def run_traces(ctx, pid, mode, nseg, length, chunks, scen):
    bindir = C.build_harness(bins=["pttree"])
    all_rows = []
    for ch in range(chunks):
        trace = ctx.path("%s_%d.ndjson" % (mode, ch))
        args = [ctx.path("tree%d" % ch), trace, mode, nseg, length]
        if ch == 0 and scen:
            sf = ctx.path("scen.ndjson")
            C.write_ndjson(sf, scen)
            args.append(sf)
        import time
        t0 = time.time()
        C.run_bin(bindir, "pttree", args, env={"VERIF_SEED": ctx.seed * 1000 + ch}, timeout=1500)
        t1 = time.time()
        res = C.tlc_trace(ctx, "Trace_Passthrough", trace, timeout=2400, xmx="10g")
        C.log("chunk %d: harness %.1fs, trace validation %.1fs (%d bytes)" % (ch, t1 - t0, time.time() - t1, os.path.getsize(trace)))
        if not res["accepted"]:
            raise C.ToolError("pttree trace not consumed: %s" % res["stuck"])
        rows = C.read_ndjson(trace)
        vs = viols_of(res)
        cal = [v for v in vs if v[0].startswith("CAL|")]
        if cal:
            C.log("calibration: the shadow's own trace is not a behaviour of HostFs: %s" % (cal[:3],))
            raise C.ToolError("calibration failure (HostFs does not describe this host): %s at event %d" % (cal[0][0], cal[0][1]))
        ctx.states += res.get("distinct", 0)
        ctx.transitions += res.get("distinct", 0)
        ctx.events += len(rows)
        ctx.traces += sum(1 for r in rows if r.get("e") in ("Reset", "ResetGate"))
        for sig, idx, detail in vs:
            if not sig.startswith(pid + "|"):
                continue
            ev = rows[idx - 1] if idx - 1 < len(rows) else {}
            seg = ev.get("seg")
            hist = [r["op"] for r in rows if r.get("e") == "Step" and r.get("seg") == seg and r.get("i", 0) <= ev.get("i", 0)]
            cfg = next((r for r in rows if r.get("e") == "Reset" and r.get("seg") == seg), {})
            ctx.violation(sig, {"event": idx, "step": ev.get("i"), "op": ev.get("op"), "pt": _brief(ev.get("pt")), "host": _brief(ev.get("host")), "detail": detail},
                          replay_src={"cfg": cfg.get("cfg"), "mode": mode, "src": "replay", "ops": hist, "seed": ctx.seed})
        all_rows.append((trace, rows))
    return all_rows


def run_replay(ctx, pid):
    """./check <pid> --replay file: re-execute the recorded history (configuration + requests) and judge it."""
    with open(ctx.replay) as f:
        d = json.load(f)
    sc = d.get("scenario") or d
    if not sc.get("ops"):
        raise C.ToolError("replay file carries no history")
    sc = {k: v for k, v in sc.items() if k in ("cfg", "mode", "tree", "ops", "src") and v is not None}
    mode = sc.get("mode", pid.lower())
    all_rows = run_traces(ctx, pid, mode, 0, 0, 1, [sc])
    ctx.extra["rule"] = "replay of %s" % os.path.basename(ctx.replay)
    ctx.extra["distinct_nontrivial"] = len(sc["ops"])
    return all_rows


def _brief(side):
    if not isinstance(side, dict):
        return side
    return {k: v for k, v in side.items() if k not in ("ch", "rm", "och", "orm")} | {"changed": [r.get("p") for r in side.get("ch", [])]}


def coverage(ctx, pid, all_rows):
    ok = {}
    pairs = set()
    points = set()
    nsteps = 0
    for _, rows in all_rows:
        for r in rows:
            if r.get("e") == "Reset":
                c = r["cfg"]
                points.add((c["no_open"], c["no_opendir"], c["ifh"], c["host_ino"], c["wb"], c["cache"], c["xattr"], c["seal"], c["via"]))
            if r.get("e") == "Step":
                nsteps += 1
                op = r["op"]["op"]
                pairs.add((op, r["pt"]["st"], ",".join(r["op"].get("fl", []) or r["op"].get("fm", []) or r["op"].get("valid", [])), r["op"].get("nk", "")))
                if r["pt"]["st"] == "OK":
                    ok[op] = ok.get(op, 0) + 1
    missing = [o for o in OPS_REQUIRED[pid] if not ok.get(o)]
    if missing:
        raise C.ToolError("coverage gate: operations never succeeded in any history: %s" % missing)
    ctx.extra["distinct_nontrivial"] = len(pairs)
    ctx.extra["steps"] = nsteps
    ctx.extra["config_points"] = len(points)
    ctx.extra["ops_succeeded"] = ok
    return points


def binding(ctx, pid, all_rows, muts):
    """muts: [(mutate(rows) -> description | None, regex the corrupted trace must be rejected with)].
    All corruptions (each in a different event) go into one copy of the first random segments: one TLC run."""
    trace, rows = all_rows[0]
    rand = [r["seg"] for r in rows if r.get("e") == "Reset" and r.get("src") == "rand"][:8]
    cut = [json.loads(json.dumps(r)) for r in rows if r.get("seg") in rand or r.get("e") in ("ResetGate", "Gate")]
    muts = muts + [(_mut_cal, r"CAL\|lookup")]
    whats = []
    for mutate, want in muts:
        m = mutate(cut)
        if not m:
            raise C.ToolError("binding demo: nothing to corrupt in the first segments (%s)" % want)
        what, row = m
        at = next(k for k, r in enumerate(cut) if r is row) + 1
        whats.append((what, want, at))
    bf = ctx.path("corrupt.ndjson")
    C.write_ndjson(bf, cut)
    res = C.tlc_trace(ctx, "Trace_Passthrough", bf, timeout=600)
    got = viols_of(res)
    for what, want, at in whats:
        # the rejection must be at the corrupted event itself
        sigs = sorted(g[0] for g in got if g[1] == at and re.match(want, g[0]))
        if not sigs:
            raise C.ToolError("binding demo failed: corrupted trace accepted (%s)" % what)
        ctx.extra.setdefault("binding_demo", []).append({"corruption": what, "rejected_with": sigs[:4]})


def _mut_cal(rows):
    # in the last segment, so that the other corruptions are judged with the model still in step
    last = [r["seg"] for r in rows if r.get("e") == "Reset"][-1]
    for r in rows:
        if r.get("e") == "Step" and r["seg"] == last and r["host"]["st"] == "OK" and r["op"]["op"] == "lookup":
            if True:
                r["host"]["st"] = "ENOENT"
                return ("the shadow's answer to one successful lookup replaced by ENOENT (calibration must reject)", r)


def samples(ctx, all_rows, pred, n=2):
    k = 0
    for _, rows in all_rows:
        for r in rows:
            if r.get("e") == "Step" and pred(r):
                ctx.sample({"cfg_seg": r["seg"], "op": r["op"], "pt": _brief(r["pt"]), "host": _brief(r["host"]), "creds": r["creds"]})
                k += 1
                if k >= n:
                    return


ASSUME_COMMON = [
    "the shadow executes the same request with plain system calls through O_PATH references; requests the property itself defines (name gates, '..' at the root, special files never opened, xattr off, no_open) are answered by the A-level rule, not by the host",
    "errno equality only where HostFs pins a single errno; times only when set explicitly; blocks/blksize/directory sizes never; statfs: bsize, frsize, namemax",
    "under writeback no O_APPEND and no O_WRONLY handles are generated (the server documents that it rewrites those flags); zero-length WRITE is not generated",
    "ids: (st_dev, st_ino) -> model file id by a stat-walk, every file pinned so that inode numbers are not re-used within a history",
]


def run_c05(ctx):
    if getattr(ctx, "replay", None):
        run_replay(ctx, "C05")
        return
    scen = run_mc(ctx, "C05")
    nseg, length, chunks = (64, 40, 1) if ctx.quick else (256, 40, 2)
    all_rows = run_traces(ctx, "C05", "c05", nseg, length, chunks, [s for s in scen if s.get("mode", "c05") == "c05"])
    points = coverage(ctx, "C05", all_rows)
    if not ctx.quick and len(points) < 256:
        raise C.ToolError("coverage gate: only %d of 256 configuration points" % len(points))

    def mut(rows):
        for r in rows:
            if r.get("e") == "Step" and r["pt"]["st"] == "OK" and r["host"]["st"] == "OK" and r["op"]["op"] in ("mkdir", "mknod") and r["pt"]["ch"]:
                r["pt"]["attr"]["perm"] ^= 0o022
                return ("permission bits of one created object flipped in the passthrough reply", r)

    def mut2(rows):
        for r in rows:
            if r.get("e") == "Step" and r["pt"]["st"] == "OK" and r["op"]["op"] == "write":
                r["creds"]["euid"] = 1000
                return ("effective uid after one request logged as 1000", r)
    binding(ctx, "C05", all_rows, [(mut, r"C05\|.*\|reply\|"), (mut2, r"C05\|.*\|creds")])
    samples(ctx, all_rows, lambda r: r["op"]["op"] in ("create", "rename") and r["pt"]["st"] == "OK")
    ctx.extra["rule"] = "distinct = (operation, status, flag/mode/valid class, name kind) observed on the passthrough side; histories of %d requests x %d configuration points" % (length, len(points))
    ctx.assumptions += ASSUME_COMMON


def run_c06(ctx):
    if getattr(ctx, "replay", None):
        run_replay(ctx, "C06")
        return
    scen = run_mc(ctx, "C06")
    nseg, length, chunks = (48, 40, 1) if ctx.quick else (192, 40, 2)
    all_rows = run_traces(ctx, "C06", "c06", nseg, length, chunks, [s for s in scen if s.get("mode") == "c06"])
    coverage(ctx, "C06", all_rows)
    gates = {}
    for _, rows in all_rows:
        for r in rows:
            if r.get("e") == "Gate":
                gates[(r["op"], r["nk"], r["via"])] = gates.get((r["op"], r["nk"], r["via"]), 0) + 1
            if r.get("e") == "Step" and r["op"].get("nk") in ("dot", "dotdot", "slash"):
                via = next((x["cfg"]["via"] for x in rows if x.get("e") == "Reset" and x["seg"] == r["seg"]), "?")
                gates[(r["op"]["op"], r["op"]["nk"], via)] = gates.get((r["op"]["op"], r["op"]["nk"], via), 0) + 1
    need = [(o, k, v) for o in ("lookup", "mkdir", "mknod", "symlink", "create", "link", "unlink", "rmdir", "rename") for k in ("slash",) for v in ("direct", "vfs", "vfs-scripted")]
    need += [(o, k, v) for o in ("mkdir", "mknod", "symlink", "create", "link", "unlink", "rmdir", "rename") for k in ("dot", "dotdot") for v in ("direct", "vfs-scripted")]
    miss = [g for g in need if g not in gates]
    if miss and not ctx.quick:
        raise C.ToolError("coverage gate: name gates never exercised: %s" % miss[:6])
    if [g for g in miss if g[2] == "vfs-scripted"]:
        raise C.ToolError("coverage gate: scripted-backend gates missing: %s" % miss[:6])
    ctx.extra["name_gate_cases"] = len(gates)

    def mut(rows):
        for r in rows:
            if r.get("e") == "Step" and r["op"].get("nk") in ("slash", "dotdot") and r["op"]["op"] != "lookup" and r["pt"]["st"] == "EINVAL":
                r["pt"]["st"] = "ENOENT"
                return ("one gated request answered ENOENT instead of EINVAL", r)

    def mut2(rows):
        for r in rows:
            if r.get("e") == "Step" and r["pt"]["st"] == "OK" and r["op"]["op"] == "lookup" and "attr" in r["pt"]:
                r["pt"]["attr"]["id"] = next(x for x in rows if x.get("e") == "Reset")["pt_out"][0]["id"]
                return ("one lookup reply carries the file id of an object outside the export", r)

    def mut3(rows):
        for r in rows:
            if r.get("e") == "Gate" and r["nk"] == "slash" and r["op"] == "mkdir":
                r["calls"] = ["mkdir"]
                return ("a backend call logged for a gated mkdir behind the Vfs", r)
    binding(ctx, "C06", all_rows, [(mut, r"C06\|.*\|namegate"), (mut2, r"C06\|.*\|not-contained"), (mut3, r"C06\|.*backend-touched")])
    samples(ctx, all_rows, lambda r: r["op"].get("nk") in ("slash", "dotdot") or r["op"].get("name") in ("lout_abs", "lout_dir"))
    ctx.extra["rule"] = "distinct = (operation, status, flags class, name kind); sentinel tree with absolute/relative/dangling symlinks pointing outside, hard links, special files; Vfs in front in every third history; scripted backend for 'no backend touched'"
    ctx.assumptions += ASSUME_COMMON + ["behind a Vfs st_ino is the Vfs inode number: Contained is judged there through mirror equality and OutsideFrozen only"]


def run_c18(ctx):
    if getattr(ctx, "replay", None):
        run_replay(ctx, "C18")
        return
    scen = run_mc(ctx, "C18")
    nseg, length, chunks = (40, 40, 1) if ctx.quick else (192, 40, 2)
    all_rows = run_traces(ctx, "C18", "c18", nseg, length, chunks, [s for s in scen if s.get("mode") == "c18"])
    coverage(ctx, "C18", all_rows)
    classes = set()
    for _, rows in all_rows:
        for r in rows:
            if r.get("e") == "Step" and r["op"]["op"] in ("write", "fallocate", "open", "create", "setattr"):
                classes.add((r["op"]["op"], tuple(r["op"].get("fl", []) or r["op"].get("fm", []) or r["op"].get("valid", [])), r["neutral"], r["pt"]["st"] == "OK"))
    ctx.extra["seal_classes"] = len(classes)

    def mut(rows):
        seal = {r["seg"] for r in rows if r.get("e") == "Reset" and r["cfg"]["seal"]}
        pre = {}
        for r in rows:
            if r.get("e") == "Reset":
                pre[r["seg"]] = {w["id"] for w in r["pt_rows"] if w["t"] == "reg"}
            if r.get("e") == "Step" and r["seg"] in seal and r["pt"]["st"] == "OK" and r["neutral"]:
                for w in r["pt"]["ch"]:
                    if w["t"] == "reg" and w["id"] in pre[r["seg"]]:
                        w["size"] += 1
                        return ("size of a pre-existing file in one logged digest row changed by a size-neutral request", r)
    binding(ctx, "C18", all_rows, [(mut, r"C18\|.*size-changed|C18\|.*neutral-differs")])
    samples(ctx, all_rows, lambda r: r["op"]["op"] in ("write", "fallocate") and not r["neutral"])
    ctx.extra["rule"] = "distinct = (operation, status, flags class, name kind); seal classes = (op, flags/mode/valid, plainly-neutral?, succeeded?) = %d; x {no_open}" % len(classes)
    ctx.assumptions += ASSUME_COMMON + [
        "Reading of C18: (1) sizes of pre-existing regular files never change; (2) plainly size-neutral requests have the unsealed (host) result; (3) anything else may be refused or succeed as long as (1) holds",
        "half of the histories ('gentle') keep non-append WRITEs within the current size so that more requests succeed; the other half sends them beyond the size as well",
    ]


PROPS = {"C05": run_c05, "C06": run_c06, "C18": run_c18}
