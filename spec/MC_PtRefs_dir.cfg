SPECIFICATION Spec
CONSTANTS
  NameSeq <- NamesAB
  MaxFile = 3
  MaxLen = 5
  Counts <- Counts12
  CfgSet <- CfgDir
  MODE = "dir"
  Fails <- NoFail
  MAXHOST = 2
  BUG_CREATE_LEAK = FALSE
  BUG_PROBE_LEAK = FALSE
  BUG_DOTS = FALSE
  DirN <- Dir04
  MAXSEEK = 35
  SPECIAL_A = FALSE
  Sample = 12
  WithDetail <- NoDetail
  BlameLabel <- AnyBlame
INVARIANTS NoViol Resolves
CONSTRAINT Export
VIEW View
CHECK_DEADLOCK FALSE
