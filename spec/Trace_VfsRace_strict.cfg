SPECIFICATION Spec
CONSTANT Relaxed = FALSE
CHECK_DEADLOCK FALSE
POSTCONDITION Post
