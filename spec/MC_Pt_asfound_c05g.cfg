SPECIFICATION Spec
CONSTANTS
  PlainNames <- MC_Names2
  HostileNames <- MC_NoHostile
  MaxOps = 2
  MaxIno = 10
  Cfg <- MC_Cfg_plain
  AsFound <- MC_AF_c05g
  Mode = "c05"
  InitS <- MC_S_plain
  ScenCfg <- MC_Scen_plain
  ScenTree <- MC_Tree_plain
VIEW View
INVARIANTS TreeOK MirrorOK
CHECK_DEADLOCK FALSE
