------------------------------ MODULE MC_HostFs ------------------------------
(* Self-check of the environment model: random system calls over a small tree keep the structural
   invariant TreeOK (link counts, parent pointers, orphans only while referenced), Walk never leaves
   the tree, and a failing call has no effect. *)
EXTENDS HostFs
CONSTANTS Nm, MaxOps, MaxIno
VARIABLES S, nops, okfail
vars == <<S, nops, okfail>>
Ino(t, data, tgt, nlink, par) == [t |-> t, perm |-> 493, uid |-> 0, gid |-> 0, data |-> data, size |-> IF t = "lnk" THEN Len(tgt) ELSE 0, tgt |-> tgt,
                                  nlink |-> nlink, xa |-> <<>>, rdev |-> 0, par |-> par]
S0 == [ino |-> (1 :> Ino("dir", <<>>, "", 3, 1)) @@ (2 :> Ino("reg", <<1, 2>>, "", 1, 0)) @@ (3 :> Ino("dir", <<>>, "", 2, 1)) @@ (4 :> Ino("lnk", <<>>, <<"a">>, 1, 0)),
       dent |-> (1 :> (("a" :> 2) @@ ("b" :> 3) @@ ("l" :> 4))) @@ (3 :> <<>>),
       of |-> <<>>]
Fresh(T) == CHOOSE i \in 1..MaxIno : i \notin Ids(T)
HasFresh(T) == \E i \in 1..MaxIno : i \notin Ids(T)
Dirs == {i \in Ids(S) : S.ino[i].t = "dir"}
Keys == {1, 2}
U == [uid |-> 1000, gid |-> 1000, groups |-> {}]
Do(r) == /\ S' = r.S /\ nops' = nops + 1 /\ okfail' = (r.ok \/ r.S = S)
Init == S = S0 /\ nops = 0 /\ okfail = TRUE
Next == /\ nops < MaxOps /\ HasFresh(S)
        /\ \/ \E d \in Dirs, n \in Nm, c \in {Root0, U} : Do(Mkdir(S, c, d, n, "plain", 493, Fresh(S)))
           \/ \E d \in Dirs, n \in Nm : Do(Mknod(S, Root0, d, n, "plain", "reg", 420, 0, Fresh(S)))
           \/ \E d \in Dirs, n \in Nm, t \in {<<"..">>, <<"a">>} : Do(Symlink(S, Root0, d, n, "plain", t, Len(t), Fresh(S)))
           \/ \E d \in Dirs, n \in Nm : Do(Unlink(S, d, n, "plain"))
           \/ \E d \in Dirs, n \in Nm : Do(Rmdir(S, d, n, "plain"))
           \/ \E i \in Ids(S), d \in Dirs, n \in Nm : Do(Link(S, i, d, n, "plain"))
           \/ \E d \in Dirs, e \in Dirs, n \in Nm, m \in Nm, f \in RenFlags : Do(Rename(S, d, n, "plain", e, m, "plain", f))
           \/ \E i \in Ids(S), k \in Keys, f \in {{}, {"RDWR"}, {"RDWR", "TRUNC"}, {"WR", "APPEND"}} : k \notin DOMAIN S.of /\ Do(OpenIno(S, Root0, i, f, k))
           \/ \E d \in Dirs, n \in Nm, k \in Keys, f \in {{"RDWR"}, {"RDWR", "EXCL"}, {"WR", "TRUNC"}} : k \notin DOMAIN S.of /\ Do(OpenCreate(S, Root0, d, n, "plain", f, 420, Fresh(S), k))
           \/ \E i \in Ids(S), k \in Keys : k \notin DOMAIN S.of /\ Do(Succ(OpenPath(S, i, k), NoRet))
           \/ \E k \in Keys : k \in DOMAIN S.of /\ Do(Succ(Close(S, k), NoRet))
           \/ \E k \in Keys, off \in {0, 3}, w \in {<<7>>} : Do(PWrite(S, k, off, w))
           \/ \E k \in Keys, z \in {0, 3} : Do(FTruncate(S, k, z))
           \/ \E k \in Keys, m \in {{}, {"PUNCH", "KEEP"}, {"ZERO"}, {"COLLAPSE"}} : Do(Fallocate(S, k, m, 1, 2))
Spec == Init /\ [][Next]_vars
TreeOK == TreeOKOf(S, 1)
FailClean == okfail
\* resolution stays inside the model's tree and respects O_NOFOLLOW
WalkOK == \A n \in Nm : LET w == Walk(S, 1, 1, <<n>>, TRUE, 8) IN w.ok => (w.i \in Ids(S) /\ (n \in Names(S, 1) /\ w.i = S.dent[1][n]))
SizeOK == \A i \in Ids(S) : S.ino[i].t = "reg" => Len(S.ino[i].data) <= 8
=============================================================================
