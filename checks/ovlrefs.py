"""X04 (engine ovlrefs) - beyond the listed properties (DESIGN.md section 9 item 2): overlay inode lifetimes and
lookup-count accounting, the overlay analogue of C08.

spec/OvlRefs.tla        A: client-side reference table; a referenced number denotes one object and keeps resolving
                        (also deleted-but-referenced), forget never changes the tree / never panics (unknown numbers,
                        over-forget, root), nothing stays allocated once everything is forgotten
spec/OvlRefsImpl.tla    I: InodeStore (inodes / deleted / path -> inode reservation / next_inode) + the `lookups`
                        arithmetic of do_lookup, do_readdir(plus), do_rm, do_create/do_link over whiteout nodes, forget_one
spec/Trace_OvlRefs.tla  judge of recorded histories (monitor mode); objects = file identities of Overlay.tla's view
harness/src/bin/ovl.rs  modes refs / refs-sys / refs-random: the client keeps the entries it is given, forgets explicitly
                        (forget, batch_forget, over-forget, unknown numbers), probes getattr on every number it ever held
                        after each step; descriptors held beyond a fresh instance are measured after each step

Flow: TLC checks I => A (only allowed signatures appear); a counterexample is replayed on the real code and judged by
the trace spec; when the real code reproduces a listed finding its model signatures are allowed and TLC goes on; then
TLC-exported walks, systematic histories and seeded random histories run on the real code. Not in the manifest."""
import json
import os
import re

from . import common as C
from .ovl import tuples, viols_of, gen_cfg  # noqa: F401  (shared parsing helpers of the overlay engine)

LEVEL = {"X04": "model_checking"}


def known_x04():
    with open(os.path.join(C.VERIF, "known_findings.json")) as f:
        d = json.load(f)
    return [k for k in d.get("known", []) if k.get("property") == "X04"]


def cfg(ctx, name, allowed=(), consts=None, inv="OnlyAllowed"):
    with open(os.path.join(C.SPEC, "MC_OvlRefs.cfg")) as f:
        t = f.read()
    t = re.sub(r"Allowed = \{[^}]*\}", "Allowed = {%s}" % ", ".join('"%s"' % a for a in sorted(allowed)), t)
    t = re.sub(r"^INVARIANT.*$", "INVARIANT " + inv, t, flags=re.M)
    for k, v in (consts or {}).items():
        t = re.sub(r"^(\s*%s = ).*$" % k, r"\g<1>%s" % v, t, flags=re.M)
    p = ctx.path(name)
    with open(p, "w") as f:
        f.write(t)
    return p


class Runner:
    def __init__(self, ctx):
        self.ctx = ctx
        self.bindir = C.build_harness(bins=["ovl"])
        self.n = 0
        self.cov = {}
        self.segments = 0
        self.sigs = {}

    def harness(self, mode, args, env=None):
        self.n += 1
        out = self.ctx.path("refs%d.ndjson" % self.n)
        work = self.ctx.path("fs%d" % self.n)
        C.run_bin(self.bindir, "ovl", [mode, work] + args + [out], env=dict(env or {}, VERIF_SEED=self.ctx.seed), timeout=1800)
        return out

    def bump(self, k, n=1):
        self.cov[k] = self.cov.get(k, 0) + n

    def judge(self, trace_file, what, report=True):
        ctx = self.ctx
        res = C.tlc_trace(ctx, "Trace_OvlRefs", trace_file, timeout=1800, xmx="6g")
        if not res["accepted"]:
            C.log(res["output"][-3000:])
            raise C.ToolError("trace %s not consumed by Trace_OvlRefs" % what)
        ev = C.read_ndjson(trace_file)
        ctx.events += len(ev)
        segs = {}
        for i, e in enumerate(ev):
            segs.setdefault(e["seg"], []).append(i)
        ctx.traces += len(segs)
        self.segments += len(segs)
        ctx.states += res.get("distinct", 0)
        ctx.transitions += res.get("distinct", 0)
        self.coverage(ev, segs)
        found = []
        self.dirty = set()
        for sig, idx, detail in viols_of(res):
            e = ev[idx - 1] if idx - 1 < len(ev) else {}
            self.dirty.add(e.get("seg"))
            scn = scenario_of(ev, segs.get(e.get("seg"), []), idx - 1)
            found.append(sig)
            self.sigs[sig] = self.sigs.get(sig, 0) + 1
            if report:
                ctx.violation(sig, {"from": what, "event": idx, "detail": detail}, replay_src={"scenario": scn, "signature": sig})
        return found, ev

    def coverage(self, ev, segs):
        """which kinds of history steps really ran (gates of the quick tier)"""
        for idxs in segs.values():
            unlinked = set()        # numbers whose name was removed while the client may hold them
            via = {}
            for i in idxs:
                e = ev[i]
                if e["e"] != "Op":
                    continue
                op, st = e["op"], e.get("st")
                if op in ("lookup", "create", "mkdir", "mknod", "symlink", "link") and st == 0 and "ino" in e:
                    self.bump("entry:" + op)
                    via[tuple(e["p"])] = e["ino"]
                if op == "rdplus" and st == 0:
                    self.bump("readdirplus")
                    self.bump("readdirplus-entries", len([x for x in e["ents"] if x[0] not in (".", "..")]))
                    for n, k in e["ents"]:
                        if n not in (".", ".."):
                            via[tuple(e["p"]) + (n,)] = k
                if op in ("unlink", "rmdir") and st == 0 and tuple(e["p"]) in via:
                    unlinked.add(via[tuple(e["p"])])
                if op == "forget" and st == 0:
                    held, n = e.get("held", 0), e["n"]
                    if e["ino"] == 1:
                        self.bump("forget-root")
                    elif n > held:
                        self.bump("forget-unknown" if held == 0 and e["ino"] >= 4000 else "over-forget")
                    else:
                        if n == held:
                            self.bump("forget-to-zero")
                        if e["ino"] in unlinked:
                            self.bump("forget-of-deleted-referenced")
                if op == "batch_forget":
                    self.bump("batch_forget")
                if op in ("create", "mkdir", "mknod", "symlink", "link", "unlink", "rmdir", "lookup") and st not in (0, None):
                    self.bump("refused-request")
                if op == "rename":
                    self.bump("rename" + ("-over-referenced" if tuple(e.get("to", [])) in via else ""))
                if op == "link" and st == 0:
                    self.bump("hard-link")
                if st == -2:
                    self.bump("panic")


def scenario_of(ev, idxs, upto):
    scn = {"ops": []}
    for i in idxs:
        e = ev[i]
        if e["e"] == "Reset":
            scn.update({"id": e.get("id"), "B": e["B"], "upper": e["upper"], "names": e["names"], "depth": e.get("depth", 2)})
        elif e["e"] == "Layers":
            layers = ([e["upper"]] if scn.get("upper") else []) + e["lowers"]
            scn["layers"] = [[{k: r[k] for k in ("p", "t", "m", "c", "tg", "opq", "x") if k in r} if r["t"] != "wh" else {"p": r["p"], "t": "wh"} for r in rows] for rows in layers]
        elif e["e"] == "Op" and i <= upto and not e.get("final"):
            o = {k: v for k, v in e.items() if k not in ("e", "seg", "st", "ents", "held")}
            if e["op"] in ("forget",) and "of" not in e and "mn" not in e:
                o["ino"] = e["ino"]
            scn["ops"].append(o)
    return scn


def mc_with_rediscovery(ctx, run, label, consts):
    """TLC: only allowed signatures may appear in the implementation-shaped model. A counterexample is replayed on the
    real code; signatures of listed findings that the code reproduces are allowed from then on."""
    allowed = set()
    hits = []
    for it in range(8):
        c = cfg(ctx, "%s_%d.cfg" % (label, it), allowed=allowed, consts=consts)
        r = C.tlc_mc(ctx, "OvlRefsImpl", cfg=c, workers=8, timeout=900, must_cover=False, expect_violation=True, xmx="4g")
        cex = tuples(r["output"], "CEX")
        if not r["violated"]:
            if r["zero_coverage"]:
                raise C.ToolError("vacuity gate: actions never taken in OvlRefsImpl: %s" % r["zero_coverage"])
            ctx.extra.setdefault("action_coverage", {})[label] = r.get("actions", {})
            ctx.extra.setdefault("mc_allowed_signatures", {})[label] = sorted(allowed)
            return hits
        if not cex:
            C.log(r["output"][-3000:])
            raise C.ToolError("TLC reported a violation but exported no counterexample")
        msigs, scn = json.loads(cex[0][1]), json.loads(cex[0][2])
        sf = ctx.path("%s_cex%d.scn" % (label, it))
        C.write_ndjson(sf, [scn])
        found, _ = run.judge(run.harness("refs", [sf]), "MC counterexample %s" % label)
        hits.append({"model_signatures": msigs, "ops": scn["ops"], "reproduced_as": sorted(set(found))})
        C.log("  MC %s: %s by %s -> real code: %s" % (label, msigs, json.dumps(scn["ops"]), sorted(set(found)) or "NOT reproduced"))
        if not found:
            ctx.drift.append({"config": label, "model_signatures": msigs, "scenario": scn})
            C.log("MODEL-DRIFT X04: counterexample %s is not reproduced by the code" % msigs)
            return hits
        new = set()
        for k in known_x04():
            if any(re.fullmatch(k["signature"], s) for s in found):
                new |= set(k.get("allow", []))
        new -= allowed
        if not new:
            return hits          # reproduced and not listed: reported by judge as a violation
        allowed |= new
    raise C.ToolError("model checking of %s did not converge" % label)


def binding_demo(ctx, run, ev):
    """corrupt a real, clean history: TLC must reject each corruption"""
    segs = {}
    for e in ev:
        segs.setdefault(e["seg"], []).append(e)
    # the systematic history "rename-over" (two numbers held at once, a forget, no signature): deterministic
    pick = next((es for es in segs.values() if es[0].get("id") == "rename-over"), None)
    if pick is None:
        raise C.ToolError("binding demo: history 'rename-over' not found")
    cases = []

    def case(name, mutate, pattern):
        es = json.loads(json.dumps(pick))
        mutate(es)
        cases.append((name, es, pattern))

    def two_held(es):
        return next(p for p in es if p["e"] == "Probe" and sum(1 for r in p["rows"] if r["held"] > 0 and r["st"] == 0) >= 2)

    def m_unres(es):
        next(r for r in two_held(es)["rows"] if r["held"] > 0)["st"] = 2

    def m_shared(es):
        p = two_held(es)
        a, b = [r["ino"] for r in p["rows"] if r["held"] > 0 and r["st"] == 0][:2]
        for e in es:
            if e["e"] == "Op" and e.get("ino") == b and e["op"] != "forget":
                e["ino"] = a

    def m_tree(es):
        i = next(k for k, e in enumerate(es) if e["e"] == "Op" and e["op"] == "forget")
        v = next(e for e in es[i:] if e["e"] == "View")
        if v["rows"]:
            v["rows"].remove(max(v["rows"], key=lambda r: len(r["p"])))

    def m_leak(es):
        last = [e for e in es if e["e"] == "Fds"][-1]
        last["live"] += 3

    case("getattr of a held number turned into ENOENT", m_unres, r"X04\|probe\|referenced.*unresolvable")
    case("an entry reply carries the number of another held object", m_shared, r"X04\|.*\|(number-shared|resolves-to-other-object)")
    case("a row of the walk after a forget dropped", m_tree, r"X04\|(forget|over-forget)\|tree-changed")
    case("descriptor count at the end raised", m_leak, r"X04\|end\|resources-not-released")
    allev = []
    for k, es in enumerate([pick] + [c[1] for c in cases]):
        allev += [dict(e, seg=k + 1) for e in es]
    f = ctx.path("binding.ndjson")
    C.write_ndjson(f, allev)
    r = C.tlc_trace(ctx, "Trace_OvlRefs", f)
    byseg = {}
    for sig, idx, _ in viols_of(r):
        byseg.setdefault(allev[idx - 1]["seg"], set()).add(sig)
    demo = []
    for k, (name, _, pattern) in enumerate(cases):
        new = byseg.get(k + 2, set()) - byseg.get(1, set())
        if not any(re.search(pattern, x) for x in new):
            raise C.ToolError("binding demo failed: '%s' not rejected (new signatures: %s)" % (name, sorted(new)))
        demo.append({"corruption": name, "rejected_with": sorted(new)[:3]})
    ctx.extra["binding_demo"] = demo


def run(ctx):
    r = Runner(ctx)
    if getattr(ctx, "replay", None):
        with open(ctx.replay) as f:
            d = json.load(f)
        scn = d.get("scenario", d)
        scn = scn.get("scenario", scn)
        sf = ctx.path("replay.scn")
        C.write_ndjson(sf, [scn])
        found, _ = r.judge(r.harness("refs", [sf]), "replay")
        C.log("replay: signatures %s" % sorted(set(found)))
        return
    quick = ctx.quick
    # --- 1. model checking with counterexample replay
    small = {"MaxOps": 4, "MaxIno": 6}
    hits = {"small": mc_with_rediscovery(ctx, r, "small", small)}
    if not quick:
        hits["deep"] = mc_with_rediscovery(ctx, r, "deep", {"MaxOps": 6, "MaxIno": 7})
        hits["three"] = mc_with_rediscovery(ctx, r, "three", {"MaxOps": 4, "MaxIno": 7, "Names": '{"a", "b", "c"}', "UpperNames": '{"b", "c"}'})
    ctx.extra["mc_counterexamples"] = hits
    # anti-vacuity: the inode-number reservation as it was before fix e708a31 must be rejected
    allow_all = sorted({a for k in known_x04() for a in k.get("allow", [])})
    c = cfg(ctx, "asfound.cfg", allowed=allow_all, consts=dict(small, AsFound='{"DELGET", "OVERF", "E708"}'))
    rr = C.tlc_mc(ctx, "OvlRefsImpl", cfg=c, workers=8, timeout=600, must_cover=False, expect_violation=True, xmx="4g")
    ctx.states -= rr["distinct"]
    ctx.transitions -= rr["generated"]
    ctx.mc_runs.pop()
    cex = tuples(rr["output"], "CEX")
    if not rr["violated"] or not cex:
        raise C.ToolError("anti-vacuity: the I spec with the pre-e708a31 number reservation is not rejected")
    ctx.extra["anti_vacuity"] = {"as_found": "E708 (alloc_inode hands out a number a deleted-but-referenced node owns)",
                                 "model_signatures": json.loads(cex[0][1]), "ops": json.loads(cex[0][2])["ops"]}
    # --- 2. TLC-exported walks replayed on the real code
    nwalk = 60 if quick else 600
    c = cfg(ctx, "export.cfg", allowed=(), consts={"MaxOps": 6, "MaxIno": 9}, inv="Export")
    rr = C.tlc_mc(ctx, "OvlRefsImpl", cfg=c, workers=4, timeout=900, simulate="num=%d" % nwalk, depth=8, coverage=False, must_cover=False, xmx="3g")
    scns = []
    for t in tuples(rr["output"], "REPLAY"):
        s = json.loads(t[1])
        s["id"] = "sim%d" % len(scns)
        scns.append(s)
        if len(scns) >= nwalk:
            break
    if len(scns) < nwalk // 2:
        raise C.ToolError("scenario export produced only %d histories" % len(scns))
    sf = ctx.path("sim.scn")
    C.write_ndjson(sf, scns)
    r.judge(r.harness("refs", [sf]), "TLC-exported histories")
    ctx.extra["tlc_histories_replayed"] = len(scns)
    # --- 3. systematic histories
    found, ev = r.judge(r.harness("refs-sys", []), "systematic histories")
    binding_demo(ctx, r, ev)
    ctx.sample({"history": scenario_of(ev, [i for i, e in enumerate(ev) if e["seg"] == 2], len(ev)), "verdict": "validated by Trace_OvlRefs"})
    # --- 4. seeded random histories
    nscen = 25 if quick else 400
    found, ev = r.judge(r.harness("refs-random", [], env={"OVL_SCEN": nscen, "OVL_OPS": 25}), "random histories")
    # coverage gates
    need = ["forget-to-zero", "forget-of-deleted-referenced", "over-forget", "forget-unknown", "forget-root", "refused-request",
            "rename-over-referenced", "hard-link", "readdirplus", "batch_forget", "entry:lookup", "entry:create", "entry:mkdir", "entry:link"]
    missing = [k for k in need if r.cov.get(k, 0) == 0]
    if missing:
        raise C.ToolError("coverage gate: history steps never exercised: %s" % missing)
    if r.cov.get("panic"):
        C.log("note: %d panics of the code under test were recorded (judged as X04|<op>|panic)" % r.cov["panic"])
    ctx.extra.update({
        "history_step_coverage": r.cov,
        "signatures_seen": r.sigs,
        "distinct_nontrivial": r.segments + len(r.cov),
        "rule": "history segments (distinct layer contents x histories) + distinct kinds of history steps exercised",
        "random_histories": nscen,
    })
    ctx.assumptions += [
        "objects are the file identities of Overlay.tla's view, carried along by AOp and re-synchronised with the logged walk",
        "'resolving' is observed through getattr on the number; resources through the count of /proc/self/fd entries beyond a fresh instance over the same directories walked the same way",
        "the I spec models one directory (the root): '.'/'..' accounting of readdirplus and directory removal are judged on the real code only",
        "like the kernel, the client takes no reference for '.' and '..' of a readdirplus reply",
    ]


PROPS = {"X04": run}
