------------------------------ MODULE MC_Passthrough ------------------------------
(* Model-checking instances of PassthroughImpl (I => A) for C05 (MirrorOK), C06 (ContainedOK,
   OutsideFrozen, NameGateOK) and C18 (Sealed, SealRulesOK).  The tree: inode 1 = the directory
   holding the export ("S"), 2 = the export, 3 = S/secret; inside the export a regular file "a"
   (2 bytes), a directory "d", and -- for C06 -- symlinks pointing outside. *)
EXTENDS PassthroughImpl
Ino(t, perm, data, tgt, nlink, par) == [t |-> t, perm |-> perm, uid |-> 0, gid |-> 0, data |-> data, size |-> IF t = "lnk" THEN Len(tgt) ELSE 0, tgt |-> tgt,
                                        nlink |-> nlink, xa |-> <<>>, rdev |-> 0, par |-> par]
MC_S_plain == [ino |-> (1 :> Ino("dir", 493, <<>>, "", 3, 1)) @@ (2 :> Ino("dir", 493, <<>>, "", 3, 1)) @@ (3 :> Ino("reg", 384, <<115>>, "", 1, 0))
                       @@ (4 :> Ino("reg", 420, <<97, 98>>, "", 1, 0)) @@ (5 :> Ino("dir", 493, <<>>, "", 2, 2)),
               dent |-> (1 :> (("export" :> 2) @@ ("secret" :> 3))) @@ (2 :> (("a" :> 4) @@ ("d" :> 5))) @@ (5 :> <<>>),
               of |-> <<>>]
\* C06: additionally "l" -> ../secret (relative, outside) in the export
MC_S_links == [MC_S_plain EXCEPT !.ino = (6 :> Ino("lnk", 511, <<>>, <<"..", "secret">>, 1, 0)) @@ @,
                                 !.dent = [@ EXCEPT ![2] = ("l" :> 6) @@ @]]
MC_Names2 == {"a", "b"}
MC_Names3 == {"a", "b", "d"}
MC_NoHostile == {}
MC_Hostile == {[s |-> ".", k |-> "dot"], [s |-> "..", k |-> "dotdot"], [s |-> "d/a", k |-> "slash"], [s |-> "../secret", k |-> "slash"]}
MC_HostileL == MC_Hostile \cup {[s |-> "l", k |-> "plain"]}
MC_Cfg_plain == [seal |-> FALSE, no_open |-> FALSE, ifh |-> FALSE, wb |-> FALSE]
MC_Cfg_ifh == [seal |-> FALSE, no_open |-> FALSE, ifh |-> TRUE, wb |-> FALSE]
MC_Cfg_noopen == [seal |-> FALSE, no_open |-> TRUE, ifh |-> FALSE, wb |-> FALSE]
MC_Cfg_seal == [seal |-> TRUE, no_open |-> FALSE, ifh |-> FALSE, wb |-> FALSE]
MC_Cfg_seal_noopen == [seal |-> TRUE, no_open |-> TRUE, ifh |-> FALSE, wb |-> FALSE]
\* the same configurations and trees in the harness' scenario format
Scen(c) == [no_open |-> c.no_open, no_opendir |-> FALSE, ifh |-> c.ifh, host_ino |-> FALSE, wb |-> c.wb, cache |-> IF c.no_open THEN "always" ELSE "auto",
            xattr |-> TRUE, seal |-> c.seal, via |-> "direct"]
MC_Cfg_seal_noopen_wb == [seal |-> TRUE, no_open |-> TRUE, ifh |-> FALSE, wb |-> TRUE]
MC_Scen_seal_noopen_wb == Scen(MC_Cfg_seal_noopen_wb)
MC_AF_c05g == {"seeded:root-keeps-group"}
MC_AF_c18w == {"seeded:wb-append"}
MC_Scen_plain == Scen(MC_Cfg_plain)
MC_Scen_ifh == Scen(MC_Cfg_ifh)
MC_Scen_noopen == Scen(MC_Cfg_noopen)
MC_Scen_seal == Scen(MC_Cfg_seal)
MC_Scen_seal_noopen == Scen(MC_Cfg_seal_noopen)
\* as-found defects switched back on (anti-vacuity configurations only; their states are not evidence)
MC_AF_none == {}
MC_AF_c05 == {"ifh-creds", "create-dir", "create-stale-attr"}
MC_AF_c18 == {"seal-holes"}
MC_AF_c18fd == {"fd-close"}
MC_AF_c18r == {"seeded:destroy-unseals"}
MC_AF_c06 == {"seeded:nofollow"}
MC_Names1 == {"a"}
MC_Tree_plain == << <<"a", "reg", <<97, 98>>, 420, 0>>, <<"d", "dir", "", 493, 0>> >>
MC_Tree_links == << <<"a", "reg", <<97, 98>>, 420, 0>>, <<"d", "dir", "", 493, 0>>, <<"l", "lnk", "../secret", 511, 0>> >>
=============================================================================
