---------------------------- MODULE Trace_Session ----------------------------
(* X03 - judge of recorded CONCURRENT runs of the real FuseSession / FuseChannel on real mounts
   (harness/src/bin/session.rs conc): channel threads loop get_request -> Server::handle_message, client threads read
   files on the mountpoint, a controller calls wake() / umount() / new_channel() / mount() at seeded points.

   Every call is logged before it is made (x_call) and after it returned (x_ret) under one lock: the order of the
   log is consistent with real time. The contract (Session.tla part 3: R1, R2, R3) is judged with what the log
   determines; where the log leaves a fact open the judge keeps it open (three-valued exit token), so that the
   judge is deterministic (monitor mode: <<"VIOL", signature, index, detail>>, the trace goes on) and never
   stronger than the contract:

     tok[c]   "yes"    an eventfd write for c has certainly happened and no Ok(None) has consumed it
              "maybe"  a write may have happened (wake() in progress; c registered while a wake was in progress;
                       an Ok(None) returned while the write of a wake in progress may still have been to come)
              "no"     certainly none pending
     dead     "no" | "maybe": umount() was called, the connection was aborted, or a second mount shadows it

   R1  gr_ret some: unique never handed out before; Reader length = in_header.len; reply written (hm_ret ok)
       unless the connection may be dead; the client reads the content of the file it asked for.
   R2  gr_ret some on a call that started with tok = "yes" is a violation (the exit event wins);
       gr_ret none needs tok # "no" or dead = "maybe";
       watchdog{c}: the thread of c is asleep in epoll_wait inside get_request, `ms` after the last wake()/umount()
       returned: a violation iff tok[c] = "yes" (X03|wake|reader-still-blocked) or the connection must have been
       destroyed (aborted, or detached with no client operation in flight): X03|umount|reader-still-blocked.
   R3  um_ret: Ok; no mount left on the mountpoint (X03|umount|mount-left-attached|<class>).
   R4  nothing panics, mount() does not hang; R5 at `end` no descriptor is left. *)
EXTENDS Naturals, Sequences, FiniteSets, TLC, Json, IOUtils

A == INSTANCE Session WITH Chans <- 1..5, MaxConn <- 2, AsFoundAbort <- TRUE, AsFoundRemount <- TRUE

Rec == ndJsonDeserialize(IOEnv.TRACE)
N == Len(Rec)
CIds == 1..5

VARIABLES l, reg, regpend, wsp, tok, inwake, wsure, noneInWake, sawNoTok, dead, mayfail, delivered,
          mounts, aborted, detached, cliIn, exited
vars == <<l, reg, regpend, wsp, tok, inwake, wsure, noneInWake, sawNoTok, dead, mayfail, delivered, mounts, aborted, detached, cliIn, exited>>

V(sig, d) == PrintT(<<"VIOL", sig, l, d>>)
Num(n) == ToString(n)

Fresh == /\ reg = {} /\ regpend = {} /\ wsp = {} /\ tok = [c \in CIds |-> "no"] /\ inwake = 0 /\ wsure = {} /\ noneInWake = {}
         /\ sawNoTok = [c \in CIds |-> TRUE] /\ dead = "no" /\ mayfail = FALSE /\ delivered = {}
         /\ mounts = 0 /\ aborted = FALSE /\ detached = FALSE /\ cliIn = 0 /\ exited = {}
FreshNext == /\ reg' = {} /\ regpend' = {} /\ wsp' = {} /\ tok' = [c \in CIds |-> "no"] /\ inwake' = 0 /\ wsure' = {} /\ noneInWake' = {}
             /\ sawNoTok' = [c \in CIds |-> TRUE] /\ dead' = "no" /\ mayfail' = FALSE /\ delivered' = {}
             /\ mounts' = 0 /\ aborted' = FALSE /\ detached' = FALSE /\ cliIn' = 0 /\ exited' = {}

StaleClass == IF aborted THEN "conn-aborted" ELSE IF mounts > 1 THEN "mounted-twice" ELSE "other"
MustBeDead == aborted \/ (detached /\ cliIn = 0)

Ev(r) ==
  CASE r.e = "Reset" -> FreshNext
    [] r.e = "mount_call" ->
         /\ mayfail' = (mayfail \/ mounts > 0) /\ dead' = (IF mounts > 0 THEN "maybe" ELSE dead)
         /\ UNCHANGED <<reg, regpend, wsp, tok, inwake, wsure, noneInWake, sawNoTok, delivered, mounts, aborted, detached, cliIn, exited>>
    [] r.e = "mount_ret" ->
         /\ TRUE = (IF r.kind = "hung" THEN V("X03|mount|hang|already-mounted", r)
                    ELSE IF r.res = "panic" THEN V("X03|mount|panic", r)
                    ELSE IF r.res = "ok" \/ (mounts > 0 /\ r.cls = "already-mounted") THEN TRUE
                    ELSE V("X03|mount|err|" \o r.cls, r))
         /\ mounts' = (IF r.res = "ok" THEN mounts + 1 ELSE mounts)
         /\ UNCHANGED <<reg, regpend, wsp, tok, inwake, wsure, noneInWake, sawNoTok, dead, mayfail, delivered, aborted, detached, cliIn, exited>>
    [] r.e = "nc_call" ->
         /\ regpend' = regpend \cup {r.c}
         /\ UNCHANGED <<reg, wsp, tok, inwake, wsure, noneInWake, sawNoTok, dead, mayfail, delivered, mounts, aborted, detached, cliIn, exited>>
    [] r.e = "nc_ret" ->
         /\ TRUE = (IF r.res = "ok" \/ (r.res = "err" /\ r.cls = "invalid-session" /\ dead = "maybe") THEN TRUE
                    ELSE V("X03|new_channel|" \o r.res \o "|" \o r.cls, r))
         /\ regpend' = regpend \ {r.c} /\ wsp' = wsp \ {r.c}
         /\ reg' = (IF r.res = "ok" THEN reg \cup {r.c} ELSE reg)
         \* registered while a wake() was (or may have been) iterating: it may or may not have been written to
         /\ tok' = [tok EXCEPT ![r.c] = IF r.res = "ok" /\ (inwake > 0 \/ r.c \in wsp) THEN "maybe" ELSE "no"]
         /\ UNCHANGED <<inwake, wsure, noneInWake, sawNoTok, dead, mayfail, delivered, mounts, aborted, detached, cliIn, exited>>
    [] r.e = "wake_call" ->
         /\ inwake' = inwake + 1
         /\ wsure' = (IF inwake = 0 THEN reg ELSE wsure \cap reg)
         /\ noneInWake' = (IF inwake = 0 THEN {} ELSE noneInWake)
         /\ wsp' = wsp \cup regpend
         /\ tok' = [c \in CIds |-> IF c \in reg /\ tok[c] = "no" THEN "maybe" ELSE tok[c]]
         /\ mayfail' = TRUE
         /\ UNCHANGED <<reg, regpend, sawNoTok, dead, delivered, mounts, aborted, detached, cliIn, exited>>
    [] r.e = "wake_ret" ->
         /\ TRUE = (IF r.res = "ok" THEN TRUE ELSE V("X03|wake|" \o r.res \o "|" \o r.cls, r))
         /\ inwake' = (IF inwake > 0 THEN inwake - 1 ELSE 0)
         \* every waker registered before the call has been written to by now
         /\ tok' = [c \in CIds |-> IF inwake = 1 /\ c \in wsure /\ r.res = "ok"
                                   THEN (IF c \in noneInWake THEN "maybe" ELSE "yes") ELSE tok[c]]
         /\ UNCHANGED <<reg, regpend, wsp, wsure, noneInWake, sawNoTok, dead, mayfail, delivered, mounts, aborted, detached, cliIn, exited>>
    [] r.e = "gr_call" ->
         /\ sawNoTok' = [sawNoTok EXCEPT ![r.c] = tok[r.c] # "yes"]
         /\ UNCHANGED <<reg, regpend, wsp, tok, inwake, wsure, noneInWake, dead, mayfail, delivered, mounts, aborted, detached, cliIn, exited>>
    [] r.e = "gr_ret" ->
         IF r.res = "none" THEN
           \* (a channel that has returned None for an exit event may go on doing so: the exit event may be sticky,
           \*  which is the stronger reading of R2 and the behaviour of findings/session-wake-edge.diff)
           /\ TRUE = (IF A!GrNoneOK(tok[r.c] # "no" \/ r.c \in exited, dead = "maybe") THEN TRUE
                      ELSE V("X03|get_request|none-without-exit-or-unmount", r))
           /\ exited' = exited \cup {r.c}
           \* the token (if there was one) is consumed; while a wake() is in progress its write may still be to come
           /\ tok' = [tok EXCEPT ![r.c] = IF inwake > 0 THEN "maybe" ELSE "no"]
           /\ noneInWake' = (IF inwake > 0 THEN noneInWake \cup {r.c} ELSE noneInWake)
           /\ UNCHANGED <<reg, regpend, wsp, inwake, wsure, sawNoTok, dead, mayfail, delivered, mounts, aborted, detached, cliIn>>
         ELSE IF r.res = "some" THEN
           /\ TRUE = (IF A!GrSomeOK(~sawNoTok[r.c], FALSE, TRUE) THEN TRUE ELSE V("X03|wake|request-after-wake", r))
           /\ TRUE = (IF r.unique \notin delivered THEN TRUE ELSE V("X03|deliver|duplicate-unique", r))
           /\ TRUE = (IF r.len = r.hlen THEN TRUE ELSE V("X03|deliver|length|reader-" \o Num(r.len) \o "|header-" \o Num(r.hlen), r))
           /\ delivered' = delivered \cup {r.unique}
           /\ UNCHANGED <<reg, regpend, wsp, tok, inwake, wsure, noneInWake, sawNoTok, dead, mayfail, mounts, aborted, detached, cliIn, exited>>
         ELSE
           /\ TRUE = (IF r.res = "err" /\ dead = "maybe" THEN TRUE ELSE V("X03|get_request|" \o r.res \o "|" \o r.cls, r))
           /\ UNCHANGED <<reg, regpend, wsp, tok, inwake, wsure, noneInWake, sawNoTok, dead, mayfail, delivered, mounts, aborted, detached, cliIn, exited>>
    [] r.e = "hm_ret" ->
         /\ TRUE = (IF r.res = "ok" \/ (r.res = "err" /\ dead = "maybe") THEN TRUE ELSE V("X03|reply|" \o r.res \o "|connection-live", r))
         /\ UNCHANGED <<reg, regpend, wsp, tok, inwake, wsure, noneInWake, sawNoTok, dead, mayfail, delivered, mounts, aborted, detached, cliIn, exited>>
    [] r.e = "cl_call" ->
         /\ cliIn' = cliIn + 1
         /\ UNCHANGED <<reg, regpend, wsp, tok, inwake, wsure, noneInWake, sawNoTok, dead, mayfail, delivered, mounts, aborted, detached, exited>>
    [] r.e = "cl_ret" ->
         /\ TRUE = (IF r.res = "ok" THEN (IF r.tag = r.name THEN TRUE ELSE V("X03|client|wrong-data", r))
                    ELSE IF mayfail THEN TRUE ELSE V("X03|client|error-while-serving|errno-" \o Num(r.errno), r))
         /\ cliIn' = (IF cliIn > 0 THEN cliIn - 1 ELSE 0)
         /\ UNCHANGED <<reg, regpend, wsp, tok, inwake, wsure, noneInWake, sawNoTok, dead, mayfail, delivered, mounts, aborted, detached, exited>>
    [] r.e = "um_call" ->
         /\ dead' = "maybe" /\ mayfail' = TRUE
         /\ UNCHANGED <<reg, regpend, wsp, tok, inwake, wsure, noneInWake, sawNoTok, delivered, mounts, aborted, detached, cliIn, exited>>
    [] r.e = "um_ret" ->
         /\ TRUE = (IF r.res = "ok" THEN TRUE ELSE V("X03|umount|" \o r.res \o "|" \o r.cls, r))
         /\ TRUE = (IF r.res = "ok" /\ r.nmount > 0 /\ ~detached THEN V("X03|umount|mount-left-attached|" \o StaleClass, r) ELSE TRUE)
         /\ detached' = (detached \/ (r.res = "ok" /\ r.nmount = 0))
         /\ UNCHANGED <<reg, regpend, wsp, tok, inwake, wsure, noneInWake, sawNoTok, dead, mayfail, delivered, mounts, aborted, cliIn, exited>>
    [] r.e = "abort" ->
         /\ TRUE = (IF r.kind = "client-timeout" THEN V("X03|client|operation-hung", r) ELSE TRUE)
         /\ aborted' = (aborted \/ r.kind = "fusectl") /\ dead' = "maybe" /\ mayfail' = TRUE
         /\ UNCHANGED <<reg, regpend, wsp, tok, inwake, wsure, noneInWake, sawNoTok, delivered, mounts, detached, cliIn, exited>>
    [] r.e = "watchdog" ->
         /\ TRUE = (IF tok[r.c] = "yes" THEN V("X03|wake|reader-still-blocked", r)
                    ELSE IF MustBeDead THEN V("X03|umount|reader-still-blocked|connection-destroyed", r) ELSE TRUE)
         /\ UNCHANGED <<reg, regpend, wsp, tok, inwake, wsure, noneInWake, sawNoTok, dead, mayfail, delivered, mounts, aborted, detached, cliIn, exited>>
    [] r.e = "end" ->
         /\ TRUE = (IF r.nfuse = 0 THEN TRUE ELSE V("X03|fds|fuse|want-0|got-" \o Num(r.nfuse), r))
         /\ TRUE = (IF r.nevent = 0 THEN TRUE ELSE V("X03|fds|eventfd|want-0|got-" \o Num(r.nevent), r))
         /\ TRUE = (IF r.nepoll = 0 THEN TRUE ELSE V("X03|fds|epoll|want-0|got-" \o Num(r.nepoll), r))
         /\ TRUE = (IF r.nmount = 0 THEN TRUE ELSE V("X03|drop|mount-left-attached|" \o StaleClass, r))
         /\ TRUE = (IF r.kind = "leaked-threads" THEN V("X03|tool|leaked-threads", r) ELSE TRUE)
         /\ UNCHANGED <<reg, regpend, wsp, tok, inwake, wsure, noneInWake, sawNoTok, dead, mayfail, delivered, mounts, aborted, detached, cliIn, exited>>
    [] OTHER -> UNCHANGED <<reg, regpend, wsp, tok, inwake, wsure, noneInWake, sawNoTok, dead, mayfail, delivered, mounts, aborted, detached, cliIn, exited>>

Init == l = 1 /\ Fresh
Step == l <= N /\ Ev(Rec[l]) /\ l' = l + 1
Done == /\ l = N + 1 /\ PrintT(<<"ACCEPTED", N>>) /\ l' = l + 1
        /\ UNCHANGED <<reg, regpend, wsp, tok, inwake, wsure, noneInWake, sawNoTok, dead, mayfail, delivered, mounts, aborted, detached, cliIn, exited>>
Next == Step \/ Done
Spec == Init /\ [][Next]_vars
=============================================================================
