------------------------------- MODULE FuseWire -------------------------------
(* One FUSE request transaction at the A level (judge of C01, C02, C03; base of C12 and C20):
   Decode: which filesystem operation, with which arguments, a request denotes;
   Encode: which reply bytes a filesystem result denotes.
   Argument and result values are *expressions over the request fields* evaluated on a logged
   transaction (64-bit values travel as decimal strings, so equality is string equality). *)
EXTENDS FuseAbi, Bitwise, TLC

\* nested structures inside messages (the table has sizes only)
Nested == [
  fuse_entry_out |-> [attr |-> "fuse_attr"], fuse_attr_out |-> [attr |-> "fuse_attr"],
  fuse_lk_in |-> [lk |-> "fuse_file_lock"], fuse_lk_out |-> [lk |-> "fuse_file_lock"],
  fuse_statfs_out |-> [st |-> "fuse_kstatfs"], fuse_direntplus |-> [entry_out |-> "fuse_entry_out", dirent |-> "fuse_dirent"] ]
ASSUME \A s \in DOMAIN Nested : \A f \in DOMAIN Nested[s] : FieldRec(s, f).w = StructSize[Nested[s][f]]

(* ------------------------------------------------------------------------------------------ *)
(* argument expressions *)
Hd(f) == [k |-> "h", f |-> f]                                   \* header field
Fd(f) == [k |-> "f", f |-> f]                                   \* body field (dotted for nested: "lk.start")
Opt(ff, bits, f) == [k |-> "opt", ff |-> ff, bits |-> bits, f |-> f]   \* Some(f) iff a bit of `bits` is set in field ff
Bit(ff, b) == [k |-> "bit", ff |-> ff, b |-> b]                 \* boolean: bit b of field ff
Msk(f, m) == [k |-> "mask", f |-> f, m |-> m]                   \* f & m   (f < 2^31 in generated cases)
Nm(i) == [k |-> "name", i |-> i]                                \* i-th NUL-terminated string of the tail
Pay == [k |-> "pay"]                                            \* the payload bytes [len, sum]
Lit(s) == [k |-> "lit", v |-> s]
Lst == [k |-> "list"]                                           \* the list of trailing fixed-size records
Ino == Hd("nodeid")

SetattrMask == KConstN.FATTR_MODE + KConstN.FATTR_UID + KConstN.FATTR_GID + KConstN.FATTR_SIZE + KConstN.FATTR_ATIME
             + KConstN.FATTR_MTIME + KConstN.FATTR_ATIME_NOW + KConstN.FATTR_MTIME_NOW + KConstN.FATTR_CTIME + KConstN.FATTR_KILL_SUIDGID
RenameMask == 7   \* RENAME_NOREPLACE | RENAME_EXCHANGE | RENAME_WHITEOUT

\* stat64 built from fuse_setattr_in (FuseAbi!ConvTable.StatFromSetattr), as an argument record
StatArg == [k |-> "stat"]

LkArgs == [inode |-> Ino, handle |-> Fd("fh"), owner |-> Fd("owner"),
           lock |-> [k |-> "rec", r |-> [start |-> Fd("lk.start"), end |-> Fd("lk.end"), lock_type |-> Fd("lk.type"), pid |-> Fd("lk.pid")]],
           flags |-> Fd("lk_flags")]

NoArgs == [x \in {} |-> 0]
\* op |-> [code, body (request structure or ""), tail (what follows the structure), m (method; "none" = no
\*         filesystem operation), args]
OpTab == [
  LOOKUP   |-> [code |-> "FUSE_LOOKUP", body |-> "", tail |-> "names1", m |-> "lookup", args |-> [parent |-> Ino, name |-> Nm(1)]],
  FORGET   |-> [code |-> "FUSE_FORGET", body |-> "fuse_forget_in", tail |-> "", m |-> "forget", args |-> [inode |-> Ino, count |-> Fd("nlookup")]],
  GETATTR  |-> [code |-> "FUSE_GETATTR", body |-> "fuse_getattr_in", tail |-> "", m |-> "getattr",
                args |-> [inode |-> Ino, handle |-> Opt("getattr_flags", {"FUSE_GETATTR_FH"}, "fh")]],
  SETATTR  |-> [code |-> "FUSE_SETATTR", body |-> "fuse_setattr_in", tail |-> "", m |-> "setattr",
                args |-> [inode |-> Ino, attr |-> StatArg, handle |-> Opt("valid", {"FATTR_FH"}, "fh"), valid |-> Msk("valid", SetattrMask)]],
  READLINK |-> [code |-> "FUSE_READLINK", body |-> "", tail |-> "", m |-> "readlink", args |-> [inode |-> Ino]],
  SYMLINK  |-> [code |-> "FUSE_SYMLINK", body |-> "", tail |-> "names2", m |-> "symlink", args |-> [linkname |-> Nm(2), parent |-> Ino, name |-> Nm(1)]],
  MKNOD    |-> [code |-> "FUSE_MKNOD", body |-> "fuse_mknod_in", tail |-> "names1", m |-> "mknod",
                args |-> [inode |-> Ino, name |-> Nm(1), mode |-> Fd("mode"), rdev |-> Fd("rdev"), umask |-> Fd("umask")]],
  MKDIR    |-> [code |-> "FUSE_MKDIR", body |-> "fuse_mkdir_in", tail |-> "names1", m |-> "mkdir",
                args |-> [parent |-> Ino, name |-> Nm(1), mode |-> Fd("mode"), umask |-> Fd("umask")]],
  UNLINK   |-> [code |-> "FUSE_UNLINK", body |-> "", tail |-> "names1", m |-> "unlink", args |-> [parent |-> Ino, name |-> Nm(1)]],
  RMDIR    |-> [code |-> "FUSE_RMDIR", body |-> "", tail |-> "names1", m |-> "rmdir", args |-> [parent |-> Ino, name |-> Nm(1)]],
  RENAME   |-> [code |-> "FUSE_RENAME", body |-> "fuse_rename_in", tail |-> "names2", m |-> "rename",
                args |-> [olddir |-> Ino, oldname |-> Nm(1), newdir |-> Fd("newdir"), newname |-> Nm(2), flags |-> Lit("0")]],
  RENAME2  |-> [code |-> "FUSE_RENAME2", body |-> "fuse_rename2_in", tail |-> "names2", m |-> "rename",
                args |-> [olddir |-> Ino, oldname |-> Nm(1), newdir |-> Fd("newdir"), newname |-> Nm(2), flags |-> Msk("flags", RenameMask)]],
  LINK     |-> [code |-> "FUSE_LINK", body |-> "fuse_link_in", tail |-> "names1", m |-> "link",
                args |-> [inode |-> Fd("oldnodeid"), newparent |-> Ino, newname |-> Nm(1)]],
  OPEN     |-> [code |-> "FUSE_OPEN", body |-> "fuse_open_in", tail |-> "", m |-> "open",
                args |-> [inode |-> Ino, flags |-> Fd("flags"), fuse_flags |-> Fd("open_flags")]],
  READ     |-> [code |-> "FUSE_READ", body |-> "fuse_read_in", tail |-> "", m |-> "read",
                args |-> [inode |-> Ino, handle |-> Fd("fh"), size |-> Fd("size"), offset |-> Fd("offset"),
                          lock_owner |-> Opt("read_flags", {"FUSE_READ_LOCKOWNER"}, "lock_owner"), flags |-> Fd("flags")]],
  WRITE    |-> [code |-> "FUSE_WRITE", body |-> "fuse_write_in", tail |-> "payload", m |-> "write",
                args |-> [inode |-> Ino, handle |-> Fd("fh"), size |-> Fd("size"), offset |-> Fd("offset"),
                          lock_owner |-> Opt("write_flags", {"FUSE_WRITE_LOCKOWNER"}, "lock_owner"),
                          delayed_write |-> Bit("write_flags", "FUSE_WRITE_CACHE"), flags |-> Fd("flags"),
                          fuse_flags |-> Fd("write_flags"), data |-> Pay]],
  STATFS   |-> [code |-> "FUSE_STATFS", body |-> "", tail |-> "", m |-> "statfs", args |-> [inode |-> Ino]],
  RELEASE  |-> [code |-> "FUSE_RELEASE", body |-> "fuse_release_in", tail |-> "", m |-> "release",
                args |-> [inode |-> Ino, flags |-> Fd("flags"), handle |-> Fd("fh"), flush |-> Bit("release_flags", "FUSE_RELEASE_FLUSH"),
                          flock_release |-> Bit("release_flags", "FUSE_RELEASE_FLOCK_UNLOCK"),
                          lock_owner |-> Opt("release_flags", {"FUSE_RELEASE_FLUSH", "FUSE_RELEASE_FLOCK_UNLOCK"}, "lock_owner")]],
  FSYNC    |-> [code |-> "FUSE_FSYNC", body |-> "fuse_fsync_in", tail |-> "", m |-> "fsync",
                args |-> [inode |-> Ino, datasync |-> Bit("fsync_flags", "FUSE_FSYNC_FDATASYNC"), handle |-> Fd("fh")]],
  SETXATTR |-> [code |-> "FUSE_SETXATTR", body |-> "fuse_setxattr_in", tail |-> "name+payload", m |-> "setxattr",
                args |-> [inode |-> Ino, name |-> Nm(1), value |-> Pay, flags |-> Fd("flags")]],
  GETXATTR |-> [code |-> "FUSE_GETXATTR", body |-> "fuse_getxattr_in", tail |-> "names1", m |-> "getxattr",
                args |-> [inode |-> Ino, name |-> Nm(1), size |-> Fd("size")]],
  LISTXATTR |-> [code |-> "FUSE_LISTXATTR", body |-> "fuse_getxattr_in", tail |-> "", m |-> "listxattr", args |-> [inode |-> Ino, size |-> Fd("size")]],
  REMOVEXATTR |-> [code |-> "FUSE_REMOVEXATTR", body |-> "", tail |-> "names1", m |-> "removexattr", args |-> [inode |-> Ino, name |-> Nm(1)]],
  FLUSH    |-> [code |-> "FUSE_FLUSH", body |-> "fuse_flush_in", tail |-> "", m |-> "flush",
                args |-> [inode |-> Ino, handle |-> Fd("fh"), lock_owner |-> Fd("lock_owner")]],
  OPENDIR  |-> [code |-> "FUSE_OPENDIR", body |-> "fuse_open_in", tail |-> "", m |-> "opendir", args |-> [inode |-> Ino, flags |-> Fd("flags")]],
  READDIR  |-> [code |-> "FUSE_READDIR", body |-> "fuse_read_in", tail |-> "", m |-> "readdir",
                args |-> [inode |-> Ino, handle |-> Fd("fh"), size |-> Fd("size"), offset |-> Fd("offset")]],
  READDIRPLUS |-> [code |-> "FUSE_READDIRPLUS", body |-> "fuse_read_in", tail |-> "", m |-> "readdirplus",
                args |-> [inode |-> Ino, handle |-> Fd("fh"), size |-> Fd("size"), offset |-> Fd("offset")]],
  RELEASEDIR |-> [code |-> "FUSE_RELEASEDIR", body |-> "fuse_release_in", tail |-> "", m |-> "releasedir",
                args |-> [inode |-> Ino, flags |-> Fd("flags"), handle |-> Fd("fh")]],
  FSYNCDIR |-> [code |-> "FUSE_FSYNCDIR", body |-> "fuse_fsync_in", tail |-> "", m |-> "fsyncdir",
                args |-> [inode |-> Ino, datasync |-> Bit("fsync_flags", "FUSE_FSYNC_FDATASYNC"), handle |-> Fd("fh")]],
  GETLK    |-> [code |-> "FUSE_GETLK", body |-> "fuse_lk_in", tail |-> "", m |-> "getlk", args |-> LkArgs],
  SETLK    |-> [code |-> "FUSE_SETLK", body |-> "fuse_lk_in", tail |-> "", m |-> "setlk", args |-> LkArgs],
  SETLKW   |-> [code |-> "FUSE_SETLKW", body |-> "fuse_lk_in", tail |-> "", m |-> "setlkw", args |-> LkArgs],
  ACCESS   |-> [code |-> "FUSE_ACCESS", body |-> "fuse_access_in", tail |-> "", m |-> "access", args |-> [inode |-> Ino, mask |-> Fd("mask")]],
  CREATE   |-> [code |-> "FUSE_CREATE", body |-> "fuse_create_in", tail |-> "names1", m |-> "create",
                args |-> [parent |-> Ino, name |-> Nm(1),
                          args |-> [k |-> "rec", r |-> [flags |-> Fd("flags"), mode |-> Fd("mode"), umask |-> Fd("umask"), fuse_flags |-> Fd("open_flags")]]]],
  INTERRUPT |-> [code |-> "FUSE_INTERRUPT", body |-> "fuse_interrupt_in", tail |-> "", m |-> "none", args |-> NoArgs],
  BMAP     |-> [code |-> "FUSE_BMAP", body |-> "fuse_bmap_in", tail |-> "", m |-> "bmap",
                args |-> [inode |-> Ino, block |-> Fd("block"), blocksize |-> Fd("blocksize")]],
  DESTROY  |-> [code |-> "FUSE_DESTROY", body |-> "", tail |-> "", m |-> "destroy", args |-> NoArgs],
  IOCTL    |-> [code |-> "FUSE_IOCTL", body |-> "fuse_ioctl_in", tail |-> "payload", m |-> "ioctl",
                args |-> [inode |-> Ino, handle |-> Fd("fh"), flags |-> Fd("flags"), cmd |-> Fd("cmd"), data |-> Pay, out_size |-> Fd("out_size")]],
  POLL     |-> [code |-> "FUSE_POLL", body |-> "fuse_poll_in", tail |-> "", m |-> "poll",
                args |-> [inode |-> Ino, handle |-> Fd("fh"), khandle |-> Fd("kh"), flags |-> Fd("flags"), events |-> Fd("events")]],
  NOTIFY_REPLY |-> [code |-> "FUSE_NOTIFY_REPLY", body |-> "", tail |-> "", m |-> "notify_reply", args |-> NoArgs],
  BATCH_FORGET |-> [code |-> "FUSE_BATCH_FORGET", body |-> "fuse_batch_forget_in", tail |-> "list:fuse_forget_one", m |-> "batch_forget",
                args |-> [requests |-> Lst]],
  FALLOCATE |-> [code |-> "FUSE_FALLOCATE", body |-> "fuse_fallocate_in", tail |-> "", m |-> "fallocate",
                args |-> [inode |-> Ino, handle |-> Fd("fh"), mode |-> Fd("mode"), offset |-> Fd("offset"), length |-> Fd("length")]],
  LSEEK    |-> [code |-> "FUSE_LSEEK", body |-> "fuse_lseek_in", tail |-> "", m |-> "lseek",
                args |-> [inode |-> Ino, handle |-> Fd("fh"), offset |-> Fd("offset"), whence |-> Fd("whence")]],
  \* the library does not implement COPY_FILE_RANGE: no filesystem operation (answered ENOSYS)
  COPY_FILE_RANGE |-> [code |-> "FUSE_COPY_FILE_RANGE", body |-> "fuse_copy_file_range_in", tail |-> "", m |-> "none", args |-> NoArgs],
  SETUPMAPPING |-> [code |-> "FUSE_SETUPMAPPING", body |-> "fuse_setupmapping_in", tail |-> "", m |-> "setupmapping",
                args |-> [inode |-> Ino, handle |-> Fd("fh"), foffset |-> Fd("foffset"), len |-> Fd("len"), flags |-> Fd("flags"), moffset |-> Fd("moffset")]],
  REMOVEMAPPING |-> [code |-> "FUSE_REMOVEMAPPING", body |-> "fuse_removemapping_in", tail |-> "list:fuse_removemapping_one", m |-> "removemapping",
                args |-> [requests |-> Lst]] ]
Ops == DOMAIN OpTab
ASSUME \A o \in Ops : OpTab[o].code \in SupportedOpNames /\ (OpTab[o].body = "" \/ OpTab[o].body \in Structs)
\* INIT is the one supported opcode decided elsewhere (C12)
ASSUME {OpTab[o].code : o \in Ops} \cup {"FUSE_INIT"} = SupportedOpNames
NoReplyOps == {"FORGET", "BATCH_FORGET", "INTERRUPT", "NOTIFY_REPLY"}
\* flag fields whose bits Decode inspects (the generator enumerates all subsets of these)
FlagBits == [
  GETATTR |-> [ff |-> "getattr_flags", bits |-> {"FUSE_GETATTR_FH"}],
  SETATTR |-> [ff |-> "valid", bits |-> {"FATTR_FH", "FATTR_LOCKOWNER", "FATTR_SIZE", "FATTR_MODE"}],
  READ |-> [ff |-> "read_flags", bits |-> {"FUSE_READ_LOCKOWNER"}],
  WRITE |-> [ff |-> "write_flags", bits |-> {"FUSE_WRITE_CACHE", "FUSE_WRITE_LOCKOWNER", "FUSE_WRITE_KILL_SUIDGID"}],
  RELEASE |-> [ff |-> "release_flags", bits |-> {"FUSE_RELEASE_FLUSH", "FUSE_RELEASE_FLOCK_UNLOCK"}],
  FSYNC |-> [ff |-> "fsync_flags", bits |-> {"FUSE_FSYNC_FDATASYNC"}],
  FSYNCDIR |-> [ff |-> "fsync_flags", bits |-> {"FUSE_FSYNC_FDATASYNC"}] ]
\* fields evaluated numerically (generated below 2^31)
NumFields == [SETATTR |-> {"valid"}, RENAME2 |-> {"flags"}]

\* lint: every non-padding request field is consumed by Decode or listed as ignored
Ignored == [o \in Ops |->
  CASE o = "GETATTR" -> {"dummy"} [] o = "SETATTR" -> {"padding", "lock_owner", "unused4", "unused5"}
    [] o = "MKNOD" -> {"padding"} [] o = "RENAME2" -> {"padding"} [] o = "READ" -> {"padding"} [] o = "WRITE" -> {"padding"}
    [] o \in {"FSYNC", "FSYNCDIR"} -> {"padding"} [] o = "GETXATTR" -> {"padding"} [] o = "LISTXATTR" -> {"padding"}
    [] o = "FLUSH" -> {"unused", "padding"} [] o = "OPENDIR" -> {"open_flags"} [] o \in {"READDIR", "READDIRPLUS"} -> {"read_flags", "lock_owner", "flags", "padding"}
    [] o = "RELEASEDIR" -> {"release_flags", "lock_owner"} [] o \in {"GETLK", "SETLK", "SETLKW"} -> {"padding"}
    [] o = "ACCESS" -> {"padding"} [] o = "INTERRUPT" -> {"unique"} [] o = "BMAP" -> {"padding"}
    [] o = "IOCTL" -> {"arg", "in_size"} [] o = "BATCH_FORGET" -> {"count", "dummy"} [] o = "FALLOCATE" -> {"padding"}
    [] o = "LSEEK" -> {"padding"} [] o = "REMOVEMAPPING" -> {"count"}
    [] o = "SETXATTR" -> {"size"}     \* the value length: must equal the payload length (part of well-formedness)
    [] o = "COPY_FILE_RANGE" -> {"fh_in", "off_in", "nodeid_out", "fh_out", "off_out", "len", "flags"}
    [] OTHER -> {}]
RECURSIVE ExprFields(_)
ExprFields(e) ==
  CASE e.k = "f" -> {e.f} [] e.k = "opt" -> {e.ff, e.f} [] e.k = "bit" -> {e.ff} [] e.k = "mask" -> {e.f}
    [] e.k = "rec" -> UNION {ExprFields(e.r[a]) : a \in DOMAIN e.r}
    [] e.k = "stat" -> {"size", "atime", "mtime", "ctime", "atimensec", "mtimensec", "ctimensec", "mode", "uid", "gid"}
    [] OTHER -> {}
\* a dotted name consumes the nested field it lives in
DotTop(f) == CASE f \in {"lk.start", "lk.end", "lk.type", "lk.pid"} -> "lk" [] OTHER -> f
Consumed(o) == {DotTop(f) : f \in UNION {ExprFields(OpTab[o].args[a]) : a \in DOMAIN OpTab[o].args}}
Covers(o) == \A f \in LibFields(OpTab[o].body) : f \in Ignored[o] \/ LibName(OpTab[o].body, f) \in Ignored[o] \/ f \in Consumed(o)
Uses(o) == \A f \in Consumed(o) : f \in Fields(OpTab[o].body)
ASSUME \A o \in Ops : OpTab[o].body = "" \/ (Covers(o) /\ Uses(o))

(* ------------------------------------------------------------------------------------------ *)
(* evaluation of an argument expression on a logged request  r = [h, f, bits, num, names, pay, list] *)
BitSet(r, ff, b) == b \in {r.bits[ff][i] : i \in 1..Len(r.bits[ff])}
StatOf(r) == [st_mode |-> r.f.mode, st_uid |-> r.f.uid, st_gid |-> r.f.gid, st_size |-> r.f.size,
              st_atime |-> r.f.atime, st_mtime |-> r.f.mtime, st_ctime |-> r.f.ctime,
              st_atime_nsec |-> r.f.atimensec, st_mtime_nsec |-> r.f.mtimensec, st_ctime_nsec |-> r.f.ctimensec,
              st_ino |-> "0", st_blocks |-> "0", st_nlink |-> "0", st_rdev |-> "0", st_blksize |-> "0", st_dev |-> "0"]
RECURSIVE Eval(_, _)
Eval(e, r) ==
  CASE e.k = "h" -> r.h[e.f]
    [] e.k = "f" -> r.f[e.f]
    [] e.k = "opt" -> IF \E b \in e.bits : BitSet(r, e.ff, b) THEN <<"some", r.f[e.f]>> ELSE <<"none">>
    [] e.k = "bit" -> BitSet(r, e.ff, e.b)
    [] e.k = "mask" -> ToString(r.num[e.f] & e.m)
    [] e.k = "name" -> r.names[e.i]
    [] e.k = "pay" -> r.pay
    [] e.k = "lit" -> e.v
    [] e.k = "list" -> r.list
    [] e.k = "stat" -> StatOf(r)
    [] e.k = "rec" -> [a \in DOMAIN e.r |-> Eval(e.r[a], r)]
Decode(o, r) == [m |-> OpTab[o].m, args |-> [a \in DOMAIN OpTab[o].args |-> Eval(OpTab[o].args[a], r)]]

(* ------------------------------------------------------------------------------------------ *)
(* Encode: reply body as a flat map "struct.field" |-> expression over the filesystem result v.
   Result kinds: entry, attr, bytes, open, count, statfs, xcount, lock, u64, ioctl, u32, unit, create, dirents *)
AttrFields == {"ino","size","blocks","atime","mtime","ctime","atimensec","mtimensec","ctimensec","mode","nlink","uid","gid","rdev","blksize"}
AttrOf(pfx, st, flags) == [k \in {pfx \o f : f \in AttrFields \cup {"flags"}} |->
     LET f == CHOOSE g \in AttrFields \cup {"flags"} : pfx \o g = k IN
     IF f = "flags" THEN flags ELSE st[ConvTable.AttrWithFlags[f]]]
EntryOutOf(e) ==
  [k \in {"fuse_entry_out.nodeid", "fuse_entry_out.generation", "fuse_entry_out.entry_valid", "fuse_entry_out.attr_valid",
          "fuse_entry_out.entry_valid_nsec", "fuse_entry_out.attr_valid_nsec"} |->
     CASE k = "fuse_entry_out.nodeid" -> e.inode [] k = "fuse_entry_out.generation" -> e.generation
       [] k = "fuse_entry_out.entry_valid" -> e.entry_timeout.s [] k = "fuse_entry_out.attr_valid" -> e.attr_timeout.s
       [] k = "fuse_entry_out.entry_valid_nsec" -> e.entry_timeout.ns [] OTHER -> e.attr_timeout.ns]
  @@ AttrOf("fuse_entry_out.attr.", e.attr, e.attr_flags)
OpenOutOf(v, withpt) == [k \in {"fuse_open_out.fh", "fuse_open_out.open_flags", "fuse_open_out.padding"} |->
     CASE k = "fuse_open_out.fh" -> (IF v.handle[1] = "some" THEN v.handle[2] ELSE "0")
       [] k = "fuse_open_out.open_flags" -> v.opts
       [] OTHER -> (IF withpt /\ v.passthrough[1] = "some" THEN v.passthrough[2] ELSE "0")]
\* body of the reply to op o for a successful result v of kind v.kind (payload handled separately)
EncodeBody(o, v) ==
  CASE v.kind = "entry" -> EntryOutOf(v)
    [] v.kind = "create" -> EntryOutOf(v.entry) @@ OpenOutOf(v, TRUE)
    [] v.kind = "attr" -> [k \in {"fuse_attr_out.attr_valid", "fuse_attr_out.attr_valid_nsec", "fuse_attr_out.dummy"} |->
                              CASE k = "fuse_attr_out.attr_valid" -> v.timeout.s [] k = "fuse_attr_out.attr_valid_nsec" -> v.timeout.ns [] OTHER -> "0"]
                          @@ AttrOf("fuse_attr_out.attr.", v.attr, "0")
    [] v.kind = "open" -> OpenOutOf(v, o = "OPEN")
    [] v.kind = "count" -> [k \in {"fuse_write_out.size", "fuse_write_out.padding"} |-> IF k = "fuse_write_out.size" THEN v.count ELSE "0"]
    [] v.kind = "statfs" -> [k \in {"fuse_statfs_out.st." \o f : f \in DOMAIN ConvTable.KstatfsFromStatvfs} |->
                               LET f == CHOOSE g \in DOMAIN ConvTable.KstatfsFromStatvfs : "fuse_statfs_out.st." \o g = k IN
                               IF ConvTable.KstatfsFromStatvfs[f] = "zero" THEN "0" ELSE v.st[ConvTable.KstatfsFromStatvfs[f]]]
    [] v.kind = "xcount" -> [k \in {"fuse_getxattr_out.size", "fuse_getxattr_out.padding"} |-> IF k = "fuse_getxattr_out.size" THEN v.count ELSE "0"]
    [] v.kind = "lock" -> [k \in {"fuse_lk_out.lk.start", "fuse_lk_out.lk.end", "fuse_lk_out.lk.type", "fuse_lk_out.lk.pid"} |->
                              CASE k = "fuse_lk_out.lk.start" -> v.lock.start [] k = "fuse_lk_out.lk.end" -> v.lock["end"]
                                [] k = "fuse_lk_out.lk.type" -> v.lock.lock_type [] OTHER -> v.lock.pid]
    [] v.kind = "bmap" -> [k \in {"fuse_bmap_out.block"} |-> v.val]
    [] v.kind = "lseek" -> [k \in {"fuse_lseek_out.offset"} |-> v.val]
    [] v.kind = "poll" -> [k \in {"fuse_poll_out.revents", "fuse_poll_out.padding"} |-> IF k = "fuse_poll_out.revents" THEN v.val ELSE "0"]
    [] v.kind = "ioctl" -> [k \in {"fuse_ioctl_out.result", "fuse_ioctl_out.flags", "fuse_ioctl_out.in_iovs", "fuse_ioctl_out.out_iovs"} |->
                              IF k = "fuse_ioctl_out.result" THEN v.result ELSE "0"]
    [] OTHER -> NoArgs      \* unit, bytes, dirents: no fixed structure
\* the reply structures, in order, for result kind (exported to the harness so that it decodes by
\* the kernel's definition, not by the crate's types)
ReplyShape == [entry |-> <<"fuse_entry_out">>, create |-> <<"fuse_entry_out", "fuse_open_out">>, attr |-> <<"fuse_attr_out">>,
               open |-> <<"fuse_open_out">>, count |-> <<"fuse_write_out">>, statfs |-> <<"fuse_statfs_out">>, xcount |-> <<"fuse_getxattr_out">>,
               lock |-> <<"fuse_lk_out">>, bmap |-> <<"fuse_bmap_out">>, lseek |-> <<"fuse_lseek_out">>, poll |-> <<"fuse_poll_out">>,
               ioctl |-> <<"fuse_ioctl_out">>, unit |-> <<>>, bytes |-> <<>>, dirents |-> <<>>, err |-> <<>>]
\* which result kinds an operation can produce
ResultKinds == [o \in Ops |->
  CASE o \in {"LOOKUP", "SYMLINK", "MKNOD", "MKDIR", "LINK"} -> {"entry"} [] o = "CREATE" -> {"create"}
    [] o \in {"GETATTR", "SETATTR"} -> {"attr"} [] o \in {"READLINK", "READ"} -> {"bytes"} [] o \in {"OPEN", "OPENDIR"} -> {"open"}
    [] o = "WRITE" -> {"count"} [] o = "STATFS" -> {"statfs"} [] o \in {"GETXATTR", "LISTXATTR"} -> {"bytes", "xcount"}
    [] o = "GETLK" -> {"lock"} [] o = "BMAP" -> {"bmap"} [] o = "LSEEK" -> {"lseek"} [] o = "POLL" -> {"poll"} [] o = "IOCTL" -> {"ioctl"}
    [] o \in {"READDIR", "READDIRPLUS"} -> {"dirents"}
    [] OTHER -> {"unit"}]

\* errors: OS errors are sent as the negated errno; other kinds by the table
ErrKind == [NotFound |-> {2}, AlreadyExists |-> {17}, WouldBlock |-> {11}, Interrupted |-> {4}, PermissionDenied |-> {1, 13}]
ErrnoOf(e) == IF e.os # 0 THEN {e.os} ELSE IF e.kind \in DOMAIN ErrKind THEN ErrKind[e.kind] ELSE {5}

\* directory packing
Align8(n) == ((n + 7) \div 8) * 8
PackedSize(namelen, plus) == Align8(StructSize["fuse_dirent"] + namelen) + (IF plus THEN StructSize["fuse_entry_out"] ELSE 0)
=============================================================================
