------------------------------ MODULE Trace_Passthrough ------------------------------
(* Trace specification of the engine `pttree` (C05, C06, C18): judges the NDJSON log written by
   harness/src/bin/pttree.  Every `Step` event carries the request, the answer of the real
   passthrough (`pt`), the answer of the same request executed with plain system calls on a shadow
   copy of the tree (`host`), the changed digest rows of both exports and of the sentinel around
   them, and the serving thread's credentials.

   Monitor mode: a failed obligation prints <<"VIOL", signature, index, detail>> and validation goes on.
     CAL|...   the shadow's own trace is not a behaviour of HostFs  => calibration failure (exit 2)
     C05|<op>|<what>...                      Mirror (reply = host result, tree = host tree), owner, creds
     C06|<op>|<what>...                      NameGate, Contained, OutsideFrozen, RootDotDot
     C18|<op>|<flags-class>|<what>...        Sealed
   A signature gets the suffix |tainted:<id> once the segment went through a known finding
   (PtKnown below), so that known findings are matched narrowly and anything else still fires. *)
EXTENDS Passthrough, Json, IOUtils
\* the log is parsed once (an ASSUME fills TLC register 7, inherited by the worker)
ASSUME TLCSet(7, ndJsonDeserialize(IOEnv.TRACE))
Rec == TLCGet(7)

VARIABLES l, S, hrows, X, pre, outs, creds0, sync, cal, taint
vars == <<l, S, hrows, X, pre, outs, creds0, sync, cal, taint>>

Has(r, k) == k \in DOMAIN r
RECURSIVE JoinSet(_)
JoinSet(s) == IF s = {} THEN "" ELSE LET x == CHOOSE y \in s : TRUE IN x \o (IF s = {x} THEN "" ELSE ",") \o JoinSet(s \ {x})
Sig(s) == IF taint = {} THEN s ELSE s \o "|tainted:" \o JoinSet(taint)
Chk(ok, sig, detail) == IF ok THEN TRUE ELSE PrintT(<<"VIOL", Sig(sig), l, detail>>)
Cal(ok, sig, detail) == IF ok THEN TRUE ELSE PrintT(<<"VIOL", "CAL|" \o sig, l, detail>>)
SeqSet(s) == {s[k] : k \in DOMAIN s}

(* ---------------- building the model state from the shadow's initial digest ---------------- *)
XaOf(x) == [k \in DOMAIN x |-> x[k]]
InoOfRow(w) == [t |-> w.t, perm |-> w.perm, uid |-> w.uid, gid |-> w.gid, data |-> w.data, size |-> IF w.t = "lnk" THEN w.size ELSE 0,
                tgt |-> w.tgt, nlink |-> w.nlink, xa |-> XaOf(w.xa), rdev |-> w.rdev,
                par |-> IF w.t = "dir" THEN (IF w.par = 0 THEN w.id ELSE w.par) ELSE 0]
StateOf(rows) ==
  LET ids == {rows[k].id : k \in DOMAIN rows}
      rowOf(i) == rows[CHOOSE k \in DOMAIN rows : rows[k].id = i]
      dirs == {i \in ids : rowOf(i).t = "dir"}
      kids(d) == {k \in DOMAIN rows : rows[k].par = d}
      root == rows[CHOOSE k \in DOMAIN rows : rows[k].par = 0].id
  IN [ino |-> [i \in ids |-> InoOfRow(rowOf(i))],
      dent |-> [d \in dirs |-> [n \in {rows[k].name : k \in kids(d)} |-> rows[CHOOSE k \in kids(d) : rows[k].name = n].id]],
      of |-> (0 :> [i |-> root, acc |-> "PATH", app |-> FALSE, pos |-> 0])]
RootOf(rows) == rows[CHOOSE k \in DOMAIN rows : rows[k].par = 0].id
RowMap(rows) == [p \in {rows[k].p : k \in DOMAIN rows} |-> rows[CHOOSE k \in DOMAIN rows : rows[k].p = p]]
Apply(m, ch, rm) == LET gone == SeqSet(rm)  new == RowMap(ch)
                    IN [p \in (DOMAIN m \ gone) \cup DOMAIN new |-> IF p \in DOMAIN new THEN new[p] ELSE m[p]]
Empty == [ino |-> <<>>, dent |-> <<>>, of |-> <<>>]

(* ---------------- model state against the shadow's digest ---------------- *)
RowProj(T, i) == LET n == T.ino[i] IN
  [t |-> n.t, perm |-> n.perm, uid |-> n.uid, gid |-> n.gid, size |-> SizeOf(n), nlink |-> n.nlink,
   tgt |-> IF n.t = "lnk" THEN n.tgt ELSE "", data |-> IF n.t = "reg" THEN n.data ELSE <<>>, xa |-> n.xa, rdev |-> n.rdev]
RowFields(w) == [t |-> w.t, perm |-> w.perm, uid |-> w.uid, gid |-> w.gid, size |-> w.size, nlink |-> w.nlink,
                 tgt |-> w.tgt, data |-> w.data, xa |-> XaOf(w.xa), rdev |-> w.rdev]
RECURSIVE SumNames(_, _)
SumNames(T, ds) == IF ds = {} THEN 0 ELSE LET d == CHOOSE x \in ds : TRUE IN Cardinality(DOMAIN T.dent[d]) + SumNames(T, ds \ {d})
NoSize(x) == [x EXCEPT !.size = 0, !.data = <<>>]
BadRows(T, m) == {p \in DOMAIN m : LET w == m[p] IN
    ~(/\ w.id \in Ids(T)
      /\ IF w.id \in X.big THEN NoSize(RowProj(T, w.id)) = NoSize(RowFields(w)) ELSE RowProj(T, w.id) = RowFields(w)
      /\ (w.par = 0 \/ (w.par \in DOMAIN T.dent /\ w.name \in DOMAIN T.dent[w.par] /\ T.dent[w.par][w.name] = w.id)))}
ModelMatches(T, m) == BadRows(T, m) = {} /\ SumNames(T, DOMAIN T.dent) = Cardinality(DOMAIN m) - 1

(* ---------------- known findings as predicates over the request and the A-level state ---------------- *)
\* the findings whose effects cascade into later steps of the same history (descriptor closed behind a
\* handle; trees out of step after a request that should have succeeded)
PtKnown(q, p, h) == {}       \* none at present: every finding of this engine is fixed in /repo (see known_findings.json, "fixed")

(* ---------------- comparison of answers ---------------- *)
AttrEq(a, b) == a.t = b.t /\ a.perm = b.perm /\ a.uid = b.uid /\ a.gid = b.gid /\ a.size = b.size /\ a.nlink = b.nlink /\ a.rdev = b.rdev
                /\ (a.id = -2 \/ b.id = -2 \/ a.id = b.id)
RetKeys == {"data", "tgt", "n", "pos", "val", "names", "statfs"}
FieldsEq(p, h) == /\ \A k \in RetKeys : (Has(p, k) <=> Has(h, k)) /\ (Has(p, k) /\ Has(h, k) => p[k] = h[k])
                  /\ (Has(p, "attr") <=> Has(h, "attr"))
                  /\ (Has(p, "attr") /\ Has(h, "attr") => AttrEq(p.attr, h.attr))
\* which parts of two successful answers differ (for narrow signatures)
AttrKeys == <<"t", "perm", "uid", "gid", "size", "nlink", "rdev", "id">>
RECURSIVE DiffAttr(_, _, _)
DiffAttr(a, b, k) == IF k > Len(AttrKeys) THEN "" ELSE
   (IF a[AttrKeys[k]] # b[AttrKeys[k]] /\ ~(AttrKeys[k] = "id" /\ (a.id = -2 \/ b.id = -2)) THEN "," \o AttrKeys[k] ELSE "") \o DiffAttr(a, b, k + 1)
ReplyDiff(p, h) == (IF Has(p, "attr") /\ Has(h, "attr") THEN "attr" \o DiffAttr(p.attr, h.attr, 1) ELSE IF Has(p, "attr") # Has(h, "attr") THEN "attr?" ELSE "")
                   \o (IF \E k \in RetKeys : (Has(p, k) # Has(h, k)) \/ (Has(p, k) /\ Has(h, k) /\ p[k] # h[k]) THEN ",value" ELSE "")
TreeEq(p, h) == SeqSet(p.ch) = SeqSet(h.ch) /\ SeqSet(p.rm) = SeqSet(h.rm)
NoEffect(p) == p.ch = <<>> /\ p.rm = <<>>
\* status agreement: success on both sides or failure on both; the errno only where HostFs pins it
StEq(p, h, e) == IF p.st = "OK" \/ h.st = "OK" THEN p.st = h.st
                 ELSE (Cardinality(e.errs) # 1 \/ p.st = h.st \/ p.st \in e.errs)
\* what the model returns against what the shadow logged
RetMatches(ret, h) ==
  /\ (Has(ret, "t") => Has(h, "attr") /\ (IF ret.id \in X.big THEN [h.attr EXCEPT !.size = 0] = [ret EXCEPT !.size = 0] ELSE h.attr = ret))
  /\ (Has(ret, "data") => Has(h, "data") /\ h.data = ret.data)
  /\ (Has(ret, "tgt") => Has(h, "tgt") /\ h.tgt = ret.tgt)
  /\ (Has(ret, "n") => Has(h, "n") /\ h.n = ret.n)
  /\ (Has(ret, "pos") => Has(h, "pos") /\ h.pos = ret.pos)
  /\ (Has(ret, "val") => Has(h, "val") /\ h.val = ret.val)
  /\ (Has(ret, "names") => Has(h, "names") /\ SeqSet(h.names) = ret.names)
GateTag(e) == IF e.why = "special" THEN "special" ELSE CHOOSE x \in e.errs : TRUE
Ctx(q) == (IF X.ifh THEN "ifh" ELSE "fd") \o "," \o (IF q.uid # 0 THEN "nonroot" ELSE IF q.gid # 0 THEN "root-othergroup" ELSE "root") \o (IF X.via = "direct" THEN "" ELSE "," \o X.via)
Creating == {"mkdir", "mknod", "symlink", "create"}
\* times are compared only where the request set them explicitly (ATIME without ATIME_NOW, MTIME without MTIME_NOW),
\* seconds and nanoseconds, in the reply and in the file as the walk right after the step found it
ExplA(q) == q.op = "setattr" /\ "ATIME" \in SeqSet(q.valid) /\ "ATIME_NOW" \notin SeqSet(q.valid)
ExplM(q) == q.op = "setattr" /\ "MTIME" \in SeqSet(q.valid) /\ "MTIME_NOW" \notin SeqSet(q.valid)
TimesAsSet(q, t) == /\ (ExplA(q) => t.atime = ToString(q.attr.atime) /\ t.atime_ns = q.attr.atime_ns)
                    /\ (ExplM(q) => t.mtime = ToString(q.attr.mtime) /\ t.mtime_ns = q.attr.mtime_ns)
\* a time the request leaves alone (neither set nor *_NOW) keeps its value: judged through the shadow (same before, so same after)
TimesWhat(q, t) == (IF ExplA(q) /\ ~(t.atime = ToString(q.attr.atime) /\ t.atime_ns = q.attr.atime_ns) THEN "atime" ELSE "")
                   \o (IF ExplM(q) /\ ~(t.mtime = ToString(q.attr.mtime) /\ t.mtime_ns = q.attr.mtime_ns) THEN "mtime" ELSE "")

(* ---------------- one step ---------------- *)
StepJudge(r) ==
  LET q == r.op  p == r.pt  h == r.host
      nid == IF Has(h, "attr") THEN h.attr.id ELSE -5
      e == Expect(S, X, q, r.nslot, r.hslot, nid)
      hm == Apply(hrows, h.ch, h.rm)
      cls == Class(q, r.cur)
      pfx == "C18|" \o q.op \o "|" \o cls \o "|"
      \* --- calibration of the shadow against HostFs
      calOK == IF h.skipped THEN TRUE
               ELSE CASE e.kind = "noslot" -> h.st = "NOSLOT"
                      [] e.kind = "gate" -> h.gated /\ h.st = GateTag(e) /\ NoEffect(h)
                      [] e.kind = "free" -> ~h.gated
                      [] OTHER -> /\ ~h.gated
                                  /\ (e.ok <=> h.st = "OK")
                                  /\ (~e.ok => (e.errs = {} \/ h.st \in e.errs))
                                  /\ (e.ok => RetMatches(e.ret, h))
                                  /\ ModelMatches(e.S, hm)
      hostOutOK == h.och = <<>> /\ h.orm = <<>>
      \* --- mirror
      mirrorOn == cal /\ sync /\ e.kind # "noslot" /\ p.st # "NOSLOT" /\ ~h.skipped
      stOK == IF e.kind = "gate" THEN p.st # "OK" /\ (e.errs = {} \/ p.st \in e.errs) ELSE StEq(p, h, e)
      fieldsOK == e.kind = "gate" \/ p.st # "OK" \/ h.st # "OK" \/ FieldsEq(p, h)
      treeOK == IF e.kind = "gate" THEN NoEffect(p) ELSE TreeEq(p, h)
      neutral == r.neutral
      kf == PtKnown(q, p, h)
  IN
  /\ TRUE = (
      \* calibration
      /\ Cal(~cal \/ calOK, q.op \o "|" \o e.kind, [op |-> q, host |-> [x \in DOMAIN h \ {"ch", "rm", "och", "orm"} |-> h[x]], exp |-> [ok |-> e.ok, errs |-> e.errs, ret |-> e.ret, why |-> e.why],
                                              bad |-> IF e.kind = "host" THEN BadRows(e.S, hm) ELSE {}, ch |-> h.ch])
      /\ Cal(hostOutOK, q.op \o "|shadow-touched-outside", h.och)
      /\ Cal(~X.seal \/ neutral = Neutral(q, r.cur), q.op \o "|neutral-class", <<q, r.cur>>)
      \* C05: Mirror (not judged on a sealed export: there C18 rules (2)/(3) decide)
      /\ X.seal \/ ~mirrorOn \/
           /\ e.kind # "gate" \/ e.why = "name" \/ Chk(stOK, "C05|" \o q.op \o "|gate-" \o e.why \o "|" \o p.st, <<q, p.st>>)
           /\ e.kind # "gate" \/ e.why = "name" \/ Chk(treeOK, "C05|" \o q.op \o "|gate-" \o e.why \o "|effect", p.ch)
           /\ e.kind = "gate" \/ Chk(stOK, "C05|" \o q.op \o "|status|" \o Ctx(q) \o "|" \o p.st \o "/" \o h.st, <<q, e.errs>>)
           /\ e.kind = "gate" \/ ~stOK \/ Chk(fieldsOK, "C05|" \o q.op \o "|reply|" \o ReplyDiff(p, h) \o "|" \o cls, <<q, [x \in DOMAIN p \ {"ch", "rm", "och", "orm"} |-> p[x]], [x \in DOMAIN h \ {"ch", "rm", "och", "orm"} |-> h[x]]>>)
           /\ e.kind = "gate" \/ ~stOK \/ Chk(treeOK, "C05|" \o q.op \o "|tree", <<q, p.ch, h.ch, p.rm, h.rm>>)
      \* ownership of objects CREATED by the request (not of an existing file that CREATE merely opened)
      /\ ~(q.op \in Creating /\ p.st = "OK" /\ (q.uid # 0 \/ q.gid # 0) /\ Has(p, "attr") /\ cal /\ Has(h, "attr") /\ h.attr.id \notin Ids(S)) \/ Chk(p.attr.uid = q.uid /\ p.attr.gid = q.gid, "C05|" \o q.op \o "|owner", <<q, p.attr>>)
      /\ ~((ExplA(q) \/ ExplM(q)) /\ h.st = "OK" /\ Has(h, "times")) \/ Cal(TimesAsSet(q, h.times) /\ (~Has(h, "ftimes") \/ TimesAsSet(q, h.ftimes)), "setattr|times", <<q.attr, h.times>>)
      /\ ~((ExplA(q) \/ ExplM(q)) /\ p.st = "OK" /\ Has(p, "times")) \/
           /\ Chk(TimesAsSet(q, p.times), "C05|setattr|times|reply|" \o TimesWhat(q, p.times) \o "|" \o cls, <<q.attr, p.times>>)
           /\ ~Has(p, "ftimes") \/ Chk(TimesAsSet(q, p.ftimes), "C05|setattr|times|file|" \o TimesWhat(q, p.ftimes) \o "|" \o cls, <<q.attr, p.ftimes>>)
      /\ Chk(r.creds = creds0, "C05|" \o q.op \o "|creds", <<r.creds, creds0>>)
      /\ Chk(p.st # "PANIC", (IF X.seal THEN pfx ELSE "C05|" \o q.op \o "|") \o "panic", q)
      \* C06
      /\ ~(Has(q, "nk") /\ q.op \in NameTakers /\ (GatedName(q.nk, q.op = "lookup") \/ (Has(q, "nk2") /\ GatedName(q.nk2, FALSE)))) \/ p.st = "NOSLOT" \/
           /\ Chk(p.st = "EINVAL", "C06|" \o q.op \o "|namegate|" \o q.nk \o "|" \o X.via \o "|" \o p.st, q)
           /\ Chk(NoEffect(p), "C06|" \o q.op \o "|namegate|" \o q.nk \o "|" \o X.via \o "|effect", p.ch)
      /\ Chk(p.och = <<>> /\ p.orm = <<>>, "C06|" \o q.op \o "|outside-changed", <<q, p.och, p.orm>>)
      /\ ~(Has(p, "attr") /\ X.via = "direct") \/ Chk(Contained(p.attr.id, outs), "C06|" \o q.op \o "|not-contained", <<q, p.attr>>)
      /\ ~(cal /\ q.op = "lookup" /\ q.nk = "dotdot" /\ HasRef(S, q.p) /\ p.st # "NOSLOT") \/ IdOf(S, q.p) # X.root \/
           Chk(p.st = "OK" /\ Has(p, "attr") /\ (X.via # "direct" \/ p.attr.id = X.root), "C06|lookup|rootdotdot|" \o X.via, <<q, p>>)
      \* C18
      /\ ~X.seal \/
           /\ \A k \in DOMAIN p.ch : LET w == p.ch[k] IN
                (w.id \in DOMAIN pre /\ w.t = "reg") => Chk(w.size = pre[w.id].cur, pfx \o "size-changed", <<q, w.p, pre[w.id], w.size>>)
           /\ ~(mirrorOn /\ neutral) \/
                /\ Chk(stOK, pfx \o "neutral-differs|" \o p.st \o "/" \o h.st, <<q, r.cur>>)
                /\ ~stOK \/ Chk(fieldsOK /\ treeOK, pfx \o "neutral-differs|result", <<q, p.ch, h.ch>>)
           /\ ~(~neutral /\ p.st # "OK") \/ Chk(NoEffect(p), pfx \o "refused-with-effect", <<q, p.ch>>)
     )
  /\ S' = IF cal /\ calOK /\ ~h.skipped /\ e.kind # "noslot" THEN e.S ELSE S
  /\ hrows' = hm
  /\ cal' = (cal /\ calOK)
  /\ sync' = (sync /\ (~mirrorOn \/ (stOK /\ fieldsOK /\ treeOK)) /\ (h.skipped \/ p.st # "NOSLOT" \/ h.st = "NOSLOT"))
  /\ taint' = taint \cup kf
  \* Sealed is the state invariant size = size0; a step is blamed when it is the one that changes a size
  /\ pre' = [i \in DOMAIN pre |-> LET ws == {k \in DOMAIN p.ch : p.ch[k].id = i /\ p.ch[k].t = "reg"} IN
                                  IF ws = {} THEN pre[i] ELSE [pre[i] EXCEPT !.cur = p.ch[CHOOSE k \in ws : TRUE].size]]
  /\ UNCHANGED <<X, outs, creds0>>

GateJudge(r) ==
  TRUE = (
    /\ ~GatedName(r.nk, r.op = "lookup") \/
         /\ Chk(r.st = "EINVAL", "C06|" \o r.op \o "|namegate|" \o r.nk \o "|" \o r.via \o "|" \o r.st, r)
         /\ Chk(r.calls = <<>>, "C06|" \o r.op \o "|namegate|" \o r.nk \o "|" \o r.via \o "|backend-touched", r.calls)
    \* positive control: a name that passes the gate does reach the backend
    /\ GatedName(r.nk, r.op = "lookup") \/ Cal(r.calls # <<>>, "gate-control|" \o r.op \o "|" \o r.nk, r))

Init == l = 1 /\ S = Empty /\ hrows = <<>> /\ X = [none |-> TRUE, big |-> {}, wb |-> FALSE] /\ pre = <<>> /\ outs = {} /\ creds0 = [none |-> TRUE] /\ sync = TRUE /\ cal = TRUE /\ taint = {}
Step ==
  /\ l <= Len(Rec)
  /\ LET r == Rec[l] IN
     CASE r.e = "Reset" ->
            /\ TRUE = (/\ Cal(SeqSet(r.pt_rows) = SeqSet(r.host_rows), "reset|trees-differ", r.seg)
                       /\ Cal(TreeOKOf(StateOf(r.host_rows), RootOf(r.host_rows)), "reset|TreeOK", r.seg))
            /\ S' = StateOf(r.host_rows)
            /\ hrows' = RowMap(r.host_rows)
            /\ X' = [root |-> RootOf(r.host_rows), no_open |-> r.cfg.eff_no_open, no_opendir |-> r.cfg.eff_no_opendir, xattr |-> r.cfg.xattr,
                     seal |-> r.cfg.seal, via |-> r.cfg.via, ifh |-> r.cfg.ifh, mode |-> r.mode, wb |-> r.cfg.eff_wb,
                     big |-> {r.host_rows[k].id : k \in {j \in DOMAIN r.host_rows : r.host_rows[j].size > 64}}]
            /\ pre' = LET regs == {k \in DOMAIN r.pt_rows : r.pt_rows[k].t = "reg"} IN
                      [i \in {r.pt_rows[k].id : k \in regs} |-> LET z == r.pt_rows[CHOOSE k \in regs : r.pt_rows[k].id = i].size IN [size0 |-> z, cur |-> z]]
            /\ outs' = {r.pt_out[k].id : k \in DOMAIN r.pt_out}
            /\ creds0' = r.creds
            /\ sync' = TRUE /\ cal' = TRUE /\ taint' = {}
       [] r.e = "Step" -> StepJudge(r)
       [] r.e = "Crash" ->
            /\ TRUE = Chk(FALSE, (IF Has(X, "seal") /\ X.seal THEN "C18|" ELSE "C05|") \o (IF Has(r, "op") /\ Has(r.op, "op") THEN r.op.op \o "|" \o (IF Has(r.op, "fl") THEN JoinSeq(r.op.fl, 1) ELSE "") ELSE "?|") \o "|crash|" \o r.during, r)
            /\ UNCHANGED <<S, hrows, X, pre, outs, creds0, sync, cal, taint>>
       [] r.e = "End" ->
            /\ TRUE = Chk(r.creds = creds0, "C05|end|creds", <<r.creds, creds0>>)
            /\ UNCHANGED <<S, hrows, X, pre, outs, creds0, sync, cal, taint>>
       [] r.e = "Gate" -> GateJudge(r) /\ UNCHANGED <<S, hrows, X, pre, outs, creds0, sync, cal, taint>>
       [] r.e = "ResetGate" -> taint' = {} /\ UNCHANGED <<S, hrows, X, pre, outs, creds0, sync, cal>>
       [] OTHER -> UNCHANGED <<S, hrows, X, pre, outs, creds0, sync, cal, taint>>
  /\ l' = l + 1
Done == l = Len(Rec) + 1 /\ PrintT(<<"ACCEPTED", Len(Rec)>>) /\ l' = l + 1 /\ UNCHANGED <<S, hrows, X, pre, outs, creds0, sync, cal, taint>>
Next == Step \/ Done
Spec == Init /\ [][Next]_vars
=============================================================================
