"""Wire family (engine: wire): C01 (framing of hostile bytes), C02 (decode), C03 (encode).

FuseWire.tla holds Decode/Encode as tables of expressions over request/result fields; TLC
evaluates the table lints (every request field consumed or explicitly ignored, ...), exports the
ABI and the per-opcode shapes to JSON (ExportWire.tla) from which the harness codec is driven,
and validates every recorded transaction of the real Server<ScriptedFs> with Trace_Wire.tla."""
import json
import os
import re
import shutil

from . import common as C

GENERIC_REPLAY = True   # scenarios are a deterministic function of (tier, seed); see check --replay
LEVEL = {"C01": "model_checking", "C02": "model_checking", "C03": "model_checking"}


def viols_of(res):
    return C.parse_viols(res["output"] if isinstance(res, dict) else res)


def export_abi(ctx):
    out = ctx.path("abi.json")
    r = C._java(["-workers", "1", "-metadir", ctx.path("tlc_export"), "-noGenerateSpecTE", "-config", "ExportWire.cfg", "ExportWire.tla"],
                C.SPEC, {"OUT": out}, 300, xmx="2g", xss="512m")
    if not os.path.exists(out) or "Error:" in r.stdout:
        C.log(r.stdout[-3000:])
        raise C.ToolError("ExportWire failed (spec lint or export)")
    return out


def run_wire(ctx, pid, k):
    """Generate + run + validate the well-formed valuation set; report signatures of property pid."""
    bindir = C.build_harness(bins=["wire"])
    abi = export_abi(ctx)
    trace = ctx.path("tx.ndjson")
    C.run_bin(bindir, "wire", [abi, trace, k], env={"VERIF_SEED": ctx.seed}, timeout=3000)
    res = C.tlc_trace(ctx, "Trace_Wire", trace, timeout=3000, xmx="8g")
    if not res["accepted"]:
        raise C.ToolError("wire trace not consumed: %s" % res["stuck"])
    rows = C.read_ndjson(trace)
    txs = [r for r in rows if r.get("e") == "Tx"]
    ctx.traces += len(txs)
    ctx.events += len(rows)
    ctx.states += res.get("distinct", 0)
    ctx.transitions += res.get("distinct", 0)
    for sig, idx, detail in viols_of(res):
        if not sig.startswith(pid + "|"):
            continue
        tx = rows[idx - 1] if idx - 1 < len(rows) else None
        ctx.violation(sig, {"tx_index": idx, "expected_vs_got": detail}, replay_src={"tx": tx, "seed": ctx.seed, "k": k})
    return rows, txs, abi, trace


def binding_demo(ctx, rows, mutate, want_prefix):
    # an evenly strided sample of the whole trace (every opcode / class family occurs in it)
    step = max(1, len(rows) // 1200)
    bad = [json.loads(json.dumps(r)) for r in rows[::step]]
    mutate(bad)
    bf = ctx.path("corrupt.ndjson")
    C.write_ndjson(bf, bad)
    bres = C.tlc_trace(ctx, "Trace_Wire", bf)
    sigs = sorted({v[0] for v in viols_of(bres) if v[0].startswith(want_prefix)})
    if not sigs:
        raise C.ToolError("binding demo failed: corrupted trace accepted (%s)" % want_prefix)
    return sigs


def cover(txs):
    ops = {}
    for t in txs:
        key = (t["op"], t["tr"], tuple(sorted(sum([v for v in t["req"]["bits"].values()], []))) if t["req"]["bits"] else ())
        ops[key] = ops.get(key, 0) + 1
    return ops


def run_c02(ctx):
    k = 60 if ctx.quick else 300
    rows, txs, abi, trace = run_wire(ctx, "C02", k)

    def mut(bad):
        n = 0
        for r in bad:
            if r.get("e") == "Tx" and r["op"] == "READ" and len(r["calls"]) == 2:
                a = r["calls"][1]["args"]
                a["offset"], a["handle"] = a["handle"], a["offset"]
                n += 1
            if r.get("e") == "Tx" and r["op"] == "UNLINK" and len(r["calls"]) == 2:
                r["calls"].append(dict(r["calls"][1], m="getattr"))
    sigs = binding_demo(ctx, rows, mut, "C02|")
    cv = cover(txs)
    ctx.extra.update({
        "distinct_nontrivial": len(cv),
        "rule": "one transaction per opcode x subset of the flag bits Decode inspects x transport x k=%d random/boundary valuations of every field; distinct = (opcode, transport, flag subset)" % k,
        "binding_demo": [{"corruption": "swap READ offset/handle in the logged call; add a second call to UNLINK", "rejected_with": sigs}],
        "opcodes": len({t["op"] for t in txs}),
    })
    for t in txs[:2]:
        ctx.sample({"op": t["op"], "tr": t["tr"], "req": t["req"], "calls": t["calls"]})
    ctx.assumptions += ["names: 3/4 from a 69-character ASCII alphabet, 1/4 arbitrary non-NUL bytes (lengths 1..4000, logged byte-exactly); payloads are random bytes up to max_write (1 MiB)",
                        "INIT is decided by C12"]


def run_c03(ctx):
    k = 60 if ctx.quick else 300
    rows, txs, abi, trace = run_wire(ctx, "C03", k)

    def mut(bad):
        for r in bad:
            if r.get("e") == "Tx" and r["reply"]["present"] and "fuse_entry_out.entry_valid" in r["reply"]["body"]:
                b = r["reply"]["body"]
                b["fuse_entry_out.entry_valid"], b["fuse_entry_out.attr_valid"] = b["fuse_entry_out.attr_valid"], b["fuse_entry_out.entry_valid"]
            if r.get("e") == "Tx" and r["reply"]["present"] and r["reply"]["error"] < 0:
                r["reply"]["error"] = -r["reply"]["error"]
    sigs = binding_demo(ctx, rows, mut, "C03|")
    kinds = {}
    for t in txs:
        for c in t["calls"]:
            if c["m"] != "id_remap":
                kk = (t["op"], c["ret"]["kind"], t["tr"])
                kinds[kk] = kinds.get(kk, 0) + 1
    ctx.extra.update({
        "distinct_nontrivial": len(kinds),
        "rule": "one transaction per opcode x result kind (success shapes, OS errnos 1..133, non-OS error kinds) x transport x k=%d valuations of every result field; distinct = (opcode, result kind, transport)" % k,
        "binding_demo": [{"corruption": "swap entry_valid/attr_valid in decoded replies; positive errno", "rejected_with": sigs}],
    })
    for t in [t for t in txs if t["op"] in ("CREATE", "READDIRPLUS")][:2]:
        ctx.sample({"op": t["op"], "tr": t["tr"], "fs_result": [c["ret"] for c in t["calls"] if c["m"] != "id_remap"], "reply": t["reply"]})
    ctx.assumptions += ["result values are drawn within what the wire format can carry (32-bit wire fields < 2^32)",
                        "the scripted filesystem stops offering directory entries after the first one that did not fit, as real filesystems do"]


def export_cases(ctx):
    """All request classes of WireFrame.tla with the outcome the model predicts (one JSON line each)."""
    r = C._java(["-workers", "1", "-metadir", ctx.path("tlc_cases"), "-noGenerateSpecTE", "-config", "MC_WireFrame_export.cfg", "MC_WireFrame.tla"],
                C.SPEC, None, 600, xmx="4g", xss="512m")
    out = ctx.path("cases.ndjson")
    n = 0
    with open(out, "w") as f:
        for line in r.stdout.splitlines():
            if line.startswith('"{'):
                f.write(json.loads(line) + "\n")
                n += 1
    if n == 0:
        C.log(r.stdout[-3000:])
        raise C.ToolError("no request classes exported from WireFrame")
    return out, n


def validate(ctx, pid, trace, gen):
    res = C.tlc_trace(ctx, "Trace_Wire", trace, timeout=3000, xmx="8g")
    if not res["accepted"]:
        raise C.ToolError("wire trace not consumed: %s" % res["stuck"])
    rows = C.read_ndjson(trace)
    txs = [r for r in rows if r.get("e") == "Tx"]
    ctx.traces += len(txs)
    ctx.events += len(rows)
    ctx.states += res.get("distinct", 0)
    ctx.transitions += res.get("distinct", 0)
    for sig, idx, detail in viols_of(res):
        if sig.startswith(pid + "|"):
            tx = rows[idx - 1] if idx - 1 < len(rows) else None
            ctx.violation(sig, {"tx_index": idx, "generator": gen, "expected_vs_got": detail}, replay_src={"tx": tx, "seed": ctx.seed, "generator": gen})
    nextra = res["output"].count('"EXTRA"')
    if nextra:
        ctx.extra["beyond_property_observations"] = ctx.extra.get("beyond_property_observations", 0) + nextra
        C.log("EXTRA %s: %d transaction(s) break the MetricsHook protocol modelled in WireFrame.tla (not part of the listed properties)" % (pid, nextra))
    ndrift = res["output"].count('"DRIFT"')
    if ndrift:
        ctx.drift.append({"generator": gen, "transactions_disagreeing_with_WireFrame": ndrift})
        C.log("MODEL-DRIFT %s: %d transaction(s) disagree with the outcome predicted by WireFrame.tla" % (pid, ndrift))
    return rows, txs


def run_harness_c01(ctx, bindir, args, gen):
    """Run the driver; a crash of the process (signal / abort / panic outside catch_unwind) is data for C01."""
    import subprocess
    e = dict(os.environ, VERIF_SEED=str(ctx.seed), RUST_BACKTRACE="0")
    r = subprocess.run([os.path.join(bindir, "wire")] + [str(a) for a in args], env=e, stdout=subprocess.PIPE, stderr=subprocess.PIPE, text=True)
    if r.returncode != 0:
        ctx.violation("C01|crash|%s|exit-%d" % (gen, r.returncode), {"stderr": r.stderr[-1500:], "args": [str(a) for a in args]},
                      replay_src={"cmd": ["wire"] + [str(a) for a in args], "seed": ctx.seed})
        return False
    return True


def run_c01(ctx):
    bindir = C.build_harness(bins=["wire"])
    abi = export_abi(ctx)
    # design level: the transcribed decision procedure of handle_message against the A obligations
    mc = C.tlc_mc(ctx, "WireFrame", cfg="MC_WireFrame.cfg", workers=8, timeout=900)
    for inv in mc["violated"]:
        ctx.violation("C01|model|" + inv, {"tlc": mc["output"][-3000:]}, replay_src={"tlc_output": mc["output"][-6000:]})
    cases, ncls = export_cases(ctx)
    k = 2 if ctx.quick else 20
    nrand = 8000 if ctx.quick else 200000
    allrows = []
    t1 = ctx.path("cls.ndjson")
    if run_harness_c01(ctx, bindir, [abi, t1, "classes", cases, k, 1], "class"):
        rows, txs = validate(ctx, "C01", t1, "class")
        allrows = rows
        for t in txs[:1]:
            ctx.sample({"class": t["x"]["cls"], "predicted": t["x"]["pred"], "observed": t["out"]})
    t2 = ctx.path("rnd.ndjson")
    if run_harness_c01(ctx, bindir, [abi, t2, "random", nrand], "random"):
        rows, txs = validate(ctx, "C01", t2, "random")
        # coverage gate: requests whose caller ids the file system refuses to translate (id_remap_with_nodeid fails before
        # dispatch) - FORGET / BATCH_FORGET among them on both transports - were really run and really refused
        ref = [t for t in txs if t["x"].get("remap_refused")]
        refused = [t for t in ref if any(c.get("refused") for c in t.get("calls", []) if c.get("m") == "id_remap")]
        ctx.extra["remap_refused_transactions"] = len(refused)
        for op in ("FORGET", "BATCH_FORGET"):
            for trn in ("fusedev", "virtiofs"):
                if not any(t["op"] == op and t["tr"] == trn for t in refused):
                    raise C.ToolError("coverage gate: no %s with a refused id translation on %s" % (op, trn))
        for t in txs[:2]:
            ctx.sample({"random_bytes_hex": t["x"].get("hex", "")[:160], "cap": t["x"]["cap"], "tr": t["tr"], "observed": t["out"]})
    t3 = ctx.path("wf.ndjson")
    if run_harness_c01(ctx, bindir, [abi, t3, 1 if ctx.quick else 20], "wf"):
        validate(ctx, "C01", t3, "wf")
    # thorough tier: a sample of the same inputs under valgrind memcheck (reads/writes outside the supplied buffers that
    # miss the canaries, use of uninitialised request bytes in a decision)
    if not ctx.quick and shutil.which("valgrind"):
        import subprocess
        vg = 0
        for gen, args in (("random", [abi, ctx.path("vg1.ndjson"), "random", 4000]), ("class", [abi, ctx.path("vg2.ndjson"), "classes", cases, 1, 7])):
            e = dict(os.environ, VERIF_SEED=str(ctx.seed))
            r = subprocess.run(["valgrind", "-q", "--error-exitcode=99", os.path.join(bindir, "wire")] + [str(a) for a in args], env=e,
                               stdout=subprocess.PIPE, stderr=subprocess.PIPE, text=True)
            if r.returncode == 99 or "== Invalid" in r.stderr or "uninitialised" in r.stderr:
                first = next((l for l in r.stderr.splitlines() if "Invalid" in l or "uninitialised" in l), "memcheck error")
                kind = "-".join(first.split("==")[-1].split()[:3])
                ctx.violation("C01|memcheck|%s|%s" % (gen, kind), {"valgrind": r.stderr[-3000:]}, replay_src={"cmd": ["valgrind", "wire"] + [str(a) for a in args], "seed": ctx.seed})
            elif r.returncode != 0:
                raise C.ToolError("valgrind run failed (%d): %s" % (r.returncode, r.stderr[-500:]))
            vg += len(C.read_ndjson(args[1])) - 1
        ctx.extra["transactions_under_valgrind_memcheck"] = vg

    def mut(bad):
        n = 0
        for r in bad:
            if r.get("e") == "Tx" and r["out"]["nmsgs"] == 1 and n < 3:
                n += 1
                if n == 1:
                    r["out"]["nmsgs"] = 2
                elif n == 2:
                    r["reply"]["len"] += 1
                else:
                    r["out"]["canary_ok"] = False
    sigs = binding_demo(ctx, allrows, mut, "C01|") if allrows else []
    ctx.extra.update({
        "distinct_nontrivial": ncls,
        "rule": "every request class of WireFrame.tla (opcode/hole x bytes supplied x length-field lie x body class x reply capacity x fs result x transport; %d classes) concretised k=%d times, plus %d random/bit-flipped byte strings, plus the well-formed valuation set; distinct = classes" % (ncls, k, nrand),
        "request_classes": ncls,
        "binding_demo": [{"corruption": "second reply / length field off by one / canary damaged", "rejected_with": sigs}],
    })
    ctx.assumptions += ["memory safety is observed through canaries around every buffer, the untouched tail of the reply space and process crashes; not by a memory model",
                        "fusedev replies are counted on an AF_UNIX SOCK_SEQPACKET pair (one message per write call)"]


def c17_requests(ctx):
    """C17 through whole requests: every opcode with a payload (READ, READDIR(PLUS), GETXATTR, LISTXATTR, READLINK, IOCTL, ...)
    and every request class, served over virtio-fs descriptor chains at random page alignments and segmentations, with
    the dirty bitmap of the reply and request regions compared with the pages the server modified. Called by the
    transport engine's C17 check in addition to its writer-level scenarios."""
    bindir = C.build_harness(bins=["wire"])
    abi = export_abi(ctx)
    t1 = ctx.path("c17wf.ndjson")
    C.run_bin(bindir, "wire", [abi, t1, 6 if ctx.quick else 40], env={"VERIF_SEED": ctx.seed}, timeout=3000)
    rows, txs = validate(ctx, "C17", t1, "wf")
    nv = len([t for t in txs if t["tr"] == "virtiofs"])
    if not ctx.quick:
        cases, ncls = export_cases(ctx)
        t2 = ctx.path("c17cls.ndjson")
        C.run_bin(bindir, "wire", [abi, t2, "classes", cases, 1, 1], env={"VERIF_SEED": ctx.seed}, timeout=3000)
        rows2, txs2 = validate(ctx, "C17", t2, "class")
        nv += len([t for t in txs2 if t["tr"] == "virtiofs"])

    def mut(bad):
        n = 0
        for r in bad:
            if r.get("e") == "Tx" and r["tr"] == "virtiofs" and r["out"]["dirty_reply"] and n == 0:
                r["out"]["dirty_reply"] = r["out"]["dirty_reply"][1:]
                n = 1
            elif r.get("e") == "Tx" and r["tr"] == "virtiofs" and n == 1:
                r["out"]["dirty_req"] = [4096]
                n = 2
    sigs = binding_demo(ctx, rows, mut, "C17|")
    ctx.extra["requests_over_virtiofs_with_dirty_tracking"] = nv
    ctx.extra.setdefault("binding_demo", []).append({"corruption": "drop a dirty page / mark a request page dirty in a logged transaction", "rejected_with": sigs})
    return nv


PROPS = {"C01": run_c01, "C02": run_c02, "C03": run_c03}
