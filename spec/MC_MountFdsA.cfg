SPECIFICATION ASpec
CONSTANTS
  AMounts = {1, 2}
  ADescs = {1, 2, 3}
  AMaxRefs = 3
INVARIANTS AS1 AS2 AS3
