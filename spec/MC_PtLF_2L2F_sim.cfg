SPECIFICATION SpecNT
CHECK_DEADLOCK FALSE
CONSTANTS
  Ops <- Ops_2L2F
  R0Set <- R0_012
  Eager = TRUE
  SkipZeroRetry = FALSE
  NoReprobe = FALSE
  BlindStore = FALSE
INVARIANTS Refines Final RetInMap NoZeroVisible OneNumber LockSane Export

