SPECIFICATION Spec
CONSTANTS
  Ops <- Ops_3L
  R0Set <- R0_01
  Eager = TRUE
  SkipZeroRetry = FALSE
  NoReprobe = FALSE
  BlindStore = FALSE
INVARIANTS Refines Final RetInMap NoZeroVisible OneNumber LockSane Export

