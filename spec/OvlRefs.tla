------------------------------ MODULE OvlRefs ------------------------------
(* A-level specification (the judge) for X04: overlay inode lifetimes and lookup-count accounting, the overlay
   analogue of PtRefs.tla (C08). Not a listed property (DESIGN.md section 9 item 2).

   The state is what the CLIENT can know: how many references it holds on each inode number (entries it was
   given minus what it forgot, saturating at 0), which file object each number denoted when it was handed out,
   which objects have lost their last name since ("deleted but referenced"), which numbers it over-forgot.
   Pure operators over one record S (as in PtRefs.tla): Trace_OvlRefs.tla applies them to logs of the real
   code, OvlRefsImpl.tla to the implementation-shaped model. A never disables a step; an observation A does not
   allow adds a signature "X04|<op>|<what>" to S.viol.

   Obligations:
     * every reply that hands a number to the client (lookup, create, mkdir, mknod, symlink, link, readdirplus
       entries other than "." and "..") adds one reference; forget / batch_forget subtract, saturating;
     * a number with references > 0 denotes one object: it is never handed out for another object
       (number-shared) and requests on it keep resolving to that object, also after the object lost its last
       name (referenced-deleted-unresolvable) -- "resolving" = getattr on the number succeeds with the object's
       type, permission bits and size;
     * forget never changes the tree, also when it names an unknown number or more references than were
       given (tree-changed); it never panics; the root is never forgotten;
     * a refused request changes no count: nothing to do in A, its observable consequence is the next one;
     * at the end of a history, after the client has forgotten everything, the instance holds no more host
       descriptors than a freshly started instance over the same directories that was walked the same way
       (resources-not-released): objects whose count reached 0 after they lost their name were released.
   Weaker readings chosen: a number with 0 references may keep resolving (the overlay keeps every named node
   in memory) and may be handed out again for a new object once its old object is gone; hard links may carry
   different numbers for one object; "." and ".." of readdirplus carry no reference (the kernel takes none). *)
EXTENDS Naturals, Sequences, FiniteSets, TLC

RootNum == 1
RGet(f, x, d) == IF x \in DOMAIN f THEN f[x] ELSE d
RUpd(f, x, v) == [y \in DOMAIN f \cup {x} |-> IF y = x THEN v ELSE f[y]]
RSig(op, what) == "X04|" \o op \o "|" \o what

RInit == [refs |-> <<>>,      \* number -> references the client holds
          obj  |-> <<>>,      \* number -> object it denoted when it was last handed out
          dead |-> {},        \* objects that lost their last name
          over |-> {},        \* numbers the client forgot more often than it was given them
          via  |-> <<>>,      \* number -> the name (path) it was last handed out for
          gone |-> {},        \* numbers whose name was removed since (the object may live on under a hard link)
          rdp  |-> FALSE,     \* some readdirplus reply handed out entries (classification of a leak only)
          viol |-> {}]

Held(S, k) == RGet(S.refs, k, 0) > 0
NumsOf(S, o) == {k \in DOMAIN S.obj : S.obj[k] = o}

\* a reply of operation op handed number k to the client; o is the object the reply is about
REntry(S, op, k, o, nm) ==
  IF k = RootNum \/ k = 0 THEN S
  ELSE LET shared == Held(S, k) /\ S.obj[k] # o
       IN [S EXCEPT !.refs = RUpd(@, k, RGet(@, k, 0) + 1), !.obj = RUpd(@, k, o),
                    !.via = RUpd(@, k, nm), !.gone = @ \ {k}, !.rdp = @ \/ op = "readdirplus",
                    !.viol = IF shared THEN @ \cup {RSig(op, "number-shared")} ELSE @]

RForget(S, k, c) ==
  IF k = RootNum THEN S
  ELSE LET have == RGet(S.refs, k, 0)
       IN [S EXCEPT !.refs = IF k \in DOMAIN @ THEN [@ EXCEPT ![k] = IF have > c THEN have - c ELSE 0] ELSE @,
                    !.over = IF c > have THEN @ \cup {k} ELSE @]
RECURSIVE RForgetAll(_, _)
RForgetAll(S, items) == IF items = <<>> THEN S ELSE RForgetAll(RForget(S, Head(items)[1], Head(items)[2]), Tail(items))

RDead(S, os) == [S EXCEPT !.dead = @ \cup os]
\* the name nm was removed (unlink / rmdir / replaced)
RUnlinked(S, nm) == [S EXCEPT !.gone = @ \cup {k \in DOMAIN S.via : S.via[k] = nm}]
RViol(S, sigs) == [S EXCEPT !.viol = @ \cup sigs]

\* getattr on number k: ok = it succeeded, same = the attributes are those of the object the number denotes
RProbe(S, k, ok, same) ==
  IF k = RootNum THEN (IF ok THEN S ELSE RViol(S, {RSig("probe", "root-unresolvable")}))
  ELSE IF ~Held(S, k) THEN S
  ELSE IF ~ok THEN RViol(S, {RSig("probe", "referenced" \o (IF S.obj[k] \in S.dead \/ k \in S.gone THEN "-deleted" ELSE "")
                                                \o "-unresolvable" \o (IF k \in S.over THEN "-after-over-forget" ELSE ""))})
  ELSE IF ~same THEN RViol(S, {RSig("probe", "resolves-to-other-object")})
  ELSE S

\* end of a history, the client holds nothing: leaked = the instance holds more host descriptors than a fresh one.
\* The signature names what the history contained that is known to matter (classification only): a readdirplus of a
\* directory other than the root, a successful rmdir, an over-forget.
REnd(S, leaked, rdsub, rmd) ==
  IF ~leaked THEN S
  ELSE RViol(S, {RSig("end", "resources-not-released" \o (IF rdsub THEN "+readdirplus" ELSE "") \o (IF rmd THEN "+rmdir" ELSE "")
                                                      \o (IF S.over # {} THEN "+over-forget" ELSE ""))})
=============================================================================
