SPECIFICATION Spec
CONSTANTS
  Prog <- P_SRRC
  Procs = {1,2,3,4}
  Fixed = FALSE
  EnableFirst = TRUE
  Mon = TRUE
INVARIANTS LinWeak QuiescentAgrees AtMostOnceI NoInventionI NoLostWakeupQ ParkedRegistered WaitersSane
