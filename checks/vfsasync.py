"""X06 `vfsasync`: the asynchronous request path through the VFS obeys the rules of the synchronous one.

`impl AsyncFileSystem for Vfs` (src/api/vfs/async_io.rs), reached through `Server::async_handle_message`
(feature async-io), must satisfy the A-level rules of Vfs.tla / Trace_Vfs.tla (C07 routing, C14 id translation,
name gates of lookup / create) for the ten operations that have an asynchronous implementation, over the
mount / over-mount / umount / request histories of the vfs engine.

spec/VfsAsyncImpl.tla   I level: the asynchronous dispatch transcribed from async_io.rs, one action per operation and
                        arm, on top of the mount table of VfsImpl.tla; TLC checks AsyncImpl => A (MC_VfsAsync*)
spec/Trace_VfsAsync.tla judge of the logs of harness/src/bin/vfsasync.rs: every history runs once on the synchronous
                        and once on the asynchronous path; the asynchronous run is judged by the obligations of
                        Trace_Vfs.tla (prefix X06|) plus name gates, the path tag of the backend method and the
                        equivalence clause (same backend calls and decoded reply as the synchronous run)

Flow: (1) TLC: AsyncImpl => A with -coverage 1; (2) histories = behaviours of VfsImpl sampled by TLC + seeded
generator of the vfs engine (requests biased to the ten operations) + directed histories behind the coverage gates;
(3) both runs executed on the real code, judged by TLC; (4) binding demonstration; (5) coverage gates."""
import json
import os
import random

from . import common as C
from . import vfs as V

LEVEL = {"X06": "model_checking"}
ASYNC_OPS = ["lookup", "getattr", "setattr", "open", "create", "read", "write", "fsync", "fallocate", "fsyncdir"]
NOMAP = V.NOMAP


def bindir(ctx):
    dev = os.environ.get("VERIF_VFSASYNC_BINDIR")      # development: a private target directory
    if dev:
        return dev
    return C.build_harness(bins=["vfsasync"], features="async", target="target-async")


def _req(rop, t, seed, **kw):
    return dict({"op": "req", "rop": rop, "seed": seed, "t": t, "fail": False}, **kw)


def _mp(path):
    return {"t": "mpath", "path": path}


def directed(seed):
    """Histories behind the coverage gates (independent of the seed except for the drawn ids): every asynchronous
    operation on a mount with its own mapping, with an empty-range mapping under a global one, without one (global
    mapping), on a mount on "/", on pseudo directories, on a vacant index, on an index re-used by another backend;
    mount-point crossing by lookup; name gates of lookup and create; failing backends."""
    g = {"i": 0, "e": 1000, "r": 65536}
    own = {"i": 0, "e": 100000, "r": 65536, "some": True}
    rev = {"i": 70000, "e": 5000, "r": 1000, "some": True}
    empty = {"i": 5, "e": 7, "r": 0, "some": True}
    n = [0]

    def sd():
        n[0] += 1
        return seed * 1000 + n[0]

    def battery(t, fail=False):
        out = []
        for rop in ASYNC_OPS:
            out.append(_req(rop, t, sd(), fail=fail))
            if rop in ("lookup", "create"):
                out.append(_req("getattr", {"t": "pool", "j": 0}, sd()))       # the number just handed out
                out.append(_req("setattr", {"t": "pool", "j": 0}, sd(), valid_uid=True, valid_gid=True))
        return out
    steps = [{"op": "mount", "path": "/a", "b": "b1", "m": own, "ruid": 3, "rgid": 70000},
             {"op": "mount", "path": "/b", "b": "b2", "m": empty, "ruid": 0, "rgid": 1000},
             {"op": "mount", "path": "/c/d", "b": "b3", "m": NOMAP, "ruid": 1500, "rgid": 2}]
    for p in ("/a", "/b", "/c/d"):
        steps += battery(_mp(p))
    # pseudo directories: root, /c; crossing into the mounts; unknown names
    for t in ({"t": "root"}, {"t": "ino", "idx": 0, "lown": 4}):
        steps += battery(t)
    for nm in ("a", "b", "c", "nothing", ".", ".."):
        steps.append(_req("lookup", {"t": "root"}, sd(), name=nm))
    steps += [_req("lookup", {"t": "ino", "idx": 0, "lown": 4}, sd(), name="d"), _req("lookup", {"t": "ino", "idx": 0, "lown": 4}, sd(), name="..")]
    # name gates
    for t in (_mp("/a"), {"t": "root"}, _mp("/c/d")):
        for nm in ("x/y", "/", ".", "..", "ok"):
            steps.append(_req("lookup", t, sd(), name=nm))
            steps.append(_req("create", t, sd(), name=nm))
    # failing backend, vacant index, never-issued numbers
    steps += battery(_mp("/a"), fail=True)
    steps += battery({"t": "ino", "idx": 9, "low": "77"})
    steps += battery({"t": "ino", "idx": 1, "low": "123456"})
    # over-mount (/a gets another backend, another index, no own mapping), umount, index re-use after wrap-around
    steps += [{"op": "mount", "path": "/a", "b": "b2", "m": NOMAP, "ruid": 1, "rgid": 2}]
    steps += battery(_mp("/a"))
    steps += battery({"t": "ino", "idx": 1, "low": "3001"})                    # the index /a had: vacant now
    steps += [{"op": "umount", "path": "/b"}, {"op": "mount", "path": "/e", "b": "b3", "m": rev, "ruid": 70999, "rgid": 70000}]
    steps += battery(_mp("/e"))
    steps += [{"op": "remount", "path": "/e", "b": "b1"}]
    steps += battery(_mp("/e"))
    # a mount on "/": node 1 is served by the backend
    steps += [{"op": "mount", "path": "/", "b": "b1", "m": own, "ruid": 65535, "rgid": 65536}]
    steps += battery({"t": "root"})
    steps += battery(_mp("/"))
    steps += [{"op": "umount", "path": "/"}]
    steps += battery({"t": "root"})
    d1 = {"id": "directed-x06-ops", "src": "directed", "kind": "plain", "seed": seed * 17 + 1, "g": g, "scale": 1,
          "autoprobe": 0, "paths": [], "opts": {"no_open": False, "no_opendir": False}, "steps": steps}
    # index re-use: the 256-entry table behaves like a 4-entry one (filler prologue); /y leaves index 2, /w (another backend,
    # another mapping) gets it; numbers handed out by /y's backend now lead to /w's
    s3 = [{"op": "mount", "path": "/x", "b": "b1", "m": NOMAP}, {"op": "mount", "path": "/y", "b": "b2", "m": own, "ruid": 7, "rgid": 8},
          {"op": "mount", "path": "/z", "b": "b3", "m": NOMAP}]
    s3 += [_req("lookup", _mp("/y"), sd(), name="f1"), _req("create", _mp("/y"), sd(), name="f2")]
    s3 += [{"op": "umount", "path": "/y"}] + battery({"t": "pool", "j": 0}) + [{"op": "mount", "path": "/w", "b": "b1", "m": rev, "ruid": 70001, "rgid": 70002}]
    s3 += battery(_mp("/w")) + battery({"t": "pool", "j": 1}) + [{"op": "umount", "path": "/x"}, {"op": "mount", "path": "/w", "b": "b3", "m": NOMAP}]
    s3 += battery(_mp("/w"))
    d3 = {"id": "directed-x06-reuse", "src": "directed", "kind": "plain", "seed": seed * 17 + 3, "g": g, "scale": 1, "emul": V.MODEL_N,
          "autoprobe": 0, "paths": [], "opts": {"no_open": False, "no_opendir": False}, "steps": s3}
    # the same operations with zero-message open negotiated (OPEN answered by the VFS itself) and no global mapping
    n2 = [{"op": "mount", "path": "/m", "b": "b1", "m": rev, "ruid": 70001, "rgid": 5},
          {"op": "init", "empty": False, "zmo": True, "zmod": True}]
    n2 += battery(_mp("/m")) + battery({"t": "root"})
    n2 += [{"op": "mount", "path": "/", "b": "b2", "m": NOMAP}] + battery({"t": "root"})
    d2 = {"id": "directed-x06-noopen", "src": "directed", "kind": "plain", "seed": seed * 17 + 2, "g": {"i": 0, "e": 0, "r": 0}, "scale": 1,
          "autoprobe": 0, "paths": [], "opts": {"no_open": True, "no_opendir": True}, "steps": n2}
    return [d1, d2, d3]


def bias(scs, rnd, p=0.55):
    """requests of the seeded histories whose operation is not fixed: most of them become one of the ten operations"""
    for s in scs:
        for st in s["steps"]:
            if st.get("op") == "req" and "rop" not in st and rnd.random() < p:
                st["rop"] = rnd.choice(ASYNC_OPS)
    return scs


def gen_random(ctx, bd, abi, nsc, nmounts, shape, tag):
    """histories of the seeded generator of the vfs engine (the same code, carried by the vfsasync binary)"""
    out = ctx.path("gen_%s.ndjson" % tag)
    C.run_bin(bd, "vfsasync", [abi, out, "gen", nsc, nmounts, shape], env={"VERIF_SEED": ctx.seed + sum(map(ord, tag))}, timeout=600)
    return C.read_ndjson(out)


def execute(ctx, bd, abi, scenarios, tag):
    import time
    t0 = time.time()
    scf = ctx.path("sc_%s.ndjson" % tag)
    trf = ctx.path("tr_%s.ndjson" % tag)
    C.write_ndjson(scf, scenarios)
    C.run_bin(bd, "vfsasync", [abi, trf, "replay", scf], env={"VERIF_SEED": ctx.seed}, timeout=1800)
    res = C.tlc_trace(ctx, "Trace_VfsAsync", trf, timeout=3000, xmx="8g")
    if not res["accepted"]:
        raise C.ToolError("vfsasync trace %s not consumed: %s" % (tag, res["stuck"]))
    rows = C.read_ndjson(trf)
    keep = os.environ.get("VERIF_VFS_KEEP")
    if keep:
        import shutil
        os.makedirs(keep, exist_ok=True)
        shutil.copy(scf, keep)
        shutil.copy(trf, keep)
        with open(os.path.join(keep, "tlc_%s.out" % tag), "w") as f:
            f.write(res["output"])
    ctx.traces += 2 * len(scenarios)
    ctx.events += len(rows)
    viols = [(s, i, d) for h, s, i, d in V.scan_tuples(res["output"], ["VIOL"])]
    C.log("vfsasync %s: %d histories x 2 paths, %d events validated in %.1fs (TLC %.1fs)" % (tag, len(scenarios), len(rows), time.time() - t0, res["wall_s"]))
    return rows, viols, trf


def report(ctx, rows, viols, scenarios, tag):
    byid = {s["id"]: s for s in scenarios}
    segid = {r.get("seg"): r.get("id") for r in rows if r.get("e") == "Reset"}
    for sig, idx, detail in viols:
        ev = rows[idx - 1] if 0 < idx <= len(rows) else {}
        sid = segid.get(ev.get("seg"))
        sc = byid.get(sid)
        ctx.violation(sig, {"scenario": sid, "event_index": idx, "event": ev, "got_vs_expected": detail},
                      replay_src={"scenarios": [sc] if sc else [], "seed": ctx.seed, "source": tag})


def coverage(rows):
    """what the validated asynchronous segments exercised"""
    cov = {"async_requests": 0, "sync_requests_in_async_run": 0, "ops": {}, "on_mount": {}, "on_pseudo": {}, "on_vacant": {}, "on_root_mount": {},
           "with_own_mapping": 0, "with_global_mapping": 0, "with_own_empty_range_mapping_under_global": 0, "unsafe_names": {},
           "mountpoint_lookups": 0, "backend_failures": 0, "after_overmount": 0, "after_index_reuse": 0, "after_remount": 0,
           "noopen_opens": 0, "backend_calls_async": 0}
    kind = None
    mounted, own, gm, rootidx, used, reused, overm, rem, noopen = {}, {}, False, None, set(), set(), set(), set(), False
    pending = None
    for r in rows:
        e = r.get("e")
        if e == "Reset":
            kind = r["kind"]
            mounted, own, rootidx, used, reused, overm, rem = {}, {}, None, set(), set(), set(), set()
            gm = r["gmap"]["r"] != {"h": 0, "l": 0}
            noopen = r["opts"]["no_open"]
        elif e == "Prefill":
            used |= set(range(1, 256))
        elif e == "Mount" and r["ret"] == "ok":
            p = "/" + "/".join(c for c in r["comps"] if c not in ("", "."))
            i = r["idx"]
            if p in mounted:
                overm.add(i)
                own.pop(mounted[p], None)
            if i in used:
                reused.add(i)
            used.add(i)
            mounted[p] = i
            rem.discard(i)
            own[i] = ("empty" if r["map"]["r"] == {"h": 0, "l": 0} else "own") if r["some"] else None
            if p == "/":
                rootidx = i
        elif e == "Umount" and r["ret"] == "ok":
            p = "/" + "/".join(c for c in r["comps"] if c not in ("", "."))
            i = mounted.pop(p, None)
            own.pop(i, None)
            if p == "/":
                rootidx = None
        elif e == "Remount" and r["ret"] == "ok":
            rem.add(r["idx"])
        elif e == "Init" and r.get("status") == 0:
            noopen = noopen and r.get("zmo")
        elif e == "Req" and kind == "async":
            if r.get("path") != "async":
                cov["sync_requests_in_async_run"] += 1
                pending = None
                continue
            op = r["op"]
            cov["async_requests"] += 1
            cov["ops"][op] = cov["ops"].get(op, 0) + 1
            i = r["ino"]["idx"]
            if i == 0 and r["ino"]["lown"] == 1 and rootidx is not None:
                cls, i = "on_root_mount", rootidx
            elif i == 0:
                cls = "on_pseudo"
            elif i in mounted.values():
                cls = "on_mount"
            else:
                cls = "on_vacant"
            cov[cls][op] = cov[cls].get(op, 0) + 1
            if cls in ("on_mount", "on_root_mount"):
                m = own.get(i)
                if m == "own":
                    cov["with_own_mapping"] += 1
                elif m == "empty" and gm:
                    cov["with_own_empty_range_mapping_under_global"] += 1
                elif m is None and gm:
                    cov["with_global_mapping"] += 1
                if i in overm:
                    cov["after_overmount"] += 1
                if i in reused:
                    cov["after_index_reuse"] += 1
                if i in rem:
                    cov["after_remount"] += 1
            if not r.get("safe_name") and op in ("lookup", "create"):
                cov["unsafe_names"][op] = cov["unsafe_names"].get(op, 0) + 1
            if op == "open" and noopen:
                cov["noopen_opens"] += 1
            pending = (op, cls)
        elif e == "BackendCall" and kind == "async" and pending:
            if r.get("via") == "async":
                cov["backend_calls_async"] += 1
            if r["ret"]["kind"] == "err":
                cov["backend_failures"] += 1
        elif e == "Reply" and kind == "async" and pending:
            if pending == ("lookup", "on_pseudo") and r.get("status") == 0 and "entry" in r and r["entry"]["ino"]["idx"] > 0:
                cov["mountpoint_lookups"] += 1
            pending = None
    return cov


def gate(ctx, cov):
    if ctx.violations:
        return
    missing = [k for k in ("async_requests", "with_own_mapping", "with_global_mapping", "with_own_empty_range_mapping_under_global",
                           "mountpoint_lookups", "backend_failures", "after_overmount", "after_index_reuse", "after_remount", "noopen_opens",
                           "backend_calls_async") if not cov.get(k)]
    for op in ASYNC_OPS:
        for cls in ("on_mount", "on_pseudo", "on_vacant", "on_root_mount"):
            if not cov[cls].get(op):
                missing.append("%s.%s" % (cls, op))
    for op in ("lookup", "create"):
        if not cov["unsafe_names"].get(op):
            missing.append("unsafe_names." + op)
    if missing:
        raise C.ToolError("coverage gate: the validated asynchronous runs never exercised %s" % missing)


def corrupt_demo(ctx, rows):
    """binding demonstration: four corruptions of a real log, each must be flagged by TLC with the expected signature"""
    bad = [json.loads(json.dumps(r)) for r in rows]
    kind = None
    done = {}
    for x in bad:
        if x.get("e") == "Reset":
            kind = x["kind"]
        if kind != "async":
            continue
        if x.get("e") == "Req":
            cur = x
        if x.get("e") == "BackendCall" and cur.get("path") == "async":
            if x["m"] == "setattr" and "owner" in x and cur["args"].get("valid_uid") and "owner" not in done:
                x["owner"]["uid"]["l"] = (x["owner"]["uid"]["l"] + 1) % 65536
                done["owner"] = r"X06|C14|setattr"
            elif x["m"] == "getattr" and "backend" not in done:
                x["backend"] = "nobody"
                done["backend"] = r"X06|C07|getattr"
            elif x["m"] == "fsync" and "via" not in done:
                x["via"] = "sync"
                done["via"] = r"X06|fsync|backend-called-through-sync-method"
        if x.get("e") == "Reply" and cur.get("path") == "async" and cur["op"] == "write" and x.get("status") == 0 and "sum" not in done:
            x["sum"] = "0"
            done["sum"] = r"X06|write|async-differs-from-sync|reply"
    if len(done) < 4:
        raise C.ToolError("binding demo: nothing to corrupt (%s)" % sorted(done))
    bf = ctx.path("corrupt.ndjson")
    C.write_ndjson(bf, bad)
    res = C.tlc_trace(ctx, "Trace_VfsAsync", bf, timeout=1200, xmx="6g")
    sigs = sorted({s for h, s, i, d in V.scan_tuples(res["output"], ["VIOL"])})
    for what, prefix in done.items():
        if not any(s.startswith(prefix) for s in sigs):
            raise C.ToolError("binding demo failed: corrupted trace accepted (%s, expected %s, got %s)" % (what, prefix, sigs[:8]))
    return {"corruption": "owner uid of a logged async setattr call +1; backend of an async getattr call renamed; path tag of an async fsync call flipped; digest of an async write reply changed",
            "rejected_with": sigs[:10]}


def first_segments(rows, nseg):
    out, segs = [], []
    for r in rows:
        s = r.get("seg")
        if s not in segs:
            segs.append(s)
        if len(segs) > nseg:
            break
        out.append(r)
    return out


def model(ctx):
    """I level: AsyncImpl => A"""
    cfg = "MC_VfsAsync_quick.cfg" if ctx.quick else "MC_VfsAsync_thorough.cfg"
    r = C.tlc_mc(ctx, "MC_VfsAsync", cfg=cfg, workers=6, timeout=1500)
    C.log("vfsasync: AsyncImpl => A checked on %d distinct states (%d generated) in %.1fs" % (r["distinct"], r["generated"], r["wall_s"]))
    for inv in r["violated"]:
        ctx.violation("X06|model|" + inv, {"tlc": r["output"][-3000:]}, replay_src={"tlc_output": r["output"][-6000:]})
    ctx.extra["action_coverage"] = {k: v for k, v in r.get("actions", {}).items() if "Async" in k or "!Do" in k}
    return r


def replay(ctx):
    with open(ctx.replay) as f:
        rp = json.load(f)
    scs = (rp.get("scenario") or {}).get("scenarios") or []
    if not scs:
        raise C.ToolError("replay file %s holds no scenario" % ctx.replay)
    bd = bindir(ctx)
    abi = V.export_abi(ctx)
    rows, viols, trf = execute(ctx, bd, abi, scs, "replay")
    report(ctx, rows, viols, scs, "replay-file")
    ctx.extra["rule"] = "replay of " + ctx.replay


def run_x06(ctx):
    if getattr(ctx, "replay", None):
        return replay(ctx)
    quick = ctx.quick
    bd = bindir(ctx)
    abi = V.export_abi(ctx)
    if os.path.exists(os.path.join(C.SPEC, "MC_VfsAsync.tla")):
        model(ctx)
    rnd_py = random.Random(ctx.seed)
    walks = V.tlc_walks(ctx, "walk_x06", 16 if quick else 400, 6 if quick else 8, list(V.CODE_BUGS), False)
    scs = [V.concretise(w, "tlc-x06-%d" % i, "tlc-simulate", ctx.seed * 1000 + i, autoprobe=2, nopred=True) for i, w in enumerate(walks)]
    rnd = gen_random(ctx, bd, abi, 1 if quick else 10, 100 if quick else 500, "mix", "x06")
    if not quick:
        rnd += gen_random(ctx, bd, abi, 3, 600, "fill", "x06f")
    rnd += gen_random(ctx, bd, abi, 1 if quick else 8, 25 if quick else 80, "rmroot", "x06r")
    bias(rnd, rnd_py)
    dirs = directed(ctx.seed) + bias(V.directed_c07(ctx.seed) + V.directed_c14(ctx.seed), rnd_py, 0.0)
    allsc = dirs + scs + rnd
    rows, viols, trf = execute(ctx, bd, abi, allsc, "x06")
    report(ctx, rows, viols, allsc, "replay")
    cov = coverage(rows)
    gate(ctx, cov)
    demo = corrupt_demo(ctx, first_segments(rows, 2))
    ctx.extra.update({
        "distinct_nontrivial": cov["async_requests"],
        "rule": "every history runs on a fresh Server<Arc<Vfs>> once through handle_message and once with the ten asynchronous operations through "
                "async_handle_message; the asynchronous run must satisfy the obligations of Trace_Vfs.tla (routing, id translation), the name gates, "
                "reach the backends' asynchronous methods, and equal the synchronous run call by call and reply by reply; histories = %d directed + %d TLC behaviours + %d seeded" % (len(dirs), len(scs), len(rnd)),
        "trace_coverage": cov, "binding_demo": [demo],
    })
    for s in dirs[:1] + scs[:1]:
        ctx.sample({"scenario": s["id"], "steps": s["steps"][:6]})
    ctx.assumptions += ["backends are recording filesystems whose asynchronous methods are ready at once (futures polled with a no-op waker; no io_uring)",
                        "the synchronous run is not reported here (C07 / C14 judge it); it is the reference of the equivalence clause",
                        "passthrough backing ids are not scripted (the asynchronous filesystem API cannot return one)"]


PROPS = {"X06": run_x06}
