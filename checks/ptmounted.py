"""X05 (engine ptmounted) - beyond the listed properties: end-to-end conformance of the MOUNTED passthrough file
system with the Linux kernel as the client (real /dev/fuse mounts below /verif/.work/X05/).

spec/PtMounted.tla         A level: Result / Tree / View at the system-call interface (C05's statement seen through
                           the kernel), the named accepted deviations (DotEntriesOptional, KernelFallocModes,
                           TimesNotCompared, ExportLagsWithCache, InodeNumbersLocal) and the kernel's reference / handle
                           accounting (Refs, Handles); extends HostFs for the vocabulary
spec/MC_PtMounted.tla      the accounting object against a small protocol-abiding kernel (no false alarm, table = held
                           inodes) and against a misbehaving one (anti-vacuity)
spec/Trace_PtMounted.tla   judge of the recorded sessions (monitor mode)
harness/src/bin/ptmounted  mounts PassthroughFs (standalone / below a Vfs; timeouts 0 / 1 s + writeback; file handles)
                           through FuseSession + channel threads running Server::handle_message, runs seeded histories of
                           plain system calls on the mountpoint and on two host shadows, walks export / shadows /
                           mountpoint, records the request stream through a wrapper FileSystem (rec.rs)

Calibration: shadow against shadow and the initial trees (CAL signatures => exit 2). Exit 2 as well if /dev/fuse or
mounting is not available. Every mount lives below the work directory and is detached on every exit path."""
import json
import os
import re
import subprocess

from . import common as C

LEVEL = {"X05": "model_checking"}

_RE_V = re.compile(r'<<\s*"VIOL",\s*"([^"]+)",\s*(\d+),(.*?)>>\s*(?=<<\s*"(?:VIOL|ACCEPTED)"|Progress\(|Model checking|Checkpointing|$)')
OPS = ["mkdir", "mknod", "symlink", "link", "rename", "unlink", "rmdir", "open", "close", "read", "pread", "write", "pwrite", "ftruncate", "truncate",
       "fallocate", "lseek", "fsync", "chmod", "chown", "utimens", "stat", "fstat", "readdir", "statfs", "readlink", "setxattr", "getxattr", "listxattr", "removexattr"]


def viols_of(res):
    txt = res["output"].replace("\n", " ")
    return [(m.group(1), int(m.group(2)), " ".join(m.group(3).split())[:700]) for m in _RE_V.finditer(txt)]


def cleanup(bd, path):
    try:
        subprocess.run([os.path.join(bd, "ptmounted"), "cleanup", path], stdout=subprocess.PIPE, stderr=subprocess.PIPE, timeout=60)
    except Exception:
        pass
    left = []
    try:
        with open("/proc/self/mountinfo") as f:
            for line in f:
                p = line.split(" ")[4]
                if p == path or p.startswith(path + "/"):
                    left.append(p)
    except OSError:
        pass
    for p in reversed(left):
        subprocess.run(["umount", "-l", p], stdout=subprocess.PIPE, stderr=subprocess.PIPE)
    return left


def judge(ctx, trace):
    res = C.tlc_trace(ctx, "Trace_PtMounted", trace, timeout=1500, xmx="8g")
    if not res["accepted"]:
        raise C.ToolError("ptmounted trace not consumed: %s" % res["stuck"])
    return res, viols_of(res)


def binding(ctx, rows):
    segs = [r["seg"] for r in rows if r.get("e") == "Reset"][:3]
    cut = [json.loads(json.dumps(r)) for r in rows if r.get("seg") in segs and r.get("e") != "Try"]
    first_cfg = {r["seg"]: r["cfg"] for r in cut if r["e"] == "Reset"}
    plans = []

    def at(row):
        return next(k for k, r in enumerate(cut) if r is row) + 1

    for r in cut:                                         # Result: one successful stat answers another size on the mountpoint
        if r["e"] == "Step" and r["op"]["op"] == "stat" and r["mnt"]["st"] == "OK":
            r["mnt"]["attr"]["size"] += 1
            plans.append(("size in the mountpoint's answer to one stat changed", r"X05\|stat\|result", at(r)))
            break
    for r in cut:                                         # Refs: one FORGET counted twice
        if r["e"] in ("Step", "End") and any(e[0] == "fgt" and e[1] != "1" for e in r["reqs"]):
            k = next(i for i, e in enumerate(r["reqs"]) if e[0] == "fgt" and e[1] != "1")
            r["reqs"].insert(k, list(r["reqs"][k]))
            plans.append(("one FORGET of the recorded request stream duplicated", r"X05\|proto\|forget-underflow", at(r)))
            break
    for r in cut:                                         # View: a file of the mountpoint's listing gets another mode
        if r["e"] == "Step" and r["seg"] == segs[-1] and "view" in r and len(r["view"]) > 3:
            r["view"][2]["perm"] ^= 0o111
            plans.append(("permission bits of one entry in a walk of the mountpoint changed", r"X05\|view\|rows", at(r)))
            break
    for r in cut:                                         # calibration: the second shadow disagrees
        if r["e"] == "Step" and r["seg"] == segs[-1] and r["sh2"]["st"] == "OK":
            r["sh2"]["st"] = "EIO"
            plans.append(("status of one call on the second shadow changed (calibration must reject)", r"CAL\|", at(r)))
            break
    if len(plans) < 4:
        raise C.ToolError("binding demo: nothing to corrupt (%d of 4 corruptions placed)" % len(plans))
    bf = ctx.path("corrupt.ndjson")
    C.write_ndjson(bf, cut)
    _, got = judge(ctx, bf)
    for what, want, idx in plans:
        sigs = sorted(g[0] for g in got if g[1] == idx and re.match(want, g[0]))
        if not sigs:
            raise C.ToolError("binding demo failed: corrupted trace accepted (%s)" % what)
        ctx.extra.setdefault("binding_demo", []).append({"corruption": what, "rejected_with": sigs[:3]})
    del first_cfg


def run(ctx):
    bd = os.environ.get("PTMOUNTED_BINDIR") or C.build_harness(bins=["ptmounted"])
    work = ctx.path("mnt")
    os.makedirs(work, exist_ok=True)
    cleanup(bd, ctx.work)
    try:
        if not os.path.exists("/dev/fuse"):
            raise C.ToolError("X05 needs /dev/fuse, which does not exist here")
        r = subprocess.run([os.path.join(bd, "ptmounted"), "probe", work], stdout=subprocess.PIPE, stderr=subprocess.PIPE, text=True, timeout=120)
        if r.returncode != 0:
            raise C.ToolError("X05 needs a working FUSE mount; the probe mount below %s failed: %s" % (work, r.stderr[-300:]))
        # the accounting object: no false alarm for a protocol-abiding kernel; a misbehaving one is caught
        C.tlc_mc(ctx, "MC_PtMounted", cfg="MC_PtMounted.cfg", workers=4, timeout=600)
        keep = (ctx.states, ctx.transitions, list(ctx.mc_runs))
        m = C.tlc_mc(ctx, "MC_PtMounted", cfg="MC_PtMounted_misbehave.cfg", workers=4, timeout=600, coverage=False, expect_violation=True)
        ctx.states, ctx.transitions, ctx.mc_runs = keep
        if "NoFalseAlarm" not in m["violated"]:
            raise C.ToolError("anti-vacuity: a kernel that breaks the reference protocol must trip the accounting (MC_PtMounted_misbehave.cfg)")
        ctx.extra.setdefault("binding_demo", []).append({"corruption": "kernel model allowed to break the reference protocol (MC_PtMounted_misbehave.cfg)", "rejected_with": m["violated"]})
        if getattr(ctx, "replay", None):
            raise C.ToolError("X05 histories are reproduced by seed (VERIF_SEED), not by a replay file")
        nseg, length = (8, 100) if ctx.quick else (48, 160)
        trace = ctx.path("sessions.ndjson")
        r = C.run_bin(bd, "ptmounted", ["run", work, trace, nseg, length], env={"VERIF_SEED": ctx.seed}, timeout=1700, ok_codes=(0, 3))
        if r.returncode == 3:
            raise C.ToolError("mounting stopped working during the run: %s" % r.stderr[-300:])
        rows = C.read_ndjson(trace)
        res, vs = judge(ctx, trace)
        cal = [v for v in vs if v[0].startswith("CAL|")]
        if cal:
            C.log("calibration: %s" % (cal[:2],))
            raise C.ToolError("calibration failure (shadow against shadow / initial trees): %s at event %d" % (cal[0][0], cal[0][1]))
        ctx.states += res.get("distinct", 0)
        ctx.transitions += res.get("distinct", 0)
        ctx.events += len(rows)
        ctx.traces += sum(1 for r in rows if r.get("e") == "Reset")
        for sig, idx, detail in vs:
            ev = rows[idx - 1] if idx - 1 < len(rows) else {}
            cfg = next((x["cfg"] for x in rows if x.get("e") == "Reset" and x.get("seg") == ev.get("seg")), None)
            hist = [x["op"] for x in rows if x.get("e") == "Step" and x.get("seg") == ev.get("seg") and x.get("i", 0) <= ev.get("i", 10 ** 9)]
            ctx.violation(sig, {"event": idx, "seg": ev.get("seg"), "step": ev.get("i"), "op": ev.get("op"), "cfg": cfg, "detail": detail},
                          replay_src={"seed": ctx.seed, "cfg": cfg, "ops": hist[-30:]})
        # coverage
        ok, pairs, cfgs, views, reqs, kinds = {}, set(), set(), 0, 0, {}
        for r in rows:
            if r.get("e") == "Reset":
                c = r["cfg"]
                cfgs.add((c["via"], c["timeout_ms"], c["wb"], c["cache"], c["ifh"]))
            if r.get("e") in ("Reset", "Step", "End", "Umount"):
                for e in r.get("reqs", []):
                    reqs += 1
                    kinds[e[0]] = kinds.get(e[0], 0) + 1
            if r.get("e") == "Step":
                o = r["op"]["op"]
                pairs.add((o, r["mnt"]["st"], r["op"].get("uid", 0) != 0, r["op"].get("flags", 0) if o == "open" else r["op"].get("mode", 0) if o == "fallocate" else 0))
                if r["mnt"]["st"] == "OK":
                    ok[o] = ok.get(o, 0) + 1
                views += 1 if "view" in r else 0
        missing = [o for o in OPS if not ok.get(o)]
        if missing:
            raise C.ToolError("coverage gate: system calls that never succeeded on the mountpoint: %s" % missing)
        if len(cfgs) < 3 or views < 10 or min(kinds.get(k, 0) for k in ("use", "ent", "fgt", "opn", "rel")) == 0:
            raise C.ToolError("coverage gate: %d configurations, %d walks of the mountpoint, request kinds %s" % (len(cfgs), views, kinds))
        binding(ctx, rows)
        steps = [r for r in rows if r.get("e") == "Step"]
        for r in steps[:2] + [x for x in steps if x["op"]["op"] in ("rename", "pwrite")][:2]:
            ctx.sample({"seg": r["seg"], "op": r["op"], "mountpoint": {k: v for k, v in r["mnt"].items() if k != "data"}, "host": {k: v for k, v in r["sh"].items() if k != "data"},
                        "requests_seen_by_the_server": r["reqs"][:12]})
        ctx.extra.update({
            "distinct_nontrivial": len(pairs),
            "rule": "seeded histories of %d system calls per mounted session; distinct = (system call, status on the mountpoint, non-root caller?, open flags / fallocate mode)" % length,
            "sessions": len(cfgs) and sum(1 for r in rows if r.get("e") == "Umount"),
            "configurations": sorted("%s timeout=%dms wb=%s cache=%s ifh=%s" % c for c in cfgs),
            "system_calls": len(steps), "calls_succeeded": ok, "walks_of_the_mountpoint": views, "requests_recorded": reqs, "request_kinds": kinds,
        })
        ctx.assumptions += [
            "accepted kernel-induced deviations are named in spec/PtMounted.tla: DotEntriesOptional, KernelFallocModes, TimesNotCompared, ExportLagsWithCache, InodeNumbersLocal",
            "special files are created and listed but never opened through the mountpoint (the kernel serves them itself); paths never lead through a symlink (its target lies elsewhere for every tree)",
            "one client process; FORGETs are provoked at the end of a session by closing everything and dropping the kernel's dentry/inode caches (a plain /dev/fuse mount sends no DESTROY)",
        ]
    finally:
        left = cleanup(bd, ctx.work)
        if left:
            C.log("detached stale mounts: %s" % left)


PROPS = {"X05": run}
