SPECIFICATION Spec
CONSTANTS
  Ops <- Ops_C_FAIL
  Held0Set <- H_0
  Names <- NamesAll
  Mounts <- MountsAll
  MountOf <- MountOfAll
  Ctx = TRUE
  DropAlways = FALSE
  NoReprobe = FALSE
  LeakProbe = TRUE
INVARIANTS S1 Refines LiveRegistered S2 S3 LockSane ResOK 
VIEW View
