---------------------------- MODULE MC_MountFdsA ----------------------------
(* X07: the A-level object MountFds as a specification of its own: S1-S3 are invariants of every
   sequential history (sanity check of the judge; config MC_MountFdsA.cfg). *)
EXTENDS MountFds
(* The object as a specification of its own (sanity: S1-S3 are invariants of A). *)
CONSTANTS AMounts, ADescs, AMaxRefs
VARIABLE st
AInit == st = MfInit(AMounts)
AGet == \E m \in AMounts : \E d \in ADescs \ st.open :
          st.refs[m] < AMaxRefs /\ st' = MfGet(st, m, d)
APut == \E m \in AMounts : MfPutEnabled(st, m) /\ st' = MfPut(st, m)
ANext == AGet \/ APut
ASpec == AInit /\ [][ANext]_st
AS1 == MfS1(st)
AS2 == MfS2(st)
AS3 == MfS3(st)
=============================================================================
