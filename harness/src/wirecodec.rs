//! Request encoder / reply decoder driven by the ABI table exported from the TLA+ specification
//! (`abi.json`, written by spec/ExportWire.tla). Nothing here uses the crate's own structures.
use serde_json::{json, Map, Value};
use std::collections::BTreeMap;

#[derive(Clone, Debug)]
pub struct Field {
    pub name: String,
    pub off: usize,
    pub w: usize,
}

pub struct Abi {
    pub doc: Value,
}

pub type Vals = BTreeMap<String, u64>;

impl Abi {
    pub fn load(path: &str) -> Abi {
        let s = std::fs::read_to_string(path).expect("abi.json");
        Abi {
            doc: serde_json::from_str(&s).expect("abi.json parse"),
        }
    }
    pub fn fields(&self, s: &str) -> Vec<Field> {
        self.doc["layout"][s]
            .as_array()
            .unwrap_or_else(|| panic!("unknown struct {s}"))
            .iter()
            .map(|f| Field {
                name: f["f"].as_str().unwrap().to_string(),
                off: f["off"].as_u64().unwrap() as usize,
                w: f["w"].as_u64().unwrap() as usize,
            })
            .collect()
    }
    pub fn size(&self, s: &str) -> usize {
        self.doc["size"][s].as_u64().unwrap_or_else(|| panic!("unknown struct {s}")) as usize
    }
    pub fn konst(&self, name: &str) -> u64 {
        self.doc["const"][name]
            .as_str()
            .unwrap_or_else(|| panic!("unknown const {name}"))
            .parse()
            .unwrap()
    }
    pub fn nested(&self, s: &str, f: &str) -> Option<String> {
        self.doc["nested"][s][f].as_str().map(|x| x.to_string())
    }
    /// Flat scalar field names of a structure (nested ones dotted), with absolute offset and width.
    pub fn flat_fields(&self, s: &str) -> Vec<Field> {
        let mut out = Vec::new();
        for f in self.fields(s) {
            if let Some(n) = self.nested(s, &f.name) {
                for g in self.flat_fields(&n) {
                    out.push(Field {
                        name: format!("{}.{}", f.name, g.name),
                        off: f.off + g.off,
                        w: g.w,
                    });
                }
            } else {
                out.push(f);
            }
        }
        out
    }
    /// Encode a structure from flat field values (missing fields are zero; arrays wider than 8
    /// bytes are filled by repeating the value's bytes).
    pub fn encode(&self, s: &str, vals: &Vals) -> Vec<u8> {
        let mut buf = vec![0u8; self.size(s)];
        for f in self.flat_fields(s) {
            let v = vals.get(&f.name).copied().unwrap_or(0);
            let b = v.to_le_bytes();
            for i in 0..f.w {
                buf[f.off + i] = b[i % 8];
            }
        }
        buf
    }
    /// Decode to flat "prefix.field" -> decimal string (fields wider than 8 bytes: "0" if all zero
    /// else hex).
    pub fn decode(&self, s: &str, bytes: &[u8], prefix: &str, out: &mut Map<String, Value>) {
        for f in self.flat_fields(s) {
            let b = &bytes[f.off..f.off + f.w];
            let v = if f.w <= 8 {
                let mut a = [0u8; 8];
                a[..f.w].copy_from_slice(b);
                u64::from_le_bytes(a).to_string()
            } else if b.iter().all(|x| *x == 0) {
                "0".to_string()
            } else {
                b.iter().map(|x| format!("{x:02x}")).collect::<String>()
            };
            out.insert(format!("{prefix}{}", f.name), json!(v));
        }
    }
    pub fn op(&self, name: &str) -> &Value {
        &self.doc["ops"][name]
    }
    pub fn op_names(&self) -> Vec<String> {
        self.doc["ops"].as_object().unwrap().keys().cloned().collect()
    }
    /// names of the constants among `bits` that are set in `v`
    pub fn bits_set(&self, v: u64, bits: &[String]) -> Vec<String> {
        bits.iter().filter(|b| v & self.konst(b) != 0).cloned().collect()
    }
}

/// 64-bit FNV-1a as lowercase hex: the payload digest used in traces.
pub fn fnv(data: &[u8]) -> String {
    let mut h: u64 = 0xcbf2_9ce4_8422_2325;
    for b in data {
        h ^= *b as u64;
        h = h.wrapping_mul(0x0000_0100_0000_01b3);
    }
    format!("{h:016x}")
}

pub fn pay(data: &[u8]) -> Value {
    json!({"len": data.len(), "sum": fnv(data)})
}
