------------------------------ MODULE Trace_Init ------------------------------
(* Trace specification for C12: judges recorded INIT negotiations of the real stacks (events written
   by harness/src/bin/initx.rs) against the A-level of FuseInit: ReplyOK with the `want` set the
   filesystem really returned (observed through the server's MetricsHook), SwitchesOK with the
   switches observed by probes, refusal of a second INIT by the VFS, and a second session (DESTROY or not, then
   an INIT offering something else, probes again) judged by the INIT that is in force. Monitor mode. The outcome
   predicted by the I-level is compared too (DRIFT lines, not violations). *)
EXTENDS FuseInit, Json, IOUtils, Sequences
Rec == ndJsonDeserialize(IOEnv.TRACE)
VARIABLE l
ToSet(s) == {s[i] : i \in 1..Len(s)}
Viol(sig, d) == PrintT(<<"VIOL", sig, l, d>>)
Chk(ok, sig, d) == IF ok THEN TRUE ELSE Viol(sig, d)
KOf(e) == [stack |-> e.k.stack, major |-> e.k.major, minor |-> e.k.minor, flags |-> ToSet(e.k.flags), flags2 |-> ToSet(e.k.flags2),
           ext |-> e.k.ext, want |-> ToSet(e.k.want), sw |-> e.k.sw]
ROf(e) == [status |-> e.r.status, size |-> e.r.size, flags |-> ToSet(e.r.flags), flags2 |-> ToSet(e.r.flags2), major |-> e.r.major,
           max_write |-> e.r.max_write, max_pages |-> e.r.max_pages]
\* which conjunct of ReplyOK fails (for the signature)
Why(kk, r, want) ==
  IF kk.major = "lt" THEN "major-lt-not-EPROTO"
  ELSE IF r.status # "ok" THEN "status-" \o r.status
  ELSE IF kk.major = "gt" THEN "major-gt-reply"
  ELSE IF r.size # ReplySize(kk.minor) THEN "reply-size-for-minor-" \o kk.minor
  ELSE IF Features(r.flags \cup r.flags2) # Features(Offered(kk)) \cap Features(want) THEN "enabled-not-intersection"
  ELSE IF r.flags2 # {} /\ "INIT_EXT" \notin r.flags THEN "flags2-without-INIT_EXT"
  ELSE IF r.max_pages # 0 /\ "MAX_PAGES" \notin r.flags THEN "max_pages-without-MAX_PAGES"
  ELSE "max_write"
WhichSw(r, t) == IF t.no_open /\ "ZERO_MESSAGE_OPEN" \notin Honoured(r) THEN "no_open" ELSE
                 IF t.no_opendir /\ "ZERO_MESSAGE_OPENDIR" \notin Honoured(r) THEN "no_opendir" ELSE
                 IF t.writeback /\ "WRITEBACK_CACHE" \notin Honoured(r) THEN "writeback" ELSE
                 IF t.killpriv /\ "HANDLE_KILLPRIV_V2" \notin Honoured(r) THEN "killpriv" ELSE "dax"
\* the second session of the case: (DESTROY,) INIT with another offer, probes again
Second(e, kk, r, t) ==
  LET s == e.second
      k2 == [stack |-> s.k.stack, major |-> s.k.major, minor |-> s.k.minor, flags |-> ToSet(s.k.flags), flags2 |-> ToSet(s.k.flags2),
             ext |-> s.k.ext, want |-> ToSet(s.k.want), sw |-> s.k.sw]
      r2 == [status |-> s.r.status, size |-> s.r.size, flags |-> ToSet(s.r.flags), flags2 |-> ToSet(s.r.flags2), major |-> s.r.major,
             max_write |-> s.r.max_write, max_pages |-> s.r.max_pages]
      want2 == ToSet(s.want.bits)
      t2 == [no_open |-> s.t.no_open, no_opendir |-> s.t.no_opendir, writeback |-> s.t.writeback, killpriv |-> s.t.killpriv, dax |-> s.t.dax]
      na == ToSet(e.t.na) \cup ToSet(s.t.na)
      tag == "|second" \o (IF s.destroyed THEN "-after-destroy" ELSE "") \o "|"
      live == kk.major = "eq" /\ r.status = "ok"
      p == SecondSession(kk, [r |-> r, t |-> t, called |-> live], k2, s.destroyed)
  IN /\ Chk(MaySend(k2), "C12|harness|second-offer-not-sendable", s.k)
     \* an accepted INIT is judged like the first one; whatever INIT is in force bounds the switches
     \* the second step of the version handshake: after a major mismatch the 7.x INIT is the negotiation proper
     /\ Chk(~(kk.major = "gt" /\ k2.major = "eq") \/ (r2.status = "ok" /\ s.want.seen /\ ReplyOK(k2, r2, want2) /\ SwitchesOK(r2, t2)),
            "C12|" \o kk.stack \o "|init-after-major-mismatch|" \o (IF r2.status = "ok" /\ ~s.want.seen THEN "init-params-not-reported" ELSE Why(k2, r2, want2)),
            <<s.k, s.r, s.want, s.t>>)
     /\ Chk(~live \/ r2.status # "ok" \/ ReplyOK(k2, r2, want2), "C12|" \o kk.stack \o tag \o "reply|" \o Why(k2, r2, want2), <<s.k, s.r, s.want>>)
     /\ Chk(~live \/ SwitchesOK(InForce(r, r2), t2), "C12|" \o kk.stack \o tag \o "switch-on-without-negotiation|" \o WhichSw(InForce(r, r2), t2),
            <<e.k, e.r, s.k, s.r, s.t>>)
     \* a refused INIT changes nothing
     /\ Chk(~live \/ r2.status = "ok" \/ \A x \in DOMAIN t2 : x \in na \/ t2[x] = t[x], "C12|" \o kk.stack \o tag \o "refused-init-changed-switches",
            <<e.t, s.t>>)
     \* the VFS's own record: untouched by a refused INIT, its switches bounded by the INIT in force, and a backend mounted
     \* afterwards is initialised with exactly what that INIT negotiated
     /\ kk.stack # "vfs_pt" \/ ~live \/
          /\ Chk(r2.status = "ok" \/ s.t.vo = e.t.vo, "C12|vfs_pt" \o tag \o "refused-init-changed-options", <<e.t.vo, s.t.vo>>)
          /\ LET h == Honoured(InForce(r, r2)) IN
             Chk((s.t.vo.no_open => "ZERO_MESSAGE_OPEN" \in h) /\ (s.t.vo.no_opendir => "ZERO_MESSAGE_OPENDIR" \in h),
                 "C12|vfs_pt" \o tag \o "vfs-switch-on-without-negotiation", <<s.t.vo, h>>)
          /\ Chk(s.late.init /\ ToSet(s.late.capable) = (IF r2.status = "ok" THEN want2 ELSE ToSet(e.want.bits)),
                 "C12|vfs_pt" \o tag \o "late-backend-capabilities", <<s.late, s.want.bits, e.want.bits>>)
     /\ IF ~live \/ (p.r.status = r2.status /\ p.r.size = r2.size /\ p.r.flags = r2.flags /\ p.r.flags2 = r2.flags2
                      /\ \A x \in DOMAIN t2 : x \in na \/ p.t[x] = t2[x])
        THEN TRUE ELSE PrintT(<<"DRIFT", l, "second", s.how, s.destroyed, e.k, p.r, p.t, s.r, s.t>>)
Check(e) ==
  LET kk == KOf(e)  r == ROf(e)  want == ToSet(e.want.bits)
      t == [no_open |-> e.t.no_open, no_opendir |-> e.t.no_opendir, writeback |-> e.t.writeback, killpriv |-> e.t.killpriv, dax |-> e.t.dax]
  IN /\ Chk(ReplyOK(kk, r, want), "C12|" \o kk.stack \o "|reply|" \o Why(kk, r, want), <<e.k, e.r, e.want>>)
     /\ Chk(e.r.other = "0" /\ e.want.other = "0", "C12|" \o kk.stack \o "|bits-outside-universe", <<e.r.other, e.want.other>>)   \* harness sanity
     /\ Chk(kk.major # "eq" \/ r.status # "ok" \/ e.want.seen, "C12|" \o kk.stack \o "|init-params-not-reported", e.want)
     /\ Chk(SwitchesOK(r, t), "C12|" \o kk.stack \o "|switch-on-without-negotiation|"
              \o (IF t.no_open /\ "ZERO_MESSAGE_OPEN" \notin Honoured(r) THEN "no_open" ELSE
                  IF t.no_opendir /\ "ZERO_MESSAGE_OPENDIR" \notin Honoured(r) THEN "no_opendir" ELSE
                  IF t.writeback /\ "WRITEBACK_CACHE" \notin Honoured(r) THEN "writeback" ELSE
                  IF t.killpriv /\ "HANDLE_KILLPRIV_V2" \notin Honoured(r) THEN "killpriv" ELSE "dax"), <<e.k, e.r, e.t>>)
     /\ Chk(~(kk.stack = "vfs_pt" /\ kk.major = "eq" /\ r.status = "ok" /\ ~e.second.destroyed) \/ e.second.r.status = "EINVAL",
            "C12|vfs_pt|second-init-accepted", e.second.r.status)
     /\ ~(kk.stack = "vfs_pt" /\ kk.major = "eq" /\ r.status = "ok") \/
          Chk((e.t.vo.no_open => "ZERO_MESSAGE_OPEN" \in Honoured(r)) /\ (e.t.vo.no_opendir => "ZERO_MESSAGE_OPENDIR" \in Honoured(r)),
              "C12|vfs_pt|vfs-switch-on-without-negotiation", <<e.t.vo, e.r>>)
     /\ Second(e, kk, r, t)
     /\ LET p == e.pred IN
        IF p.r.status = r.status /\ p.r.size = r.size /\ ToSet(p.r.flags) = r.flags /\ ToSet(p.r.flags2) = r.flags2
           /\ (r.status # "ok" \/ kk.major # "eq" \/ kk.minor = "m4" \/ (p.r.max_write = r.max_write /\ p.r.max_pages = r.max_pages))
           /\ (\A s \in {"no_open", "no_opendir", "writeback", "killpriv", "dax"} : s \in ToSet(e.t.na) \/ p.t[s] = t[s])
        THEN TRUE ELSE PrintT(<<"DRIFT", l, e.k, p, e.r, e.t>>)
TInit == l = 1 /\ k = 0 /\ stage = "trace" /\ res = 0 /\ second = "trace"    \* FuseInit's variables are unused here
TStep == /\ l <= Len(Rec)
        /\ TRUE = (IF Rec[l].e = "Init" THEN Check(Rec[l]) ELSE TRUE)
        /\ l' = l + 1 /\ UNCHANGED vars
TDone == l = Len(Rec) + 1 /\ PrintT(<<"ACCEPTED", Len(Rec)>>) /\ l' = l + 1 /\ UNCHANGED vars
TNext == TStep \/ TDone
TSpec == TInit /\ [][TNext]_<<l, vars>>
=============================================================================
