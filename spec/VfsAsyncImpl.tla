---------------------------- MODULE VfsAsyncImpl ----------------------------
(* X06: I-level model of the asynchronous request path through the VFS,
       src/api/vfs/async_io.rs (impl AsyncFileSystem for Vfs), reached through Server::async_handle_message
       (src/api/server/async_io.rs: remap_ctx_ids -> Vfs::id_remap_with_nodeid, then the dispatch table),
   on top of the mount table of VfsImpl.tla (mount / over-mount / umount / re-attach / INIT are VfsImpl's actions,
   unchanged). One action per asynchronous operation and ARM of its `match self.get_real_rootfs(inode)?`:
       Err    get_real_rootfs fails (vacant index: ENOENT)           -> no backend
       Left   the pseudo file system answers
       Right  the backend of the index (or of the mount on "/" for node 1) is called through its async_* method
       Gate   the name gate refuses (lookup: '/', create: validate_path_component)      [lookup, create]
       NoOpen opts.no_open answers ENOSYS                                                [open]
   The action records in `areq` what the code does for every request of that operation taking that arm (a set of records): the backend called (with which inode number,
   caller uid, setattr owner uid) and what the client gets back (status, inode number, owner uid). The invariants
   (section "AsyncImpl => A") compare that record with what Vfs.tla prescribes for the A-level state.

   Textual differences between async_io.rs and sync_io.rs, as transcribed (none changes an observable of A):
     * the Left arms call the SYNCHRONOUS PseudoFs methods (lookup_pseudo, getattr, setattr, open, create, fsync,
       fallocate, fsyncdir); PseudoFs implements only lookup and getattr, the rest is the trait default ENOSYS;
     * async_read / async_write answer ENOSYS themselves on a pseudo inode (sync: PseudoFs default, ENOSYS as well);
     * async_open / async_create drop the passthrough backing id (the asynchronous API has none); not an observable here;
     * async_open tests opts.no_open without the target_os guard of the synchronous open (same on Linux);
     * everything else (name gates, remap_attr_id before setattr, convert_attr, convert_backend_entry) is the same text.
   The I-level has no variable for opts.no_open / no_opendir (VfsImpl keeps the negotiated switches only at the A
   level): the A variable `noopen` is read by the NoOpen arm. *)
EXTENDS VfsImpl
CONSTANTS OwnerUid,     \* owner uid sent in SETATTR (external id)
          BackUid       \* owner uid the backends report (internal id)
VARIABLE areq
xvars == <<vars, areq>>
XView == <<View, areq>>

BIno == 7                     \* the inode number a backend reports for a looked-up / created file
Ino(i, n) == [idx |-> i, low |-> ToString(n), lown |-> n]
Inodes == {Ino(0, 1), Ino(0, 2), Ino(0, 9)} \cup {Ino(i, n) : i \in 1..N-1, n \in {1, BIno}}
Names == {"a", "zz", ".", "..", "x/y"}
HasSlash(name) == name = "x/y"
NoIno == [idx |-> 0, low |-> "0"]
(* ---------------- the code ---------------- *)
\* Vfs::get_real_rootfs
RealRootfs(ino) ==
  IF ino.idx = 0 THEN
     IF ino.lown = RootNode /\ RootNode \in DOMAIN mnt
     THEN LET m == mnt[RootNode] IN
          IF sb[m.idx] = Vacant THEN [kind |-> "err", idx |-> m.idx, low |-> m.root]          \* get_fs_by_idx(mnt.fs_idx)?
          ELSE [kind |-> "right", idx |-> m.idx, low |-> m.root]                              \* VfsInode::new(mnt.fs_idx, mnt.ino)
     ELSE [kind |-> "left", idx |-> 0, low |-> ino.low]
  ELSE IF sb[ino.idx] = Vacant THEN [kind |-> "err", idx |-> ino.idx, low |-> ino.low]
       ELSE [kind |-> "right", idx |-> ino.idx, low |-> ino.low]
\* Server::remap_ctx_ids -> Vfs::id_remap_with_nodeid (before the dispatch, both paths)
CtxFsIdx(ino) == IF ino.idx = 0 /\ ino.lown = RootNode /\ RootNode \in DOMAIN mnt /\ "RM" \notin Bugs THEN mnt[RootNode].idx ELSE ino.idx
CtxOf(ino) == In(IEff(CtxFsIdx(ino)), TestUid)
\* is_safe_path_component
SafeComponent(name) == ~HasSlash(name) /\ name # "." /\ name # ".."
\* PseudoFs::lookup: 0 = ENOENT
PLookup(node, name) == IF node \notin DOMAIN ipn THEN 0 ELSE IF name = "." THEN node ELSE IF name = ".." THEN ipn[node].parent ELSE Child(ipn, node, name)

Rec(op, arm, ino, name, be, bino, cuid, ouid, st, rino, ruid) ==
  [op |-> op, arm |-> arm, ino |-> ino, name |-> name, be |-> be, bino |-> bino, cuid |-> cuid, ouid |-> ouid, st |-> st, rino |-> rino, ruid |-> ruid]
Refused(op, arm, ino, name, errno) == Rec(op, arm, ino, name, "", "", Zero, Zero, errno, NoIno, Zero)

\* which arm a request takes
ArmOf(op, ino, name) ==
  IF op = "lookup" /\ HasSlash(name) THEN "gate"                         \* name.to_bytes_with_nul().contains(&SLASH_ASCII)
  ELSE IF op = "create" /\ ~SafeComponent(name) THEN "gate"              \* validate_path_component(name)?
  ELSE IF op = "open" /\ noopen THEN "noopen"                            \* self.opts.load().no_open
  ELSE RealRootfs(ino).kind

\* the Left arms: the synchronous PseudoFs
LeftAnswer(op, ino, name) ==
  LET node == ino.lown IN
  IF op = "lookup" THEN                                                   \* self.lookup_pseudo(fs, idata, ctx, name)
     LET c == PLookup(node, name) IN
     IF c = 0 THEN Refused(op, "left", ino, name, "ENOENT")
     ELSE IF c \in DOMAIN mnt
          THEN Rec(op, "left", ino, name, "", "", Zero, Zero, "ok", [idx |-> mnt[c].idx, low |-> mnt[c].root], LookupUid(c))   \* entry = mnt.root_entry
          ELSE Rec(op, "left", ino, name, "", "", Zero, Zero, "ok", [idx |-> 0, low |-> ToString(c)], Out(IEff(0), Zero))      \* convert_entry(0, ..)
  ELSE IF op = "getattr" THEN                                             \* fs.getattr(ctx, idata.ino(), handle)
     IF node \in DOMAIN ipn THEN Rec(op, "left", ino, name, "", "", Zero, Zero, "ok", [idx |-> 0, low |-> ino.low], Zero)
     ELSE Refused(op, "left", ino, name, "ENOENT")
  ELSE Refused(op, "left", ino, name, "ENOSYS")                           \* trait defaults of PseudoFs; read / write: ENOSYS in async_io.rs itself

\* the Right arms: fs.async_<op>(ctx, idata.ino(), ..).await and the conversion of what comes back
RightAnswer(op, ino, name, fail) ==
  LET rr == RealRootfs(ino)
      be == sb[rr.idx]
      cu == CtxOf(ino)
      ou == IF op = "setattr" THEN In(IEff(rr.idx), OwnerUid) ELSE Zero   \* self.remap_attr_id(idata.fs_idx(), false, &mut attr)
  IN IF fail THEN Rec(op, "right", ino, name, be, rr.low, cu, ou, "EIO", NoIno, Zero)
     ELSE IF op \in {"lookup", "create"}                                   \* self.convert_backend_entry(idata, entry)
          THEN Rec(op, "right", ino, name, be, rr.low, cu, ou, "ok", [idx |-> rr.idx, low |-> ToString(BIno)], Out(IEff(rr.idx), BackUid))
     ELSE IF op \in {"getattr", "setattr"}                                 \* self.convert_attr(idata, attr)
          THEN Rec(op, "right", ino, name, be, rr.low, cu, ou, "ok", [idx |-> rr.idx, low |-> rr.low], Out(IEff(rr.idx), BackUid))
     ELSE Rec(op, "right", ino, name, be, rr.low, cu, ou, "ok", NoIno, Zero)

Result(op, ino, name, fail) ==
  LET arm == ArmOf(op, ino, name) IN
  CASE arm = "gate" -> Refused(op, arm, ino, name, "EINVAL")
    [] arm = "noopen" -> Refused(op, arm, ino, name, "ENOSYS")
    [] arm = "err" -> Refused(op, arm, ino, name, "ENOENT")
    [] arm = "left" -> LeftAnswer(op, ino, name)
    [] arm = "right" -> RightAnswer(op, ino, name, fail)

\* one step = every request of operation `op` that takes arm `arm` in the current state, answered at once: `areq` is the set of
\* their records (a set, so that the state space is (1 + #actions) x the mount-table states instead of (1 + #requests) x)
NamesOf(op) == IF op \in {"lookup", "create"} THEN Names ELSE {"-"}
AsyncStep(op, arm) ==
  /\ areq = {}
  /\ \E S \in {{Result(op, x[1], x[2], x[3]) : x \in {y \in Inodes \X NamesOf(op) \X BOOLEAN : ArmOf(op, y[1], y[2]) = arm}}} :
        S # {} /\ areq' = S
  /\ UNCHANGED vars

DoAsyncLookupGate == AsyncStep("lookup", "gate")
DoAsyncLookupErr == AsyncStep("lookup", "err")
DoAsyncLookupLeft == AsyncStep("lookup", "left")
DoAsyncLookupRight == AsyncStep("lookup", "right")
DoAsyncGetattrErr == AsyncStep("getattr", "err")
DoAsyncGetattrLeft == AsyncStep("getattr", "left")
DoAsyncGetattrRight == AsyncStep("getattr", "right")
DoAsyncSetattrErr == AsyncStep("setattr", "err")
DoAsyncSetattrLeft == AsyncStep("setattr", "left")
DoAsyncSetattrRight == AsyncStep("setattr", "right")
DoAsyncOpenNoOpen == AsyncStep("open", "noopen")
DoAsyncOpenErr == AsyncStep("open", "err")
DoAsyncOpenLeft == AsyncStep("open", "left")
DoAsyncOpenRight == AsyncStep("open", "right")
DoAsyncCreateGate == AsyncStep("create", "gate")
DoAsyncCreateErr == AsyncStep("create", "err")
DoAsyncCreateLeft == AsyncStep("create", "left")
DoAsyncCreateRight == AsyncStep("create", "right")
DoAsyncReadErr == AsyncStep("read", "err")
DoAsyncReadLeft == AsyncStep("read", "left")
DoAsyncReadRight == AsyncStep("read", "right")
DoAsyncWriteErr == AsyncStep("write", "err")
DoAsyncWriteLeft == AsyncStep("write", "left")
DoAsyncWriteRight == AsyncStep("write", "right")
DoAsyncFsyncErr == AsyncStep("fsync", "err")
DoAsyncFsyncLeft == AsyncStep("fsync", "left")
DoAsyncFsyncRight == AsyncStep("fsync", "right")
DoAsyncFallocateErr == AsyncStep("fallocate", "err")
DoAsyncFallocateLeft == AsyncStep("fallocate", "left")
DoAsyncFallocateRight == AsyncStep("fallocate", "right")
DoAsyncFsyncdirErr == AsyncStep("fsyncdir", "err")
DoAsyncFsyncdirLeft == AsyncStep("fsyncdir", "left")
DoAsyncFsyncdirRight == AsyncStep("fsyncdir", "right")

\* the control operations of VfsImpl (the request record is forgotten: it described the previous state)
XMount == DoMount /\ areq' = {}
XUmount == DoUmount /\ areq' = {}
XInit == DoInit /\ areq' = {}
XRemount == DoRemount /\ areq' = {}
XInitState == Init /\ areq = {}
XNext == XMount \/ XUmount \/ XInit \/ XRemount \/
          DoAsyncLookupGate \/ DoAsyncLookupErr \/ DoAsyncLookupLeft \/ DoAsyncLookupRight \/ DoAsyncGetattrErr \/
          DoAsyncGetattrLeft \/ DoAsyncGetattrRight \/ DoAsyncSetattrErr \/ DoAsyncSetattrLeft \/ DoAsyncSetattrRight \/
          DoAsyncOpenNoOpen \/ DoAsyncOpenErr \/ DoAsyncOpenLeft \/ DoAsyncOpenRight \/ DoAsyncCreateGate \/
          DoAsyncCreateErr \/ DoAsyncCreateLeft \/ DoAsyncCreateRight \/ DoAsyncReadErr \/ DoAsyncReadLeft \/
          DoAsyncReadRight \/ DoAsyncWriteErr \/ DoAsyncWriteLeft \/ DoAsyncWriteRight \/ DoAsyncFsyncErr \/
          DoAsyncFsyncLeft \/ DoAsyncFsyncRight \/ DoAsyncFallocateErr \/ DoAsyncFallocateLeft \/ DoAsyncFallocateRight \/
          \/ DoAsyncFsyncdirErr \/ DoAsyncFsyncdirLeft \/ DoAsyncFsyncdirRight
XSpec == XInitState /\ [][XNext]_xvars

(* ---------------- AsyncImpl => A: the record against Vfs.tla ---------------- *)
Tg(r) == Target(r.ino)
UnsafeName(r) == (r.op = "lookup" /\ HasSlash(r.name)) \/ (r.op = "create" /\ ~SafeComponent(r.name))
\* C07: a backend is called only if A says the inode belongs to a mount, and then it is that mount's backend with its own number
AsyncRouting == \A r \in areq : r.be # "" => Tg(r).kind = "mount" /\ r.be = slot[Tg(r).idx] /\ r.bino = Tg(r).low
\* C07: vacant index / unknown pseudo number: the request fails (and, by AsyncRouting, reaches nobody)
AsyncVacant == \A r \in areq : Tg(r).kind = "none" => r.be = "" /\ r.st # "ok"
\* C07: a request on the root of a mount (always a live number) is delivered unless a gate answers first
AsyncDelivered == \A r \in areq : LET t == Tg(r) IN
                     t.kind = "mount" /\ (t.via = "root" \/ r.ino.low = mroot[t.idx].low) /\ ~UnsafeName(r) /\ ~(r.op = "open" /\ noopen)
                     => r.be = slot[t.idx]
\* name gates
AsyncNameGate == \A r \in areq : UnsafeName(r) => r.be = "" /\ r.st # "ok"
\* C14: what the backend sees
AsyncIdsIn == \A r \in areq : LET t == Tg(r) IN
                 r.be # "" /\ t.kind = "mount" /\ ~KnownS6b(t.idx) /\ ~KnownS7a(t.idx) /\ ~(t.via = "root" /\ KnownRM) =>
                 /\ r.cuid = In(AEff(t.idx), TestUid)
                 /\ r.op = "setattr" => r.ouid = In(AEff(t.idx), OwnerUid)
\* C07 + C14: what the client gets back from a backend
AsyncOut == \A r \in areq : LET t == Tg(r) IN
               r.be # "" /\ r.st = "ok" /\ t.kind = "mount" /\ ~KnownS6b(t.idx) /\ ~KnownS7a(t.idx) =>
               /\ r.op \in {"lookup", "create"} => r.rino = [idx |-> t.idx, low |-> ToString(BIno)] /\ r.ruid = Out(AEff(t.idx), BackUid)
               /\ r.op \in {"getattr", "setattr"} => r.rino = [idx |-> t.idx, low |-> t.low] /\ r.ruid = Out(AEff(t.idx), BackUid)
\* C07: pseudo directories: names, numbers, crossing exactly at mount points (owner ids of the mount root translated once)
AsyncPseudo == \A r \in areq : Tg(r).kind = "pseudo" /\ ~UnsafeName(r) =>
   /\ r.be = ""
   /\ r.op = "lookup" =>
        LET c == PseudoChild(r.ino.lown, r.name) IN
        IF c = 0 THEN r.st # "ok"
        ELSE /\ r.st = "ok" /\ r.rino = NodeIno(c)
             /\ IsMp(c) /\ ~KnownS6a(mp[c]) /\ ~KnownS6b(mp[c]) /\ ~KnownS7a(mp[c]) => r.ruid = Out(AEff(mp[c]), mroot[mp[c]].uid)
   /\ r.op = "getattr" => r.st = "ok" /\ r.rino = [idx |-> 0, low |-> r.ino.low]
\* anti-vacuity of the invariants themselves: the arms really produce what they are named after
AsyncArms == \A r \in areq : (r.arm = "right") = (r.be # "")
=============================================================================
