---------------------------- MODULE SessionImpl ----------------------------
(* X03 - I level: the request loop of FuseChannel::get_request step by step, wake(), new_channel() and umount()
   of src/transport/fusedev/linux_session.rs, with the part of the kernel they race with.

   One label per system call / critical section:
     reader c    GR     get_request entry (need_exit = false)
                 POLL   self.poll.poll(): epoll_wait(-1) on the channel's own epoll instance. Two items: the
                        channel's eventfd (registered by mio::Waker: EPOLLIN|EPOLLET, edge-triggered) and the dup of
                        the fuse descriptor (registered by hand with EPOLLIN only, level-triggered; fuse_dev_poll
                        reports EPOLLIN while a request is queued and EPOLLERR once the connection is gone).
                        EINTR -> continue.
                 CHK    need_exit wins over fusereq_available
                 READ   read(2) on the non-blocking descriptor: a request | EAGAIN (another channel took it) |
                        ENOENT (the request was interrupted while it was dequeued; the kernel ends it) | EINTR |
                        ENODEV (connection gone -> Ok(None))
                 RET    get_request returns; SERVE  Server::handle_message writes the reply (ENOENT if the kernel
                        has ended the request meanwhile); FIN  the service loop ends at Ok(None), the channel is
                        dropped (its descriptor closes; the last descriptor aborts the connection)
     waker       W0 lock wakers; W1 one eventfd write per registered waker, in order; W2 unlock, return
     maker c     N0 FuseChannel::new (dup, epoll_create, eventfd, epoll_ctl); N1 add_waker under the lock; N2
                 new_channel returns and the service thread of c starts           (c in Late)
     unmounter   U1 poll(fd): POLLERR -> Ok(()) without unmounting; U2 drop(file); U3 umount2(MNT_DETACH)
     kernel      a client request arrives (while mounted); the superblock of a lazily detached mount is destroyed
                 when its last user is gone (fuse_abort_conn)
   umount() and the creation of late channels run concurrently with everything (every order of wake / umount /
   new_channel is an interleaving) unless UmountWaits (the daemon joins its woken service threads first). TLC checks, for 2 early readers (+1 late), <= NReq requests:
     safety   DeliveredOnce, BufferIsRequest (R1); ExitWins, NoneJustified, NoLostWake (R2: a channel whose token
              is pending never sleeps in epoll_wait without its eventfd item being ready); NoLostReadiness (a reader
              never sleeps in epoll_wait while a request is queued); ResultsAllowed (every result is one the
              A level - Session!GrNoneOK / GrSomeOK - allows); NothingLost (at the end every request was answered
              or ended by the kernel);
     liveness WakeWorks: after wake() has returned every channel registered before it eventually returns None;
              Termination (no reader blocks for ever once umount() has run); deadlock freedom.
   Mut # "none" selects a mutation: "edge" (the fuse descriptor registered the way mio would do it, edge-triggered -
   the comment in FuseChannel::new explains why the code does not): NoLostReadiness must fail; "skip-waker": a
   deadlock (lost wake-up) must be reported; "exit-loses": ExitWins must fail. *)
EXTENDS Naturals, Sequences, FiniteSets, TLC

CONSTANTS Readers,      \* channels created before anything else happens
          Late,         \* channels created concurrently (new_channel racing with wake / umount)
          NReq,         \* client requests the kernel may queue
          Interrupts,   \* TRUE: read(2) may also return ENOENT / EINTR, epoll_wait EINTR
          UmountWaits,  \* TRUE: umount() is called only after wake() returned and the woken service threads ended
                        \* (then a lost wake-up is a deadlock); FALSE: umount() races with everything
          Mut           \* "none" = the code; mutations that the properties must catch (anti-vacuity):
                        \* "edge"       the fuse descriptor is registered edge-triggered (as mio would)
                        \* "skip-waker" wake() forgets the last registered waker
                        \* "exit-loses" a pending request wins over the exit event, need_exit is reset per iteration
FuseFdEdge == Mut = "edge"

All == Readers \cup Late
A == INSTANCE Session WITH Chans <- All, MaxConn <- 1, AsFoundAbort <- TRUE, AsFoundRemount <- TRUE
Range(s) == {s[i] : i \in 1..Len(s)}
Min(S) == CHOOSE x \in S : \A y \in S : x <= y

(* --algorithm SessionImpl
variables
  connected = TRUE,                  \* fc->connected
  attached = TRUE,                   \* the mount is on the mountpoint
  sfd = TRUE,                        \* FuseSession.file is open
  chfd = [c \in All |-> c \in Readers],      \* the channel's dup of the descriptor is open
  started = [c \in All |-> c \in Readers],   \* new_channel has returned, the service thread runs
  q = <<>>,                          \* requests queued in the kernel (ids 1..NReq)
  sent = 0,
  proc = {},                         \* requests read by a channel and not yet answered
  answered = {}, ended = {},         \* answered by the server / ended by the kernel (abort, interrupt)
  erdy = [c \in All |-> FALSE],      \* eventfd item on the ready list of c's epoll (edge-triggered)
  frdy = [c \in All |-> FALSE],      \* fuse item on the ready list (only used if FuseFdEdge)
  wakers = Readers,                  \* FuseSession.wakers
  mtx = FALSE,                       \* the wakers mutex is held
  \* ---- ghost (A level)
  tokA = [c \in All |-> FALSE],      \* exit token of the channel: an eventfd write not yet turned into Ok(None)
  startTok = [c \in All |-> FALSE],  \* token pending when the current get_request call started
  got = [c \in All |-> <<>>],        \* requests returned by get_request on c, in order
  buf = [c \in All |-> 0],           \* whose bytes the channel's buffer holds
  snap = {},                         \* wakers the wake() call iterates over
  wakeRet = FALSE, umRet = FALSE;

define
  DevReady == q # <<>> \/ ~connected
  NoFdLeft == ~sfd /\ \A c \in All : ~chfd[c]
  FuseItemReady(c) == IF FuseFdEdge THEN frdy[c] /\ DevReady ELSE DevReady
end define

\* fuse_abort_conn: queued and in-flight requests are ended; every waiter on the device is woken
macro KernelAbort() begin
  connected := FALSE;
  ended := ended \cup Range(q) \cup proc;
  q := <<>>;
  proc := {};
  frdy := [c \in All |-> chfd[c]];
end macro

fair process reader \in All
variables need_exit = FALSE, ev_dev = FALSE, cur = 0, ret = "run", nint = 0;
begin
R0:   await started[self];
GR:   need_exit := FALSE;
      ret := "run";
      startTok[self] := tokA[self];
POLL: await erdy[self] \/ FuseItemReady(self);
      either
        await Interrupts /\ nint < 1;     \* EINTR: nothing is consumed (at most once per reader in the model)
        nint := nint + 1;
        goto POLL;
      or
        need_exit := (IF Mut = "exit-loses" THEN FALSE ELSE need_exit) \/ erdy[self];
        ev_dev := FuseItemReady(self);
        erdy[self] := FALSE;              \* edge-triggered: reported once per write
        frdy[self] := FALSE;
      end either;
CHK:  if need_exit /\ ~(Mut = "exit-loses" /\ ev_dev) then
        ret := "none";
        goto RET;
      elsif ~ev_dev then
        goto POLL;
      end if;
READ: if ~connected then                  \* ENODEV
        ret := "none";
      elsif q = <<>> then                 \* EAGAIN
        goto POLL;
      else
        either
          cur := Head(q);
          buf[self] := Head(q);
          proc := proc \cup {Head(q)};
          q := Tail(q);
          ret := "some";
        or
          await Interrupts;               \* ENOENT: the request was interrupted, the kernel ends it
          ended := ended \cup {Head(q)};
          q := Tail(q);
          goto POLL;
        or
          await Interrupts /\ nint < 1;   \* EINTR
          nint := nint + 1;
          goto POLL;
        end either;
      end if;
RET:  if ret = "none" then
        if need_exit then
          tokA[self] := FALSE;
        end if;
        goto FIN;
      else
        got[self] := Append(got[self], cur);
      end if;
SERVE: if cur \in proc then
        proc := proc \ {cur};
        answered := answered \cup {cur};
      end if;                             \* else: the reply write fails with ENOENT
      goto GR;
FIN:  chfd[self] := FALSE;
      if ~sfd /\ (\A c \in All \ {self} : ~chfd[c]) /\ connected then
        KernelAbort();                    \* fuse_dev_release of the last descriptor
      end if;
end process;

fair process waker = 100
variables todo = {};
begin
W0:   await ~mtx;
      mtx := TRUE;
      todo := wakers;
      snap := wakers;
W1:   while (IF Mut = "skip-waker" THEN Cardinality(todo) > 1 ELSE todo # {}) do
        erdy[Min(todo)] := TRUE;          \* write(eventfd, 1): the epoll callback queues the item
        tokA[Min(todo)] := TRUE;
        todo := todo \ {Min(todo)};
      end while;
W2:   mtx := FALSE;
      wakeRet := TRUE;
end process;

fair process maker \in {200 + c : c \in Late}
begin
N0:   if ~sfd then                        \* new_channel on a session without fuse file: Err, no channel
        started[(self - 200)] := TRUE;
        goto NX;
      else
        chfd[(self - 200)] := TRUE;            \* dup; epoll_ctl(ADD) queues the fuse item at once if it is ready
        frdy[(self - 200)] := DevReady;
      end if;
N1:   await ~mtx;
      wakers := wakers \cup {(self - 200)};
N2:   started[(self - 200)] := TRUE;
NX:   skip;
end process;

fair process unmounter = 101
begin
U0:   await ~UmountWaits \/ (wakeRet /\ \A c \in snap : pc[c] = "Done");
U1:   if ~connected then                  \* POLLERR: return Ok(()) - the descriptor is dropped, nothing is detached
        sfd := FALSE;
        goto UX;
      end if;
U2:   sfd := FALSE;
      if (\A c \in All : ~chfd[c]) /\ connected then
        KernelAbort();
      end if;
U3:   attached := FALSE;
      if connected /\ q = <<>> /\ proc = {} then
        KernelAbort();                    \* nobody uses the mount: the superblock is destroyed at once
      end if;
UX:   umRet := TRUE;
end process;

fair process kernel = 102
begin
K:    while connected do
        either
          await sent < NReq /\ attached /\ connected;
          sent := sent + 1;
          q := Append(q, sent);
          frdy := [c \in All |-> chfd[c]];
        or
          await ~attached /\ connected /\ q = <<>> /\ proc = {};
          KernelAbort();                  \* the last user of the lazily detached mount is gone
        or
          await ~connected;
        end either;
      end while;
end process;
end algorithm; *)
\* BEGIN TRANSLATION (chksum(pcal) = "d5a07f51" /\ chksum(tla) = "e0cc99aa")
VARIABLES pc, connected, attached, sfd, chfd, started, q, sent, proc, 
          answered, ended, erdy, frdy, wakers, mtx, tokA, startTok, got, buf, 
          snap, wakeRet, umRet

(* define statement *)
DevReady == q # <<>> \/ ~connected
NoFdLeft == ~sfd /\ \A c \in All : ~chfd[c]
FuseItemReady(c) == IF FuseFdEdge THEN frdy[c] /\ DevReady ELSE DevReady

VARIABLES need_exit, ev_dev, cur, ret, nint, todo

vars == << pc, connected, attached, sfd, chfd, started, q, sent, proc, 
           answered, ended, erdy, frdy, wakers, mtx, tokA, startTok, got, buf, 
           snap, wakeRet, umRet, need_exit, ev_dev, cur, ret, nint, todo >>

ProcSet == (All) \cup {100} \cup ({200 + c : c \in Late}) \cup {101} \cup {102}

Init == (* Global variables *)
        /\ connected = TRUE
        /\ attached = TRUE
        /\ sfd = TRUE
        /\ chfd = [c \in All |-> c \in Readers]
        /\ started = [c \in All |-> c \in Readers]
        /\ q = <<>>
        /\ sent = 0
        /\ proc = {}
        /\ answered = {}
        /\ ended = {}
        /\ erdy = [c \in All |-> FALSE]
        /\ frdy = [c \in All |-> FALSE]
        /\ wakers = Readers
        /\ mtx = FALSE
        /\ tokA = [c \in All |-> FALSE]
        /\ startTok = [c \in All |-> FALSE]
        /\ got = [c \in All |-> <<>>]
        /\ buf = [c \in All |-> 0]
        /\ snap = {}
        /\ wakeRet = FALSE
        /\ umRet = FALSE
        (* Process reader *)
        /\ need_exit = [self \in All |-> FALSE]
        /\ ev_dev = [self \in All |-> FALSE]
        /\ cur = [self \in All |-> 0]
        /\ ret = [self \in All |-> "run"]
        /\ nint = [self \in All |-> 0]
        (* Process waker *)
        /\ todo = {}
        /\ pc = [self \in ProcSet |-> CASE self \in All -> "R0"
                                        [] self = 100 -> "W0"
                                        [] self \in {200 + c : c \in Late} -> "N0"
                                        [] self = 101 -> "U0"
                                        [] self = 102 -> "K"]

R0(self) == /\ pc[self] = "R0"
            /\ started[self]
            /\ pc' = [pc EXCEPT ![self] = "GR"]
            /\ UNCHANGED << connected, attached, sfd, chfd, started, q, sent, 
                            proc, answered, ended, erdy, frdy, wakers, mtx, 
                            tokA, startTok, got, buf, snap, wakeRet, umRet, 
                            need_exit, ev_dev, cur, ret, nint, todo >>

GR(self) == /\ pc[self] = "GR"
            /\ need_exit' = [need_exit EXCEPT ![self] = FALSE]
            /\ ret' = [ret EXCEPT ![self] = "run"]
            /\ startTok' = [startTok EXCEPT ![self] = tokA[self]]
            /\ pc' = [pc EXCEPT ![self] = "POLL"]
            /\ UNCHANGED << connected, attached, sfd, chfd, started, q, sent, 
                            proc, answered, ended, erdy, frdy, wakers, mtx, 
                            tokA, got, buf, snap, wakeRet, umRet, ev_dev, cur, 
                            nint, todo >>

POLL(self) == /\ pc[self] = "POLL"
              /\ erdy[self] \/ FuseItemReady(self)
              /\ \/ /\ Interrupts /\ nint[self] < 1
                    /\ nint' = [nint EXCEPT ![self] = nint[self] + 1]
                    /\ pc' = [pc EXCEPT ![self] = "POLL"]
                    /\ UNCHANGED <<erdy, frdy, need_exit, ev_dev>>
                 \/ /\ need_exit' = [need_exit EXCEPT ![self] = (IF Mut = "exit-loses" THEN FALSE ELSE need_exit[self]) \/ erdy[self]]
                    /\ ev_dev' = [ev_dev EXCEPT ![self] = FuseItemReady(self)]
                    /\ erdy' = [erdy EXCEPT ![self] = FALSE]
                    /\ frdy' = [frdy EXCEPT ![self] = FALSE]
                    /\ pc' = [pc EXCEPT ![self] = "CHK"]
                    /\ nint' = nint
              /\ UNCHANGED << connected, attached, sfd, chfd, started, q, sent, 
                              proc, answered, ended, wakers, mtx, tokA, 
                              startTok, got, buf, snap, wakeRet, umRet, cur, 
                              ret, todo >>

CHK(self) == /\ pc[self] = "CHK"
             /\ IF need_exit[self] /\ ~(Mut = "exit-loses" /\ ev_dev[self])
                   THEN /\ ret' = [ret EXCEPT ![self] = "none"]
                        /\ pc' = [pc EXCEPT ![self] = "RET"]
                   ELSE /\ IF ~ev_dev[self]
                              THEN /\ pc' = [pc EXCEPT ![self] = "POLL"]
                              ELSE /\ pc' = [pc EXCEPT ![self] = "READ"]
                        /\ ret' = ret
             /\ UNCHANGED << connected, attached, sfd, chfd, started, q, sent, 
                             proc, answered, ended, erdy, frdy, wakers, mtx, 
                             tokA, startTok, got, buf, snap, wakeRet, umRet, 
                             need_exit, ev_dev, cur, nint, todo >>

READ(self) == /\ pc[self] = "READ"
              /\ IF ~connected
                    THEN /\ ret' = [ret EXCEPT ![self] = "none"]
                         /\ pc' = [pc EXCEPT ![self] = "RET"]
                         /\ UNCHANGED << q, proc, ended, buf, cur, nint >>
                    ELSE /\ IF q = <<>>
                               THEN /\ pc' = [pc EXCEPT ![self] = "POLL"]
                                    /\ UNCHANGED << q, proc, ended, buf, cur, 
                                                    ret, nint >>
                               ELSE /\ \/ /\ cur' = [cur EXCEPT ![self] = Head(q)]
                                          /\ buf' = [buf EXCEPT ![self] = Head(q)]
                                          /\ proc' = (proc \cup {Head(q)})
                                          /\ q' = Tail(q)
                                          /\ ret' = [ret EXCEPT ![self] = "some"]
                                          /\ pc' = [pc EXCEPT ![self] = "RET"]
                                          /\ UNCHANGED <<ended, nint>>
                                       \/ /\ Interrupts
                                          /\ ended' = (ended \cup {Head(q)})
                                          /\ q' = Tail(q)
                                          /\ pc' = [pc EXCEPT ![self] = "POLL"]
                                          /\ UNCHANGED <<proc, buf, cur, ret, nint>>
                                       \/ /\ Interrupts /\ nint[self] < 1
                                          /\ nint' = [nint EXCEPT ![self] = nint[self] + 1]
                                          /\ pc' = [pc EXCEPT ![self] = "POLL"]
                                          /\ UNCHANGED <<q, proc, ended, buf, cur, ret>>
              /\ UNCHANGED << connected, attached, sfd, chfd, started, sent, 
                              answered, erdy, frdy, wakers, mtx, tokA, 
                              startTok, got, snap, wakeRet, umRet, need_exit, 
                              ev_dev, todo >>

RET(self) == /\ pc[self] = "RET"
             /\ IF ret[self] = "none"
                   THEN /\ IF need_exit[self]
                              THEN /\ tokA' = [tokA EXCEPT ![self] = FALSE]
                              ELSE /\ TRUE
                                   /\ tokA' = tokA
                        /\ pc' = [pc EXCEPT ![self] = "FIN"]
                        /\ got' = got
                   ELSE /\ got' = [got EXCEPT ![self] = Append(got[self], cur[self])]
                        /\ pc' = [pc EXCEPT ![self] = "SERVE"]
                        /\ tokA' = tokA
             /\ UNCHANGED << connected, attached, sfd, chfd, started, q, sent, 
                             proc, answered, ended, erdy, frdy, wakers, mtx, 
                             startTok, buf, snap, wakeRet, umRet, need_exit, 
                             ev_dev, cur, ret, nint, todo >>

SERVE(self) == /\ pc[self] = "SERVE"
               /\ IF cur[self] \in proc
                     THEN /\ proc' = proc \ {cur[self]}
                          /\ answered' = (answered \cup {cur[self]})
                     ELSE /\ TRUE
                          /\ UNCHANGED << proc, answered >>
               /\ pc' = [pc EXCEPT ![self] = "GR"]
               /\ UNCHANGED << connected, attached, sfd, chfd, started, q, 
                               sent, ended, erdy, frdy, wakers, mtx, tokA, 
                               startTok, got, buf, snap, wakeRet, umRet, 
                               need_exit, ev_dev, cur, ret, nint, todo >>

FIN(self) == /\ pc[self] = "FIN"
             /\ chfd' = [chfd EXCEPT ![self] = FALSE]
             /\ IF ~sfd /\ (\A c \in All \ {self} : ~chfd'[c]) /\ connected
                   THEN /\ connected' = FALSE
                        /\ ended' = (ended \cup Range(q) \cup proc)
                        /\ q' = <<>>
                        /\ proc' = {}
                        /\ frdy' = [c \in All |-> chfd'[c]]
                   ELSE /\ TRUE
                        /\ UNCHANGED << connected, q, proc, ended, frdy >>
             /\ pc' = [pc EXCEPT ![self] = "Done"]
             /\ UNCHANGED << attached, sfd, started, sent, answered, erdy, 
                             wakers, mtx, tokA, startTok, got, buf, snap, 
                             wakeRet, umRet, need_exit, ev_dev, cur, ret, nint, 
                             todo >>

reader(self) == R0(self) \/ GR(self) \/ POLL(self) \/ CHK(self)
                   \/ READ(self) \/ RET(self) \/ SERVE(self) \/ FIN(self)

W0 == /\ pc[100] = "W0"
      /\ ~mtx
      /\ mtx' = TRUE
      /\ todo' = wakers
      /\ snap' = wakers
      /\ pc' = [pc EXCEPT ![100] = "W1"]
      /\ UNCHANGED << connected, attached, sfd, chfd, started, q, sent, proc, 
                      answered, ended, erdy, frdy, wakers, tokA, startTok, got, 
                      buf, wakeRet, umRet, need_exit, ev_dev, cur, ret, nint >>

W1 == /\ pc[100] = "W1"
      /\ IF (IF Mut = "skip-waker" THEN Cardinality(todo) > 1 ELSE todo # {})
            THEN /\ erdy' = [erdy EXCEPT ![Min(todo)] = TRUE]
                 /\ tokA' = [tokA EXCEPT ![Min(todo)] = TRUE]
                 /\ todo' = todo \ {Min(todo)}
                 /\ pc' = [pc EXCEPT ![100] = "W1"]
            ELSE /\ pc' = [pc EXCEPT ![100] = "W2"]
                 /\ UNCHANGED << erdy, tokA, todo >>
      /\ UNCHANGED << connected, attached, sfd, chfd, started, q, sent, proc, 
                      answered, ended, frdy, wakers, mtx, startTok, got, buf, 
                      snap, wakeRet, umRet, need_exit, ev_dev, cur, ret, nint >>

W2 == /\ pc[100] = "W2"
      /\ mtx' = FALSE
      /\ wakeRet' = TRUE
      /\ pc' = [pc EXCEPT ![100] = "Done"]
      /\ UNCHANGED << connected, attached, sfd, chfd, started, q, sent, proc, 
                      answered, ended, erdy, frdy, wakers, tokA, startTok, got, 
                      buf, snap, umRet, need_exit, ev_dev, cur, ret, nint, 
                      todo >>

waker == W0 \/ W1 \/ W2

N0(self) == /\ pc[self] = "N0"
            /\ IF ~sfd
                  THEN /\ started' = [started EXCEPT ![(self - 200)] = TRUE]
                       /\ pc' = [pc EXCEPT ![self] = "NX"]
                       /\ UNCHANGED << chfd, frdy >>
                  ELSE /\ chfd' = [chfd EXCEPT ![(self - 200)] = TRUE]
                       /\ frdy' = [frdy EXCEPT ![(self - 200)] = DevReady]
                       /\ pc' = [pc EXCEPT ![self] = "N1"]
                       /\ UNCHANGED started
            /\ UNCHANGED << connected, attached, sfd, q, sent, proc, answered, 
                            ended, erdy, wakers, mtx, tokA, startTok, got, buf, 
                            snap, wakeRet, umRet, need_exit, ev_dev, cur, ret, 
                            nint, todo >>

N1(self) == /\ pc[self] = "N1"
            /\ ~mtx
            /\ wakers' = (wakers \cup {(self - 200)})
            /\ pc' = [pc EXCEPT ![self] = "N2"]
            /\ UNCHANGED << connected, attached, sfd, chfd, started, q, sent, 
                            proc, answered, ended, erdy, frdy, mtx, tokA, 
                            startTok, got, buf, snap, wakeRet, umRet, 
                            need_exit, ev_dev, cur, ret, nint, todo >>

N2(self) == /\ pc[self] = "N2"
            /\ started' = [started EXCEPT ![(self - 200)] = TRUE]
            /\ pc' = [pc EXCEPT ![self] = "NX"]
            /\ UNCHANGED << connected, attached, sfd, chfd, q, sent, proc, 
                            answered, ended, erdy, frdy, wakers, mtx, tokA, 
                            startTok, got, buf, snap, wakeRet, umRet, 
                            need_exit, ev_dev, cur, ret, nint, todo >>

NX(self) == /\ pc[self] = "NX"
            /\ TRUE
            /\ pc' = [pc EXCEPT ![self] = "Done"]
            /\ UNCHANGED << connected, attached, sfd, chfd, started, q, sent, 
                            proc, answered, ended, erdy, frdy, wakers, mtx, 
                            tokA, startTok, got, buf, snap, wakeRet, umRet, 
                            need_exit, ev_dev, cur, ret, nint, todo >>

maker(self) == N0(self) \/ N1(self) \/ N2(self) \/ NX(self)

U0 == /\ pc[101] = "U0"
      /\ ~UmountWaits \/ (wakeRet /\ \A c \in snap : pc[c] = "Done")
      /\ pc' = [pc EXCEPT ![101] = "U1"]
      /\ UNCHANGED << connected, attached, sfd, chfd, started, q, sent, proc, 
                      answered, ended, erdy, frdy, wakers, mtx, tokA, startTok, 
                      got, buf, snap, wakeRet, umRet, need_exit, ev_dev, cur, 
                      ret, nint, todo >>

U1 == /\ pc[101] = "U1"
      /\ IF ~connected
            THEN /\ sfd' = FALSE
                 /\ pc' = [pc EXCEPT ![101] = "UX"]
            ELSE /\ pc' = [pc EXCEPT ![101] = "U2"]
                 /\ sfd' = sfd
      /\ UNCHANGED << connected, attached, chfd, started, q, sent, proc, 
                      answered, ended, erdy, frdy, wakers, mtx, tokA, startTok, 
                      got, buf, snap, wakeRet, umRet, need_exit, ev_dev, cur, 
                      ret, nint, todo >>

U2 == /\ pc[101] = "U2"
      /\ sfd' = FALSE
      /\ IF (\A c \in All : ~chfd[c]) /\ connected
            THEN /\ connected' = FALSE
                 /\ ended' = (ended \cup Range(q) \cup proc)
                 /\ q' = <<>>
                 /\ proc' = {}
                 /\ frdy' = [c \in All |-> chfd[c]]
            ELSE /\ TRUE
                 /\ UNCHANGED << connected, q, proc, ended, frdy >>
      /\ pc' = [pc EXCEPT ![101] = "U3"]
      /\ UNCHANGED << attached, chfd, started, sent, answered, erdy, wakers, 
                      mtx, tokA, startTok, got, buf, snap, wakeRet, umRet, 
                      need_exit, ev_dev, cur, ret, nint, todo >>

U3 == /\ pc[101] = "U3"
      /\ attached' = FALSE
      /\ IF connected /\ q = <<>> /\ proc = {}
            THEN /\ connected' = FALSE
                 /\ ended' = (ended \cup Range(q) \cup proc)
                 /\ q' = <<>>
                 /\ proc' = {}
                 /\ frdy' = [c \in All |-> chfd[c]]
            ELSE /\ TRUE
                 /\ UNCHANGED << connected, q, proc, ended, frdy >>
      /\ pc' = [pc EXCEPT ![101] = "UX"]
      /\ UNCHANGED << sfd, chfd, started, sent, answered, erdy, wakers, mtx, 
                      tokA, startTok, got, buf, snap, wakeRet, umRet, 
                      need_exit, ev_dev, cur, ret, nint, todo >>

UX == /\ pc[101] = "UX"
      /\ umRet' = TRUE
      /\ pc' = [pc EXCEPT ![101] = "Done"]
      /\ UNCHANGED << connected, attached, sfd, chfd, started, q, sent, proc, 
                      answered, ended, erdy, frdy, wakers, mtx, tokA, startTok, 
                      got, buf, snap, wakeRet, need_exit, ev_dev, cur, ret, 
                      nint, todo >>

unmounter == U0 \/ U1 \/ U2 \/ U3 \/ UX

K == /\ pc[102] = "K"
     /\ IF connected
           THEN /\ \/ /\ sent < NReq /\ attached /\ connected
                      /\ sent' = sent + 1
                      /\ q' = Append(q, sent')
                      /\ frdy' = [c \in All |-> chfd[c]]
                      /\ UNCHANGED <<connected, proc, ended>>
                   \/ /\ ~attached /\ connected /\ q = <<>> /\ proc = {}
                      /\ connected' = FALSE
                      /\ ended' = (ended \cup Range(q) \cup proc)
                      /\ q' = <<>>
                      /\ proc' = {}
                      /\ frdy' = [c \in All |-> chfd[c]]
                      /\ sent' = sent
                   \/ /\ ~connected
                      /\ UNCHANGED <<connected, q, sent, proc, ended, frdy>>
                /\ pc' = [pc EXCEPT ![102] = "K"]
           ELSE /\ pc' = [pc EXCEPT ![102] = "Done"]
                /\ UNCHANGED << connected, q, sent, proc, ended, frdy >>
     /\ UNCHANGED << attached, sfd, chfd, started, answered, erdy, wakers, mtx, 
                     tokA, startTok, got, buf, snap, wakeRet, umRet, need_exit, 
                     ev_dev, cur, ret, nint, todo >>

kernel == K

(* Allow infinite stuttering to prevent deadlock on termination. *)
Terminating == /\ \A self \in ProcSet: pc[self] = "Done"
               /\ UNCHANGED vars

Next == waker \/ unmounter \/ kernel
           \/ (\E self \in All: reader(self))
           \/ (\E self \in {200 + c : c \in Late}: maker(self))
           \/ Terminating

Spec == /\ Init /\ [][Next]_vars
        /\ \A self \in All : WF_vars(reader(self))
        /\ WF_vars(waker)
        /\ \A self \in {200 + c : c \in Late} : WF_vars(maker(self))
        /\ WF_vars(unmounter)
        /\ WF_vars(kernel)

Termination == <>(\A self \in ProcSet: pc[self] = "Done")

\* END TRANSLATION 

\* ---------------------------------------------------------------------------------------------------------
\* properties
ReaderAt(c, lbl) == pc[c] = lbl
Finished == \A p \in ProcSet : pc[p] = "Done"

TypeOK == /\ connected \in BOOLEAN /\ attached \in BOOLEAN /\ sent \in 0..NReq
          /\ Range(q) \subseteq 1..NReq /\ proc \subseteq 1..NReq
          /\ answered \cap ended = {}

\* R1: a request is handed to exactly one get_request call; the buffer returned holds that request
AllGot == UNION {{<<c, i>> : i \in 1..Len(got[c])} : c \in All}
DeliveredOnce == \A x, y \in AllGot : x # y => got[x[1]][x[2]] # got[y[1]][y[2]]
BufferIsRequest == \A c \in All : ReaderAt(c, "RET") /\ ret[c] = "some" => buf[c] = cur[c] /\ cur[c] \notin Range(got[c])

\* R2: a call that starts with the token pending returns None; None only for a token or a dead connection;
\* a channel with a pending token never sleeps in epoll_wait without its item being ready (no lost wake-up)
ExitWins == \A c \in All : ReaderAt(c, "RET") /\ startTok[c] => ret[c] = "none"
NoneJustified == \A c \in All : ReaderAt(c, "RET") /\ ret[c] = "none" => need_exit[c] \/ ~connected
NoLostWake == \A c \in All : tokA[c] /\ ReaderAt(c, "POLL") => erdy[c] \/ need_exit[c]
\* a reader never sleeps in epoll_wait while a request is queued (or the connection is gone)
NoLostReadiness == \A c \in All : ReaderAt(c, "POLL") /\ DevReady => FuseItemReady(c) \/ erdy[c]
\* the A level allows every result (Session.tla, part 3)
ResultsAllowed == \A c \in All : ReaderAt(c, "RET") =>
                     IF ret[c] = "none" THEN A!GrNoneOK(need_exit[c], ~connected \/ ~attached \/ ~sfd)
                     ELSE A!GrSomeOK(startTok[c], FALSE, cur[c] \notin Range(got[c]))
\* nothing is lost: at the end every request was answered or ended by the kernel; all descriptors are closed
NothingLost == Finished => (1..sent) = answered \cup ended /\ NoFdLeft /\ ~connected
\* umount() as found: if the connection is already gone the mount stays attached (R3, finding session-umount-abort);
\* in this model the connection only dies through unmounting or through the last descriptor being closed
StaleMount == Finished /\ attached

\* liveness
WakeWorks == [](wakeRet => <>(\A c \in snap : pc[c] = "Done"))
UmountWorks == [](umRet => <>(\A c \in All : pc[c] = "Done"))

=============================================================================
