------------------------------- MODULE MC_Vfs -------------------------------
(* Model-checking instances of VfsImpl (I => A). Ids are pairs to base 4 (16 ids). *)
EXTENDS VfsImpl
MC_Paths == {<<"">>, <<"", "a">>, <<"", "a", "b">>}
MC_Paths2 == {<<"">>, <<"", "a">>}
MC_BadPath == <<"bad">>
MC_Backends == {"b1", "b2"}
\* overlapping ranges: internal 0..7 <-> external 1..8 (translating twice moves an id twice)
M1 == [i |-> Id(0, 0), e |-> Id(0, 1), r |-> Id(2, 0)]
\* reversed, disjoint: internal 8..11 <-> external 4..7
M2 == [i |-> Id(2, 0), e |-> Id(1, 0), r |-> Id(1, 0)]
\* touches the top of the id space: internal 12..15 <-> external 0..3
M3 == [i |-> Id(3, 0), e |-> Id(0, 0), r |-> Id(1, 0)]
\* a mount's own mapping with an empty range: translates nothing, still replaces the global mapping
M0r == [i |-> Id(0, 2), e |-> Id(1, 1), r |-> Zero]
MC_Maps == {M1, M2, M0r}
MC_Maps3 == {M1, M2, M3, M0r}
MC_GMaps == {NoMap, M1}
MC_NoMaps == {}
MC_NoGMaps == {NoMap}
MC_GMaps3 == {NoMap, M1, M3}
MC_RootUid == Zero
MC_TestUid == Id(0, 1)
\* all subsets of the defect ids of VfsImpl (S6a S6b S7a S7b RM XU), named by bit mask, for the configs.
\* D_001100 = {S7a, S7b} is the code as it is (the two restore findings are not fixed); XU is a model-only
\* seeded defect (umount leaves the superblock) used by the anti-vacuity run of C07.
D_000000 == {}
D_100000 == {"S6a"}
D_010000 == {"S6b"}
D_110000 == {"S6a", "S6b"}
D_001000 == {"S7a"}
D_101000 == {"S6a", "S7a"}
D_011000 == {"S6b", "S7a"}
D_111000 == {"S6a", "S6b", "S7a"}
D_000100 == {"S7b"}
D_100100 == {"S6a", "S7b"}
D_010100 == {"S6b", "S7b"}
D_110100 == {"S6a", "S6b", "S7b"}
D_001100 == {"S7a", "S7b"}
D_101100 == {"S6a", "S7a", "S7b"}
D_011100 == {"S6b", "S7a", "S7b"}
D_111100 == {"S6a", "S6b", "S7a", "S7b"}
D_000010 == {"RM"}
D_100010 == {"S6a", "RM"}
D_010010 == {"S6b", "RM"}
D_110010 == {"S6a", "S6b", "RM"}
D_001010 == {"S7a", "RM"}
D_101010 == {"S6a", "S7a", "RM"}
D_011010 == {"S6b", "S7a", "RM"}
D_111010 == {"S6a", "S6b", "S7a", "RM"}
D_000110 == {"S7b", "RM"}
D_100110 == {"S6a", "S7b", "RM"}
D_010110 == {"S6b", "S7b", "RM"}
D_110110 == {"S6a", "S6b", "S7b", "RM"}
D_001110 == {"S7a", "S7b", "RM"}
D_101110 == {"S6a", "S7a", "S7b", "RM"}
D_011110 == {"S6b", "S7a", "S7b", "RM"}
D_111110 == {"S6a", "S6b", "S7a", "S7b", "RM"}
D_000001 == {"XU"}
D_100001 == {"S6a", "XU"}
D_010001 == {"S6b", "XU"}
D_110001 == {"S6a", "S6b", "XU"}
D_001001 == {"S7a", "XU"}
D_101001 == {"S6a", "S7a", "XU"}
D_011001 == {"S6b", "S7a", "XU"}
D_111001 == {"S6a", "S6b", "S7a", "XU"}
D_000101 == {"S7b", "XU"}
D_100101 == {"S6a", "S7b", "XU"}
D_010101 == {"S6b", "S7b", "XU"}
D_110101 == {"S6a", "S6b", "S7b", "XU"}
D_001101 == {"S7a", "S7b", "XU"}
D_101101 == {"S6a", "S7a", "S7b", "XU"}
D_011101 == {"S6b", "S7a", "S7b", "XU"}
D_111101 == {"S6a", "S6b", "S7a", "S7b", "XU"}
D_000011 == {"RM", "XU"}
D_100011 == {"S6a", "RM", "XU"}
D_010011 == {"S6b", "RM", "XU"}
D_110011 == {"S6a", "S6b", "RM", "XU"}
D_001011 == {"S7a", "RM", "XU"}
D_101011 == {"S6a", "S7a", "RM", "XU"}
D_011011 == {"S6b", "S7a", "RM", "XU"}
D_111011 == {"S6a", "S6b", "S7a", "RM", "XU"}
D_000111 == {"S7b", "RM", "XU"}
D_100111 == {"S6a", "S7b", "RM", "XU"}
D_010111 == {"S6b", "S7b", "RM", "XU"}
D_110111 == {"S6a", "S6b", "S7b", "RM", "XU"}
D_001111 == {"S7a", "S7b", "RM", "XU"}
D_101111 == {"S6a", "S7a", "S7b", "RM", "XU"}
D_011111 == {"S6b", "S7a", "S7b", "RM", "XU"}
D_111111 == {"S6a", "S6b", "S7a", "S7b", "RM", "XU"}
ASSUME \A m \in MC_Maps3 : WellFormed(m)
\* C14: "ids outside the mapped range pass unchanged and translation there and back is the identity on the range",
\* for every id of the (small) id space and every candidate mapping
Ids == {Id(h, l) : h \in 0..B-1, l \in 0..B-1}
InRange(x, base, r) == IdGe(x, base) /\ IdLt(IdSub(x, base), r)
RoundTrip == \A m \in MC_Maps3 \cup {NoMap}, x \in Ids :
   /\ InRange(x, m.e, m.r) => InRange(In(m, x), m.i, m.r) /\ Out(m, In(m, x)) = x
   /\ InRange(x, m.i, m.r) => InRange(Out(m, x), m.e, m.r) /\ In(m, Out(m, x)) = x
   /\ ~InRange(x, m.e, m.r) => In(m, x) = x
   /\ ~InRange(x, m.i, m.r) => Out(m, x) = x
ASSUME RoundTrip
=============================================================================
