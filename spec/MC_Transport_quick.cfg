\* Stand-alone quick configuration (the check generates its own cfgs from checks/transport.py: q_a, q_b, q_w, q_w2).
\* <=2 runs of length 0..2 over 4 bases, <=3 operations (split of split), all three kinds; page size 2.
\*   java -cp $TLA tlc2.TLC -workers 8 -config MC_Transport_quick.cfg MC_Transport.tla
SPECIFICATION Spec
CONSTANTS
  P = 2
  M = 100000
  MaxSegs = 2
  MaxLen = 2
  Bases <- MC_Bases4
  FLens <- MC_FLens
  Kinds <- MC_KindsAll
  MaxOps = 3
  MaxN = 2
  FileSize = 2
  Chunks <- MC_Chunks
  MaxAddr = 6
VIEW View
INVARIANTS FlatAgree Counters InOrderOnce Placed FailClean Results NoOOB ObjCount Lemmas DirtyExact
CHECK_DEADLOCK FALSE
