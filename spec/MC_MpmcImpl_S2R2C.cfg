SPECIFICATION Spec
CONSTANTS
  Prog <- P_S2R2C
  Procs = {1,2,3,4}
  Fixed = FALSE
  EnableFirst = TRUE
  Mon = TRUE
INVARIANTS LinWeak QuiescentAgrees AtMostOnceI NoInventionI NoLostWakeupQ ParkedRegistered WaitersSane
