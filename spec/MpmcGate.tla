------------------------------ MODULE MpmcGate ------------------------------
(* X02: the interleavings of MpmcImpl.tla that the harness can reproduce on the REAL channel without source
   hooks, exported with the model's predictions (harness/src/bin/mpmc.rs, mode replay).

   A process keeps the turn from the first atomic step of a "coarse step" to its end:
     call        a whole non-blocking operation (send, try_recv, close, notify_waiters, flush, length read)
     poll        one poll of a recv() future: from `notified()` (or from the wake-up) until the operation
                 returns (result) or the task parks (pending); a parked task is polled again only after its
                 waker was called (RecvWake), which the harness observes with a counting waker
     cancel      dropping a parked recv() future
     send.begin / send.end    the one split the public API allows: a sender stopped between `closed.load()`
                 and `push_back` - the harness holds `lock_channel()` while a thread calls send(), so the
                 thread blocks on the queue mutex after it has read the flag; it is then frozen by a signal,
                 the lock is released, other steps run, and the thread is released (send.end)
   Per coarse step the model records the result and the set of parked tasks it woke; at the end the verdicts of
   the two linearisability monitors. Every schedule is an MpmcImpl behaviour (turn only restricts Next). *)
EXTENDS MC_MpmcImpl, Json
VARIABLES turn,      \* 0 or the process that is inside a coarse step
          sched,     \* the coarse steps so far: [p, k, r, w]
          cur        \* the coarse step being built: [k, w]
gvars2 == <<turn, sched, cur>>
allvars == <<vars, turn, sched, cur>>

RPending == Res("pending", 0)
RBlocked == Res("blockedAtLock", 0)
NoCur == [k |-> "", w |-> {}]
Woken(p) == {x \in Procs \ {p} : pc[x] = "parked" /\ ~Finished(x) /\ fnote[x] = "none" /\ fnote'[x] # "none"}
Kind(p) == CASE pc[p] = "start" -> (IF IsRecv(Op(p)) THEN "poll" ELSE "call")
             [] pc[p] = "push" -> "send.end"
             [] pc[p] = "parked" -> (IF res'[p] = RCancelled THEN "cancel" ELSE "poll")   \* RecvCancel | RecvWake
             [] OTHER -> "?"
\* the result the finished operation returned, read off the strict monitor's input: the value given to Monitors
Returned(p) ==
  CASE pc[p] = "dropfut" -> res[p]
    [] pc[p] = "notify1" -> ROk
    [] pc[p] = "closenw" -> RUnit
    [] pc[p] = "start" /\ Op(p).op = "send" -> Res("err", Op(p).m)
    [] pc[p] = "start" /\ Op(p).op = "try" -> (IF q = <<>> THEN RNone ELSE Res("some", Head(q)))
    [] pc[p] = "start" /\ Op(p).op = "len" -> Res("len", Len(q))
    [] OTHER -> RUnit

GStep(p) ==
  /\ turn \in {0, p}
  /\ Step(p)
  /\ LET k == IF turn = 0 THEN Kind(p) ELSE cur.k
         w == (IF turn = 0 THEN {} ELSE cur.w) \cup Woken(p)
         finished == ip'[p] # ip[p]
         parks == pc'[p] = "parked"
         atgate == pc'[p] = "push"
         end(r) == /\ turn' = 0 /\ cur' = NoCur /\ sched' = Append(sched, [p |-> p, k |-> k, r |-> r, w |-> w])
     IN IF finished THEN end(Returned(p))
        ELSE IF parks THEN end(RPending)
        ELSE IF atgate
        THEN \/ end(RBlocked)                                               \* stopped at the queue lock
             \/ /\ turn' = p /\ cur' = [k |-> k, w |-> w] /\ UNCHANGED sched \* not stopped: the send runs on
        ELSE /\ turn' = p /\ cur' = [k |-> k, w |-> w] /\ UNCHANGED sched
GRest == Quiescent /\ turn = 0 /\ UNCHANGED allvars
GInit == Init /\ turn = 0 /\ sched = <<>> /\ cur = NoCur
GNext == (\E p \in Procs : GStep(p)) \/ GRest
GSpec == GInit /\ [][GNext]_allvars
\* without the final stuttering step: terminal states have no successor (CHECK_DEADLOCK FALSE), so that a
\* -simulate walk ends there and the exhaustive export prints every schedule once
GSpecNoRest == GInit /\ [][\E p \in Procs : GStep(p)]_allvars
NoSched == <<vars, turn, cur>>

ProgJson == [p \in Procs |-> [i \in 1..Len(Prog[p]) |-> [op |-> Prog[p][i].op, m |-> Prog[p][i].m, set |-> Prog[p][i].set]]]
StepJson(s) == [p |-> s.p, k |-> s.k, r |-> s.r, w |-> s.w]
Verdict == [lin |-> Ls # {}, weak |-> Lw # {},
            blocked |-> {p \in Procs : Blocked(p)}, qlen |-> Len(q), closed |-> closed]
Export == ~(Quiescent /\ turn = 0)
          \/ PrintT(<<"SCHED", ToJson([prog |-> ProgJson, steps |-> [i \in 1..Len(sched) |-> StepJson(sched[i])], v |-> Verdict])>>)
\* the model's obligations on these interleavings (the same as on the fine-grained ones)
GLinWeak == LinWeak
GNoLostWakeupQ == NoLostWakeupQ
=============================================================================
