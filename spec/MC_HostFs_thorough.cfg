SPECIFICATION Spec
CONSTANTS
  Nm = {"a", "b", "l"}
  MaxOps = 3
  MaxIno = 7
INVARIANTS TreeOK FailClean WalkOK SizeOK
CHECK_DEADLOCK FALSE
