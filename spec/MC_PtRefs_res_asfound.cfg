SPECIFICATION Spec
CONSTANTS
  NameSeq <- NamesAB
  MaxFile = 3
  MaxLen = 3
  Counts <- Counts12
  CfgSet <- CfgResQ
  MODE = "res"
  Fails <- Fail02
  MAXHOST = 2
  BUG_CREATE_LEAK = FALSE
  BUG_PROBE_LEAK = TRUE
  BUG_DOTS = FALSE
  DirN <- Dir02
  MAXSEEK = 1000
  SPECIAL_A = FALSE
  Sample = 60
  WithDetail <- NoDetail
  BlameLabel <- AnyBlame
INVARIANTS NoViolStrict
VIEW View
CHECK_DEADLOCK FALSE
