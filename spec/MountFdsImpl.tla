---------------------------- MODULE MountFdsImpl ----------------------------
(* I level of specification extension X07: step model of `MountFds::get` and `impl Drop for MountFd`
   (/repo/src/passthrough/mount_fd.rs) as they are reached through a PassthroughFs in file-handle
   mode (lookup of an unknown name -> MountFds::get; forget to zero -> InodeData dropped ->
   Arc<MountFd> dropped). One PlusCal label = the code between two yield points
   (`verif_yield!("<label>")`, hooks/mountfd-yield.diff); the label is the name of the yield point
   that PRECEDES the code it models:

     lookup  L_probe    call .. : the inode fast path (get_alt under the inode map's read lock)
             MF_probe   MountFds::get: map.read().get(id).and_then(Weak::upgrade)      (atomic)
             MF_open    libc::open(mount point, O_PATH) = the probe fd; validate_mount_id
             MF_reopen  reopen_fd(probe) = the descriptor proper
             MF_wlock   map.write(): probe again + upgrade; use the existing MountFd (new file
                        closed) or Arc::new + insert(Weak); unlock; the probe fd is closed
             L_wlock    inode map write lock: insert the inode (keeps the Arc<MountFd>), or the
                        name was added concurrently: drop the handle (strong decrement)
             LD_wlock   = yield point MD_wlock, see below (the inode map lock is still held)
     forget  F_wlock    inode map write lock; count to zero: inode removed, Arc<MountFd> dropped =
                        strong decrement (atomic); not zero: unlock, return
             FD_wlock   = yield point MD_wlock in MountFd::drop (strong count reached 0, the Weak to
                        the map upgraded): map.write(); `if map[id].strong_count() == 0 then
                        remove`; unlock; close the file; (the inode map lock is released)

   Every section under the MountFds RwLock is one step, so that lock needs no variable. The inode
   map's write lock IS held across a yield point (MD_wlock inside forget / inside the locked part
   of lookup): `ilock`; a step that needs it waits for `ilock = 0`, so TLC never schedules a
   thread that would block. Ctx = FALSE drops that lock: the bare MountFds object used by
   independent getters and droppers (every interleaving of get and drop).

   Arc strong counts are explicit (`strong[o]`; Weak::upgrade fails iff it is 0); MountFd objects
   are ids (a Weak to a replaced object is distinct from the new one). Descriptors: `isopen[o]`
   (the file of object o), `pf[t]` (probe fd of thread t), `nf[t]` (reopened file not yet owned by
   an object). `a` = the abstract object of MountFds.tla, advanced at the linearisation points;
   `ad[t]` = the descriptor A returned to t. `hist` = the schedule so far (VIEW hides it when
   model checking; part of the state when exporting all interleavings).

   Failure injection: Ops[t].fail in {"none", "open", "validate", "reopen"}: that step of t's get
   fails and get returns early (the probe fd must be closed).
   Mutation switches (all FALSE = the code as read): DropAlways (drop removes the key
   unconditionally), NoReprobe (get inserts without probing again under the write lock),
   LeakProbe (an early return forgets to close the probe fd). *)
EXTENDS MountFds, Naturals, Sequences, FiniteSets, TLC

CONSTANTS Ops,        \* sequence of [op |-> "lookup" | "forget", nm |-> name, n |-> forget count, fail |-> STRING]
          Names,      \* reference slots (inode names)
          MountOf,    \* Names -> Mounts
          Mounts,     \* 1..k
          Held0Set,   \* set of initial states: each a set of names the client holds (count 1) at the start
          Ctx,        \* TRUE: inside PassthroughFs (inode map lock); FALSE: the bare object
          DropAlways, NoReprobe, LeakProbe

Threads == 1..Len(Ops)
LK == {t \in Threads : Ops[t].op = "lookup"}
FG == {t \in Threads : Ops[t].op = "forget"}
NM == Cardinality(Mounts)
MaxObj == NM + Cardinality(LK)
Objs == 1..MaxObj
Nm(t) == Ops[t].nm
Mt(t) == MountOf[Ops[t].nm]
Fail(t) == Ops[t].fail
OnMount(h, m) == {x \in h : MountOf[x] = m}

RECURSIVE FoldGet(_, _, _)
\* abstract state after `k` sequential gets on every mount that has initially held names
FoldGet(s, m, k) == IF k = 0 THEN s ELSE FoldGet(MfGet(s, m, m), m, k - 1)
RECURSIVE InitA(_, _, _)
InitA(s, ms, h) == IF ms = {} THEN s
                   ELSE LET m == CHOOSE x \in ms : TRUE IN InitA(FoldGet(s, m, Cardinality(OnMount(h, m))), ms \ {m}, h)

(* --algorithm MF
variables
  held0 \in Held0Set,
  \* object m (m \in Mounts) is the initial MountFd of mount m, alive iff a name on m is held
  strong = [k \in Objs |-> IF k \in Mounts THEN Cardinality(OnMount(held0, k)) ELSE 0],
  isopen = [k \in Objs |-> k \in Mounts /\ OnMount(held0, k) # {}],
  omnt = [k \in Objs |-> IF k \in Mounts THEN k ELSE 0],
  map = [m \in Mounts |-> IF OnMount(held0, m) # {} THEN m ELSE 0],   \* object whose Weak is stored (0 = no key)
  nexto = NM + 1,
  inode = [x \in Names |-> IF x \in held0 THEN MountOf[x] ELSE 0],    \* object the inode of name x holds (0 = no inode)
  icnt = [x \in Names |-> IF x \in held0 THEN 1 ELSE 0],              \* lookup count of that inode
  ilock = 0,
  a = InitA(MfInit(Mounts), Mounts, held0),
  ad = [t \in Threads |-> 0],
  res = [t \in Threads |-> ""],
  hist = <<>>;

macro DropBody(d) begin
  if map[omnt[d]] # 0 /\ (DropAlways \/ strong[map[omnt[d]]] = 0) then
    map[omnt[d]] := 0;
  end if;
  isopen[d] := FALSE;
  ilock := 0;
end macro;

process lk \in LK
variables o = 0, nf = FALSE, pf = FALSE;
begin
L_probe:
  await ilock = 0;
  hist := Append(hist, <<self, "L_probe">>);
  if inode[Nm(self)] # 0 then
    icnt[Nm(self)] := icnt[Nm(self)] + 1;
    res[self] := "ok";
    goto Done;
  end if;
MF_probe:
  hist := Append(hist, <<self, "MF_probe">>);
  if map[Mt(self)] # 0 /\ strong[map[Mt(self)]] > 0 then
    o := map[Mt(self)];
    strong[map[Mt(self)]] := strong[map[Mt(self)]] + 1;
    ad[self] := MfGetRet(a, Mt(self), 0);
    a := MfGet(a, Mt(self), 0);                                  \* linearisation point of get (hit)
    goto L_wlock;
  end if;
MF_open:
  hist := Append(hist, <<self, "MF_open">>);
  if Fail(self) = "open" then
    res[self] := "err";
    goto Done;
  elsif Fail(self) = "validate" then
    pf := LeakProbe;
    res[self] := "err";
    goto Done;
  else
    pf := TRUE;
  end if;
MF_reopen:
  hist := Append(hist, <<self, "MF_reopen">>);
  if Fail(self) = "reopen" then
    pf := LeakProbe;
    res[self] := "err";
    goto Done;
  else
    nf := TRUE;
  end if;
MF_wlock:
  hist := Append(hist, <<self, "MF_wlock">>);
  if map[Mt(self)] # 0 /\ strong[map[Mt(self)]] > 0 /\ ~NoReprobe then
    o := map[Mt(self)];
    strong[map[Mt(self)]] := strong[map[Mt(self)]] + 1;
    ad[self] := MfGetRet(a, Mt(self), 0);
    a := MfGet(a, Mt(self), 0);                                  \* linearisation point of get (added concurrently)
  else
    o := nexto;
    strong[nexto] := 1;
    isopen[nexto] := TRUE;
    omnt[nexto] := Mt(self);
    map[Mt(self)] := nexto;
    ad[self] := MfGetRet(a, Mt(self), nexto);
    a := MfGet(a, Mt(self), nexto);                              \* linearisation point of get (opened + registered)
    nexto := nexto + 1;
  end if;
  nf := FALSE;                                                   \* closed, or owned by the new object
  pf := FALSE;
L_wlock:
  await ilock = 0;
  hist := Append(hist, <<self, "L_wlock">>);
  res[self] := "ok";
  if inode[Nm(self)] # 0 then
    icnt[Nm(self)] := icnt[Nm(self)] + 1;
    a := MfPut(a, Mt(self));                                     \* linearisation point of put
    with last = (strong[o] = 1) do
      strong[o] := strong[o] - 1;                                \* the handle is dropped
      if last then
        if Ctx then ilock := self; end if;
        goto LD_wlock;
      else
        goto Done;
      end if;
    end with;
  else
    inode[Nm(self)] := o;
    icnt[Nm(self)] := 1;
    goto Done;
  end if;
LD_wlock:
  hist := Append(hist, <<self, "MD_wlock">>);
  DropBody(o);
end process;

process fg \in FG
variables dr = 0;
begin
F_wlock:
  await ilock = 0;
  hist := Append(hist, <<self, "F_wlock">>);
  if inode[Nm(self)] = 0 then
    goto Done;
  elsif icnt[Nm(self)] > Ops[self].n then
    icnt[Nm(self)] := icnt[Nm(self)] - Ops[self].n;
    goto Done;
  else
    icnt[Nm(self)] := 0;
    a := MfPut(a, Mt(self));                                     \* linearisation point of put
    with d = inode[Nm(self)], last = (strong[inode[Nm(self)]] = 1) do
      dr := d;
      inode[Nm(self)] := 0;
      strong[d] := strong[d] - 1;                                \* Arc<MountFd> dropped with the InodeData
      if last then
        if Ctx then ilock := self; end if;
        goto FD_wlock;
      else
        goto Done;
      end if;
    end with;
  end if;
FD_wlock:
  hist := Append(hist, <<self, "MD_wlock">>);
  DropBody(dr);
end process;
end algorithm; *)
\* BEGIN TRANSLATION
VARIABLES pc, held0, strong, isopen, omnt, map, nexto, inode, icnt, ilock, a, 
          ad, res, hist, o, nf, pf, dr

vars == << pc, held0, strong, isopen, omnt, map, nexto, inode, icnt, ilock, a, 
           ad, res, hist, o, nf, pf, dr >>

ProcSet == (LK) \cup (FG)

Init == (* Global variables *)
        /\ held0 \in Held0Set
        /\ strong = [k \in Objs |-> IF k \in Mounts THEN Cardinality(OnMount(held0, k)) ELSE 0]
        /\ isopen = [k \in Objs |-> k \in Mounts /\ OnMount(held0, k) # {}]
        /\ omnt = [k \in Objs |-> IF k \in Mounts THEN k ELSE 0]
        /\ map = [m \in Mounts |-> IF OnMount(held0, m) # {} THEN m ELSE 0]
        /\ nexto = NM + 1
        /\ inode = [x \in Names |-> IF x \in held0 THEN MountOf[x] ELSE 0]
        /\ icnt = [x \in Names |-> IF x \in held0 THEN 1 ELSE 0]
        /\ ilock = 0
        /\ a = InitA(MfInit(Mounts), Mounts, held0)
        /\ ad = [t \in Threads |-> 0]
        /\ res = [t \in Threads |-> ""]
        /\ hist = <<>>
        (* Process lk *)
        /\ o = [self \in LK |-> 0]
        /\ nf = [self \in LK |-> FALSE]
        /\ pf = [self \in LK |-> FALSE]
        (* Process fg *)
        /\ dr = [self \in FG |-> 0]
        /\ pc = [self \in ProcSet |-> CASE self \in LK -> "L_probe"
                                        [] self \in FG -> "F_wlock"]

L_probe(self) == /\ pc[self] = "L_probe"
                 /\ ilock = 0
                 /\ hist' = Append(hist, <<self, "L_probe">>)
                 /\ IF inode[Nm(self)] # 0
                       THEN /\ icnt' = [icnt EXCEPT ![Nm(self)] = icnt[Nm(self)] + 1]
                            /\ res' = [res EXCEPT ![self] = "ok"]
                            /\ pc' = [pc EXCEPT ![self] = "Done"]
                       ELSE /\ pc' = [pc EXCEPT ![self] = "MF_probe"]
                            /\ UNCHANGED << icnt, res >>
                 /\ UNCHANGED << held0, strong, isopen, omnt, map, nexto, 
                                 inode, ilock, a, ad, o, nf, pf, dr >>

MF_probe(self) == /\ pc[self] = "MF_probe"
                  /\ hist' = Append(hist, <<self, "MF_probe">>)
                  /\ IF map[Mt(self)] # 0 /\ strong[map[Mt(self)]] > 0
                        THEN /\ o' = [o EXCEPT ![self] = map[Mt(self)]]
                             /\ strong' = [strong EXCEPT ![map[Mt(self)]] = strong[map[Mt(self)]] + 1]
                             /\ ad' = [ad EXCEPT ![self] = MfGetRet(a, Mt(self), 0)]
                             /\ a' = MfGet(a, Mt(self), 0)
                             /\ pc' = [pc EXCEPT ![self] = "L_wlock"]
                        ELSE /\ pc' = [pc EXCEPT ![self] = "MF_open"]
                             /\ UNCHANGED << strong, a, ad, o >>
                  /\ UNCHANGED << held0, isopen, omnt, map, nexto, inode, icnt, 
                                  ilock, res, nf, pf, dr >>

MF_open(self) == /\ pc[self] = "MF_open"
                 /\ hist' = Append(hist, <<self, "MF_open">>)
                 /\ IF Fail(self) = "open"
                       THEN /\ res' = [res EXCEPT ![self] = "err"]
                            /\ pc' = [pc EXCEPT ![self] = "Done"]
                            /\ pf' = pf
                       ELSE /\ IF Fail(self) = "validate"
                                  THEN /\ pf' = [pf EXCEPT ![self] = LeakProbe]
                                       /\ res' = [res EXCEPT ![self] = "err"]
                                       /\ pc' = [pc EXCEPT ![self] = "Done"]
                                  ELSE /\ pf' = [pf EXCEPT ![self] = TRUE]
                                       /\ pc' = [pc EXCEPT ![self] = "MF_reopen"]
                                       /\ res' = res
                 /\ UNCHANGED << held0, strong, isopen, omnt, map, nexto, 
                                 inode, icnt, ilock, a, ad, o, nf, dr >>

MF_reopen(self) == /\ pc[self] = "MF_reopen"
                   /\ hist' = Append(hist, <<self, "MF_reopen">>)
                   /\ IF Fail(self) = "reopen"
                         THEN /\ pf' = [pf EXCEPT ![self] = LeakProbe]
                              /\ res' = [res EXCEPT ![self] = "err"]
                              /\ pc' = [pc EXCEPT ![self] = "Done"]
                              /\ nf' = nf
                         ELSE /\ nf' = [nf EXCEPT ![self] = TRUE]
                              /\ pc' = [pc EXCEPT ![self] = "MF_wlock"]
                              /\ UNCHANGED << res, pf >>
                   /\ UNCHANGED << held0, strong, isopen, omnt, map, nexto, 
                                   inode, icnt, ilock, a, ad, o, dr >>

MF_wlock(self) == /\ pc[self] = "MF_wlock"
                  /\ hist' = Append(hist, <<self, "MF_wlock">>)
                  /\ IF map[Mt(self)] # 0 /\ strong[map[Mt(self)]] > 0 /\ ~NoReprobe
                        THEN /\ o' = [o EXCEPT ![self] = map[Mt(self)]]
                             /\ strong' = [strong EXCEPT ![map[Mt(self)]] = strong[map[Mt(self)]] + 1]
                             /\ ad' = [ad EXCEPT ![self] = MfGetRet(a, Mt(self), 0)]
                             /\ a' = MfGet(a, Mt(self), 0)
                             /\ UNCHANGED << isopen, omnt, map, nexto >>
                        ELSE /\ o' = [o EXCEPT ![self] = nexto]
                             /\ strong' = [strong EXCEPT ![nexto] = 1]
                             /\ isopen' = [isopen EXCEPT ![nexto] = TRUE]
                             /\ omnt' = [omnt EXCEPT ![nexto] = Mt(self)]
                             /\ map' = [map EXCEPT ![Mt(self)] = nexto]
                             /\ ad' = [ad EXCEPT ![self] = MfGetRet(a, Mt(self), nexto)]
                             /\ a' = MfGet(a, Mt(self), nexto)
                             /\ nexto' = nexto + 1
                  /\ nf' = [nf EXCEPT ![self] = FALSE]
                  /\ pf' = [pf EXCEPT ![self] = FALSE]
                  /\ pc' = [pc EXCEPT ![self] = "L_wlock"]
                  /\ UNCHANGED << held0, inode, icnt, ilock, res, dr >>

L_wlock(self) == /\ pc[self] = "L_wlock"
                 /\ ilock = 0
                 /\ hist' = Append(hist, <<self, "L_wlock">>)
                 /\ res' = [res EXCEPT ![self] = "ok"]
                 /\ IF inode[Nm(self)] # 0
                       THEN /\ icnt' = [icnt EXCEPT ![Nm(self)] = icnt[Nm(self)] + 1]
                            /\ a' = MfPut(a, Mt(self))
                            /\ LET last == (strong[o[self]] = 1) IN
                                 /\ strong' = [strong EXCEPT ![o[self]] = strong[o[self]] - 1]
                                 /\ IF last
                                       THEN /\ IF Ctx
                                                  THEN /\ ilock' = self
                                                  ELSE /\ TRUE
                                                       /\ ilock' = ilock
                                            /\ pc' = [pc EXCEPT ![self] = "LD_wlock"]
                                       ELSE /\ pc' = [pc EXCEPT ![self] = "Done"]
                                            /\ ilock' = ilock
                            /\ inode' = inode
                       ELSE /\ inode' = [inode EXCEPT ![Nm(self)] = o[self]]
                            /\ icnt' = [icnt EXCEPT ![Nm(self)] = 1]
                            /\ pc' = [pc EXCEPT ![self] = "Done"]
                            /\ UNCHANGED << strong, ilock, a >>
                 /\ UNCHANGED << held0, isopen, omnt, map, nexto, ad, o, nf, 
                                 pf, dr >>

LD_wlock(self) == /\ pc[self] = "LD_wlock"
                  /\ hist' = Append(hist, <<self, "MD_wlock">>)
                  /\ IF map[omnt[o[self]]] # 0 /\ (DropAlways \/ strong[map[omnt[o[self]]]] = 0)
                        THEN /\ map' = [map EXCEPT ![omnt[o[self]]] = 0]
                        ELSE /\ TRUE
                             /\ map' = map
                  /\ isopen' = [isopen EXCEPT ![o[self]] = FALSE]
                  /\ ilock' = 0
                  /\ pc' = [pc EXCEPT ![self] = "Done"]
                  /\ UNCHANGED << held0, strong, omnt, nexto, inode, icnt, a, 
                                  ad, res, o, nf, pf, dr >>

lk(self) == L_probe(self) \/ MF_probe(self) \/ MF_open(self)
               \/ MF_reopen(self) \/ MF_wlock(self) \/ L_wlock(self)
               \/ LD_wlock(self)

F_wlock(self) == /\ pc[self] = "F_wlock"
                 /\ ilock = 0
                 /\ hist' = Append(hist, <<self, "F_wlock">>)
                 /\ IF inode[Nm(self)] = 0
                       THEN /\ pc' = [pc EXCEPT ![self] = "Done"]
                            /\ UNCHANGED << strong, inode, icnt, ilock, a, dr >>
                       ELSE /\ IF icnt[Nm(self)] > Ops[self].n
                                  THEN /\ icnt' = [icnt EXCEPT ![Nm(self)] = icnt[Nm(self)] - Ops[self].n]
                                       /\ pc' = [pc EXCEPT ![self] = "Done"]
                                       /\ UNCHANGED << strong, inode, ilock, a, 
                                                       dr >>
                                  ELSE /\ icnt' = [icnt EXCEPT ![Nm(self)] = 0]
                                       /\ a' = MfPut(a, Mt(self))
                                       /\ LET d == inode[Nm(self)] IN
                                            LET last == (strong[inode[Nm(self)]] = 1) IN
                                              /\ dr' = [dr EXCEPT ![self] = d]
                                              /\ inode' = [inode EXCEPT ![Nm(self)] = 0]
                                              /\ strong' = [strong EXCEPT ![d] = strong[d] - 1]
                                              /\ IF last
                                                    THEN /\ IF Ctx
                                                               THEN /\ ilock' = self
                                                               ELSE /\ TRUE
                                                                    /\ ilock' = ilock
                                                         /\ pc' = [pc EXCEPT ![self] = "FD_wlock"]
                                                    ELSE /\ pc' = [pc EXCEPT ![self] = "Done"]
                                                         /\ ilock' = ilock
                 /\ UNCHANGED << held0, isopen, omnt, map, nexto, ad, res, o, 
                                 nf, pf >>

FD_wlock(self) == /\ pc[self] = "FD_wlock"
                  /\ hist' = Append(hist, <<self, "MD_wlock">>)
                  /\ IF map[omnt[dr[self]]] # 0 /\ (DropAlways \/ strong[map[omnt[dr[self]]]] = 0)
                        THEN /\ map' = [map EXCEPT ![omnt[dr[self]]] = 0]
                        ELSE /\ TRUE
                             /\ map' = map
                  /\ isopen' = [isopen EXCEPT ![dr[self]] = FALSE]
                  /\ ilock' = 0
                  /\ pc' = [pc EXCEPT ![self] = "Done"]
                  /\ UNCHANGED << held0, strong, omnt, nexto, inode, icnt, a, 
                                  ad, res, o, nf, pf, dr >>

fg(self) == F_wlock(self) \/ FD_wlock(self)

(* Allow infinite stuttering to prevent deadlock on termination. *)
Terminating == /\ \A self \in ProcSet: pc[self] = "Done"
               /\ UNCHANGED vars

Next == (\E self \in LK: lk(self))
           \/ (\E self \in FG: fg(self))
           \/ Terminating

Spec == Init /\ [][Next]_vars

Termination == <>(\A self \in ProcSet: pc[self] = "Done")

\* END TRANSLATION

AllDone == \A t \in Threads : pc[t] = "Done"
\* nobody is inside MountFds::get or MountFd::drop
Quiescent == \A t \in Threads : pc[t] \in {"L_probe", "F_wlock", "Done"}

RECURSIVE SumStrong(_, _)
SumStrong(m, k) == IF k = 0 THEN 0 ELSE (IF omnt[k] = m THEN strong[k] ELSE 0) + SumStrong(m, k - 1)
Live(m) == {x \in Objs : omnt[x] = m /\ strong[x] > 0}
OpenObjs == {x \in Objs : isopen[x]}
\* all descriptors on mount points the process holds: files of objects, probe fds, files not yet owned
NumFds == Cardinality(OpenObjs) + Cardinality({t \in LK : pf[t]}) + Cardinality({t \in LK : nf[t]})
RegisteredI == {m \in Mounts : map[m] # 0}

\* S1: a reference handed out denotes an open descriptor until it is released
S1 == /\ \A x \in Objs : strong[x] > 0 => isopen[x]
      /\ \A x \in Names : inode[x] # 0 => strong[inode[x]] > 0 /\ isopen[inode[x]]
      /\ MfS1(a)
\* I => A: the abstract counts are the strong counts; get returned the ONE registered descriptor
Refines == /\ \A m \in Mounts : a.refs[m] = SumStrong(m, MaxObj)
           /\ \A m \in Mounts : Cardinality(Live(m)) <= 1
           /\ \A m \in Mounts : IF a.reg[m] = NoDesc THEN Live(m) = {} ELSE Live(m) = {a.reg[m]}
           /\ \A t \in LK : o[t] = ad[t]
\* a live MountFd is the one the map points to (so that the next get finds it)
LiveRegistered == \A x \in Objs : strong[x] > 0 => map[omnt[x]] = x
\* S2 (quiescence): entry iff references outstanding; open descriptors = registered mounts
S2 == Quiescent => /\ \A m \in Mounts : (map[m] # 0) <=> (a.refs[m] > 0)
                   /\ OpenObjs = a.open
                   /\ NumFds = Cardinality(RegisteredI)
                   /\ MfS2(a)
\* S3 (quiescence, nothing outstanding): zero descriptors, empty map
S3 == (Quiescent /\ \A m \in Mounts : a.refs[m] = 0) => NumFds = 0 /\ RegisteredI = {}
\* a descriptor is closed once
LockSane == ilock \in {0} \cup Threads /\ (~Ctx => ilock = 0)
\* every call returned what the fault plan says (failures only where injected)
ResOK == AllDone => \A t \in LK : res[t] = "ok" \/ Fail(t) # "none"

View == <<held0, strong, isopen, omnt, map, nexto, inode, icnt, ilock, a, ad, res, pc, o, nf, pf, dr>>
=============================================================================
