"""Wire family (engine: wire): C01 (framing of hostile bytes), C02 (decode), C03 (encode).

FuseWire.tla holds Decode/Encode as tables of expressions over request/result fields; TLC
evaluates the table lints (every request field consumed or explicitly ignored, ...), exports the
ABI and the per-opcode shapes to JSON (ExportWire.tla) from which the harness codec is driven,
and validates every recorded transaction of the real Server<ScriptedFs> with Trace_Wire.tla."""
import json
import os
import re

from . import common as C

LEVEL = {"C01": "model_checking", "C02": "model_checking", "C03": "model_checking"}


def viols_of(res):
    out = []
    txt = res["output"].replace("\n", " ")
    for m in re.finditer(r'<<\s*"VIOL",\s*"([^"]+)",\s*(\d+),(.*?)>>\s*(?=<<\s*"(?:VIOL|ACCEPTED)")', txt):
        out.append((m.group(1), int(m.group(2)), " ".join(m.group(3).split())[:600]))
    return out


def export_abi(ctx):
    out = ctx.path("abi.json")
    r = C._java(["-workers", "1", "-metadir", ctx.path("tlc_export"), "-noGenerateSpecTE", "-config", "ExportWire.cfg", "ExportWire.tla"],
                C.SPEC, {"OUT": out}, 300, xmx="2g", xss="512m")
    if not os.path.exists(out) or "Error:" in r.stdout:
        C.log(r.stdout[-3000:])
        raise C.ToolError("ExportWire failed (spec lint or export)")
    return out


def run_wire(ctx, pid, k):
    """Generate + run + validate the well-formed valuation set; report signatures of property pid."""
    bindir = C.build_harness(bins=["wire"])
    abi = export_abi(ctx)
    trace = ctx.path("tx.ndjson")
    C.run_bin(bindir, "wire", [abi, trace, k], env={"VERIF_SEED": ctx.seed}, timeout=3000)
    res = C.tlc_trace(ctx, "Trace_Wire", trace, timeout=3000, xmx="8g")
    if not res["accepted"]:
        raise C.ToolError("wire trace not consumed: %s" % res["stuck"])
    rows = C.read_ndjson(trace)
    txs = [r for r in rows if r.get("e") == "Tx"]
    ctx.traces += len(txs)
    ctx.events += len(rows)
    ctx.states += res.get("distinct", 0)
    ctx.transitions += res.get("distinct", 0)
    for sig, idx, detail in viols_of(res):
        if not sig.startswith(pid + "|"):
            continue
        tx = rows[idx - 1] if idx - 1 < len(rows) else None
        ctx.violation(sig, {"tx_index": idx, "expected_vs_got": detail}, replay_src={"tx": tx, "seed": ctx.seed, "k": k})
    return rows, txs, abi, trace


def binding_demo(ctx, rows, mutate, want_prefix):
    bad = [json.loads(json.dumps(r)) for r in rows[:400]]
    mutate(bad)
    bf = ctx.path("corrupt.ndjson")
    C.write_ndjson(bf, bad)
    bres = C.tlc_trace(ctx, "Trace_Wire", bf)
    sigs = sorted({v[0] for v in viols_of(bres) if v[0].startswith(want_prefix)})
    if not sigs:
        raise C.ToolError("binding demo failed: corrupted trace accepted (%s)" % want_prefix)
    return sigs


def cover(txs):
    ops = {}
    for t in txs:
        key = (t["op"], t["tr"], tuple(sorted(sum([v for v in t["req"]["bits"].values()], []))) if t["req"]["bits"] else ())
        ops[key] = ops.get(key, 0) + 1
    return ops


def run_c02(ctx):
    k = 3 if ctx.quick else 60
    rows, txs, abi, trace = run_wire(ctx, "C02", k)

    def mut(bad):
        n = 0
        for r in bad:
            if r.get("e") == "Tx" and r["op"] == "READ" and len(r["calls"]) == 2:
                a = r["calls"][1]["args"]
                a["offset"], a["handle"] = a["handle"], a["offset"]
                n += 1
            if r.get("e") == "Tx" and r["op"] == "UNLINK" and len(r["calls"]) == 2:
                r["calls"].append(dict(r["calls"][1], m="getattr"))
    sigs = binding_demo(ctx, rows, mut, "C02|")
    cv = cover(txs)
    ctx.extra.update({
        "distinct_nontrivial": len(cv),
        "rule": "one transaction per opcode x subset of the flag bits Decode inspects x transport x k=%d random/boundary valuations of every field; distinct = (opcode, transport, flag subset)" % k,
        "binding_demo": [{"corruption": "swap READ offset/handle in the logged call; add a second call to UNLINK", "rejected_with": sigs}],
        "opcodes": len({t["op"] for t in txs}),
    })
    for t in txs[:2]:
        ctx.sample({"op": t["op"], "tr": t["tr"], "req": t["req"], "calls": t["calls"]})
    ctx.assumptions += ["names are drawn from a 69-character ASCII alphabet (lengths 1..4000); payloads are random bytes up to 128 KiB",
                        "INIT is decided by C12"]


def run_c03(ctx):
    k = 3 if ctx.quick else 60
    rows, txs, abi, trace = run_wire(ctx, "C03", k)

    def mut(bad):
        for r in bad:
            if r.get("e") == "Tx" and r["reply"]["present"] and "fuse_entry_out.entry_valid" in r["reply"]["body"]:
                b = r["reply"]["body"]
                b["fuse_entry_out.entry_valid"], b["fuse_entry_out.attr_valid"] = b["fuse_entry_out.attr_valid"], b["fuse_entry_out.entry_valid"]
            if r.get("e") == "Tx" and r["reply"]["present"] and r["reply"]["error"] < 0:
                r["reply"]["error"] = -r["reply"]["error"]
    sigs = binding_demo(ctx, rows, mut, "C03|")
    kinds = {}
    for t in txs:
        for c in t["calls"]:
            if c["m"] != "id_remap":
                kk = (t["op"], c["ret"]["kind"], t["tr"])
                kinds[kk] = kinds.get(kk, 0) + 1
    ctx.extra.update({
        "distinct_nontrivial": len(kinds),
        "rule": "one transaction per opcode x result kind (success shapes, OS errnos 1..133, non-OS error kinds) x transport x k=%d valuations of every result field; distinct = (opcode, result kind, transport)" % k,
        "binding_demo": [{"corruption": "swap entry_valid/attr_valid in decoded replies; positive errno", "rejected_with": sigs}],
    })
    for t in [t for t in txs if t["op"] in ("CREATE", "READDIRPLUS")][:2]:
        ctx.sample({"op": t["op"], "tr": t["tr"], "fs_result": [c["ret"] for c in t["calls"] if c["m"] != "id_remap"], "reply": t["reply"]})
    ctx.assumptions += ["result values are drawn within what the wire format can carry (32-bit wire fields < 2^32)",
                        "the scripted filesystem stops offering directory entries after the first one that did not fit, as real filesystems do"]


PROPS = {"C02": run_c02, "C03": run_c03}
