------------------------------ MODULE WireFrame ------------------------------
(* I-level model of one request transaction of Server::handle_message (src/api/server/sync_io.rs),
   transcribed step by step, over *classes* of request bytes, reply-buffer capacities and
   filesystem results, and the A-level obligations of C01 checked on every transaction:
   no panic, at most one reply, FORGET/BATCH_FORGET never answered, every well-formed request of
   an opcode that needs an answer gets exactly one (when the reply buffer can hold it).

   One behaviour = one transaction: Init picks a class, the actions follow the code:
     ReadHeader -> Oversize -> Dispatch/Parse -> CallFs -> Reply -> Done
   TLC explores the whole class product and exports every class with the predicted outcome
   (<<"CASE", ...>> lines), which the harness concretises into real byte strings. *)
EXTENDS Naturals, Sequences, FiniteSets, TLC
CONSTANT Async     \* FALSE: Server::handle_message; TRUE: Server::async_handle_message (src/api/server/async_io.rs), which differs
                   \* in async_write's size test (used by C20 to compare the two procedures)

Ops == {"LOOKUP","FORGET","GETATTR","SETATTR","READLINK","SYMLINK","MKNOD","MKDIR","UNLINK","RMDIR","RENAME","LINK","OPEN","READ",
        "WRITE","STATFS","RELEASE","FSYNC","SETXATTR","GETXATTR","LISTXATTR","REMOVEXATTR","FLUSH","INIT","OPENDIR","READDIR",
        "RELEASEDIR","FSYNCDIR","GETLK","SETLK","SETLKW","ACCESS","CREATE","INTERRUPT","BMAP","DESTROY","IOCTL","POLL",
        "NOTIFY_REPLY","BATCH_FORGET","FALLOCATE","READDIRPLUS","RENAME2","LSEEK","COPY_FILE_RANGE","SETUPMAPPING","REMOVEMAPPING",
        "HOLE"}
\* handler shape of each opcode (which parsing steps its handler performs)
Shape(o) ==
  CASE o \in {"LOOKUP","UNLINK","RMDIR","REMOVEXATTR"} -> "name1"
    [] o \in {"GETATTR","SETATTR","OPEN","RELEASE","FSYNC","FLUSH","OPENDIR","RELEASEDIR","FSYNCDIR","GETLK","SETLK","SETLKW",
              "ACCESS","BMAP","POLL","FALLOCATE","LSEEK","LISTXATTR"} -> "st"
    [] o \in {"MKNOD","MKDIR","LINK","CREATE","GETXATTR"} -> "st_name1"
    [] o = "SYMLINK" -> "name2"
    [] o \in {"RENAME","RENAME2"} -> "st_name2"
    [] o \in {"READLINK","STATFS"} -> "nobody"
    [] o = "FORGET" -> "forget" [] o = "BATCH_FORGET" -> "bforget"
    [] o = "READ" -> "read" [] o = "WRITE" -> "write" [] o \in {"READDIR","READDIRPLUS"} -> "readdir"
    [] o = "SETXATTR" -> "setxattr" [] o = "IOCTL" -> "ioctl" [] o = "INIT" -> "init"
    [] o = "INTERRUPT" -> "interrupt" [] o = "DESTROY" -> "destroy" [] o = "NOTIFY_REPLY" -> "notify_reply"
    [] o = "SETUPMAPPING" -> "setupmapping" [] o = "REMOVEMAPPING" -> "removemapping"
    [] OTHER -> "unknown"
HasStruct(sh) == sh \in {"st","st_name1","st_name2","forget","bforget","read","write","readdir","setxattr","ioctl","init","setupmapping","removemapping"}
UsesLen(sh) == sh \in {"name1","st_name1","name2","st_name2","setxattr"}     \* handlers that call get_message_body
\* body classes: what the parser meets inside the window delimited by the header's len field
BodyClasses(sh) ==
  CASE sh \in {"name1"} -> {"ok", "no_nul"}
    [] sh \in {"st_name1"} -> {"ok", "no_nul", "st_short"}
    [] sh = "name2" -> {"ok", "no_nul", "one_nul_at_end"}
    [] sh = "st_name2" -> {"ok", "no_nul", "one_nul_at_end", "st_short"}
    [] sh \in {"st","forget","setupmapping"} -> {"ok", "st_short"}
    [] sh = "write" -> {"ok", "st_short", "size_gt_max"}          \* size field > MAX_BUFFER_SIZE (whatever the payload)
    [] sh = "read" -> {"ok", "st_short"}
    [] sh = "bforget" -> {"ok", "st_short", "count_gt_payload", "count_over_limit"}
    [] sh = "readdir" -> {"ok", "st_short", "size_gt_avail"}
    [] sh = "setxattr" -> {"ok", "st_short", "no_nul", "size_mismatch"}
    [] sh = "ioctl" -> {"ok", "st_short", "in_size_gt_avail"}
    [] sh = "init" -> {"ok", "st_short", "major_lt", "major_gt"}
    [] sh = "removemapping" -> {"ok", "st_short", "count_gt_payload", "count_over_limit"}
    [] OTHER -> {"ok"}
Sup == {"lt40", "ge40"}                               \* bytes supplied to the reader
LenF == {"lt40", "ltst", "eq", "lt", "gt", "huge"}   \* header.len: < 40; 40 <= len < 40+struct; = supplied; shorter than
                                                      \* supplied but covering the struct; longer than supplied; > MAX_BUFFER_SIZE+4096
Cap == {"c0", "lt16", "eq16", "mid", "big"}           \* reply buffer: 0; 1..15; 16; holds an error but not the success reply; enough
FsRes == {"ok", "err", "neg"}                           \* "neg": LOOKUP answered with a negative entry (Entry.inode = 0)
Sess == {"any", "pre74"}                              \* state carried over from INIT (Server::vers): "pre74" = the client negotiated a minor < 4
Tr == {"fusedev", "virtiofs"}

AllBody == UNION {BodyClasses(Shape(o)) : o \in Ops}
Class == [op : Ops, sup : Sup, lenf : LenF, body : AllBody, cap : Cap, fsres : FsRes, tr : Tr, vu : BOOLEAN, sess : Sess]
\* opcodes whose success reply is the bare 16-byte header
UnitOps == {"UNLINK","RMDIR","RENAME","RENAME2","RELEASE","FSYNC","SETXATTR","REMOVEXATTR","FLUSH","RELEASEDIR","FSYNCDIR","SETLK",
            "SETLKW","ACCESS","DESTROY","FALLOCATE","SETUPMAPPING","REMOVEMAPPING"}
Realizable(c) ==
  /\ c.body \in BodyClasses(Shape(c.op))
  /\ c.sup = "lt40" => (c.lenf \in {"lt40", "gt", "huge", "eq"} /\ c.body = "ok" /\ c.cap = "big" /\ c.fsres = "ok" /\ ~c.vu)
  /\ c.lenf = "ltst" => HasStruct(Shape(c.op))
  /\ c.body = "st_short" => c.lenf \in {"eq", "gt", "huge", "lt40"}     \* nothing follows a truncated struct
  /\ c.vu => Shape(c.op) \in {"setupmapping", "removemapping"}
  /\ c.cap = "mid" => c.op \notin UnitOps            \* nothing lies between an error reply and a 16-byte success reply
  /\ (Shape(c.op) = "readdir" /\ c.body = "ok") => c.cap # "mid"   \* "ok" = requested size fits the reply buffer
  /\ (Shape(c.op) \in {"setupmapping", "removemapping"} /\ c.tr = "fusedev") => ~c.vu
  /\ c.fsres = "neg" => c.op = "LOOKUP"
  /\ c.sess = "pre74" => (c.op = "LOOKUP" /\ c.sup = "ge40")      \* the only handler that reads Server::vers
Classes == {c \in Class : Realizable(c)}

VARIABLES c,        \* the class of this transaction
          pc,       \* where the handler is
          nreply,   \* replies emitted (messages on the fd / headers in guest memory)
          wrote,    \* the (unbuffered) fusedev writer has already written once
          buffered, \* the writer in ctx.w is a split (buffered) writer
          fscalls,  \* filesystem operations invoked (id remap not counted)
          ret,      \* "run" | "Ok" | "Err"
          panic,
          rkind     \* what was sent: "none" | "ok" (success reply) | "err" (error reply)
vars == <<c, pc, nreply, wrote, buffered, fscalls, ret, panic, rkind>>
\* Beyond the listed properties: the MetricsHook protocol. `collect` is called once when a request reaches the
\* dispatcher (after the oversize test) and `release` once when its handler returns, on every path; neither is
\* called for requests refused before dispatch. Derived from pc history: Dispatched(h) below.

Init == /\ c \in Classes /\ pc = "header" /\ nreply = 0 /\ wrote = FALSE /\ buffered = FALSE /\ fscalls = 0
        /\ ret = "run" /\ panic = FALSE /\ rkind = "none"

Finish(r) == pc' = "done" /\ ret' = r
Unch == UNCHANGED <<c, nreply, wrote, buffered, fscalls, panic, rkind>>

(* ---- reply primitives (SrvContext::reply_ok / do_reply_error over FuseDevWriter / VirtioFsWriter) ---- *)
\* FuseDevWriter::check_available_space asserts `buffered || buf.is_empty()`
AssertFails == c.tr = "fusedev" /\ ~buffered /\ wrote
\* a write of the success reply (needs "big") or of a bare 16-byte header (needs >= 16)
\* (a split writer has its 16 header bytes reserved; READ/READDIR payloads are clipped to the space left)
CanHold(kind) == IF buffered THEN TRUE
                 ELSE IF kind = "ok" /\ c.op \notin UnitOps THEN c.cap = "big" ELSE c.cap \in {"eq16", "mid", "big"}
Emit(kind, r) ==
  IF AssertFails THEN /\ panic' = TRUE /\ Finish("panic") /\ UNCHANGED <<c, nreply, wrote, buffered, fscalls, rkind>>
  ELSE IF CanHold(kind)
       THEN /\ nreply' = nreply + 1 /\ wrote' = TRUE /\ rkind' = kind /\ Finish(r) /\ UNCHANGED <<c, buffered, fscalls, panic>>
       ELSE /\ Finish("Err") /\ Unch        \* EncodeMessage: nothing written
ReplyOkThen(r) == Emit("ok", r)
ReplyErrThen(r) == Emit("err", r)           \* reply_error / reply_error_explicit followed by returning r

(* ---- handle_message ---- *)
ReadHeader ==
  /\ pc = "header"
  /\ IF c.sup = "lt40" THEN Finish("Err") /\ Unch                     \* read_obj(InHeader) fails: DecodeMessage
     ELSE pc' = "oversize" /\ UNCHANGED <<c, nreply, wrote, buffered, fscalls, ret, panic, rkind>>
Oversize ==                                                            \* after remap_ctx_ids
  /\ pc = "oversize"
  /\ IF c.lenf = "huge"
     THEN IF c.op \in {"FORGET", "BATCH_FORGET"} THEN Finish("Err") /\ Unch
          ELSE ReplyErrThen("Ok")                                      \* ENOMEM
     ELSE pc' = "parse" /\ UNCHANGED <<c, nreply, wrote, buffered, fscalls, ret, panic, rkind>>
\* (before the two "fix:" commits for C20 the asynchronous entry point answered oversize forgets and refused every request
\*  whose reply buffer was shorter than a header; both procedures now share this test)

\* get_message_body: len - 40 - sub_hdr_sz by checked_sub, then read_exact(len')
BodyWindow == CASE c.lenf \in {"lt40", "ltst"} -> "badlen"            \* InvalidHeaderLength
                [] c.lenf = "gt" -> "short"                            \* read_exact fails: DecodeMessage
                [] OTHER -> "got"
Goto(p) == pc' = p /\ UNCHANGED <<c, nreply, wrote, buffered, fscalls, ret, panic, rkind>>
Parse ==
  /\ pc = "parse"
  /\ LET sh == Shape(c.op) IN
     IF sh \in {"setupmapping", "removemapping"} /\ ~c.vu THEN ReplyErrThen("Ok")  \* EINVAL: no DAX window handler (tested first)
     ELSE IF HasStruct(sh) /\ c.body = "st_short" THEN Finish("Err") /\ Unch      \* read_obj of the request struct fails
     ELSE CASE sh \in {"name1", "st_name1"} ->
                 IF BodyWindow # "got" THEN Finish("Err") /\ Unch
                 ELSE IF c.body = "no_nul" THEN ReplyErrThen("Err")               \* EINVAL reply, then the cstr error is returned
                 ELSE Goto("fs")
            [] sh \in {"name2", "st_name2"} ->
                 IF BodyWindow # "got" THEN Finish("Err") /\ Unch
                 ELSE IF c.body \in {"no_nul", "one_nul_at_end"} THEN Finish("Err") /\ Unch   \* extract_two_cstrs: no reply
                 ELSE Goto("fs")
            [] sh = "setxattr" ->
                 IF BodyWindow # "got" THEN Finish("Err") /\ Unch
                 ELSE IF c.body \in {"no_nul", "size_mismatch"} THEN Finish("Err") /\ Unch    \* MissingParameter / InvalidXattrSize
                 ELSE Goto("fs")
            [] sh = "write" -> IF Async /\ c.body = "size_gt_max" THEN ReplyErrThen("Ok") ELSE Goto("fs")   \* async_write: ENOMEM
            [] sh = "bforget" -> IF c.body \in {"count_gt_payload", "count_over_limit"} THEN Finish("Err") /\ Unch ELSE Goto("fs")
            [] sh = "read" ->
                 \* split_at(16) on the reply writer
                 IF c.cap \in {"c0", "lt16"} THEN Finish("Err") /\ Unch
                 ELSE pc' = "fs" /\ buffered' = TRUE /\ UNCHANGED <<c, nreply, wrote, fscalls, ret, panic, rkind>>
            [] sh = "readdir" ->
                 IF c.body = "size_gt_avail" THEN ReplyErrThen("Ok")              \* ENOMEM
                 ELSE IF c.cap \in {"c0", "lt16"} THEN Finish("Err") /\ Unch
                 ELSE pc' = "fs" /\ buffered' = TRUE /\ UNCHANGED <<c, nreply, wrote, fscalls, ret, panic, rkind>>
            [] sh = "ioctl" -> IF c.body = "in_size_gt_avail" THEN ReplyErrThen("Ok") ELSE Goto("fs")   \* ENOTTY
            [] sh = "init" -> IF c.body = "major_lt" THEN ReplyErrThen("Ok")      \* EPROTO
                              ELSE IF c.body = "major_gt" THEN ReplyOkThen("Ok")  \* bare 7.x reply, nothing negotiated
                              ELSE Goto("fs")
            [] sh = "interrupt" -> Finish("Ok") /\ Unch
            [] sh \in {"setupmapping", "removemapping"} ->
                 IF c.body = "count_over_limit" THEN ReplyErrThen("Ok")       \* ENOMEM
                 ELSE IF c.body = "count_gt_payload" THEN Finish("Err") /\ Unch
                 ELSE Goto("fs")
            [] sh = "unknown" -> ReplyErrThen("Ok")                                \* ENOSYS
            [] OTHER -> Goto("fs")
CallFs ==
  /\ pc = "fs"
  /\ fscalls' = fscalls + 1
  /\ LET sh == Shape(c.op) IN
     CASE sh \in {"forget", "bforget"} -> pc' = "done" /\ ret' = "Ok" /\ UNCHANGED <<c, nreply, wrote, buffered, panic, rkind>>
       [] sh = "notify_reply" -> IF c.fsres = "err" THEN pc' = "reply_err" /\ UNCHANGED <<c, nreply, wrote, buffered, ret, panic, rkind>>
                                 ELSE pc' = "done" /\ ret' = "Ok" /\ UNCHANGED <<c, nreply, wrote, buffered, panic, rkind>>
       [] sh = "destroy" -> pc' = "reply_ok" /\ UNCHANGED <<c, nreply, wrote, buffered, ret, panic, rkind>>
       \* lookup: before ABI 7.4 a zero nodeid is not a valid answer, ENOENT is sent instead
       [] OTHER -> pc' = (IF c.fsres = "ok" \/ (c.fsres = "neg" /\ c.sess # "pre74") THEN "reply_ok" ELSE "reply_err") /\ UNCHANGED <<c, nreply, wrote, buffered, ret, panic, rkind>>
ReplyOk ==
  /\ pc = "reply_ok"
  /\ IF Shape(c.op) = "destroy"
     THEN \* destroy ignores a reply failure and handle_message returns Ok(0)
          IF AssertFails THEN panic' = TRUE /\ Finish("panic") /\ UNCHANGED <<c, nreply, wrote, buffered, fscalls, rkind>>
          ELSE IF CanHold("ok") THEN nreply' = nreply + 1 /\ wrote' = TRUE /\ rkind' = "ok" /\ Finish("Ok") /\ UNCHANGED <<c, buffered, fscalls, panic>>
          ELSE Finish("Ok") /\ Unch
     ELSE ReplyOkThen("Ok")
ReplyErr == pc = "reply_err" /\ ReplyErrThen("Ok")
Next == ReadHeader \/ Oversize \/ Parse \/ CallFs \/ ReplyOk \/ ReplyErr
Spec == Init /\ [][Next]_vars

(* ---------------- A-level obligations (C01) ---------------- *)
Done == pc = "done"
WellFormed == c.sup = "ge40" /\ c.lenf = "eq" /\ c.body = "ok" /\ (Shape(c.op) \in {"setupmapping", "removemapping"} => c.vu) /\ c.op # "HOLE"
NeedsReply == c.op \notin {"FORGET", "BATCH_FORGET", "INTERRUPT"} /\ ~(c.op = "NOTIFY_REPLY" /\ c.fsres = "ok")
NoCrash == ~panic
AtMostOne == nreply <= 1
ForgetSilent == c.op \in {"FORGET", "BATCH_FORGET"} => nreply = 0
Answered == (Done /\ WellFormed /\ NeedsReply /\ c.cap = "big") => nreply = 1
OneOperation == fscalls <= 1
\* a negative entry reaches a pre-7.4 client as an error, any other client as an entry
NegativeEntry == (Done /\ c.fsres = "neg" /\ fscalls = 1 /\ nreply = 1) => (rkind = IF c.sess = "pre74" THEN "err" ELSE "ok")
\* predicted outcome of a finished transaction, printed once per class for the harness
Dispatched == c.sup = "ge40" /\ c.lenf # "huge"
Outcome == [nreply |-> nreply, ret |-> ret, fscalls |-> fscalls, hooks |-> IF Dispatched THEN 1 ELSE 0, rkind |-> rkind]
=============================================================================
