"""X01 (engine vfsrace) - beyond the listed properties (DESIGN.md section 9, item 7): mount / umount /
over-mount running concurrently with client requests in the VFS.

spec/VfsRace.tla (PlusCal)  one mounter program of <= 2 operations, 1-2 requesters, one label per stretch of code
                            between two ArcSwap load/store points; obligations Lin / StrictLin / NoForeign / MapOfSome
spec/VfsSeq.tla             the sequential mount table both the model and the judge refer to
spec/Trace_VfsRace.tla      linearisability judge of recorded histories (blocking mode, silent Lin steps)
harness/src/bin/vfsrace.rs  cooperative scheduler replaying TLC's interleavings on the real Vfs through the yield
                            points of hooks/vfs-yield.diff (crate::api::vfs::verif_hooks)

X01 is not one of the listed properties and is not in the manifest. What it reports are design-level observations
about CONCURRENT use (C07 quantifies over sequential histories):
  * TLC: NoForeign must hold; the interleavings that violate Lin / MapOfSome are exported with their verdict;
  * every exported interleaving is replayed on the real code; TLC judges the recorded history; a history the
    model calls non-linearisable and the code reproduces is reported under the signature
    X01|<request>|<mounter ops>|not-linearisable[|mapping-of-neither] (listed in known_findings.json as
    observations); a non-linearisable history the model did not predict is a VIOLATION; a predicted one that
    the code does not show is MODEL-DRIFT.
Exit 2 with "hooks not present" until hooks/vfs-yield.diff is in the crate the harness depends on.
"""
import json
import os
import random
import re
import subprocess
import time

from . import common as C

LEVEL = {"X01": "model_checking"}


def crate_dir():
    """the fuse-backend-rs source tree the harness depends on (path dependency of its Cargo.toml)"""
    with open(os.path.join(C.HARNESS, "Cargo.toml")) as f:
        m = re.search(r'fuse-backend-rs\s*=\s*\{[^}]*path\s*=\s*"([^"]+)"', f.read())
    if not m:
        raise C.ToolError("cannot find the fuse-backend-rs path dependency in %s/Cargo.toml" % C.HARNESS)
    p = m.group(1)
    return p if os.path.isabs(p) else os.path.normpath(os.path.join(C.HARNESS, p))


def build(ctx):
    """vfsrace is a stub unless compiled with --cfg vfs_yield_hooks (the hooks are not in the crate yet when this
    is written); it gets its own target directory so that the flag does not invalidate the shared build."""
    hook = os.path.join(crate_dir(), "src", "api", "vfs", "verif_hooks.rs")
    if not os.path.exists(hook):
        raise C.ToolError("hooks not present: %s does not exist (apply hooks/vfs-yield.diff to the crate)" % hook)
    tdir = os.path.join(C.HARNESS, "target", "vfsrace-hooks")
    env = dict(os.environ, CARGO_NET_OFFLINE="true", CARGO_TARGET_DIR=tdir,
               RUSTFLAGS="--cfg fuse_backend_rs_verif --cfg vfs_yield_hooks --check-cfg cfg(fuse_backend_rs_verif) --check-cfg cfg(vfs_yield_hooks)")
    t = time.time()
    r = subprocess.run(["cargo", "build", "--offline", "--bin", "vfsrace"], cwd=C.HARNESS, env=env, stdout=subprocess.PIPE,
                       stderr=subprocess.STDOUT, text=True)
    if r.returncode != 0:
        C.log(r.stdout[-5000:])
        raise C.ToolError("cargo build of vfsrace failed")
    C.log("built vfsrace (with the yield hooks) in %.1fs" % (time.time() - t))
    return os.path.join(tdir, "debug")


def write_cfg(ctx, name, programs, reqs, nreq, invariants, view=True):
    cfg = ctx.path(name + ".cfg")
    lines = ["SPECIFICATION Spec", "CONSTANTS", "  Programs <- %s" % programs, "  ReqChoices <- %s" % reqs, "  Inits <- MC_Inits",
             "  NReq = %d" % nreq, "CONSTRAINT Valid", "CHECK_DEADLOCK FALSE", "INVARIANTS " + " ".join(invariants)]
    if view:
        lines.insert(-3, "VIEW NoHist")
    with open(cfg, "w") as f:
        f.write("\n".join(lines) + "\n")
    return cfg


_SCHED = re.compile(r'<<\s*"SCHED"\s*,\s*"((?:[^"\\]|\\.)*)"\s*>>')


def schedules(out):
    res = []
    for m in _SCHED.finditer(out):
        d = json.loads(m.group(1).replace('\\"', '"').replace("\\\\", "\\"))
        mp = d["init"]["map"]
        if isinstance(mp, dict):            # a function over 0..3 is exported as an object keyed by the number
            d["init"]["map"] = [mp[str(i)] for i in range(4)]
        res.append(d)
    return res


def judge(ctx, trace, cfg):
    """segments (index of their Reset event) that Trace_VfsRace rejects under the given config"""
    meta = ctx.path("tlctr_" + os.path.splitext(cfg)[0])
    r = C._java(["-workers", "1", "-metadir", meta, "-noGenerateSpecTE", "-config", cfg, "Trace_VfsRace.tla"], C.SPEC,
                {"TRACE": trace}, 3000, xmx="8g", xss="1g", deque=True)
    out = r.stdout
    if "CONSUMED" not in out or "Error:" in out:
        C.log(out[-3000:])
        raise C.ToolError("Trace_VfsRace did not consume the trace (%s)" % cfg)
    m = re.search(r'<<\s*"REJECTED",\s*\{(.*?)\}\s*>>', out, re.S)
    return {int(x) for x in re.findall(r"\d+", m.group(1))} if m else set()


def sig_of(sc, mapsome):
    ops = "+".join(("mountm" if o["k"] == "mount" and o["m"] != "notok" else o["k"]) + ("-root" if o["p"] == "R" else "-a") for o in sc["prog"])
    return "X01|%s|%s|not-linearisable%s" % ("+".join(sc["reqs"]), ops, "" if mapsome else "|mapping-of-neither")


def run(ctx):
    quick = ctx.quick
    bd = build(ctx)
    # ---- 1. the model: NoForeign must hold over all programs of <= 2 operations
    cfg = write_cfg(ctx, "mc1", "MC_Programs", "MC_Req1", 1, ["NoForeign"])
    r = C.tlc_mc(ctx, "MC_VfsRace", cfg=cfg, workers=8, timeout=1500)
    if r["violated"]:
        raise C.ToolError("VfsRace: NoForeign is violated in the model (a backend would be handed another backend's inode): %s" % r["violated"])
    if not quick:
        cfg = write_cfg(ctx, "mc2", "MC_Programs1", "MC_Req2", 2, ["NoForeign"])
        r2 = C.tlc_mc(ctx, "MC_VfsRace", cfg=cfg, workers=8, timeout=1500)
        if r2["violated"]:
            raise C.ToolError("VfsRace: NoForeign is violated with two requesters")
    # ---- 2. interleavings with the model's verdicts
    scs = []
    cfg = write_cfg(ctx, "exp_all1", "MC_Programs1", "MC_Req1", 1, ["Export"], view=False)       # every interleaving
    e = C.tlc_mc(ctx, "MC_VfsRace", cfg=cfg, workers=8, timeout=1500, coverage=False, must_cover=False)
    scs += schedules(e["output"])
    n_all = len(scs)
    # programs of two operations / two requesters: one witness interleaving per reachable final state
    cfg = write_cfg(ctx, "exp_w1", "MC_Programs", "MC_Req1", 1, ["Export"])
    e = C.tlc_mc(ctx, "MC_VfsRace", cfg=cfg, workers=8, timeout=1500, coverage=False, must_cover=False)
    w1 = schedules(e["output"])
    w2 = []
    if not quick:
        cfg = write_cfg(ctx, "exp_w2", "MC_Programs1", "MC_Req2same", 2, ["Export"])
        e = C.tlc_mc(ctx, "MC_VfsRace", cfg=cfg, workers=8, timeout=1500, coverage=False, must_cover=False)
        w2 = schedules(e["output"])
    rnd = random.Random(ctx.seed)
    if quick and len(w1) > 3000:
        w1 = rnd.sample(w1, 3000)
    scs += w1 + w2
    if not scs:
        raise C.ToolError("TLC exported no interleaving")
    model = {"interleavings": len(scs), "all_of_one_op_programs": n_all,
             "lin_violated": sum(1 for s in scs if not s["v"]["lin"]), "strict_only": sum(1 for s in scs if s["v"]["lin"] and not s["v"]["strict"]),
             "mapping_of_neither": sum(1 for s in scs if not s["v"]["mapsome"]), "foreign": sum(1 for s in scs if s["v"]["foreign"])}
    # ---- 3. replay on the real code
    scf, trf = ctx.path("sched.ndjson"), ctx.path("trace.ndjson")
    C.write_ndjson(scf, scs)
    t0 = time.time()
    C.run_bin(bd, "vfsrace", [scf, trf], timeout=3000)
    rows = C.read_ndjson(trf)
    C.log("vfsrace: %d interleavings replayed in %.1fs (%d events)" % (len(scs), time.time() - t0, len(rows)))
    sched = [x for x in rows if x.get("e") == "Sched"]
    off = [x for x in sched if x.get("label_mismatch") or x.get("skipped") or x.get("leftover")]
    if len(sched) != len(scs):
        raise C.ToolError("the harness did not finish every schedule")
    if len(off) > len(scs) // 100:
        raise C.ToolError("schedule drift: %d of %d interleavings could not be followed step by step" % (len(off), len(scs)))
    rej_relaxed = judge(ctx, trf, "Trace_VfsRace.cfg")
    rej_strict = judge(ctx, trf, "Trace_VfsRace_strict.cfg")
    ctx.traces += len(scs)
    ctx.events += len(rows)
    # ---- 4. compare
    agree = {"lin_both": 0, "nonlin_both": 0, "strict_nonlin_both": 0}
    drift, k = 0, 0
    for i, x in enumerate(rows, start=1):
        if x.get("e") != "Reset":
            continue
        sc = scs[k]
        k += 1
        m_lin, m_strict = sc["v"]["lin"], sc["v"]["strict"]
        c_lin, c_strict = i not in rej_relaxed, i not in rej_strict
        if m_lin and c_lin:
            agree["lin_both"] += 1
        if not m_strict and not c_strict:
            agree["strict_nonlin_both"] += 1
        if not m_lin and not c_lin:
            agree["nonlin_both"] += 1
            ctx.violation(sig_of(sc, sc["v"]["mapsome"]), {"program": sc["prog"], "requests": sc["reqs"], "init": sc["init"]["mp"], "interleaving": sc["s"],
                                                          "model_result": sc["res"]}, replay_src={"schedule": sc})
        elif m_lin and not c_lin:
            ctx.violation("X01|%s|unpredicted-non-linearisable" % "+".join(sc["reqs"]),
                          {"program": sc["prog"], "interleaving": sc["s"], "events": [y for y in rows if y.get("seg") == x.get("seg")][:12]},
                          replay_src={"schedule": sc})
        elif not m_lin and c_lin:
            drift += 1
            if drift <= 20:
                ctx.drift.append({"what": "VfsRace predicts a non-linearisable history, the code's history is linearisable", "schedule": sc["s"], "program": sc["prog"]})
        if m_strict != c_strict and m_lin == c_lin:
            drift += 1
    if drift:
        C.log("MODEL-DRIFT: %d interleaving(s) where the verdict on the code differs from the model's" % drift)
    ctx.extra.update({
        "distinct_nontrivial": len(scs),
        "rule": "every complete interleaving of the one-operation programs with one requester (%d), one witness interleaving per reachable final state of the two-operation programs%s; each replayed on the real Vfs through the yield hooks and judged for linearisability by TLC" % (n_all, "" if quick else " and of two same-kind requesters"),
        "model": model, "agreement": agree, "schedules_not_followed_exactly": len(off), "model_drift_count": drift,
        "rejected_relaxed": len(rej_relaxed), "rejected_strict": len(rej_strict),
        "hooks": os.path.join(crate_dir(), "src/api/vfs/verif_hooks.rs"),
    })
    for sc in [s for s in scs if not s["v"]["lin"]][:2]:
        ctx.sample({"program": sc["prog"], "requests": sc["reqs"], "interleaving": sc["s"], "model_result": sc["res"]})
    ctx.assumptions += ["mappings are tokens in the model, concretised so that each mapping sends the test ids to different values",
                        "with two requesters the replay uses pairs of the same request kind (one scripted answer per backend instance)",
                        "the pseudo directory /a exists before the program starts; index re-use (> 255 mounts) is outside these programs"]


PROPS = {"X01": run}
