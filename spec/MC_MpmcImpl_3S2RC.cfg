SPECIFICATION Spec
CONSTANTS
  Prog <- P_3S2RC
  Procs = {1,2,3,4,5,6}
  Fixed = FALSE
  EnableFirst = TRUE
  Mon = FALSE
INVARIANTS AtMostOnceI NoInventionI NoLostWakeupQ ParkedRegistered WaitersSane
