--------------------------- MODULE MC_WireFrameCmp ---------------------------
(* C20 at the design level: the synchronous and the asynchronous decision procedures of the server
   (two instances of WireFrame over the same request class) must reach the same outcome: same
   number of replies, same Ok/Err, same number of filesystem operations. Classes where they differ
   are design-level findings; they are printed (<<"DIFF", class, sync, async>>) and, when listed in
   KnownDiff (predicates over the class = the known-finding signatures), tolerated. *)
EXTENDS Naturals, TLC, Json
VARIABLES c, pcS, nS, wS, bS, fS, rS, pS, kS, pcA, nA, wA, bA, fA, rA, pA, kA
S == INSTANCE WireFrame WITH Async <- FALSE, pc <- pcS, nreply <- nS, wrote <- wS, buffered <- bS, fscalls <- fS, ret <- rS, panic <- pS, rkind <- kS
A == INSTANCE WireFrame WITH Async <- TRUE, pc <- pcA, nreply <- nA, wrote <- wA, buffered <- bA, fscalls <- fA, ret <- rA, panic <- pA, rkind <- kA
varsS == <<pcS, nS, wS, bS, fS, rS, pS, kS>>
varsA == <<pcA, nA, wA, bA, fA, rA, pA, kA>>
Init == S!Init /\ A!Init
Next == \/ (pcS # "done" /\ S!Next /\ UNCHANGED varsA)
        \/ (pcS = "done" /\ pcA # "done" /\ A!Next /\ UNCHANGED varsS)
Spec == Init /\ [][Next]_<<c, varsS, varsA>>
BothDone == pcS = "done" /\ pcA = "done"
Same == nS = nA /\ rS = rA /\ fS = fA /\ kS = kA
\* the places where async_handle_message is written differently (each is a C20 finding signature)
KnownDiff ==
  c.op = "WRITE" /\ c.body = "size_gt_max"                            \* async_write refuses size > MAX_BUFFER_SIZE (known finding)
Agree == BothDone => (Same \/ KnownDiff)
AgreeStrict == BothDone => Same
Report == (BothDone /\ ~Same) => PrintT(ToJson([c |-> c, sync |-> [nreply |-> nS, ret |-> rS, fscalls |-> fS], async |-> [nreply |-> nA, ret |-> rA, fscalls |-> fA]]))
=============================================================================
