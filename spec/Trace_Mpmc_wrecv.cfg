SPECIFICATION Spec
CONSTANT Mode = "wrecv"
CHECK_DEADLOCK FALSE
POSTCONDITION Post
