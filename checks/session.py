"""X03 (engine session) - beyond the listed properties (DESIGN.md section 9, item 4): the /dev/fuse session layer,
fuse_backend_rs::transport::fusedev::{FuseSession, FuseChannel} (src/transport/fusedev/linux_session.rs) and the
request loop around Server::handle_message, on REAL mounts.

spec/Session.tla           A level: the sequential session object (session, channels, kernel connections, mounts stacked
                           on the mountpoint), the requirements R1-R5 and the concurrent token contract
spec/MC_Session.tla        exhaustive API-state exploration: every operation in every state (wrong-state calls included);
                           requirement invariants; history export
spec/SessionImpl.tla       I level (PlusCal): the epoll loop of get_request step by step, wake(), new_channel(), umount(),
                           the kernel queue; safety + liveness (after wake() every registered reader returns None)
spec/Trace_SessionSeq.tla  judge of the sequential histories replayed on real mounts (monitor mode)
spec/Trace_Session.tla     judge of recorded concurrent runs (channel threads + clients + wake/umount/new_channel/mount)
harness/src/bin/session.rs the driver (seq / conc / probe / cleanup)

X03 is not one of the listed properties and is not in the manifest. Exit 2 ("tool") if /dev/fuse or mounting is not
available. Every mount lives below /verif/.work/X03/ and is removed on every exit path.
"""
import concurrent.futures as cf
import json
import os
import random
import re
import subprocess
import time

from . import common as C

LEVEL = {"X03": "model_checking"}
GENERIC_REPLAY = True

_H = re.compile(r'<<\s*"H",\s*"((?:[^"\\]|\\.)*)",\s*(TRUE|FALSE)\s*>>')

OPS = ["new", "mount", "umount", "drop", "wake", "nc", "dc", "gr", "clone", "setf", "dclone", "bufsize", "ww", "tww", "abort", "cli"]
PLANS = ["wake", "umount-wake", "wake-umount", "umount", "race", "late", "rewake", "remount", "abort"]


def bindir():
    d = os.environ.get("SESSION_BINDIR")
    if d:
        return d
    return C.build_harness(bins=["session"])


def cleanup(bd, path):
    """abort + lazily detach whatever is still mounted below path (also stale mounts of a crashed earlier run)"""
    try:
        subprocess.run([os.path.join(bd, "session"), "cleanup", path], stdout=subprocess.PIPE, stderr=subprocess.PIPE, timeout=60)
    except Exception:
        pass
    left = []
    try:
        with open("/proc/self/mountinfo") as f:
            for line in f:
                p = line.split(" ")[4]
                if p == path or p.startswith(path + "/"):
                    left.append(p)
    except OSError:
        pass
    for p in reversed(left):
        subprocess.run(["umount", "-l", p], stdout=subprocess.PIPE, stderr=subprocess.PIPE)
    return left


def write_cfg(ctx, name, base, **kv):
    """a copy of spec/<base> with constants replaced (cfg files live next to the specs, generated ones in the work dir)"""
    with open(os.path.join(C.SPEC, base)) as f:
        txt = f.read()
    for k, v in kv.items():
        txt, n = re.subn(r"(?m)^(\s*%s\s*=\s*).*$" % re.escape(k), lambda m: m.group(1) + str(v), txt)
        if n != 1:
            raise C.ToolError("constant %s not found in %s" % (k, base))
    p = ctx.path(name + ".cfg")
    with open(p, "w") as f:
        f.write(txt)
    return p


def histories(out):
    """TLC's export -> histories; the state-preserving steps of one state are replayed together"""
    trans = []
    for m in _H.finditer(out):
        ops = json.loads(m.group(1).replace('\\"', '"').replace("\\\\", "\\"))
        trans.append((ops, m.group(2) == "TRUE"))
    groups, res = {}, []
    for ops, same in trans:
        if same:
            groups.setdefault(json.dumps(ops[:-1]), []).append(ops[-1])
        else:
            res.append(ops)
    for key, tails in groups.items():
        res.append(json.loads(key) + tails)
    return len(trans), res


# hand-written histories that are always replayed (each is also a path of MC_Session's state graph at some depth)
def op(o, c=0, k=0, kind=""):
    return {"op": o, "c": c, "k": k, "kind": kind, "exp": ""}


TARGETED = [
    # wake with two blocked readers; the exit event is consumed once per channel (second call blocks again)
    [op("new", kind="dir"), op("mount"), op("nc", 1), op("nc", 2), op("gr", 1), op("gr", 1), op("gr", 2), op("wake"), op("gr", 1), op("wake"), op("wake"),
     op("gr", 2), op("gr", 2), op("umount"), op("gr", 1), op("dc", 1), op("dc", 2), op("drop")],
    # a channel created after wake() is not woken; unmount releases it
    [op("new", kind="dir"), op("mount"), op("nc", 1), op("gr", 1), op("wake"), op("nc", 2), op("gr", 2), op("gr", 1), op("umount"), op("gr", 1), op("gr", 2),
     op("dc", 1), op("dc", 2), op("drop")],
    # lazy unmount with a client in flight: requests keep being served, the connection dies with the last user
    [op("new", kind="dir"), op("mount"), op("nc", 1), op("cli"), op("umount"), op("gr", 1), op("gr", 1), op("gr", 1), op("gr", 1), op("umount"), op("dc", 1), op("drop")],
    # abort, then umount(): the dead mount stays; mount() cannot be repeated
    [op("new", kind="dir"), op("mount"), op("nc", 1), op("gr", 1), op("cli"), op("gr", 1), op("abort", k=1), op("gr", 1), op("cli"), op("umount"), op("cli"),
     op("mount"), op("umount"), op("dc", 1), op("drop")],
    # mount() on a mounted session
    [op("new", kind="dir"), op("mount"), op("nc", 1), op("gr", 1), op("mount")],
    # clone / set_fuse_file: the upstream unit test's sequence, then requests through the cloned descriptor
    [op("new", kind="dir"), op("mount"), op("clone"), op("umount"), op("setf"), op("mount"), op("clone"), op("setf"), op("nc", 1), op("gr", 1), op("cli"), op("gr", 1),
     op("umount"), op("gr", 1), op("dc", 1), op("drop")],
    # session dropped while its channels live on
    [op("new", kind="dir"), op("mount"), op("nc", 1), op("nc", 2), op("gr", 1), op("gr", 2), op("drop"), op("gr", 1), op("dc", 1), op("dc", 2)],
]


def run_seq_part(args):
    bd, hist, trace, wdir = args
    try:
        r = subprocess.run([os.path.join(bd, "session"), "seq", hist, trace, wdir], stdout=subprocess.PIPE, stderr=subprocess.PIPE, text=True, timeout=1700)
    except subprocess.TimeoutExpired:
        return 124, "timed out"
    return r.returncode, r.stderr[-600:]


def run_conc_part(args):
    bd, trace, wdir, seed, runs, wd = args
    try:
        r = subprocess.run([os.path.join(bd, "session"), "conc", trace, wdir, str(seed), str(runs), str(wd)], stdout=subprocess.PIPE, stderr=subprocess.PIPE, text=True, timeout=1700)
    except subprocess.TimeoutExpired:
        return 124, "timed out"
    return r.returncode, r.stderr[-600:]


def judge(ctx, module, trace):
    """one TLC (-workers 1) over one trace file; several run side by side, so the metadir is named after the trace"""
    meta = ctx.path("tlctr_" + os.path.splitext(os.path.basename(trace))[0])
    r = C._java(["-workers", "1", "-metadir", meta, "-noGenerateSpecTE", "-config", module + ".cfg", module + ".tla"], C.SPEC,
                {"TRACE": trace}, 1500, xmx="3g", xss="1g", deque=True)
    out = r.stdout
    m = re.search(r'<<"ACCEPTED",\s*(\d+)>>', out)
    if not m or "Error:" in out:
        C.log(out[-3000:])
        raise C.ToolError("%s did not consume %s" % (module, trace))
    return C.parse_viols(out), int(m.group(1))


def segment(rows, idx):
    """the events of the history / run that contains event number idx (1-based)"""
    j = idx - 1
    while j > 0 and rows[j].get("e") != "Reset":
        j -= 1
    k = idx
    while k < len(rows) and rows[k].get("e") != "Reset":
        k += 1
    return rows[j:k]


def brief(ev):
    return {k: v for k, v in ev.items() if v not in (0, "", None, False) and k not in ("msg", "hmn", "node", "nfusemount")}


def run(ctx):
    quick = ctx.quick
    bd = bindir()
    rnd = random.Random(ctx.seed)
    work = ctx.work
    try:
        _run(ctx, quick, bd, rnd)
    finally:
        left = cleanup(bd, work)
        if left:
            C.log("session: removed leftover mounts %s" % left)


def _run(ctx, quick, bd, rnd):
    # ---- 0. the environment: /dev/fuse + mount(2); stale mounts of an earlier crashed run are removed first
    cleanup(bd, ctx.work)
    pr = subprocess.run([os.path.join(bd, "session"), "probe", ctx.path("probe")], stdout=subprocess.PIPE, stderr=subprocess.PIPE, text=True, timeout=120)
    if pr.returncode != 0:
        raise C.ToolError("real FUSE mounts are not available here (need /dev/fuse and CAP_SYS_ADMIN): %s" % pr.stderr.strip()[-300:])

    t_start = [time.time()]

    def tick(what):
        C.log("session: %-28s +%.1fs" % (what, time.time() - t_start[0]))
        t_start[0] = time.time()

    # ---- 1. model checking
    pool = cf.ThreadPoolExecutor(max_workers=8)
    maxops = 7 if quick else 9
    fut_impl = []

    def mc_impl(cfg, expect=None, workers=3):
        r = C.tlc_mc(ctx, "SessionImpl", cfg=cfg, workers=workers, timeout=1500, expect_violation=bool(expect), must_cover=not expect)
        return cfg, r, expect
    # (cfg, what a mutation must be caught by)
    impl_cfgs = [("MC_SessionImpl_q.cfg", None), ("MC_SessionImpl_qr.cfg", None), ("MC_SessionImpl_edge.cfg", "NoLostReadiness"),
                 ("MC_SessionImpl_skip.cfg", "Deadlock"), ("MC_SessionImpl_exit.cfg", "ExitWins")]
    if not quick:
        impl_cfgs += [("MC_SessionImpl_late.cfg", None), ("MC_SessionImpl_t.cfg", None), ("MC_SessionImpl_tr.cfg", None), ("MC_SessionImpl_ts.cfg", None)]
    for cfg, expect in impl_cfgs:
        fut_impl.append(pool.submit(mc_impl, cfg, expect, 2 if expect else (3 if quick else 2)))

    # the sequential object: export (as found, recorded defects excused), as-found demonstration, repaired design
    cfg_x = write_cfg(ctx, "mc_session_x", "MC_Session_x.cfg", MaxOps=maxops)
    rx = C.tlc_mc(ctx, "MC_Session", cfg=cfg_x, workers=1, timeout=1500)
    if rx["violated"]:
        raise C.ToolError("MC_Session: a requirement fails outside the recorded defects: %s\n%s" % (rx["violated"], rx["output"][-2500:]))
    ntrans, hs = histories(rx["output"])
    if ntrans < 1000:
        raise C.ToolError("MC_Session exported only %d transitions" % ntrans)
    cfg_a = write_cfg(ctx, "mc_session_asfound", "MC_Session_q.cfg", MaxOps=6, Excuse="FALSE")
    fut_a = pool.submit(C.tlc_mc, ctx, "MC_Session", cfg=cfg_a, workers=1, timeout=600, expect_violation=True, must_cover=False, cont=True)
    cfg_f = write_cfg(ctx, "mc_session_fixed", "MC_Session_q.cfg", MaxOps=6 if quick else 8, Excuse="FALSE", AsFoundAbort="FALSE", AsFoundRemount="FALSE")
    fut_f = pool.submit(C.tlc_mc, ctx, "MC_Session", cfg=cfg_f, workers=1, timeout=900)   # (1 worker: with the VIEW the bound on the history length makes the explored set depend on the order)
    tick("MC_Session export")

    # ---- 2. sequential histories on real mounts
    short = [h for h in hs if len(h) <= 4]
    rest = [h for h in hs if len(h) > 4]
    rnd.shuffle(rest)
    n_rest = 260 if quick else len(rest)
    chosen = TARGETED + short + rest[:n_rest]
    nproc = 4 if quick else 6
    parts = [chosen[i::nproc] for i in range(nproc)]
    jobs = []
    hid = 0
    for i, part in enumerate(parts):
        hf, tf = ctx.path("hist%d.ndjson" % i), ctx.path("seq%d.ndjson" % i)
        rows = []
        for h in part:
            hid += 1
            rows.append({"id": hid, "ops": h})
        C.write_ndjson(hf, rows)
        jobs.append((bd, hf, tf, ctx.path("seqdir%d" % i)))
    t0 = time.time()
    with cf.ThreadPoolExecutor(max_workers=nproc) as ex:
        rcs = list(ex.map(run_seq_part, jobs))
    for rc, err in rcs:
        if rc != 0:
            raise C.ToolError("session seq exited %d: %s" % (rc, err))
    C.log("session: %d sequential histories (%d transitions exported, %d operations) replayed on real mounts in %.1fs" % (
        len(chosen), ntrans, sum(len(h) for h in chosen), time.time() - t0))

    tick("sequential replay")
    # ---- 3. concurrent runs on real mounts (while the sequential traces are judged)
    runs = 36 if quick else 600
    wd = 250 if quick else 1000
    cparts = 2 if quick else 6
    cjobs = [(bd, ctx.path("conc%d.ndjson" % i), ctx.path("concdir%d" % i), ctx.seed * 1000 + i, runs // cparts, wd) for i in range(cparts)]
    fut_conc = [pool.submit(run_conc_part, j) for j in cjobs]
    fut_seq = [pool.submit(judge, ctx, "Trace_SessionSeq", j[2]) for j in jobs]

    viols = []          # (signature, detail, replay)
    seen_dbg = set()
    seq_rows_all = 0
    opseen, resseen = {}, {}
    counters = {"blocked_get_request": 0, "released_by_wake": 0, "released_by_unmount": 0, "requests_delivered": 0, "hangs": 0}
    for j, fu in zip(jobs, fut_seq):
        v, n = fu.result()
        rows = C.read_ndjson(j[2])
        seq_rows_all += n
        for r in rows:
            if r["e"] == "op":
                opseen[r["op"]] = opseen.get(r["op"], 0) + 1
                key = "%s:%s" % (r["op"], "hang" if r["hung"] else (r["cls"] if r["res"] == "err" else r["res"]))
                resseen[key] = resseen.get(key, 0) + 1
                counters["hangs"] += 1 if r["hung"] else 0
            elif r["e"] == "done" and r["what"] == "gr":
                counters["requests_delivered"] += 1 if r["res"] == "some" else 0
        for i, r in enumerate(rows):
            if r["e"] == "done" and r["what"] == "gr" and r["res"] == "none":
                # which operation released it
                k = i
                while k >= 0 and rows[k]["e"] != "op":
                    k -= 1
                if rows[k]["op"] == "wake":
                    counters["released_by_wake"] += 1
                elif rows[k]["op"] in ("umount", "drop", "abort"):
                    counters["released_by_unmount"] += 1
            if r["e"] == "st" and i >= 1 and rows[i - 1]["e"] == "op" and rows[i - 1]["op"] == "gr":
                counters["blocked_get_request"] += 1
        for sig, idx, det in v:
            seg = segment(rows, idx)
            viols.append((sig, {"at": idx, "tlc": det[:300], "history": [brief(e) for e in seg if e["e"] in ("op", "done")][:40]},
                          {"kind": "seq", "history": [e for e in seg if e["e"] != "st"]}))
    ctx.traces += len(chosen)
    ctx.events += seq_rows_all

    for rc_err in [f.result() for f in fut_conc]:
        if rc_err[0] != 0:
            raise C.ToolError("session conc exited %d: %s" % rc_err)
    fut_cj = [pool.submit(judge, ctx, "Trace_Session", j[1]) for j in cjobs]
    plans, conc_events, conc_runs = {}, 0, 0
    cc = {"watchdog_events": 0, "none_returns": 0, "requests_delivered": 0, "client_reads_ok": 0, "client_errors": 0}
    for j, fu in zip(cjobs, fut_cj):
        v, n = fu.result()
        rows = C.read_ndjson(j[1])
        conc_events += n
        for r in rows:
            if r["e"] == "Reset":
                plans[r["plan"]] = plans.get(r["plan"], 0) + 1
                conc_runs += 1
            elif r["e"] == "watchdog":
                cc["watchdog_events"] += 1
            elif r["e"] == "gr_ret":
                cc["none_returns"] += 1 if r["res"] == "none" else 0
                cc["requests_delivered"] += 1 if r["res"] == "some" else 0
            elif r["e"] == "cl_ret":
                cc["client_reads_ok" if r["res"] == "ok" else "client_errors"] += 1
        for sig, idx, det in v:
            seg = segment(rows, idx)
            keep = [e for e in seg if e["e"] not in ("gr_call", "hm_ret", "cl_call") and not (e["e"] == "gr_ret" and e["res"] == "some") and not (e["e"] == "cl_ret" and e["res"] == "ok")]
            viols.append((sig, {"at": idx, "tlc": det[:300], "run": brief(seg[0]), "events": [brief(e) for e in keep][:40]}, {"kind": "conc", "run": seg[:400]}))
    ctx.traces += conc_runs
    ctx.events += conc_events

    # ---- 4. model checking results: the sequential object as found / repaired, the step model
    tick("traces judged")
    ra = fut_a.result()
    if "InvReq" not in ra["violated"]:
        raise C.ToolError("MC_Session (as found, nothing excused): InvReq should be violated (umount after abort, mount twice)")
    asfound_sigs = sorted(set(re.findall(r'"((?:stale|hang)\|[a-z-]+)"', ra["output"])))
    rf = fut_f.result()
    if rf["violated"]:
        raise C.ToolError("MC_Session (repaired design): %s violated\n%s" % (rf["violated"], rf["output"][-2500:]))
    impl = {}
    for fu in fut_impl:
        cfg, r, expect = fu.result()
        if expect:
            caught = "Deadlock reached" in r["output"] if expect == "Deadlock" else expect in r["violated"]
            if not caught:
                raise C.ToolError("SessionImpl/%s: the mutation should be caught by %s (the property would be vacuous)" % (cfg, expect))
            impl[cfg] = "mutation caught by %s, as it must be" % expect
        else:
            if r["violated"] or "Temporal properties were violated" in r["output"] or "Deadlock reached" in r["output"]:
                C.log(r["output"][-4000:])
                bad = r["violated"] or ["liveness/deadlock"]
                viols.append(("X03|model|SessionImpl|%s" % "+".join(bad), {"cfg": cfg, "tlc": r["output"][-1500:]}, None))
            impl[cfg] = "%d states" % r["distinct"]
    pool.shutdown()
    tick("model checking joined")

    # ---- 5. gates against vacuity
    missing = [o for o in OPS if opseen.get(o, 0) == 0]
    if missing:
        raise C.ToolError("sequential histories never executed %s" % missing)
    need = ["nc:invalid-session", "clone:no-fuse-file", "tww:invalid-session", "ww:not-called", "ww:called", "new:invalid-mountpoint", "new:not-a-directory",
            "umount:ok", "mount:ok", "wake:ok", "mount:stat-mountpoint"]
    lack = [k for k in need if resseen.get(k, 0) == 0]
    if lack:
        raise C.ToolError("sequential histories never produced %s (seen: %s)" % (lack, sorted(resseen)))
    for k in ("blocked_get_request", "released_by_wake", "released_by_unmount", "requests_delivered"):
        if counters[k] == 0:
            raise C.ToolError("sequential histories: %s = 0" % k)
    lackp = [p for p in PLANS if plans.get(p, 0) == 0]
    if lackp:
        raise C.ToolError("concurrent runs never used plan %s" % lackp)
    if cc["requests_delivered"] < 50 * cparts or cc["none_returns"] < conc_runs or cc["client_reads_ok"] == 0:
        raise C.ToolError("concurrent runs too thin: %s" % cc)

    # ---- 6. binding demonstrations (a corrupted log must be rejected)
    demo = binding_demo(ctx, jobs[0][2], cjobs[0][1], {v[0] for v in viols})
    tick("binding demonstrations")

    for sig, det, rp in viols:
        if os.environ.get("SESSION_DEBUG") and sig not in seen_dbg:
            seen_dbg.add(sig)
            C.log("DEBUG %s %s" % (sig, json.dumps(det)[:3000]))
        ctx.violation(sig, det, replay_src=rp)

    ctx.extra.update({
        "distinct_nontrivial": len(chosen) + conc_runs,
        "rule": "every operation in every API state of MC_Session up to %d operations (%d transitions -> %d histories, %s replayed on real mounts, result and descriptor/mount counts "
                "compared after each step by TLC); %d concurrent runs over %d plans judged by TLC; step model of the epoll loop checked for safety, liveness and deadlock" % (
                    maxops, ntrans, len(hs), "a seeded sample of %d" % len(chosen) if quick else "all", conc_runs, len(plans)),
        "action_coverage": {"sequential_ops": opseen, "sequential_results": resseen, "sequential": counters, "concurrent_plans": plans, "concurrent": cc},
        "binding_demo": demo,
        "step_model": impl,
        "as_found_model_violations": asfound_sigs,
        "repaired_model": "all invariants hold with AsFoundAbort = AsFoundRemount = FALSE (%d states)" % rf["distinct"],
    })
    for h in TARGETED[:2]:
        ctx.sample({"history": [(o["op"], o["c"]) if o["c"] else o["op"] for o in h]})
    ctx.assumptions += [
        "kernel side (queue, INIT before anything else, lazy unmount, abort) is modelled in Session.tla from observation of this kernel (%s); the client is statfs(mountpoint) = one STATFS request" % os.uname().release,
        "'blocked' is decided by the harness from /proc (thread asleep inside epoll_wait / a FUSE wait on three samples), never by a timeout alone",
        "auto_unmount / fusermount3 paths are not exercised (no fusermount binary here); mounts are made with mount(2) as root",
        "set_fuse_file: after it the session refers to the forced descriptor; R3 (no stale mount) is not demanded of such sessions (weaker reading)",
    ]


def binding_demo(ctx, seq_trace, conc_trace, have):
    """four corrupted logs, each of which TLC must flag (judged side by side)"""
    rows = C.read_ndjson(seq_trace)
    cut = None
    for i, r in enumerate(rows):
        if r["e"] == "op" and r["op"] == "nc" and r["res"] == "ok":
            cut = i
            break
    if cut is None:
        raise C.ToolError("binding demo: no successful new_channel in the first sequential trace")
    seg_end = cut
    while seg_end < len(rows) and rows[seg_end]["e"] != "End":
        seg_end += 1
    j = cut
    while rows[j]["e"] != "Reset":
        j -= 1
    files = {}
    # (a) corrupt one logged result: the first successful new_channel becomes an error
    bad = [dict(r) for r in rows[j:seg_end + 1]]
    bad[cut - j]["res"], bad[cut - j]["cls"] = "err", "invalid-session"
    files["a"] = ctx.path("demo_a.ndjson")
    C.write_ndjson(files["a"], bad)
    # (b) a descriptor count that is off by one
    bad = [dict(r) for r in rows[j:seg_end + 1]]
    for r in bad:
        if r["e"] == "st" and r["nfuse"] > 0:
            r["nfuse"] += 1
            break
    files["b"] = ctx.path("demo_b.ndjson")
    C.write_ndjson(files["b"], bad)
    # (c) concurrent: a watchdog event for a channel that was inside get_request when wake() returned
    crow = C.read_ndjson(conc_trace)
    k = None
    ingr, seg0 = set(), 0
    for i, r in enumerate(crow):
        if r["e"] == "Reset":
            ingr, seg0 = set(), i
        elif r["e"] == "gr_call":
            ingr.add(r["c"])
        elif r["e"] == "gr_ret":
            ingr.discard(r["c"])
        elif r["e"] == "wake_ret" and ingr and crow[seg0]["plan"] in ("wake", "wake-umount", "rewake"):
            k = (seg0, i, sorted(ingr)[0])
            break
    if k is None:
        raise C.ToolError("binding demo: no wake() returned while a channel was inside get_request")
    seg0, i, c = k
    end = i
    while end < len(crow) and crow[end]["e"] != "end":
        end += 1
    bad = [dict(r) for r in crow[seg0:i + 1]]
    wdg = dict(crow[i])
    wdg.update({"e": "watchdog", "t": "wd", "c": c, "kind": "wake", "ms": 5000})
    bad.append(wdg)
    # the rest of the run without that channel's late return (as if it had stayed blocked)
    bad += [dict(r) for r in crow[i + 1:end + 1] if not (r.get("c") == c and r["e"] in ("gr_ret", "gr_call", "hm_ret", "ch_drop"))]
    files["c"] = ctx.path("demo_c.ndjson")
    C.write_ndjson(files["c"], bad)
    # (d) concurrent: the wake / umount events of a run are dropped -> the Ok(None) returns have no cause
    bad = [dict(r) for r in crow[seg0:end + 1] if r["e"] not in ("wake_call", "wake_ret", "um_call", "um_ret", "abort")]
    files["d"] = ctx.path("demo_d.ndjson")
    C.write_ndjson(files["d"], bad)
    mods = {"a": "Trace_SessionSeq", "b": "Trace_SessionSeq", "c": "Trace_Session", "d": "Trace_Session"}
    with cf.ThreadPoolExecutor(max_workers=4) as ex:
        futs = {x: ex.submit(judge, ctx, mods[x], files[x]) for x in files}
        got = {x: [s for s, _, _ in futs[x].result()[0]] for x in files}
    if not any(s.startswith("X03|nc|") for s in got["a"]):
        raise C.ToolError("binding demo: a corrupted new_channel result was accepted")
    if not any(s.startswith("X03|fds|fuse") for s in got["b"]):
        raise C.ToolError("binding demo: a wrong descriptor count was accepted")
    if "X03|wake|reader-still-blocked" not in got["c"]:
        raise C.ToolError("binding demo: a reader still blocked after wake() returned was not flagged: %s" % got["c"])
    if "X03|get_request|none-without-exit-or-unmount" not in got["d"]:
        raise C.ToolError("binding demo: Ok(None) without wake/umount in the log was accepted")
    return {"seq_corrupt_result": got["a"][:3], "seq_corrupt_fd_count": got["b"][:2],
            "conc_reader_still_blocked": "flagged X03|wake|reader-still-blocked",
            "conc_dropped_wake": "flagged X03|get_request|none-without-exit-or-unmount"}


PROPS = {"X03": run}
