---------------------------- MODULE MC_FuseInit ----------------------------
(* Export of every INIT negotiation case of FuseInit with the outcome its I-level predicts. *)
EXTENDS FuseInit, Json
SetToSeq(S) == CHOOSE q \in [1..Cardinality(S) -> S] : \A i, j \in 1..Cardinality(S) : i # j => q[i] # q[j]
KJ == [stack |-> k.stack, major |-> k.major, minor |-> k.minor, flags |-> SetToSeq(k.flags), flags2 |-> SetToSeq(k.flags2),
       ext |-> k.ext, want |-> SetToSeq(k.want), sw |-> k.sw]
PJ == [r |-> [status |-> res.r.status, size |-> res.r.size, flags |-> SetToSeq(res.r.flags), flags2 |-> SetToSeq(res.r.flags2),
              major |-> res.r.major, max_write |-> res.r.max_write, max_pages |-> res.r.max_pages],
       t |-> res.t, called |-> res.called]
ExportCases == stage = "inited" => PrintT(ToJson([k |-> KJ, pred |-> PJ]))
=============================================================================
