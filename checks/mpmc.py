"""X02 (engine mpmc) - beyond the listed properties (DESIGN.md section 9, item 5): the asynchronous MPMC channel
fuse_backend_rs::common::mpmc::Channel<T> (src/common/mpmc.rs, crate feature async-io, built on tokio::sync::Notify).

spec/Mpmc.tla            A level: the channel as a sequential object (every public method with its result), the
                         obligations (AtMostOnce, NoInvention, Fifo, AfterClose, RecvErrOnlyDrained) and the
                         linearisation step shared by the monitors and the judge
spec/MC_Mpmc.tla         the obligations checked on every history of the sequential object
spec/MpmcImpl.tla        I level: one action per atomic step of the Rust code over a model of tokio's Notify (permit,
                         waiter list, notify_waiters counter, hand-on of an unconsumed notification at drop); ghost
                         linearisability monitors (strict / weak), no-lost-wakeup (safety and liveness form)
spec/MpmcGate.tla        the interleavings reproducible on the real channel through its public API, with predictions
spec/Trace_Mpmc.tla      judge of recorded histories of the real channel (blocking mode, silent Lin steps, Stall events)
harness/src/bin/mpmc.rs  replay (hand-polled recv futures, counting wakers, lock-gated sends), stress (threads +
                         watchdog), hunt (recv racing send;close)

X02 is not one of the listed properties and is not in the manifest. Verdicts:
  * TLC on the I level: every invariant but LinStrict must hold in every configuration; LinStrict must hold without a
    closer; with a closer TLC's counterexample of LinStrict is the design-level finding (close races);
  * every exported interleaving is replayed on the real Channel and judged by TLC; a recorded history that the strict
    object rejects is classified by the weak readings of Mpmc.tla:
        X02|close-race|send-accepted-after-close-took-effect      linearisable iff send = check ; enqueue
        X02|close-race|recv-closed-error-before-drain             linearisable iff recv's error = empty? ; closed?
        X02|close-race|send-and-recv
        X02|lost-wakeup|...                                       a Stall event with something to receive
        X02|not-linearisable|...                                  anything else
    (the close races are listed in known_findings.json: findings/mpmc-close-race.md); a replayed interleaving whose
    verdict differs from the model's is MODEL-DRIFT (predicted, not shown) or a violation (shown, not predicted).
"""
import json
import os
import random
import re

from . import common as C

LEVEL = {"X02": "model_checking"}
GENERIC_REPLAY = True

BASE_INV = ["LinWeak", "QuiescentAgrees", "AtMostOnceI", "NoInventionI", "NoLostWakeupQ", "ParkedRegistered", "WaitersSane"]
# the operations a program contains decide which actions of MpmcImpl can be taken at all
OP_ACTIONS = {
    "send": ["SendLoad", "SendPush", "SendNotify"], "try": ["TryRecv"], "close": ["CloseStore", "CloseNotify"],
    "notifyw": ["NotifyW"], "flush": ["Flush"], "len": ["LenRead"],
    "recv": ["RecvNotified", "RecvEnable", "RecvTry", "RecvLoadClosed", "RecvAwait", "RecvWake", "RecvRenew", "RecvDrop"],
    "recvc": ["RecvNotified", "RecvEnable", "RecvTry", "RecvLoadClosed", "RecvAwait", "RecvWake", "RecvRenew", "RecvDrop", "RecvCancel"],
}
ALL_ACTIONS = sorted({a for v in OP_ACTIONS.values() for a in v} | {"Rest"})
# program name -> (number of processes, operations it contains)
PROGRAMS = {
    "P_2S2R": (4, {"send", "recv"}), "P_S2RR": (4, {"send", "recv", "recvc", "try"}), "P_3S3R": (6, {"send", "recv"}),
    "P_MISC": (3, {"send", "recv", "notifyw", "flush", "len"}), "P_MISC2": (4, {"send", "recv", "recvc", "notifyw", "flush", "len", "try"}),
    "P_SRC": (3, {"send", "recv", "close"}), "P_2S2RC": (5, {"send", "recv", "close"}), "P_S2R2C": (4, {"send", "recv", "try", "close"}),
    "P_3S3RC": (7, {"send", "recv", "recvc", "close"}), "P_3S2RC": (6, {"send", "recv", "close"}), "P_QUICK": (3, {"send", "recv", "recvc", "try", "notifyw", "flush", "len"}), "P_S2RRC": (4, {"send", "recv", "close"}),
    "P_SRRC": (4, {"send", "recv", "recvc", "close"}), "P_SRCT": (3, {"send", "recv", "close", "try"}),
}


def model_fixed():
    """TRUE once findings/mpmc-close-race.diff is in the crate: the lead moves the X02 entry of known_findings.json from
    `known` to `fixed` (or sets MPMC_FIXED=1); the I-level model is then checked and exported with Fixed = TRUE"""
    if os.environ.get("MPMC_FIXED"):
        return os.environ["MPMC_FIXED"] == "1"
    try:
        with open(os.path.join(C.VERIF, "known_findings.json")) as f:
            d = json.load(f)
    except (OSError, ValueError):
        return False
    return any(x.get("property") == "X02" for x in d.get("fixed", []))


def write_cfg(ctx, name, prog, invs, fixed=False, enable=True, spec="Spec", props=(), extra=(), mon=True):
    n = PROGRAMS[prog][0]
    p = ctx.path(name + ".cfg")
    with open(p, "w") as f:
        f.write("SPECIFICATION %s\nCONSTANTS\n  Prog <- %s\n  Procs = {%s}\n  Fixed = %s\n  EnableFirst = %s\n  Mon = %s\n" % (
            spec, prog, ",".join(str(i) for i in range(1, n + 1)), "TRUE" if fixed else "FALSE", "TRUE" if enable else "FALSE", "TRUE" if mon else "FALSE"))
        for x in extra:
            f.write(x + "\n")
        if invs:
            f.write("INVARIANTS %s\n" % " ".join(invs))
        for q in props:
            f.write("PROPERTY %s\n" % q)
    return p


def mc_impl(ctx, name, prog, invs, covered, workers=4, timeout=1500, **kw):
    """one MpmcImpl configuration; coverage is gated per configuration on the actions its program can take"""
    cfg = write_cfg(ctx, name, prog, invs, **{k: v for k, v in kw.items() if k in ("fixed", "enable", "spec", "props", "mon")})
    r = C.tlc_mc(ctx, "MC_MpmcImpl", cfg=cfg, workers=workers, timeout=timeout, must_cover=False,
                 expect_violation=kw.get("expect_violation", False))
    C.log("mpmc: MpmcImpl %s %s: %d states, %.1fs%s" % (prog, name, r["distinct"], r["wall_s"], (" violated " + ",".join(r["violated"])) if r["violated"] else ""))
    acts = {k.split("!")[1]: v for k, v in r.get("actions", {}).items() if k.startswith("MpmcImpl!")}
    if not r["violated"] and not re.search(r"Temporal propert(y|ies) .*violated", r["output"]):
        want = {a for o in PROGRAMS[prog][1] for a in OP_ACTIONS[o]}
        if kw.get("fixed"):
            want -= {"SendPush", "RecvLoadClosed"}
        missing = sorted(a for a in want if acts.get(a, 0) == 0)
        if missing:
            raise C.ToolError("vacuity gate: %s/%s never takes %s" % (prog, name, missing))
    for a, v in acts.items():
        covered[a] = covered.get(a, 0) + v
    return r


_SCHED = re.compile(r'<<\s*"SCHED"\s*,\s*"((?:[^"\\]|\\.)*)"\s*>>')


def schedules(out):
    res = []
    for m in _SCHED.finditer(out):
        d = json.loads(m.group(1).replace('\\"', '"').replace("\\\\", "\\"))
        for s in d["steps"]:
            if s["r"]["k"] == "blockedAtLock":
                s["k"] = "send.begin"
            s["w"] = sorted(s["w"])
        res.append(d)
    return res


def export(ctx, name, prog, simulate=None, view=False, fixed=False):
    n = PROGRAMS[prog][0]
    cfg = ctx.path(name + ".cfg")
    with open(cfg, "w") as f:
        f.write("SPECIFICATION GSpecNoRest\nCONSTANTS\n  Prog <- %s\n  Procs = {%s}\n  Fixed = %s\n  EnableFirst = TRUE\n  Mon = TRUE\nCHECK_DEADLOCK FALSE\n%sINVARIANTS Export GLinWeak GNoLostWakeupQ\n" % (
            prog, ",".join(str(i) for i in range(1, n + 1)), "TRUE" if fixed else "FALSE", "VIEW NoSched\n" if view else ""))
    r = C.tlc_mc(ctx, "MpmcGate", cfg=cfg, workers=4, timeout=1500, coverage=False, must_cover=False, simulate=simulate, depth=200 if simulate else None)
    if r["violated"]:
        raise C.ToolError("MpmcGate %s: %s violated on the exported interleavings" % (prog, r["violated"]))
    scs = schedules(r["output"])
    uniq, seen = [], set()
    for s in scs:
        k = json.dumps(s["steps"], sort_keys=True)
        if k not in seen:
            seen.add(k)
            s["prog_name"] = prog
            uniq.append(s)
    return uniq


def segments(rows):
    """[(index of the Reset event (1-based), [events])]"""
    segs = []
    for i, r in enumerate(rows, start=1):
        if r.get("e") == "Reset":
            segs.append((i, [r]))
        elif segs:
            segs[-1][1].append(r)
    return segs


def judge(ctx, path):
    """Reset indices of the segments Trace_Mpmc rejects (each under the mode its Reset event carries)"""
    meta = ctx.path("tlctr_%s" % os.path.basename(path))
    r = C._java(["-workers", "1", "-metadir", meta, "-noGenerateSpecTE", "-config", "Trace_Mpmc.cfg", "Trace_Mpmc.tla"], C.SPEC,
                {"TRACE": path}, 3000, xmx="8g", xss="1g", deque=True)
    out = r.stdout
    if "CONSUMED" not in out or "Error:" in out:
        C.log(out[-3000:])
        raise C.ToolError("Trace_Mpmc did not consume %s" % path)
    m = re.search(r'<<\s*"REJECTED",\s*\{(.*?)\}\s*>>', out, re.S)
    return {int(x) for x in re.findall(r"\d+", m.group(1))} if m else set()


MODES = ["wsend", "wrecv", "weak", "nostall"]
CLASS_SIG = {"wsend": "close-race|send-accepted-after-close-took-effect", "wrecv": "close-race|recv-closed-error-before-drain",
             "weak": "close-race|send-and-recv", "nostall": "lost-wakeup|receiver-parked-with-something-to-receive", None: "not-linearisable"}


def shape(evs):
    """short description of a history for a signature / sample"""
    ops = {}
    for e in evs:
        if e.get("e") == "Call" and e.get("t") != 0:
            ops[e["op"]] = ops.get(e["op"], 0) + 1
    return "+".join("%s%d" % (k, ops[k]) for k in sorted(ops))


def brief(evs):
    out = []
    for e in evs:
        if e.get("e") == "Call":
            out.append("t%d %s%s(" % (e["t"], e["op"], (" %d" % e["m"]) if e["op"] == "send" else (" %s" % e["set"]) if e["op"] == "flush" else ""))
        elif e.get("e") == "Ret":
            out.append("t%d )->%s%s" % (e["t"], e["res"]["k"], (" %d" % e["res"]["m"]) if e["res"]["k"] in ("msg", "some", "err", "len") else ""))
        elif e.get("e") == "Stall":
            out.append("STALL%s" % e["blocked"])
    return " ; ".join(out)


def run(ctx):
    quick = ctx.quick
    rnd = random.Random(ctx.seed)
    bindir = os.environ.get("MPMC_BINDIR") or C.build_harness(bins=["mpmc"], features="async", target="target-async")
    covered = {}
    fixed = model_fixed()
    if fixed:
        C.log("mpmc: the close-race patch is recorded as applied: model constant Fixed = TRUE")

    # ---------------------------------------------------------------- 1. the A level and its obligations
    r = C.tlc_mc(ctx, "MC_Mpmc", cfg="MC_Mpmc_quick.cfg" if quick else "MC_Mpmc.cfg", workers=4 if quick else 6, timeout=1500)
    if r["violated"]:
        raise C.ToolError("Mpmc.tla: the sequential object violates its own obligations: %s" % r["violated"])

    # ---------------------------------------------------------------- 2. the I level
    model = {"strict_holds_without_closer": [], "weak_holds_with_closer": [], "liveness": [], "patched_model": []}
    no_close = ["P_QUICK"] if quick else ["P_QUICK", "P_S2RR"]
    with_close = [] if quick else ["P_S2R2C"]             # P_SRCT: together with the liveness run below
    for p in no_close:
        r = mc_impl(ctx, "nc_" + p, p, ["LinStrict"] + BASE_INV, covered, workers=6)
        if r["violated"]:
            ctx.violation("X02|model|%s|%s" % (p, "+".join(r["violated"])), {"what": "MpmcImpl violates %s without a closer" % r["violated"], "tail": r["output"][-1500:]})
        else:
            model["strict_holds_without_closer"].append({"program": p, "states": r["distinct"]})
    for p in with_close:
        r = mc_impl(ctx, "wc_" + p, p, (["LinStrict"] if fixed else []) + BASE_INV, covered, workers=6, fixed=fixed)
        if r["violated"]:
            ctx.violation("X02|model|%s|%s" % (p, "+".join(r["violated"])), {"what": "MpmcImpl violates %s" % r["violated"], "tail": r["output"][-1500:]})
        else:
            model["weak_holds_with_closer"].append({"program": p, "states": r["distinct"]})
    # the design-level finding: with a closer the strict object is not refined (shortest counterexample)
    r = mc_impl(ctx, "strict_SRC", "P_SRC", ["LinStrict"], covered, expect_violation=True, fixed=fixed)
    if fixed and r["violated"]:
        ctx.violation("X02|model|P_SRC|LinStrict", {"what": "the patched model does not refine the strict object", "tail": r["output"][-1500:]})
    cex = None
    if "LinStrict" in r["violated"]:
        steps = re.findall(r"^State \d+: <(\w+)\((\d+)\)", r["output"], re.M)
        cex = ["%s(%s)" % s for s in steps]
    model["strict_with_closer"] = {"program": "P_SRC", "violated": r["violated"], "counterexample_actions": cex}
    # no lost wake-up as a liveness property under weak fairness, and progress
    # (the same run checks the invariants: with a closer all but LinStrict, without a closer all)
    for p in (["P_SRCT"] if quick else ["P_SRCT", "P_2S2R"]):
        closer = "close" in PROGRAMS[p][1]
        r = mc_impl(ctx, "live_" + p, p, ([] if closer and not fixed else ["LinStrict"]) + BASE_INV, covered, spec="FairSpec",
                    props=["NoLostWakeup", "Progress"], fixed=fixed, expect_violation=True)
        if re.search(r"Temporal propert(y|ies) .*violated", r["output"]) or r["violated"]:
            ctx.violation("X02|model|%s|%s" % (p, "+".join(r["violated"]) or "liveness"),
                          {"what": "NoLostWakeup / Progress under weak fairness, or an invariant, violated", "tail": r["output"][-2500:]})
        else:
            model["liveness"].append({"program": p, "states": r["distinct"]})
            (model["weak_holds_with_closer"] if closer else model["strict_holds_without_closer"]).append({"program": p, "states": r["distinct"]})
    if not quick:
        # larger programs without the monitors: three senders / three receivers (/ a closer)
        for p in ("P_3S3R", "P_3S2RC"):
            r = mc_impl(ctx, "big_" + p, p, ["AtMostOnceI", "NoInventionI", "NoLostWakeupQ", "ParkedRegistered", "WaitersSane"], covered, workers=6, mon=False, fixed=fixed)
            if r["violated"]:
                ctx.violation("X02|model|%s|%s" % (p, "+".join(r["violated"])), {"what": "MpmcImpl violates %s" % r["violated"], "tail": r["output"][-1500:]})
            else:
                model.setdefault("no_lost_wakeup_larger_programs", []).append({"program": p, "states": r["distinct"]})
        # sensitivity: without `future.as_mut().enable()` the model loses a wake-up (the check must be able to see one)
        r = mc_impl(ctx, "mut_noenable", "P_2S2R", ["NoLostWakeupQ"], covered, enable=False, expect_violation=True)
        if "NoLostWakeupQ" not in r["violated"]:
            raise C.ToolError("sensitivity: the mutant without enable() does not violate NoLostWakeupQ")
        model["mutant_without_enable"] = "NoLostWakeupQ violated (%d states)" % r["distinct"]
        r = mc_impl(ctx, "mut_noenable_live", "P_2S2R", [], covered, enable=False, spec="FairSpec", props=["NoLostWakeup"], expect_violation=True)
        if not re.search(r"Temporal property NoLostWakeup was violated", r["output"]):
            raise C.ToolError("sensitivity: the mutant without enable() does not violate the liveness form of NoLostWakeup")
        model["mutant_without_enable_liveness"] = "NoLostWakeup violated"
    # the proposed patch in the model: the strict object is refined with a closer
    for p in ([] if quick or fixed else ["P_SRCT"]):
        r = mc_impl(ctx, "fixed_" + p, p, ["LinStrict"] + BASE_INV, covered, fixed=True)
        model["patched_model"].append({"program": p, "states": r["distinct"], "violated": r["violated"]})
    never = [a for a in ALL_ACTIONS if covered.get(a, 0) == 0 and a != "Rest" and not (fixed and a in ("SendPush", "RecvLoadClosed"))]
    if never:
        raise C.ToolError("vacuity gate: actions of MpmcImpl never taken in any configuration: %s" % never)

    # ---------------------------------------------------------------- 3. interleavings for the real channel
    scs = export(ctx, "g_SRC", "P_SRC", fixed=fixed)         # every interleaving
    n_all = len(scs)
    if quick:
        scs += export(ctx, "gs_S2R2C", "P_S2R2C", simulate="num=150", fixed=fixed)
    else:
        scs += export(ctx, "g_2S2R", "P_2S2R", fixed=fixed)
        for p, n in (("P_S2R2C", 100), ("P_MISC2", 50), ("P_2S2RC", 50), ("P_SRRC", 50), ("P_3S3RC", 50), ("P_S2RR", 50)):     # x 4 workers
            scs += export(ctx, "gs_" + p, p, simulate="num=%d" % n, fixed=fixed)
    for i, s in enumerate(scs):
        s["id"] = i + 1
    scf, trf = ctx.path("sched.ndjson"), ctx.path("replay.ndjson")
    C.write_ndjson(scf, scs)
    rr = C.run_bin(bindir, "mpmc", ["replay", scf, trf], timeout=1200)
    rep = C.read_ndjson(trf)
    rep_segs = segments(rep)
    if len(rep_segs) != len(scs):
        raise C.ToolError("the harness replayed %d of %d schedules" % (len(rep_segs), len(scs)))
    # step observations (results, wake-ups) against the model's predictions: drift, never a verdict
    obs_mismatch = 0
    for sc, (_, evs) in zip(scs, rep_segs):
        bad = [e for e in evs if e.get("e") == "Obs" and (e["r"] != sc["steps"][e["i"] - 1]["r"] or sorted(e["w"]) != sc["steps"][e["i"] - 1]["w"] or "note" in e)]
        end = [e for e in evs if e.get("e") == "End"][0]
        if bad or end["extra"] or sorted(end["unfinished"]) != sorted(end["blocked"]) or sorted(end["blocked"]) != sorted(sc["v"]["blocked"]):
            obs_mismatch += 1
            sc["obs_mismatch"] = True
            if len(ctx.drift) < 10:
                ctx.drift.append({"what": "step observations of the real channel differ from MpmcGate's prediction", "program": sc["prog_name"],
                                  "first": bad[0] if bad else end, "predicted": sc["steps"][bad[0]["i"] - 1] if bad else sc["v"]})
    # ---------------------------------------------------------------- 4. stress rounds and the race hunt
    stf, huf = ctx.path("stress.ndjson"), ctx.path("hunt.ndjson")
    rs = C.run_bin(bindir, "mpmc", ["stress", stf, ctx.seed, 120 if quick else 1200, 15 if quick else 40], timeout=1500)
    stress_sum = json.loads(rs.stdout.strip().splitlines()[-1])
    rh = C.run_bin(bindir, "mpmc", ["hunt", huf, ctx.seed, 10 ** 7, 4000 if quick else 30000, 1], timeout=600)
    hunt_sum = json.loads(rh.stdout.strip().splitlines()[-1])
    if stress_sum.get("hangs"):
        C.log("mpmc: the stress run ended with a receiver that could not be woken (see the Stall events)")
    parts = [("replay", rep), ("stress", C.read_ndjson(stf)), ("hunt", C.read_ndjson(huf))]
    allrows, origin = [], {}
    for name, rows in parts:
        for i, evs in segments(rows):
            evs = [e for e in evs if e.get("e") not in ("Obs", "End")]       # replay bookkeeping, not judged
            origin[len(allrows) + 1] = (name, evs)
            allrows += evs
    allf = ctx.path("all.ndjson")
    C.write_ndjson(allf, allrows)
    rejected = judge(ctx, allf)
    ctx.traces += len(origin)
    ctx.events += len(allrows)

    # ---------------------------------------------------------------- 5. classification + binding demonstration
    second, want = [], {}
    for idx in sorted(rejected):
        for m in MODES:
            want[len(second) + 1] = ("class", idx, m)
            second += [dict(origin[idx][1][0], mode=m)] + origin[idx][1][1:]
    # binding: corrupt one logged result / drop one operation of accepted real histories -> must be rejected
    ok_idx = [i for i in sorted(origin) if i not in rejected]
    demo = {"corrupt_result": None, "drop_event": None, "synthetic_lost_wakeup": None}
    cands = [i for i in ok_idx if any(e.get("e") == "Ret" and e["res"]["k"] in ("msg", "some") and e["t"] != 0 for e in origin[i][1])]
    rnd.shuffle(cands)
    for i in cands[:3]:
        evs = [dict(e) for e in origin[i][1]]
        k = [j for j, e in enumerate(evs) if e.get("e") == "Ret" and e["res"]["k"] in ("msg", "some") and e["t"] != 0][0]
        evs[k] = dict(evs[k], res={"k": evs[k]["res"]["k"], "m": evs[k]["res"]["m"] + 7})
        want[len(second) + 1] = ("demo", "corrupt_result", i)
        second += evs
    cands2 = [i for i in ok_idx if any(e.get("e") == "Ret" and e["res"]["k"] == "ok" for e in origin[i][1])
              and any(e.get("e") == "Ret" and e["res"]["k"] in ("msg", "some") for e in origin[i][1])]
    rnd.shuffle(cands2)
    for i in cands2[:3]:
        evs = origin[i][1]
        got = [e["res"]["m"] for e in evs if e.get("e") == "Ret" and e["res"]["k"] in ("msg", "some")]
        t_send = [e["t"] for e in evs if e.get("e") == "Call" and e["op"] == "send" and e["m"] == got[0]][0]
        out, skip = [], 0
        for e in evs:                     # drop the Call and the Ret of the send whose message was handed out
            if e.get("e") == "Call" and e["op"] == "send" and e["m"] == got[0]:
                skip = 1
                continue
            if skip and e.get("e") == "Ret" and e["t"] == t_send:
                skip = 0
                continue
            out.append(e)
        want[len(second) + 1] = ("demo", "drop_event", i)
        second += out
    synth = [{"e": "Reset", "seg": 0}, {"e": "Call", "t": 1, "op": "send", "m": 1, "set": []}, {"e": "Ret", "t": 1, "res": {"k": "ok", "m": 0}},
             {"e": "Call", "t": 2, "op": "recv", "m": 0, "set": []}, {"e": "Stall", "blocked": [2]},
             {"e": "Call", "t": 0, "op": "close", "m": 0, "set": []}, {"e": "Ret", "t": 0, "res": {"k": "unit", "m": 0}}, {"e": "Ret", "t": 2, "res": {"k": "msg", "m": 1}}]
    for m in ("strict", "nostall"):
        want[len(second) + 1] = ("synth", m, 0)
        second += [dict(synth[0], mode=m)] + synth[1:]
    secf = ctx.path("second.ndjson")
    C.write_ndjson(secf, second)
    rej2 = judge(ctx, secf)
    klass = {}
    for pos, (kind, a, b) in want.items():
        if kind == "class" and pos not in rej2 and a not in klass:
            klass[a] = b                  # MODES is ordered from the narrowest reading to the widest
        elif kind == "demo":
            demo[a] = (demo[a] or 0) + (1 if pos in rej2 else 0)
            if pos not in rej2:
                raise C.ToolError("binding demonstration: the %s of segment %d was ACCEPTED by Trace_Mpmc" % (a, b))
        elif kind == "synth":
            if (a == "strict") != (pos in rej2):
                raise C.ToolError("judge sensitivity: the synthetic lost-wakeup history was %s under mode %s" % ("rejected" if pos in rej2 else "accepted", a))
            demo["synthetic_lost_wakeup"] = "rejected (strict), explained only when Stall events are ignored"
    if not demo["corrupt_result"] or not demo["drop_event"]:
        raise C.ToolError("binding demonstration: no accepted history with a delivered message to corrupt")

    # ---------------------------------------------------------------- 6. verdicts
    agree = {"lin_both": 0, "nonlin_both": 0}
    drift = 0
    by_class = {}
    pos = 0
    for idx in sorted(origin):
        name, evs = origin[idx]
        rej = idx in rejected
        cls = CLASS_SIG[klass.get(idx)] if rej else None
        if rej:
            by_class.setdefault(name, {}).setdefault(cls, 0)
            by_class[name][cls] += 1
        if name == "replay":
            sc = scs[pos]
            pos += 1
            if sc["v"]["lin"] and not rej:
                agree["lin_both"] += 1
            elif not sc["v"]["lin"] and rej:
                agree["nonlin_both"] += 1
                ctx.violation("X02|%s" % cls, {"program": sc["prog_name"], "interleaving": ["%d:%s->%s" % (s["p"], s["k"], s["r"]["k"]) for s in sc["steps"]],
                                               "history": brief(evs)}, replay_src={"schedule": sc})
            elif sc["v"]["lin"] and rej:
                ctx.violation("X02|%s|unpredicted|%s" % (cls, sc["prog_name"]), {"interleaving": sc["steps"], "history": brief(evs)}, replay_src={"schedule": sc})
            else:
                drift += 1
                if len(ctx.drift) < 20:
                    ctx.drift.append({"what": "MpmcGate predicts a non-linearisable history, the real channel's history is linearisable "
                                              "(is findings/mpmc-close-race.diff applied? then the model constant Fixed should be TRUE)",
                                      "program": sc["prog_name"], "steps": ["%d:%s" % (s["p"], s["k"]) for s in sc["steps"]]})
        elif rej:
            if cls.startswith("close-race"):
                ctx.violation("X02|%s" % cls, {"from": name, "history": brief(evs)}, replay_src={"events": evs})
            else:
                ctx.violation("X02|%s|%s|%s" % (cls, name, shape(evs)), {"from": name, "history": brief(evs)}, replay_src={"events": evs})
    if drift or obs_mismatch:
        C.log("MODEL-DRIFT: %d interleaving(s) with a verdict other than the model's, %d with different step observations" % (drift, obs_mismatch))
    n_pred = sum(1 for s in scs if not s["v"]["lin"])
    ctx.extra.update({
        "distinct_nontrivial": len(scs) + stress_sum["segments"] + hunt_sum["segments"],
        "rule": "every interleaving (at the granularity the public API allows: whole calls, single polls, a sender stopped at the queue lock) of "
                "send | recv,recv | close (%d), seeded -simulate samples of larger programs%s, each replayed on the real Channel with predicted results "
                "and wake-ups; %d stress rounds of 2..6 threads with a quiescence watchdog; a hunt for recv racing send;close; every recorded history judged by TLC"
                % (n_all, "" if quick else " and every interleaving of two senders / two receivers", stress_sum["rounds"]),
        "model": model, "model_constant_Fixed": fixed, "action_coverage": covered,
        "replay": {"interleavings": len(scs), "predicted_non_linearisable": n_pred, "agreement": agree, "verdict_drift": drift,
                   "observation_mismatches": obs_mismatch, "harness": json.loads(rr.stdout.strip().splitlines()[-1])},
        "stress": stress_sum, "hunt": hunt_sum, "rejected_by_class": by_class, "binding_demo": demo,
    })
    for sc in [s for s in scs if not s["v"]["lin"]][:2]:
        ctx.sample({"program": sc["prog_name"], "interleaving": ["%d:%s->%s%s" % (s["p"], s["k"], s["r"]["k"], s["w"] or "") for s in sc["steps"]], "model": sc["v"]})
    for idx in sorted(rejected):
        if origin[idx][0] == "hunt":
            ctx.sample({"from": "hunt", "class": CLASS_SIG[klass.get(idx)], "history": brief(origin[idx][1])})
            break
    for idx in ok_idx[:1]:
        ctx.sample({"from": origin[idx][0], "accepted": brief(origin[idx][1])})
    ctx.assumptions += [
        "each tokio Notify API call (notified, enable/poll, notify_one, notify_waiters, drop) is one atomic step (tokio serialises them by its waiter mutex and CAS loops); notify_waiters' batching of more than 32 wakers is not modelled",
        "sequential consistency per location (the code uses Acquire/Release on `closed` and a mutex for the queue)",
        "messages are distinct (u32 values sent once per channel); T's Drop/Clone never run inside the channel",
        "replay cannot stop a thread between try_recv() and closed.load() inside recv(): that window is reached only by the hunt (probabilistic); the gate (lock_channel) splits send() only between closed.load() and push_back()",
    ]


PROPS = {"X02": run}
