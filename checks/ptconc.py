"""C09: concurrent lookups and forgets never lose a reference or duplicate an inode (engine: ptconc).

1. TLC model-checks the PlusCal step model spec/PtLookupForget.tla (one label = the code between
   two yield points of do_lookup / forget / batch_forget / readdirplus) against the abstract count
   of spec/PtConc.tla for every interleaving of 2-5 threads (configs spec/MC_PtLF_*.cfg), plus a
   mutation self-test (SkipZeroRetry must violate Refines).
2. TLC exports ALL interleavings of the small shapes (random walks for the big ones); the harness
   (harness/src/bin/ptconc.rs) replays every one of them on real threads of a real PassthroughFs
   through the verif_hooks yield points and logs Call/Ret/Probe events.
3. TLC judges every recorded history with spec/Trace_PtConc.tla: linearisable against the
   sequential Refs object, quiescent probes equal to the count of the chosen order.
A free-running stress mode (no scheduler, random delays at the yield points) is judged the same way.
Model drift (label reached != label predicted) is evidence, never a violation."""
import concurrent.futures as cf
import itertools
import json
import math
import os
import random
import re
import shutil
import time

from . import common as C

LEVEL = {"C09": "model_checking"}

R_ACTIONS = ("R_lock", "R_load", "R_cas", "R_rm")
F_ACTIONS = ("F_wlock", "F_locked", "F_load", "F_cas", "F_rm")
YIELD_LABELS = ["L_probe", "L_load", "L_cas", "L_wlock", "L_locked", "F_wlock", "F_locked", "F_load", "F_cas", "F_rm"]

# shape -> (has forget thread, has readdirplus-not-delivered thread)
SHAPES = {
    "1L1F": (True, False), "2L1F": (True, False), "1L2F": (True, False), "3L": (False, False),
    "1LF2": (True, False), "1LBF": (True, False), "2L2F": (True, False), "3L2F": (True, False), "LF2": (True, False),
    "LBF": (True, False), "RF": (True, True), "RLF": (True, True), "RRF": (True, True),
}
MC_QUICK = ["2L1F", "1L2F", "3L", "RF"]
MC_THOROUGH = MC_QUICK + ["1L1F", "1LF2", "1LBF", "LF2", "LBF", "RLF", "RRF", "2L2F", "3L2F"]
# export configs: (cfg suffix, shape, mode, file-handle variants)
X_QUICK = [("1L1F_x", "1L1F", "all", (False,)), ("1LF2_x", "1LF2", "all", (False,)), ("1LBF_x", "1LBF", "all", (False,)),
           ("1L2F_x", "1L2F", "all", (False,)), ("RF_x", "RF", "all", (False,)),
           ("3L0_x", "3L", "all", (False,)), ("2L1F01_x", "2L1F", "all", (False,))]
X_THOROUGH = [("3L2F_sim", "3L2F", "sim", (False,)), ("2L2F_sim", "2L2F", "sim", (False,)),      # biggest first
              ("3L01_x", "3L", "all", (False,)), ("RLF_x", "RLF", "all", (False,)), ("LBF2_x", "LBF", "all", (False,)),
              ("LF2_x", "LF2", "all", (False,)), ("2L1F_x", "2L1F", "all", (False,)), ("2L1F01_x", "2L1F", "all", (True,)),
              ("1L2F_x", "1L2F", "all", (False, True)), ("1LBF_x", "1LBF", "all", (False, True)), ("1LF2_x", "1LF2", "all", (False, True)),
              ("1L1F_x", "1L1F", "all", (False, True)), ("RF_x", "RF", "all", (False, True))]
QUICK_CAP = 16000          # schedules replayed per config in the quick tier (all of them below the cap)
SIM_WALKS = 12000          # random walks per sim config (split over the TLC workers)
SHARD = 2000               # schedules per harness process
BATCH = 30000              # events per TLC judge run (small trace files are concatenated)
PAR = 8                    # harness processes / single-worker TLC judges in parallel
# model-checking / export runs in parallel x TLC workers each (at most 8 TLC workers at a time)
PAR_TLC = {"quick": (8, 1), "thorough": (4, 2)}


# ------------------------------------------------------------------------------------------------
# TLC helpers (own metadirs so that they can run concurrently)

_ctr = itertools.count(1)


def _meta(ctx, tag):
    return ctx.path("tlc_%s_%d" % (tag, next(_ctr)))


def mc(ctx, shape):
    forget, nofit = SHAPES[shape]
    ign = () if nofit else R_ACTIONS
    if not forget:
        ign = tuple(ign) + F_ACTIONS
    r = C.tlc_mc(ctx, "MC_PtLF", cfg="MC_PtLF_%s.cfg" % shape, workers=PAR_TLC[ctx.tier][1],
                 ignore_uncovered=ign, timeout=900, xmx="6g")
    return shape, r


def export(ctx, cfg, mode):
    """Run an export config; returns (threads, [schedule dict]) parsed from the OPS / SCHED lines."""
    args = ["-workers", str(PAR_TLC[ctx.tier][1]), "-metadir", _meta(ctx, "x" + cfg), "-noGenerateSpecTE", "-config", "MC_PtLF_%s.cfg" % cfg]
    if mode == "sim":
        args += ["-simulate", "num=%d" % ((SIM_WALKS if not ctx.quick else 500) // PAR_TLC[ctx.tier][1]), "-depth", "300", "-seed", str(ctx.seed)]
    args += ["MC_PtLF.tla"]
    t = time.time()
    r = C._java(args, C.SPEC, None, 1500, xmx="8g", xss="512m")
    out = r.stdout
    if "is violated" in out:
        return None, None, out
    ops, scheds, seen = None, [], set()
    for line in out.splitlines():
        if line.startswith('"OPS '):
            ops = json.loads(json.loads(line)[4:])
        elif line.startswith('"SCHED '):
            try:
                body = json.loads(line)[6:]
                s = json.loads(body)
            except ValueError:
                raise C.ToolError("unparsable SCHED line from TLC (%s): %s" % (cfg, line[:200]))
            if body not in seen:
                seen.add(body)
                scheds.append(s)
    if ops is None or not scheds:
        C.log(out[-3000:])
        raise C.ToolError("TLC export %s produced no schedules" % cfg)
    m = C._RE_STATES.findall(out)
    info = {"cfg": cfg, "mode": mode, "schedules": len(scheds), "wall_s": round(time.time() - t, 1),
            "tree_states": int(m[-1][1]) if m else 0}
    return ops, scheds, info


def judge_file(ctx, path, diag=False):
    """One TLC run of Trace_PtConc on `path`: every segment is judged independently.
    Returns ([(reset index, furthest index)] of the rejected segments (1-based; furthest index only with
    diag=True), distinct states, output)."""
    args = ["-workers", "1", "-metadir", _meta(ctx, "j"), "-noGenerateSpecTE", "-config",
            "Trace_PtConc_diag.cfg" if diag else "Trace_PtConc.cfg", "Trace_PtConc.tla"]
    r = C._java(args, C.SPEC, {"TRACE": path}, 3000, xmx="3g", xss="1g", deque=True)
    out = r.stdout
    m = re.search(r'<<\s*"REJECTED",(.*?)>>\s*\n(?:Model checking|Finished|\s*$)', out, re.S)
    if not re.search(r'<<\s*"CONSUMED"', out) or not m or "Error:" in out:
        C.log(out[-4000:])
        raise C.ToolError("Trace_PtConc did not consume %s" % path)
    rej = [(int(a), int(b)) for a, b in re.findall(r"<<\s*(\d+),\s*(\d+)\s*>>", m.group(1))]
    st = C._RE_STATES.findall(out)
    return sorted(rej), (int(st[-1][1]) if st else 0), out


def segments(rows):
    """[(start, end)] row index ranges (0-based, end exclusive), one per Reset."""
    starts = [i for i, r in enumerate(rows) if r.get("e") == "Reset"]
    return [(s, (starts[k + 1] if k + 1 < len(starts) else len(rows))) for k, s in enumerate(starts)]


def judge(ctx, path):
    """Judge all segments of a trace file (one defect does not hide the rest: TLC passes over a rejected
    segment). Returns {"segments", "events", "states", "rejected": [{"rows", "stuck": first event no
    explanation reaches, "reset"}]}."""
    rows = C.read_ndjson(path)
    rej, states, _ = judge_file(ctx, path)
    segs = segments(rows)
    end_of = {a: b for a, b in segs}
    res = {"segments": len(segs), "events": len(rows), "states": states, "rejected": [], "unjudged": 0}
    if not rej:
        return res
    # diagnosis pass on the rejected segments only: the first event that no explanation reaches
    bad = []
    per_cfg, chosen = {}, []
    for n, (start, _) in enumerate(rej):
        tag = rows[start - 1].get("cfg")
        if per_cfg.get(tag, 0) < 12:                    # diagnose up to 12 rejected segments per configuration
            per_cfg[tag] = per_cfg.get(tag, 0) + 1
            chosen.append(n)
            bad += rows[start - 1:end_of[start - 1]]
    dp = path + ".rejected"
    C.write_ndjson(dp, bad)
    drej, _, _ = judge_file(ctx, dp, diag=True)
    dsegs = segments(bad)
    dend = {a: b for a, b in dsegs}
    far_of = {}
    for start, far in drej:
        far_of[chosen[[a for a, _ in dsegs].index(start - 1)]] = (start - 1, far)
    if len(drej) != len(dsegs):
        raise C.ToolError("judge diagnosis pass disagrees with the first pass on %s" % path)
    for n, (start, _) in enumerate(rej):
        a = start - 1
        seg_rows = rows[a:end_of[a]]
        if n in far_of:
            da, far = far_of[n]
            stuck = bad[far - 1] if far - 1 < dend[da] else {"e": "EndOfSegment"}
        else:
            stuck = {"e": "undiagnosed"}
        res["rejected"].append({"rows": seg_rows, "stuck": stuck, "reset": rows[a]})
    return res


# ------------------------------------------------------------------------------------------------

def stuck_summary(ev):
    e = ev.get("e", "?")
    if e == "Probe":
        return "Probe.%s" % ev.get("kind")
    if e == "Ret":
        return "Ret.%s.%s" % (ev.get("op"), ev.get("kind"))
    return e


def report_rejects(ctx, what, header, scheds_by_sid, rej, mode):
    for r in rej:
        reset = r["reset"]
        sid = reset.get("sid")
        sig = "C09|%s|%s|%s" % (mode, what, stuck_summary(r["stuck"]))
        scen = {"mode": mode, "header": header, "sid": sid, "r0": reset.get("r0"),
                "schedule": scheds_by_sid.get(sid) if scheds_by_sid else None, "stuck_at": r["stuck"], "history": r["rows"]}
        ctx.violation(sig, {"config": what, "r0": reset.get("r0"), "sid": sid, "not_explained": r["stuck"],
                            "history": [x for x in r["rows"] if x.get("e") != "Reset"][:40]}, replay_src=scen)


def write_schedules(ctx, tag, header, scheds):
    sf = ctx.path("sched_%s.ndjson" % tag)
    with open(sf, "w") as f:
        f.write(json.dumps(header) + "\n")
        for s in scheds:
            f.write(json.dumps(s, separators=(",", ":")) + "\n")
    return sf, max(1, min(16, math.ceil(len(scheds) / SHARD)))


def replay_shard(ctx, bindir, tag, sf, sh, nsh):
    """One harness process: replay the schedules of shard sh on the real code."""
    wd = ctx.path("fs")
    os.makedirs(wd, exist_ok=True)
    out = ctx.path("trace_%s_%d.ndjson" % (tag, sh))
    r = C.run_bin(bindir, "ptconc", ["sched", sf, wd, out, sh, nsh], env={"VERIF_SEED": ctx.seed}, timeout=3000, ok_codes=(0, 3))
    summ = json.loads(r.stdout.strip().splitlines()[-1])
    drift = []
    sp = out + ".sched"
    if os.path.exists(sp):
        for row in C.read_ndjson(sp):
            if row.get("label_mismatch") or row.get("skipped") or row.get("leftover") or row.get("hang"):
                drift.append({k: row.get(k) for k in ("sid", "r0", "label_mismatch", "skipped", "leftover", "watchdog", "predicted", "followed")})
    with open(out) as f:
        nev = sum(1 for _ in f)
    return tag, summ, out, nev, drift


def batches(files):
    """Pack trace files [(path, events)] into judge batches of at most BATCH events (big files alone)."""
    out, cur, n = [], [], 0
    for p, ev in sorted(files, key=lambda x: -x[1]):
        if cur and n + ev > BATCH:
            out.append(cur)
            cur, n = [], 0
        cur.append(p)
        n += ev
    if cur:
        out.append(cur)
    return out


def judge_batch(ctx, k, paths):
    if len(paths) == 1:
        return judge(ctx, paths[0])
    p = ctx.path("batch_%d.ndjson" % k)
    with open(p, "wb") as o:
        for q in paths:
            with open(q, "rb") as f:
                shutil.copyfileobj(f, o)
    return judge(ctx, p)


def harness_bindir():
    """The harness built from /repo's working tree. PTCONC_BINDIR (development only) points the check at a
    harness built elsewhere, e.g. against a mutated scratch copy of /repo when validating detection power."""
    d = os.environ.get("PTCONC_BINDIR")
    if d:
        C.log("NOTE: using harness binaries from %s (PTCONC_BINDIR)" % d)
        return d
    return C.build_harness(bins=["ptconc"])


def run_c09(ctx):
    if getattr(ctx, "replay", None):
        return run_replay(ctx)
    bindir = harness_bindir()
    rnd = random.Random(ctx.seed)
    mc_shapes = MC_QUICK if ctx.quick else MC_THOROUGH
    xs = X_QUICK if ctx.quick else X_THOROUGH
    ex = cf.ThreadPoolExecutor(max_workers=PAR)
    ex_tlc = cf.ThreadPoolExecutor(max_workers=PAR_TLC[ctx.tier][0])

    # --- 1. model checking of the step model (I => A within the bounds) + mutation self-test
    fut_x = {x[0]: ex_tlc.submit(export, ctx, x[0], x[2]) for x in xs}
    fut_mc = [ex_tlc.submit(mc, ctx, s) for s in mc_shapes]
    fut_mut = ex_tlc.submit(lambda: C.tlc_mc(ctx, "MC_PtLF", cfg="MC_PtLF_mut_zero.cfg", workers=PAR_TLC[ctx.tier][1], timeout=600, xmx="4g",
                                         expect_violation=True, must_cover=False))

    mc_rows = []
    t0 = time.time()
    for f in fut_mc:
        shape, r = f.result()
        mc_rows.append({"shape": shape, "distinct": r["distinct"], "generated": r["generated"], "wall_s": r["wall_s"], "violated": r["violated"]})
        if r["violated"]:
            # design-level counterexample of I => A: reported with TLC's trace
            tail = r["output"][r["output"].find("Error: Invariant"):][:6000]
            for inv in r["violated"]:
                ctx.violation("C09|model|%s|%s" % (shape, inv), {"tlc_counterexample": tail}, replay_src={"mode": "model", "shape": shape, "invariant": inv, "trace": tail})
    rm = fut_mut.result()
    if "Refines" not in rm["violated"]:
        raise C.ToolError("mutation self-test failed: SkipZeroRetry = TRUE does not violate Refines (vacuous model?)")
    C.log("model checking done (%.0fs)" % (time.time() - t0))
    mutation = {"mutant": "SkipZeroRetry (CAS on a count read as 0)", "violated": rm["violated"], "distinct_states": rm["distinct"]}

    # --- 2. export interleavings and replay them on the real code (one harness process per shard)
    jobs = []
    exports = []
    sched_index = {}
    for cfg, shape, mode, fhs in xs:
        ops, scheds, info = fut_x[cfg].result()
        if ops is None:
            tail = info[info.find("Error: Invariant"):][:6000]
            ctx.violation("C09|model|%s|export-invariant" % cfg, {"tlc_counterexample": tail}, replay_src={"mode": "model", "cfg": cfg, "trace": tail})
            continue
        total = len(scheds)
        if ctx.quick and total > QUICK_CAP:
            scheds = rnd.sample(scheds, QUICK_CAP)
        info["replayed"] = len(scheds)
        info["all_interleavings"] = (mode == "all" and len(scheds) == total)
        exports.append(info)
        for fh in fhs:
            tag = "%s_%s" % (cfg, "fh" if fh else "fd")
            header = {"cfg": tag, "threads": ops, "fh": fh}
            sched_index[tag] = (header, scheds)
            sf, nsh = write_schedules(ctx, tag, header, scheds)
            for sh in range(nsh):
                jobs.append(ex.submit(replay_shard, ctx, bindir, tag, sf, sh, nsh))

    # stress (free running, random delays at the yield points)
    def stress(i, iters):
        out = ctx.path("stress_%d.ndjson" % i)
        wd = ctx.path("fs")
        os.makedirs(wd, exist_ok=True)
        r = C.run_bin(bindir, "ptconc", ["stress", wd, out, iters], env={"VERIF_SEED": ctx.seed * 1000 + i, "PTCONC_PERTURB": 1},
                      timeout=3000, ok_codes=(0, 3))
        with open(out) as f:
            nev = sum(1 for _ in f)
        return json.loads(r.stdout.strip().splitlines()[-1]), out, nev
    n_stress, it_stress = (1, 600) if ctx.quick else (8, 2000)
    fut_s = [ex.submit(stress, i, it_stress) for i in range(n_stress)]
    C.log("exports done, %d replay shards + %d stress runs queued (%.0fs)" % (len(jobs), n_stress, time.time() - t0))

    per_cfg = {}
    labels = {}
    windows = {}
    files = []
    for f in jobs:
        tag, summ, out, nev, drift = f.result()
        d = per_cfg.setdefault(tag, {"schedules": 0, "events": 0, "drift_schedules": 0, "drift_steps": 0, "label_mismatch": 0,
                                     "blocked_detected": 0, "watchdog_timeouts": 0, "hangs": 0, "rejected": 0, "wall_ms": 0})
        d["schedules"] += summ.get("schedules", 0)
        d["events"] += nev
        for k_, s_ in (("drift_schedules", "drift_schedules"), ("drift_steps", "drift_steps"), ("label_mismatch", "label_mismatch"),
                       ("blocked_detected", "watchdog"), ("watchdog_timeouts", "watchdog_timeouts"), ("hangs", "hangs")):
            d[k_] += summ.get(s_, 0)
        d["wall_ms"] = max(d["wall_ms"], summ.get("wall_ms", 0))
        for k_, v_ in summ.get("labels", {}).items():
            labels[k_] = labels.get(k_, 0) + v_
        for k_, v_ in summ.get("windows", {}).items():
            windows[k_] = windows.get(k_, 0) + v_
        files.append((out, nev))
        for x in drift[:3]:
            if len(ctx.drift) < 12:
                ctx.drift.append(dict(x, config=tag))
    stress_stats = {"runs": 0, "iterations": 0, "ops": 0, "events": 0, "hangs": 0, "rejected": 0}
    for f in fut_s:
        summ, out, nev = f.result()
        stress_stats["runs"] += 1
        stress_stats["iterations"] += summ["iterations"]
        stress_stats["ops"] += summ["ops"]
        stress_stats["events"] += nev
        stress_stats["hangs"] += summ.get("hangs", 0)
        files.append((out, nev))
    C.log("replay on the real code done: %d schedules, %d stress iterations (%.0fs)" % (
        sum(d["schedules"] for d in per_cfg.values()), stress_stats["iterations"], time.time() - t0))

    # --- 3. TLC judges every recorded history (segments are independent: files are batched)
    bs = batches(files)
    first_rows = None
    judge_states = 0
    futs = [ex.submit(judge_batch, ctx, k, paths) for k, paths in enumerate(bs)]
    for (k, paths), f in zip(enumerate(bs), futs):
        j = f.result()
        ctx.traces += j["segments"]
        ctx.events += j["events"]
        ctx.states += j["states"]
        ctx.transitions += j["states"]
        judge_states += j["states"]
        if j["unjudged"]:
            C.log("note: %d segments of judge batch %d left unjudged after %d rejections" % (j["unjudged"], k, len(j["rejected"])))
        for r in j["rejected"]:
            tag = r["reset"].get("cfg")
            if tag == "stress":
                stress_stats["rejected"] += 1
                report_rejects(ctx, "stress", {"seed": r["reset"].get("seed"), "iterations": it_stress}, None, [r], "stress")
            else:
                per_cfg[tag]["rejected"] += 1
                header, scheds = sched_index[tag]
                report_rejects(ctx, tag, header, {r["reset"].get("sid"): scheds[r["reset"].get("sid")]}, [r], "sched")
        if not j["rejected"] and first_rows is None and len(paths) == 1 and not paths[0].endswith("stress_0.ndjson"):
            first_rows = C.read_ndjson(paths[0])[:400]
    if first_rows is None:
        for k, paths in enumerate(bs):
            if not futs[k].result()["rejected"]:
                first_rows = C.read_ndjson(paths[0])[:400]
                break
    C.log("judging done: %d batches (%.0fs)" % (len(bs), time.time() - t0))

    # --- coverage gate: every yield point and every racing window was really reached in the replay
    # (when violations were found they are the result; a code change that removes a window is then expected)
    missing = [l for l in YIELD_LABELS if labels.get(l, 0) == 0]
    need_w = ["zero_retry", "lookup_cas_fail", "forget_cas_retry"]
    miss_w = [w for w in need_w if windows.get(w, 0) == 0]
    if missing or miss_w:
        msg = "coverage gate: yield points never reached in the replay: %s; racing windows never hit: %s" % (missing, miss_w)
        if not ctx.violations and not ctx.known_hit:
            raise C.ToolError(msg)
        C.log("note: " + msg)

    # --- binding demonstration
    if first_rows is None and ctx.violations:
        demo = ["skipped: no fully accepted trace to corrupt (violations reported instead)"]
    else:
        demo = binding_demo(ctx, first_rows)
    C.log("stress + binding demo done (%.0fs)" % (time.time() - t0))

    total_sched = sum(d["schedules"] for d in per_cfg.values())
    drift_total = sum(d["drift_schedules"] for d in per_cfg.values())
    if drift_total:
        C.log("MODEL-DRIFT: %d of %d schedules could not be followed label by label (thread order followed instead)" % (drift_total, total_sched))
    ctx.extra.update({
        "distinct_nontrivial": total_sched,
        "rule": "one schedule = one maximal interleaving (sequence of <thread, label> steps) of the PlusCal model for one initial count; "
                "'all' configs replay every interleaving TLC enumerates, 'sim' configs a seeded set of distinct random walks",
        "model_checking": mc_rows,
        "mutation_selftest": mutation,
        "exports": exports,
        "replay": per_cfg,
        "judge_states": judge_states,
        "schedules_replayed_on_real_code": total_sched,
        "model_drift_schedules": drift_total,
        "yield_points_reached": labels,
        "racing_windows_hit": windows,
        "stress": stress_stats,
        "binding_demo": demo,
        "exhaustive": all(e["all_interleavings"] for e in exports if e["mode"] == "all"),
    })
    if first_rows:
        seg = segments(first_rows)[min(5, len(segments(first_rows)) - 1)]
        ctx.sample({"history": first_rows[seg[0]:seg[1]]})
    ctx.assumptions += [
        "interleavings are at the granularity of the verif_hooks yield points (lock acquisitions and atomic operations of do_lookup / forget_one); "
        "code between two yield points is treated as one step (sequentially consistent atomics)",
        "one file with three names (a, b, d/c); default configuration (inode numbers allocated by the filesystem) and inode_file_handles in the thorough tier",
        "Call is logged before the operation is invoked and Ret after it returned (tightest intervals the harness can observe)",
    ]


def binding_demo(ctx, rows):
    if not rows:
        raise C.ToolError("binding demo: no accepted trace available")
    segs = segments(rows)[:12]
    base = rows[segs[0][0]:segs[-1][1]]
    demos = []

    def run(name, mutate, want_seg):
        bad = [json.loads(json.dumps(r)) for r in base]
        bad = mutate(bad)
        p = ctx.path("corrupt_%s.ndjson" % re.sub(r"[^A-Za-z0-9]+", "_", name))
        C.write_ndjson(p, bad)
        rej, _, _ = judge_file(ctx, p, diag=True)
        if len(rej) != 1:
            raise C.ToolError("binding demo failed: corrupted trace: %d segments rejected, expected exactly the corrupted one (%s)" % (len(rej), name))
        start, far = rej[0]
        demos.append({"corruption": name, "rejected_segment_at_event": start, "first_unexplained_event": far,
                      "event": stuck_summary(bad[far - 1]) if far - 1 < len(bad) else "EOF"})

    def seg_rows(bad, k):
        # rows of segment k and the following ones (the first matching event is corrupted)
        sg = segments(bad)
        return range(sg[min(k, len(sg) - 1)][0], len(bad))

    def m_ret(bad):
        for i in seg_rows(bad, 3):
            if bad[i]["e"] == "Ret" and bad[i]["op"] in ("lookup", "rdp") and bad[i]["t"] != 0:
                bad[i]["val"] = str(int(bad[i]["val"]) + 1)
                return bad
        raise C.ToolError("binding demo: no lookup Ret to corrupt")

    def m_probe(bad):
        for i in seg_rows(bad, 5):
            if bad[i]["e"] == "Probe" and bad[i]["kind"] == "refcount":
                bad[i]["count"] += 1
                return bad
        raise C.ToolError("binding demo: no Probe to corrupt")

    def m_drain(bad):
        for i in seg_rows(bad, 7):
            if bad[i]["e"] == "Probe" and bad[i]["kind"] == "drain":
                bad[i]["n"] += 1
                return bad
        raise C.ToolError("binding demo: no drain Probe to corrupt")

    def m_drop(bad):
        for i in seg_rows(bad, 2):
            if bad[i]["e"] == "Ret" and bad[i]["t"] != 0:
                return bad[:i] + bad[i + 1:]
        raise C.ToolError("binding demo: no Ret to drop")

    def m_order(bad):
        # move a forget's Call after everything else returned: a history in which the forget started after the
        # lookups finished but the count says it was applied is still fine; instead drop the probes of a segment
        s = segments(bad)[4]
        return [r for i, r in enumerate(bad) if not (s[0] <= i < s[1] and r["e"] == "Probe")]

    with cf.ThreadPoolExecutor(max_workers=5) as ex:
        muts = [("lookup Ret value + 1", m_ret), ("Probe refcount + 1", m_probe), ("drop one Ret event", m_drop)]
        if not ctx.quick:
            muts += [("Probe drain + 1", m_drain), ("drop the probes of one segment", m_order)]
        fs = [ex.submit(run, n, m, 0) for n, m in muts]
        for f in fs:
            f.result()
    return demos


def run_replay(ctx):
    """./check C09 --replay FILE: re-execute the recorded schedule (or stress seed) and judge it again."""
    with open(ctx.replay) as f:
        rp = json.load(f)
    scen = rp.get("scenario") or rp
    bindir = harness_bindir()
    wd = ctx.path("fs")
    os.makedirs(wd, exist_ok=True)
    if scen.get("mode") == "sched" and scen.get("schedule"):
        sf = ctx.path("replay_sched.ndjson")
        with open(sf, "w") as f:
            f.write(json.dumps(scen["header"]) + "\n")
            for _ in range(50):
                f.write(json.dumps(scen["schedule"]) + "\n")
        out = ctx.path("replay_trace.ndjson")
        C.run_bin(bindir, "ptconc", ["sched", sf, wd, out], timeout=600, ok_codes=(0, 3))
        j = judge(ctx, out)
        ctx.traces += j["segments"]
        ctx.events += j["events"]
        report_rejects(ctx, scen["header"].get("cfg", "?"), scen["header"], {i: scen["schedule"] for i in range(50)}, j["rejected"], "sched")
    elif scen.get("mode") == "stress":
        out = ctx.path("replay_stress.ndjson")
        C.run_bin(bindir, "ptconc", ["stress", wd, out, scen["header"]["iterations"]], env={"VERIF_SEED": scen["header"]["seed"], "PTCONC_PERTURB": 1}, timeout=3000, ok_codes=(0, 3))
        j = judge(ctx, out)
        ctx.traces += j["segments"]
        ctx.events += j["events"]
        report_rejects(ctx, "stress", scen["header"], None, j["rejected"], "stress")
    else:
        # recorded history only (model-level counterexample or no schedule): judge the recorded rows
        rows = scen.get("history")
        if not rows:
            raise C.ToolError("replay file has neither a schedule nor a history")
        p = ctx.path("replay_hist.ndjson")
        C.write_ndjson(p, rows)
        j = judge(ctx, p)
        report_rejects(ctx, "recorded", {}, None, j["rejected"], "recorded")
    ctx.extra["replayed"] = ctx.replay


PROPS = {"C09": run_c09}
