#!/usr/bin/env python3
"""confirm_seed.py <seed-dir> [<test-name>]   seed-dir holds patch.diff and demo.rs (an integration test)

Confirms a seeded change independently in a scratch worktree of /repo: (1) the demonstration passes on
HEAD, (2) fails with the patch, (3) the library builds with all features and its pinned test suite still
passes with the patch. Prints CONFIRMED or the step that failed. Uses /scratch/seedtarget as target dir."""
import json
import os
import shutil
import subprocess
import sys


def sh(cmd, cwd, env=None, timeout=3600):
    r = subprocess.run(cmd, cwd=cwd, env=env, stdout=subprocess.PIPE, stderr=subprocess.STDOUT, text=True, timeout=timeout)
    return r.returncode, r.stdout


def main():
    d = os.path.abspath(sys.argv[1])
    name = sys.argv[2] if len(sys.argv) > 2 else "seed_demo"
    wt = "/scratch/confirm-" + os.path.basename(os.path.dirname(d) if os.path.basename(d).isdigit() else d) + "-" + os.path.basename(d)
    subprocess.run(["git", "-C", "/repo", "worktree", "remove", "--force", wt], stdout=subprocess.DEVNULL, stderr=subprocess.DEVNULL)
    shutil.rmtree(wt, ignore_errors=True)
    subprocess.run(["git", "-C", "/repo", "worktree", "add", "--detach", "-f", wt, "HEAD"], check=True, stdout=subprocess.DEVNULL, stderr=subprocess.DEVNULL)
    # one of four target directories (the first whose lock is free), so that confirmations can run in parallel
    import fcntl
    import time
    os.makedirs("/scratch", exist_ok=True)
    slot, held = 0, None
    while held is None:
        for slot in range(4):
            fh = open("/scratch/seedtarget-%d.lock" % slot, "w")
            try:
                fcntl.flock(fh, fcntl.LOCK_EX | fcntl.LOCK_NB)
                held = fh
                break
            except OSError:
                fh.close()
        else:
            time.sleep(5)
    env = dict(os.environ, CARGO_TARGET_DIR="/scratch/seedtarget-%d" % slot, CARGO_NET_OFFLINE="true")
    if os.environ.get("SEED_RUSTFLAGS"):
        env["RUSTFLAGS"] = os.environ["SEED_RUSTFLAGS"]
        env["CARGO_TARGET_DIR"] = "/scratch/seedtarget-%d-flags" % slot
    feats = ["--features", os.environ["SEED_FEATURES"]] if os.environ.get("SEED_FEATURES") else []
    res = {}
    try:
        shutil.copy("/repo/Cargo.lock", os.path.join(wt, "Cargo.lock")) if os.path.exists("/repo/Cargo.lock") else None
        shutil.copy(os.path.join(d, "demo.rs"), os.path.join(wt, "tests", name + ".rs"))
        rc, out = sh(["cargo", "test", "--offline"] + feats + ["--test", name, "--", "--test-threads=1"], wt, env)
        res["demo_on_head"] = "pass" if rc == 0 else "FAIL"
        if rc != 0:
            print(out[-2000:])
            print("NOT-CONFIRMED: demonstration does not pass on HEAD")
            return 1
        rc, out = sh(["git", "apply", os.path.join(d, "patch.diff")], wt)
        if rc != 0:
            print("NOT-CONFIRMED: patch does not apply\n" + out)
            return 1
        rc, out = sh(["cargo", "test", "--offline"] + feats + ["--test", name, "--", "--test-threads=1"], wt, env)
        res["demo_with_patch"] = "fail" if rc != 0 else "PASS"
        if rc == 0:
            print("NOT-CONFIRMED: demonstration still passes with the patch")
            return 1
        fail_lines = [l for l in out.splitlines() if "test result" in l or "panicked" in l][:4]
        os.remove(os.path.join(wt, "tests", name + ".rs"))
        rc, out = sh(["cargo", "build", "--offline", "--features", "fusedev,virtiofs,async-io,persist"], wt, env)
        if rc != 0:
            print(out[-1500:])
            print("NOT-CONFIRMED: does not build with all features")
            return 1
        rc, out = sh(["cargo", "test", "--offline", "--lib"], wt, env)
        tl = [l for l in out.splitlines() if l.startswith("test result")]
        res["suite_with_patch"] = tl[0] if tl else "?"
        if rc != 0 or not tl or " 0 failed" not in tl[0]:
            print(out[-1500:])
            print("NOT-CONFIRMED: existing suite fails with the patch")
            return 1
        print("CONFIRMED %s: demo passes on HEAD, fails with patch (%s); suite with patch: %s" % (d, "; ".join(fail_lines)[:200], res["suite_with_patch"]))
        json.dump(res, open(os.path.join(d, "confirm.json"), "w"), indent=1)
        return 0
    finally:
        subprocess.run(["git", "-C", "/repo", "worktree", "remove", "--force", wt], stdout=subprocess.DEVNULL, stderr=subprocess.DEVNULL)
        shutil.rmtree(wt, ignore_errors=True)


if __name__ == "__main__":
    sys.exit(main())
