//! Overlay engine (C10/C11): materialises layer contents on disk, builds a real `OverlayFs` over
//! `PassthroughFs` layers, applies operation sequences through the `FileSystem` API and after every
//! step walks the whole tree through the running instance and through a freshly built second
//! instance. Everything observed is logged raw as NDJSON; the judge is spec/Trace_Overlay.tla.
//!
//!   ovl run    <workdir> <scenarios.ndjson> <out.ndjson>     replay scenarios (TLC exported or replay files)
//!   ovl stacks <workdir> <out.ndjson>                        systematic layer stacks (union rules) and copy-up chains
//!   ovl random <workdir> <out.ndjson>                        seeded random driver (VERIF_SEED, OVL_SCEN, OVL_OPS, OVL_BIG)
//!
//! File contents are sequences of blocks of B bytes; block (s, i) of stream s is a fixed
//! pseudo-random byte string, "Z" is the zero block. Contents cross the log as runs [s, i0, n].
use std::collections::HashMap;
use std::ffi::CString;
use std::fs::File;
use std::io::{Read, Seek, SeekFrom, Write};
use std::os::unix::ffi::OsStrExt;
use std::os::unix::fs::{MetadataExt, PermissionsExt};
use std::os::unix::io::FromRawFd;
use std::panic::{catch_unwind, AssertUnwindSafe};
use std::path::{Path, PathBuf};
use std::sync::Arc;

use fuse_backend_rs::abi::fuse_abi::{stat64, CreateIn};
use fuse_backend_rs::api::filesystem::{
    Context, FileSystem, GetxattrReply, Layer, ListxattrReply, SetattrValid,
};
use fuse_backend_rs::overlayfs::config::Config;
use fuse_backend_rs::overlayfs::OverlayFs;
use fuse_backend_rs::passthrough::{self, PassthroughFs};
use serde_json::{json, Value};
use vharness::util::{env_u64, Rng, Trace};

type BoxedLayer = Box<dyn Layer<Inode = u64, Handle = u64> + Send + Sync>;
const ROOT: u64 = 1;
const MARKERS: [(&str, &str); 3] = [
    ("trusted", "trusted.overlay.opaque"),
    ("user", "user.overlay.opaque"),
    ("fuse", "user.fuseoverlayfs.opaque"),
];

fn fnv(data: &[u8], seed: u64) -> u64 {
    let mut h: u64 = 0xcbf29ce484222325 ^ seed;
    for b in data {
        h ^= *b as u64;
        h = h.wrapping_mul(0x100000001b3);
    }
    h
}

// ------------------------------------------------------------------------------------------------
// block contents

struct Blocks {
    b: usize,
    table: HashMap<u64, (String, u64)>,
}

impl Blocks {
    fn new(b: usize) -> Self {
        Blocks { b, table: HashMap::new() }
    }
    fn block(&mut self, s: &str, i: u64) -> Vec<u8> {
        let mut v = vec![0u8; self.b];
        if s != "Z" {
            let mut r = Rng::new(fnv(s.as_bytes(), 7) ^ i.wrapping_mul(0x9E3779B97F4A7C15));
            // 8 bytes at a time
            for ch in v.chunks_mut(8) {
                let x = r.next().to_le_bytes();
                ch.copy_from_slice(&x[..ch.len()]);
            }
            // make sure a block is never all zero
            v[0] |= 1;
            self.table.insert(fnv(&v, 0), (s.to_string(), i));
        }
        v
    }
    fn bytes(&mut self, runs: &[(String, u64, u64)]) -> Vec<u8> {
        let mut out = Vec::new();
        for (s, i0, n) in runs {
            for k in 0..*n {
                out.extend_from_slice(&self.block(s, if s == "Z" { 0 } else { i0 + k }));
            }
        }
        out
    }
    /// dumb projection of bytes to runs by table lookup
    fn project(&self, data: &[u8]) -> Value {
        let mut runs: Vec<(String, u64, u64)> = Vec::new();
        for ch in data.chunks(self.b) {
            let (s, i) = if ch.len() < self.b {
                (format!("?short{}", ch.len()), 0)
            } else if ch.iter().all(|x| *x == 0) {
                ("Z".to_string(), 0)
            } else {
                match self.table.get(&fnv(ch, 0)) {
                    Some((s, i)) => (s.clone(), *i),
                    None => (format!("?{:08x}", fnv(ch, 0) as u32), 0),
                }
            };
            if let Some(last) = runs.last_mut() {
                if last.0 == s && ((s == "Z") || last.1 + last.2 == i) && !s.starts_with('?') {
                    last.2 += 1;
                    continue;
                }
            }
            runs.push((s, i, 1));
        }
        Value::Array(runs.into_iter().map(|(s, i, n)| json!([s, i, n])).collect())
    }
}

fn parse_runs(v: &Value) -> Vec<(String, u64, u64)> {
    let mut out = Vec::new();
    if let Some(a) = v.as_array() {
        for r in a {
            if let Some(s) = r.as_str() {
                // token form "s.i"
                match s.rfind('.') {
                    Some(k) => out.push((s[..k].to_string(), s[k + 1..].parse().unwrap_or(0), 1)),
                    None => out.push((s.to_string(), 0, 1)),
                }
            } else if let Some(t) = r.as_array() {
                out.push((
                    t[0].as_str().unwrap_or("Z").to_string(),
                    t[1].as_u64().unwrap_or(0),
                    t[2].as_u64().unwrap_or(1),
                ));
            }
        }
    }
    out
}

fn path_of(v: &Value) -> Vec<String> {
    v.as_array()
        .map(|a| a.iter().map(|x| x.as_str().unwrap_or("").to_string()).collect())
        .unwrap_or_default()
}

// ------------------------------------------------------------------------------------------------
// host side: materialise, digest, raw dump

fn cpath(p: &Path) -> CString {
    CString::new(p.as_os_str().as_bytes()).unwrap()
}

fn lsetx(p: &Path, name: &str, val: &[u8]) {
    let cn = CString::new(name).unwrap();
    let r = unsafe {
        libc::lsetxattr(cpath(p).as_ptr(), cn.as_ptr(), val.as_ptr() as *const libc::c_void, val.len(), 0)
    };
    if r != 0 {
        panic!("lsetxattr {} on {:?}: {}", name, p, std::io::Error::last_os_error());
    }
}

fn lxattrs(p: &Path) -> Vec<(String, Vec<u8>)> {
    let cp = cpath(p);
    let mut buf = vec![0u8; 65536];
    let n = unsafe { libc::llistxattr(cp.as_ptr(), buf.as_mut_ptr() as *mut libc::c_char, buf.len()) };
    let mut out = Vec::new();
    if n <= 0 {
        return out;
    }
    for name in buf[..n as usize].split(|b| *b == 0).filter(|s| !s.is_empty()) {
        let cn = CString::new(name).unwrap();
        let mut vb = vec![0u8; 65536];
        let m = unsafe { libc::lgetxattr(cp.as_ptr(), cn.as_ptr(), vb.as_mut_ptr() as *mut libc::c_void, vb.len()) };
        if m >= 0 {
            vb.truncate(m as usize);
            out.push((String::from_utf8_lossy(name).into_owned(), vb));
        }
    }
    out.sort();
    out
}

fn materialise(dir: &Path, rows: &Value, blocks: &mut Blocks) {
    std::fs::create_dir_all(dir).unwrap();
    std::fs::set_permissions(dir, std::fs::Permissions::from_mode(0o755)).unwrap();
    let mut rows: Vec<Value> = rows.as_array().cloned().unwrap_or_default();
    rows.sort_by_key(|r| path_of(&r["p"]).len());
    for r in rows {
        let p = path_of(&r["p"]);
        if p.is_empty() {
            // a row for the layer's root directory: only its opaque marker is materialised
            let o = r["opq"].as_str().unwrap_or("");
            for (k, name) in MARKERS.iter() {
                if o == *k {
                    lsetx(dir, name, b"y");
                }
            }
            continue;
        }
        let mut full = dir.to_path_buf();
        for c in &p {
            full.push(c);
        }
        let mode = r["m"].as_u64().unwrap_or(0o644) as u32;
        match r["t"].as_str().unwrap_or("") {
            "dir" => {
                std::fs::create_dir(&full).unwrap();
                std::fs::set_permissions(&full, std::fs::Permissions::from_mode(mode)).unwrap();
                let o = r["opq"].as_str().unwrap_or("");
                for (k, name) in MARKERS.iter() {
                    if o == *k {
                        lsetx(&full, name, b"y");
                    }
                }
            }
            "file" => {
                let data = blocks.bytes(&parse_runs(&r["c"]));
                let mut f = File::create(&full).unwrap();
                f.write_all(&data).unwrap();
                drop(f);
                std::fs::set_permissions(&full, std::fs::Permissions::from_mode(mode)).unwrap();
            }
            "sym" => {
                // "tg": the target; the form "x:<hex>" stands for raw bytes (targets that are not valid UTF-8)
                let tg = target_bytes(r["tg"].as_str().unwrap_or("x"));
                std::os::unix::fs::symlink(std::ffi::OsStr::from_bytes(&tg), &full).unwrap();
            }
            "wh" => {
                let rc = unsafe { libc::mknod(cpath(&full).as_ptr(), libc::S_IFCHR, libc::makedev(0, 0)) };
                assert!(rc == 0, "mknod whiteout: {}", std::io::Error::last_os_error());
            }
            "fifo" => {
                let rc = unsafe { libc::mknod(cpath(&full).as_ptr(), libc::S_IFIFO | mode, 0) };
                assert!(rc == 0);
                std::fs::set_permissions(&full, std::fs::Permissions::from_mode(mode)).unwrap();
            }
            other => panic!("unknown row type {}", other),
        }
        if let Some(xs) = r["x"].as_array() {
            for x in xs {
                lsetx(&full, x[0].as_str().unwrap(), x[1].as_str().unwrap().as_bytes());
            }
        }
    }
}

/// which opaque marker (short name) the directory itself carries, read back from the host
fn root_opq(dir: &Path) -> String {
    for (k, v) in lxattrs(dir) {
        if let Some((short, _)) = MARKERS.iter().find(|(_, name)| *name == k) {
            if v.len() == 1 && (v[0] == b'y' || v[0] == b'Y') {
                return short.to_string();
            }
        }
    }
    String::new()
}

/// link targets cross the log byte-exactly: valid UTF-8 as text, anything else as "x:<hex>"
fn target_text(b: &[u8]) -> String {
    match std::str::from_utf8(b) {
        Ok(s) if !s.starts_with("x:") => s.to_string(),
        _ => format!("x:{}", b.iter().map(|c| format!("{:02x}", c)).collect::<String>()),
    }
}
fn target_bytes(s: &str) -> Vec<u8> {
    match s.strip_prefix("x:") {
        Some(h) if h.len() % 2 == 0 && h.bytes().all(|c| c.is_ascii_hexdigit()) => {
            (0..h.len() / 2).map(|i| u8::from_str_radix(&h[2 * i..2 * i + 2], 16).unwrap()).collect()
        }
        _ => s.as_bytes().to_vec(),
    }
}

fn type_of(mode: u32, rdev: u64) -> &'static str {
    match mode & libc::S_IFMT {
        libc::S_IFDIR => "dir",
        libc::S_IFREG => "file",
        libc::S_IFLNK => "sym",
        libc::S_IFIFO => "fifo",
        libc::S_IFCHR => {
            if rdev == 0 {
                "wh"
            } else {
                "chr"
            }
        }
        libc::S_IFBLK => "blk",
        libc::S_IFSOCK => "sock",
        _ => "unknown",
    }
}

/// raw rows of a host directory (no overlay interpretation), sorted by path
fn host_rows(dir: &Path, blocks: &Blocks, with_content: bool) -> Vec<Value> {
    fn rec(base: &Path, rel: &mut Vec<String>, blocks: &Blocks, with_content: bool, out: &mut Vec<Value>) {
        let mut d = base.to_path_buf();
        for c in rel.iter() {
            d.push(c);
        }
        let mut names: Vec<String> = match std::fs::read_dir(&d) {
            Ok(rd) => rd.filter_map(|e| e.ok()).map(|e| e.file_name().to_string_lossy().into_owned()).collect(),
            Err(_) => return,
        };
        names.sort();
        for n in names {
            let full = d.join(&n);
            let md = match std::fs::symlink_metadata(&full) {
                Ok(m) => m,
                Err(_) => continue,
            };
            rel.push(n);
            let t = type_of(md.mode(), md.rdev());
            let mut row = json!({"p": rel.clone(), "t": t, "m": md.mode() & 0o7777});
            let mut opq = String::new();
            let mut xs = Vec::new();
            for (k, v) in lxattrs(&full) {
                let mk = MARKERS.iter().find(|(_, name)| *name == k);
                match mk {
                    Some((short, _)) if v.len() == 1 && (v[0] == b'y' || v[0] == b'Y') => {
                        if opq.is_empty() {
                            opq = short.to_string();
                        }
                    }
                    _ => xs.push(json!([k, String::from_utf8_lossy(&v)])),
                }
            }
            row["opq"] = json!(opq);
            row["x"] = json!(xs);
            match t {
                "file" => {
                    row["sz"] = json!(md.size());
                    if with_content {
                        let data = std::fs::read(&full).unwrap_or_default();
                        row["c"] = blocks.project(&data);
                    }
                }
                "sym" => {
                    let t = std::fs::read_link(&full).map(|p| p.as_os_str().as_bytes().to_vec()).unwrap_or_default();
                    row["tg"] = json!(target_text(&t));
                    if std::str::from_utf8(&t).is_err() {
                        row["tgx"] = json!(true);
                    }
                }
                _ => {}
            }
            out.push(row);
            if t == "dir" {
                rec(base, rel, blocks, with_content, out);
            }
            rel.pop();
        }
    }
    let mut out = Vec::new();
    rec(dir, &mut Vec::new(), blocks, with_content, &mut out);
    out
}

/// digest of names, bytes, modes and xattrs of a host directory tree
fn host_digest(dir: &Path) -> String {
    fn rec(d: &Path, rel: &str, h: &mut u64) {
        let mut names: Vec<String> = match std::fs::read_dir(d) {
            Ok(rd) => rd.filter_map(|e| e.ok()).map(|e| e.file_name().to_string_lossy().into_owned()).collect(),
            Err(_) => return,
        };
        names.sort();
        for n in names {
            let full = d.join(&n);
            let md = match std::fs::symlink_metadata(&full) {
                Ok(m) => m,
                Err(_) => continue,
            };
            let r = format!("{}/{}", rel, n);
            *h = fnv(r.as_bytes(), *h);
            *h = fnv(&md.mode().to_le_bytes(), *h);
            *h = fnv(&md.rdev().to_le_bytes(), *h);
            *h = fnv(&md.uid().to_le_bytes(), *h);
            *h = fnv(&md.gid().to_le_bytes(), *h);
            for (k, v) in lxattrs(&full) {
                *h = fnv(k.as_bytes(), *h);
                *h = fnv(&v, *h);
            }
            match md.mode() & libc::S_IFMT {
                libc::S_IFREG => {
                    *h = fnv(&md.size().to_le_bytes(), *h);
                    if let Ok(data) = std::fs::read(&full) {
                        *h = fnv(&data, *h);
                    }
                }
                libc::S_IFLNK => {
                    if let Ok(t) = std::fs::read_link(&full) {
                        *h = fnv(t.as_os_str().as_bytes(), *h);
                    }
                }
                libc::S_IFDIR => rec(&full, &r, h),
                _ => {}
            }
        }
    }
    let mut h = 0u64;
    if let Ok(md) = std::fs::symlink_metadata(dir) {
        h = fnv(&md.mode().to_le_bytes(), h);
    }
    rec(dir, "", &mut h);
    format!("{:016x}", h)
}

// ------------------------------------------------------------------------------------------------
// the overlay under test

/// scenario option "no_open": the overlay and its layers negotiate ZERO_MESSAGE_OPEN (no OPEN/RELEASE, requests carry
/// handle 0, every layer opens the file per request)
static NO_OPEN: std::sync::atomic::AtomicBool = std::sync::atomic::AtomicBool::new(false);
fn no_open() -> bool {
    NO_OPEN.load(std::sync::atomic::Ordering::Relaxed)
}

fn new_layer(root: &Path) -> std::io::Result<BoxedLayer> {
    let mut config = passthrough::Config::default();
    config.root_dir = root.to_string_lossy().into_owned();
    config.xattr = true;
    config.do_import = true;
    if no_open() {
        config.no_open = true;
        config.cache_policy = passthrough::CachePolicy::Always;
        let fs = Box::new(PassthroughFs::<()>::new(config)?);
        fs.init(fuse_backend_rs::abi::fuse_abi::FsOptions::ZERO_MESSAGE_OPEN)?;
        return Ok(fs as BoxedLayer);
    }
    let fs = Box::new(PassthroughFs::<()>::new(config)?);
    fs.import()?;
    Ok(fs as BoxedLayer)
}

fn build_overlay(upper: Option<&Path>, lowers: &[PathBuf], work: &Path) -> std::io::Result<OverlayFs> {
    let up = match upper {
        Some(u) => Some(Arc::new(new_layer(u)?)),
        None => None,
    };
    let mut ls = Vec::new();
    for l in lowers {
        ls.push(Arc::new(new_layer(l)?));
    }
    let mut config = Config::default();
    config.work = work.to_string_lossy().into_owned();
    config.mountpoint = "/nonexistent-mountpoint".to_string();
    config.do_import = true;
    if no_open() {
        config.no_open = true;
        let fs = OverlayFs::new(up, ls, config)?;
        fs.init(fuse_backend_rs::abi::fuse_abi::FsOptions::ZERO_MESSAGE_OPEN)?;
        return Ok(fs);
    }
    let fs = OverlayFs::new(up, ls, config)?;
    fs.import()?;
    Ok(fs)
}

fn errno_of(e: &std::io::Error) -> i64 {
    e.raw_os_error().map(|x| x as i64).unwrap_or(-1)
}

fn memfd() -> File {
    let name = CString::new("ovl").unwrap();
    let fd = unsafe { libc::memfd_create(name.as_ptr(), 0) };
    assert!(fd >= 0);
    unsafe { File::from_raw_fd(fd) }
}

fn cstr(s: &str) -> CString {
    CString::new(s).unwrap()
}

struct Walker<'a> {
    fs: &'a OverlayFs,
    blocks: &'a Blocks,
    names: &'a [String],
    ctx: Context,
    rows: Vec<Value>,
}

impl<'a> Walker<'a> {
    fn xattrs(&self, ino: u64, row: &mut Value) {
        match self.fs.listxattr(&self.ctx, ino, 65536) {
            Ok(ListxattrReply::Names(buf)) => {
                let mut xs = Vec::new();
                for name in buf.split(|b| *b == 0).filter(|s| !s.is_empty()) {
                    let cn = CString::new(name).unwrap();
                    match self.fs.getxattr(&self.ctx, ino, cn.as_c_str(), 65536) {
                        Ok(GetxattrReply::Value(v)) => {
                            xs.push((String::from_utf8_lossy(name).into_owned(), String::from_utf8_lossy(&v).into_owned()))
                        }
                        Ok(GetxattrReply::Count(c)) => xs.push((String::from_utf8_lossy(name).into_owned(), format!("?count{}", c))),
                        Err(e) => xs.push((String::from_utf8_lossy(name).into_owned(), format!("?err{}", errno_of(&e)))),
                    }
                }
                xs.sort();
                row["x"] = json!(xs.into_iter().map(|(k, v)| json!([k, v])).collect::<Vec<_>>());
            }
            Ok(ListxattrReply::Count(c)) => row["xerr"] = json!(format!("count{}", c)),
            Err(e) => row["xerr"] = json!(errno_of(&e)),
        }
    }

    fn read_all(&self, ino: u64, size: u64) -> Result<Vec<u8>, i64> {
        let h = match self.fs.open(&self.ctx, ino, libc::O_RDONLY as u32, 0) {
            Ok((h, _, _)) => h.unwrap_or(0),
            Err(e) if errno_of(&e) == libc::ENOSYS as i64 && no_open() => 0,
            Err(e) => return Err(errno_of(&e)),
        };
        let mut tmp = memfd();
        let mut off = 0u64;
        let mut err = None;
        loop {
            // keep reading past the reported size until EOF
            match self.fs.read(&self.ctx, ino, h, &mut tmp, 1 << 20, off, None, 0) {
                Ok(0) => break,
                Ok(n) => off += n as u64,
                Err(e) => {
                    err = Some(errno_of(&e));
                    break;
                }
            }
            if off > size + (64 << 20) {
                break;
            }
        }
        let _ = self.fs.release(&self.ctx, ino, libc::O_RDONLY as u32, h, false, false, None);
        if let Some(e) = err {
            return Err(e);
        }
        let mut data = Vec::new();
        tmp.seek(SeekFrom::Start(0)).unwrap();
        tmp.read_to_end(&mut data).unwrap();
        Ok(data)
    }

    fn list(&self, ino: u64) -> Result<Vec<String>, i64> {
        let (h, _) = self.fs.opendir(&self.ctx, ino, libc::O_RDONLY as u32).map_err(|e| errno_of(&e))?;
        let h = h.unwrap_or(0);
        let mut names = Vec::new();
        let mut offset = 0u64;
        let mut res = Ok(());
        for _round in 0..10000 {
            let mut cnt = 0;
            let r = self.fs.readdir(&self.ctx, ino, h, 65536, offset, &mut |d| {
                cnt += 1;
                offset = d.offset;
                names.push(String::from_utf8_lossy(d.name).into_owned());
                Ok(1)
            });
            if let Err(e) = r {
                res = Err(errno_of(&e));
                break;
            }
            if cnt == 0 {
                break;
            }
        }
        let _ = self.fs.releasedir(&self.ctx, ino, libc::O_RDONLY as u32, h);
        res?;
        Ok(names.into_iter().filter(|n| n != "." && n != "..").collect())
    }

    fn dir(&mut self, ino: u64, path: &mut Vec<String>) {
        if path.len() > 6 {
            return;
        }
        let mut listed = match self.list(ino) {
            Ok(v) => v,
            Err(e) => {
                self.rows.push(json!({"p": path.clone(), "t": "readdir-error", "st": e}));
                return;
            }
        };
        listed.sort();
        let mut all: Vec<(String, bool)> = listed.iter().map(|n| (n.clone(), true)).collect();
        for n in self.names {
            if !listed.contains(n) {
                all.push((n.clone(), false));
            }
        }
        for (name, was_listed) in all {
            path.push(name.clone());
            match self.fs.lookup(&self.ctx, ino, cstr(&name).as_c_str()) {
                Err(e) => {
                    if was_listed {
                        self.rows.push(json!({"p": path.clone(), "t": "lookup-error", "st": errno_of(&e)}));
                    }
                }
                Ok(ent) if ent.inode == 0 => {
                    if was_listed {
                        self.rows.push(json!({"p": path.clone(), "t": "lookup-negative"}));
                    }
                }
                Ok(ent) => {
                    let st: stat64 = match self.fs.getattr(&self.ctx, ent.inode, None) {
                        Ok((st, _)) => st,
                        Err(e) => {
                            self.rows.push(json!({"p": path.clone(), "t": "getattr-error", "st": errno_of(&e)}));
                            self.fs.forget(&self.ctx, ent.inode, 1);
                            path.pop();
                            continue;
                        }
                    };
                    let t = type_of(st.st_mode, st.st_rdev);
                    let mut row = json!({"p": path.clone(), "t": t, "m": st.st_mode & 0o7777});
                    if !was_listed {
                        row["ghost"] = json!(true);
                    }
                    if ent.attr.st_mode != st.st_mode {
                        row["lm"] = json!(ent.attr.st_mode);
                    }
                    match t {
                        "file" => {
                            row["sz"] = json!(st.st_size);
                            match self.read_all(ent.inode, st.st_size as u64) {
                                Ok(d) => {
                                    if d.len() as i64 != st.st_size {
                                        row["rsz"] = json!(d.len());
                                    }
                                    row["c"] = self.blocks.project(&d);
                                }
                                Err(e) => row["rerr"] = json!(e),
                            }
                            self.xattrs(ent.inode, &mut row);
                        }
                        "sym" => match self.fs.readlink(&self.ctx, ent.inode) {
                            Ok(v) => {
                                row["tg"] = json!(target_text(&v));
                                if std::str::from_utf8(&v).is_err() {
                                    row["tgx"] = json!(true);
                                }
                            }
                            Err(e) => row["rerr"] = json!(errno_of(&e)),
                        },
                        "dir" => self.xattrs(ent.inode, &mut row),
                        _ => {}
                    }
                    self.rows.push(row);
                    if t == "dir" {
                        self.dir(ent.inode, path);
                    }
                    self.fs.forget(&self.ctx, ent.inode, 1);
                }
            }
            path.pop();
        }
    }
}

fn walk(fs: &OverlayFs, blocks: &Blocks, names: &[String]) -> Value {
    let r = catch_unwind(AssertUnwindSafe(|| {
        let mut w = Walker { fs, blocks, names, ctx: Context::default(), rows: Vec::new() };
        w.dir(ROOT, &mut Vec::new());
        w.rows
    }));
    match r {
        Ok(rows) => Value::Array(rows),
        Err(_) => json!([{"p": [], "t": "panic"}]),
    }
}

// ------------------------------------------------------------------------------------------------
// operations

/// a handle kept open across operations: (inode, handle, open flags, path at open time)
#[derive(Clone)]
struct Slot {
    ino: u64,
    handle: u64,
    flags: u32,
    path: Vec<String>,
}

struct Exec<'a> {
    fs: &'a OverlayFs,
    ctx: Context,
    looked: Vec<u64>,
    slots: &'a mut Vec<Option<Slot>>,
    /// reference-accounting histories (X04): the entry an operation returns is kept by the client
    keep: bool,
    kept: Option<u64>,
}

fn open_flags(op: &Value) -> i32 {
    let mut f = match op["acc"].as_str().unwrap_or("r") {
        "w" => libc::O_WRONLY,
        "rw" => libc::O_RDWR,
        _ => libc::O_RDONLY,
    };
    if op["trunc"].as_bool().unwrap_or(false) {
        f |= libc::O_TRUNC;
    }
    if op["app"].as_bool().unwrap_or(false) {
        f |= libc::O_APPEND;
    }
    f
}

impl<'a> Exec<'a> {
    fn resolve(&mut self, p: &[String]) -> Result<u64, i64> {
        let mut ino = ROOT;
        for c in p {
            let e = self.fs.lookup(&self.ctx, ino, cstr(c).as_c_str()).map_err(|e| errno_of(&e))?;
            if e.inode == 0 {
                return Err(libc::ENOENT as i64);
            }
            self.looked.push(e.inode);
            ino = e.inode;
        }
        Ok(ino)
    }
    fn got(&mut self, e: fuse_backend_rs::api::filesystem::Entry) {
        if e.inode != 0 {
            if self.keep {
                self.kept = Some(e.inode);
            } else {
                self.looked.push(e.inode);
            }
        }
    }
    /// opening a fifo would block the driver: such operations are not issued (status -6)
    fn regular_or_dirlike(&self, ino: u64) -> Result<(), i64> {
        match self.fs.getattr(&self.ctx, ino, None) {
            Ok((st, _)) => match st.st_mode & libc::S_IFMT {
                libc::S_IFREG | libc::S_IFDIR | libc::S_IFLNK => Ok(()),
                _ => Err(-6),
            },
            Err(e) => Err(errno_of(&e)),
        }
    }
    fn forget_all(&mut self) {
        for i in self.looked.drain(..).rev() {
            self.fs.forget(&self.ctx, i, 1);
        }
    }

    fn run(&mut self, op: &Value, blocks: &mut Blocks) -> Result<(), i64> {
        let p = path_of(&op["p"]);
        let kind = op["op"].as_str().unwrap_or("");
        let mode = op["m"].as_u64().unwrap_or(0o644) as u32;
        let e2n = |e: std::io::Error| errno_of(&e);
        let (parent, name) = if p.is_empty() { (vec![], String::new()) } else { (p[..p.len() - 1].to_vec(), p[p.len() - 1].clone()) };
        let cname = cstr(&name);
        match kind {
            "create" => {
                let dir = self.resolve(&parent)?;
                let mut flags = libc::O_WRONLY | libc::O_CREAT;
                if op["excl"].as_bool().unwrap_or(false) {
                    flags |= libc::O_EXCL;
                }
                let args = CreateIn { flags: flags as u32, mode, umask: 0, fuse_flags: 0 };
                let (e, h, _, _) = self.fs.create(&self.ctx, dir, cname.as_c_str(), args).map_err(e2n)?;
                let ino = e.inode;
                self.got(e);
                if let Some(h) = h {
                    let _ = self.fs.release(&self.ctx, ino, flags as u32, h, true, false, None);
                }
                Ok(())
            }
            "mkdir" => {
                let dir = self.resolve(&parent)?;
                let e = self.fs.mkdir(&self.ctx, dir, cname.as_c_str(), mode, 0).map_err(e2n)?;
                self.got(e);
                Ok(())
            }
            "mknod" => {
                let dir = self.resolve(&parent)?;
                let ty = if op["kind"].as_str() == Some("fifo") { libc::S_IFIFO } else { libc::S_IFREG };
                let e = self.fs.mknod(&self.ctx, dir, cname.as_c_str(), ty | mode, 0, 0).map_err(e2n)?;
                self.got(e);
                Ok(())
            }
            "symlink" => {
                let dir = self.resolve(&parent)?;
                let tg = CString::new(target_bytes(op["tg"].as_str().unwrap_or("x"))).unwrap();
                let e = self.fs.symlink(&self.ctx, tg.as_c_str(), dir, cname.as_c_str()).map_err(e2n)?;
                self.got(e);
                Ok(())
            }
            "link" => {
                let src = path_of(&op["src"]);
                let sino = self.resolve(&src)?;
                let dir = self.resolve(&parent)?;
                let e = self.fs.link(&self.ctx, sino, dir, cname.as_c_str()).map_err(e2n)?;
                self.got(e);
                Ok(())
            }
            "unlink" | "rmdir" => {
                let dir = self.resolve(&parent)?;
                // the kernel looks the victim up first; an API client need not: keep the reference if it exists
                if op["nolookup"].as_bool().unwrap_or(false) {
                    // blind removal: the victim was never looked up by this client
                } else if let Ok(e) = self.fs.lookup(&self.ctx, dir, cname.as_c_str()) {
                    // X04 histories keep this reference only when the operation names it ("as")
                    if self.keep && !op["as"].is_string() {
                        if e.inode != 0 {
                            self.looked.push(e.inode);
                        }
                    } else {
                        self.got(e);
                    }
                }
                if kind == "unlink" {
                    self.fs.unlink(&self.ctx, dir, cname.as_c_str()).map_err(e2n)
                } else {
                    self.fs.rmdir(&self.ctx, dir, cname.as_c_str()).map_err(e2n)
                }
            }
            "rename" => {
                let to = path_of(&op["to"]);
                let dir = self.resolve(&parent)?;
                let (tparent, tname) = (to[..to.len() - 1].to_vec(), to[to.len() - 1].clone());
                let tdir = self.resolve(&tparent)?;
                self.fs.rename(&self.ctx, dir, cname.as_c_str(), tdir, cstr(&tname).as_c_str(), 0).map_err(e2n)
            }
            "write" => {
                let ino = self.resolve(&p)?;
                self.regular_or_dirlike(ino)?;
                let data = blocks.bytes(&parse_runs(&op["c"]));
                let off = op["off"].as_u64().unwrap_or(0) * blocks.b as u64;
                let flags = if op["rdwr"].as_bool().unwrap_or(false) { libc::O_RDWR } else { libc::O_WRONLY };
                let h = match self.fs.open(&self.ctx, ino, flags as u32, 0) {
                    Ok((h, _, _)) => h.unwrap_or(0),
                    Err(e) if errno_of(&e) == libc::ENOSYS as i64 && no_open() => 0,
                    Err(e) => return Err(errno_of(&e)),
                };
                let mut res = Ok(());
                let mut done = 0usize;
                while done < data.len() {
                    let n = std::cmp::min(1 << 20, data.len() - done);
                    let mut src = memfd();
                    src.write_all(&data[done..done + n]).unwrap();
                    src.seek(SeekFrom::Start(0)).unwrap();
                    match self.fs.write(&self.ctx, ino, h, &mut src, n as u32, off + done as u64, None, false, flags as u32, 0) {
                        Ok(0) => {
                            res = Err(-3);
                            break;
                        }
                        Ok(w) => done += w,
                        Err(e) => {
                            res = Err(errno_of(&e));
                            break;
                        }
                    }
                }
                let _ = self.fs.release(&self.ctx, ino, flags as u32, h, true, false, None);
                res
            }
            "open" => {
                // OPEN with a full flag word; with "keep": the handle (and the inode reference) stays in a slot
                let ino = self.resolve(&p)?;
                self.regular_or_dirlike(ino)?;
                let keep = op["keep"].as_u64().map(|k| k as usize);
                if let Some(k) = keep {
                    if k >= self.slots.len() || self.slots[k].is_some() {
                        return Err(-7);
                    }
                }
                let flags = open_flags(op) as u32;
                let (h, _, _) = self.fs.open(&self.ctx, ino, flags, 0).map_err(e2n)?;
                let h = h.unwrap_or(0);
                match keep {
                    Some(k) => {
                        // the client keeps its reference to the inode while the file is open
                        if let Some(pos) = self.looked.iter().rposition(|x| *x == ino) {
                            self.looked.remove(pos);
                        }
                        self.slots[k] = Some(Slot { ino, handle: h, flags, path: p.clone() });
                    }
                    None => {
                        let _ = self.fs.release(&self.ctx, ino, flags, h, true, false, None);
                    }
                }
                Ok(())
            }
            "close" | "hsetattr" | "hwrite" | "hprobe" => {
                let k = op["slot"].as_u64().unwrap_or(0) as usize;
                let sl = match self.slots.get(k).cloned().flatten() {
                    Some(s) => s,
                    None => return Err(-7),
                };
                match kind {
                    "close" => {
                        let r = self.fs.release(&self.ctx, sl.ino, sl.flags, sl.handle, true, false, None).map_err(e2n);
                        self.slots[k] = None;
                        self.looked.push(sl.ino);
                        r.or(Ok(()))
                    }
                    "hsetattr" => {
                        let mut st: stat64 = unsafe { std::mem::zeroed() };
                        let valid = if op["what"].as_str() == Some("size") {
                            st.st_size = (op["len"].as_u64().unwrap_or(0) * blocks.b as u64) as i64;
                            SetattrValid::SIZE
                        } else {
                            st.st_mode = mode;
                            SetattrValid::MODE
                        };
                        self.fs.setattr(&self.ctx, sl.ino, st, Some(sl.handle), valid).map(|_| ()).map_err(e2n)
                    }
                    "hwrite" => {
                        let data = blocks.bytes(&parse_runs(&op["c"]));
                        let off = op["off"].as_u64().unwrap_or(0) * blocks.b as u64;
                        let mut src = memfd();
                        src.write_all(&data).unwrap();
                        src.seek(SeekFrom::Start(0)).unwrap();
                        match self.fs.write(&self.ctx, sl.ino, sl.handle, &mut src, data.len() as u32, off, None, false, sl.flags, 0) {
                            Ok(n) if n == data.len() => Ok(()),
                            Ok(_) => Err(-3),
                            Err(e) => Err(errno_of(&e)),
                        }
                    }
                    _ => {
                        // exercise GETATTR / READ / FSYNC with the handle; results are not judged
                        let _ = self.fs.getattr(&self.ctx, sl.ino, Some(sl.handle));
                        let mut tmp = memfd();
                        let _ = self.fs.read(&self.ctx, sl.ino, sl.handle, &mut tmp, 4096, 0, None, sl.flags);
                        let _ = self.fs.fsync(&self.ctx, sl.ino, false, sl.handle);
                        Ok(())
                    }
                }
            }
            "fallocate" => {
                // mode 0; handle-less when no_open is negotiated, else through a handle opened for writing
                let ino = self.resolve(&p)?;
                self.regular_or_dirlike(ino)?;
                let off = op["off"].as_u64().unwrap_or(0) * blocks.b as u64;
                let len = op["len"].as_u64().unwrap_or(1) * blocks.b as u64;
                if no_open() {
                    return self.fs.fallocate(&self.ctx, ino, 0, 0, off, len).map_err(e2n);
                }
                let (h, _, _) = self.fs.open(&self.ctx, ino, libc::O_WRONLY as u32, 0).map_err(e2n)?;
                let h = h.unwrap_or(0);
                let r = self.fs.fallocate(&self.ctx, ino, h, 0, off, len).map_err(e2n);
                let _ = self.fs.release(&self.ctx, ino, libc::O_WRONLY as u32, h, true, false, None);
                r
            }
            "nprobe" => {
                // handle-less READ / FSYNC / GETATTR (results not judged; nothing may change)
                let ino = self.resolve(&p)?;
                self.regular_or_dirlike(ino)?;
                let mut tmp = memfd();
                let _ = self.fs.read(&self.ctx, ino, 0, &mut tmp, 4096, 0, None, libc::O_RDONLY as u32);
                let _ = self.fs.fsync(&self.ctx, ino, false, 0);
                let _ = self.fs.getattr(&self.ctx, ino, Some(0));
                Ok(())
            }
            "truncate" => {
                let ino = self.resolve(&p)?;
                self.regular_or_dirlike(ino)?;
                let mut st: stat64 = unsafe { std::mem::zeroed() };
                st.st_size = (op["len"].as_u64().unwrap_or(0) * blocks.b as u64) as i64;
                self.fs.setattr(&self.ctx, ino, st, None, SetattrValid::SIZE).map(|_| ()).map_err(e2n)
            }
            "chmod" => {
                let ino = self.resolve(&p)?;
                let mut st: stat64 = unsafe { std::mem::zeroed() };
                st.st_mode = mode;
                self.fs.setattr(&self.ctx, ino, st, None, SetattrValid::MODE).map(|_| ()).map_err(e2n)
            }
            "setxattr" => {
                let ino = self.resolve(&p)?;
                let n = cstr(op["n"].as_str().unwrap_or("user.k"));
                self.fs.setxattr(&self.ctx, ino, n.as_c_str(), op["v"].as_str().unwrap_or("").as_bytes(), 0).map_err(e2n)
            }
            "removexattr" => {
                let ino = self.resolve(&p)?;
                let n = cstr(op["n"].as_str().unwrap_or("user.k"));
                self.fs.removexattr(&self.ctx, ino, n.as_c_str()).map_err(e2n)
            }
            _ => Err(-4),
        }
    }
}

fn apply(fs: &OverlayFs, op: &Value, blocks: &mut Blocks, slots: &mut Vec<Option<Slot>>) -> i64 {
    let r = catch_unwind(AssertUnwindSafe(|| {
        let mut ex = Exec { fs, ctx: Context::default(), looked: Vec::new(), slots, keep: false, kept: None };
        let r = ex.run(op, blocks);
        ex.forget_all();
        r
    }));
    match r {
        Ok(Ok(())) => 0,
        Ok(Err(e)) => e,
        Err(_) => -2,
    }
}

// ------------------------------------------------------------------------------------------------
// X04: inode lifetimes and lookup-count accounting. The client keeps the entries it is given, forgets them
// explicitly and probes every number it ever held after each step. Judge: spec/Trace_OvlRefs.tla.

#[derive(Default)]
struct Client {
    labels: HashMap<String, u64>,
    order: Vec<String>,
    counts: HashMap<u64, u64>,
    /// numbers of a TLC-exported history ("mn") -> the numbers the real code handed out at the same step
    model: HashMap<u64, u64>,
}

impl Client {
    fn take(&mut self, lab: &str, ino: u64) {
        if !self.labels.contains_key(lab) {
            self.order.push(lab.to_string());
        }
        self.labels.insert(lab.to_string(), ino);
        *self.counts.entry(ino).or_insert(0) += 1;
    }
    fn dec(&mut self, ino: u64, n: u64) {
        if let Some(c) = self.counts.get_mut(&ino) {
            *c = c.saturating_sub(n);
        }
    }
    fn target(&self, v: &Value) -> Option<u64> {
        match v.as_str() {
            Some(l) => self.labels.get(l).copied(),
            None => v.as_u64(),
        }
    }
    /// the number a forget is addressed to: a label ("of"), a literal ("ino") or a model number ("mn";
    /// one the real code never handed out becomes a number unknown to the server)
    fn forget_target(&self, op: &Value) -> Option<u64> {
        if let Some(m) = op["mn"].as_u64() {
            return Some(self.model.get(&m).copied().unwrap_or(4000 + m));
        }
        self.target(if op["of"].is_null() { &op["ino"] } else { &op["of"] })
    }
}

fn nfds() -> i64 {
    std::fs::read_dir("/proc/self/fd").map(|d| d.count() as i64).unwrap_or(-1)
}

/// lookups along a path; every entry obtained is returned so that the caller can forget the temporary ones
fn chain(fs: &OverlayFs, ctx: &Context, p: &[String], got: &mut Vec<u64>) -> Result<u64, i64> {
    let mut ino = ROOT;
    for c in p {
        let e = fs.lookup(ctx, ino, cstr(c).as_c_str()).map_err(|e| errno_of(&e))?;
        if e.inode == 0 {
            return Err(libc::ENOENT as i64);
        }
        got.push(e.inode);
        ino = e.inode;
    }
    Ok(ino)
}

impl Scn {
    fn refs_step(&mut self, cl: &mut Client, op: &Value, tr: &mut Trace) {
        let kind = op["op"].as_str().unwrap_or("").to_string();
        let lab = op["as"].as_str().unwrap_or("").to_string();
        let mut ev = op.clone();
        if !op["c"].is_null() {
            ev["c"] = Value::Array(parse_runs(&op["c"]).into_iter().map(|(s, i, n)| json!([s, i, n])).collect());
        }
        ev["e"] = json!("Op");
        ev["seg"] = json!(self.seg);
        let ctx = Context::default();
        let fs = match self.fs.as_ref() {
            Some(f) => f,
            None => return,
        };
        match kind.as_str() {
            "lookup" => {
                let p = path_of(&op["p"]);
                let r = catch_unwind(AssertUnwindSafe(|| {
                    let mut tmp = Vec::new();
                    let r = chain(fs, &ctx, &p, &mut tmp);
                    // the last entry is the one the client keeps
                    let kept = if r.is_ok() { tmp.pop() } else { None };
                    for i in tmp.into_iter().rev() {
                        fs.forget(&ctx, i, 1);
                    }
                    (r, kept)
                }));
                match r {
                    Ok((Ok(_), Some(k))) => {
                        cl.take(&lab, k);
                        if let Some(m) = op["mn"].as_u64() {
                            cl.model.insert(m, k);
                        }
                        ev["st"] = json!(0);
                        ev["ino"] = json!(k);
                    }
                    Ok((Err(e), _)) => ev["st"] = json!(e),
                    Ok(_) => ev["st"] = json!(-8),
                    Err(_) => ev["st"] = json!(-2),
                }
            }
            "rdplus" => {
                let p = path_of(&op["p"]);
                let r = catch_unwind(AssertUnwindSafe(|| {
                    let mut tmp = Vec::new();
                    let res = chain(fs, &ctx, &p, &mut tmp).and_then(|dir| {
                        let (h, _) = fs.opendir(&ctx, dir, libc::O_RDONLY as u32).map_err(|e| errno_of(&e))?;
                        let h = h.unwrap_or(0);
                        let mut ents: Vec<(String, u64)> = Vec::new();
                        let mut offset = 0u64;
                        let mut err = None;
                        for _ in 0..1000 {
                            let mut cnt = 0;
                            let r = fs.readdirplus(&ctx, dir, h, 65536, offset, &mut |d, e| {
                                cnt += 1;
                                offset = d.offset;
                                ents.push((String::from_utf8_lossy(d.name).into_owned(), e.inode));
                                Ok(1)
                            });
                            if let Err(e) = r {
                                err = Some(errno_of(&e));
                                break;
                            }
                            if cnt == 0 {
                                break;
                            }
                        }
                        let _ = fs.releasedir(&ctx, dir, libc::O_RDONLY as u32, h);
                        match err {
                            Some(e) if ents.is_empty() => Err(e),
                            _ => Ok(ents),
                        }
                    });
                    for i in tmp.into_iter().rev() {
                        fs.forget(&ctx, i, 1);
                    }
                    res
                }));
                match r {
                    Ok(Ok(ents)) => {
                        // like the kernel, the client takes no reference for "." and ".."
                        for (n, i) in ents.iter() {
                            if n != "." && n != ".." && *i != 0 {
                                let mut q = p.clone();
                                q.push(n.clone());
                                cl.take(&format!("{}:{}", lab, n), *i);
                                if let Some(m) = op["mns"][n.as_str()].as_u64() {
                                    cl.model.insert(m, *i);
                                }
                            }
                        }
                        ev["st"] = json!(0);
                        ev["ents"] = json!(ents.iter().map(|(n, i)| json!([n, i])).collect::<Vec<_>>());
                    }
                    Ok(Err(e)) => ev["st"] = json!(e),
                    Err(_) => ev["st"] = json!(-2),
                }
            }
            "forget" => {
                let n = op["n"].as_u64().unwrap_or(1);
                let mut tgt = cl.forget_target(op);
                if let (Some(m), Some(h)) = (op["mn"].as_u64(), op["hint"].as_array()) {
                    // a number of a TLC history that the client was never given: learn the real one behind the
                    // hinted name by a lookup that is forgotten again at once
                    if !cl.model.contains_key(&m) && !h.is_empty() {
                        let mut tmp = Vec::new();
                        if let Ok(k) = chain(fs, &ctx, &path_of(&op["hint"]), &mut tmp) {
                            tgt = Some(k);
                        }
                        for i in tmp.into_iter().rev() {
                            fs.forget(&ctx, i, 1);
                        }
                    }
                }
                match tgt {
                    Some(i) => {
                        ev["held"] = json!(cl.counts.get(&i).copied().unwrap_or(0));
                        let r = catch_unwind(AssertUnwindSafe(|| fs.forget(&ctx, i, n)));
                        cl.dec(i, n);
                        ev["ino"] = json!(i);
                        ev["st"] = json!(if r.is_ok() { 0 } else { -2 });
                    }
                    None => ev["st"] = json!(-7),
                }
            }
            "batch_forget" => {
                let mut items = Vec::new();
                for it in op["items"].as_array().cloned().unwrap_or_default() {
                    if let Some(i) = cl.target(&it[0]) {
                        items.push((i, it[1].as_u64().unwrap_or(1)));
                    }
                }
                let req = items.clone();
                let r = catch_unwind(AssertUnwindSafe(|| fs.batch_forget(&ctx, req)));
                for (i, n) in items.iter() {
                    cl.dec(*i, *n);
                }
                ev["items"] = json!(items.iter().map(|(i, n)| json!([i, n])).collect::<Vec<_>>());
                ev["st"] = json!(if r.is_ok() { 0 } else { -2 });
            }
            _ => {
                let blocks = &mut self.blocks;
                let slots = &mut self.slots;
                let r = catch_unwind(AssertUnwindSafe(|| {
                    let mut ex = Exec { fs, ctx: Context::default(), looked: Vec::new(), slots, keep: true, kept: None };
                    let r = ex.run(op, blocks);
                    ex.forget_all();
                    (r, ex.kept)
                }));
                match r {
                    Ok((Ok(()), kept)) => {
                        ev["st"] = json!(0);
                        if let Some(k) = kept {
                            cl.take(&lab, k);
                            if let Some(m) = op["mn"].as_u64() {
                                cl.model.insert(m, k);
                            }
                            ev["ino"] = json!(k);
                        }
                    }
                    Ok((Err(e), kept)) => {
                        ev["st"] = json!(e);
                        // an entry handed out by a request that then failed is still a reference
                        if let Some(k) = kept {
                            cl.take(&lab, k);
                            ev["ino"] = json!(k);
                        }
                    }
                    Err(_) => ev["st"] = json!(-2),
                }
            }
        }
        tr.emit(&ev);
        self.refs_observe(cl, tr);
    }

    fn refs_observe(&mut self, cl: &Client, tr: &mut Trace) {
        let seg = self.seg;
        let fs = match self.fs.as_ref() {
            Some(f) => f,
            None => return,
        };
        tr.emit(&json!({"e":"View","seg":seg,"rows":walk(fs, &self.blocks, &self.names)}));
        // probe every number the client ever held, the root and a number never handed out
        let ctx = Context::default();
        let mut seen = std::collections::HashSet::new();
        let mut rows = Vec::new();
        let mut todo: Vec<(String, u64)> = vec![("root".into(), ROOT)];
        for l in cl.order.iter() {
            todo.push((l.clone(), cl.labels[l]));
        }
        todo.push(("unknown".into(), 4242));
        for (lab, ino) in todo {
            if !seen.insert(ino) {
                continue;
            }
            let held = cl.counts.get(&ino).copied().unwrap_or(0);
            let r = catch_unwind(AssertUnwindSafe(|| fs.getattr(&ctx, ino, None)));
            let mut row = json!({"lab": lab, "ino": ino, "held": held});
            match r {
                Ok(Ok((st, _))) => {
                    row["st"] = json!(0);
                    row["t"] = json!(type_of(st.st_mode, st.st_rdev));
                    row["m"] = json!(st.st_mode & 0o7777);
                    row["sz"] = json!(st.st_size);
                }
                Ok(Err(e)) => row["st"] = json!(errno_of(&e)),
                Err(_) => row["st"] = json!(-2),
            }
            rows.push(row);
        }
        tr.emit(&json!({"e":"Probe","seg":seg,"rows":rows}));
        // descriptors this (fully walked) instance holds beyond a fresh instance over the same directories walked the
        // same way: while the client holds nothing this must not grow (released nodes let go of their layer inodes)
        let total = nfds() - self.fd0;
        let n2 = nfds();
        let fresh = match catch_unwind(AssertUnwindSafe(|| build_overlay(self.upper.as_deref(), &self.lowers, &self.base.join("work")))) {
            Ok(Ok(fs2)) => {
                let _ = walk(&fs2, &self.blocks, &self.names);
                let f = nfds() - n2;
                drop(fs2);
                f
            }
            _ => -1,
        };
        tr.emit(&json!({"e":"Fds","seg":seg,"live":total,"fresh":fresh}));
    }
}

/// systematic reference histories: forget to zero, forget of deleted-but-referenced numbers, over-forget,
/// unknown numbers, refused requests, rename over a referenced file, hard links, readdirplus, batch_forget
fn refs_systematic() -> Vec<Value> {
    let upper = json!([{"p":["b"],"t":"file","m":0o644,"c":[["Rb",0,1]]}, {"p":["c"],"t":"dir","m":0o755},
                       {"p":["c","a"],"t":"file","m":0o600,"c":[["Rca",0,2]]}]);
    let lower = json!([{"p":["a"],"t":"file","m":0o640,"c":[["Ra",0,1]]}, {"p":["c"],"t":"dir","m":0o750},
                       {"p":["c","b"],"t":"file","m":0o604,"c":[["Rcb",0,1]]}]);
    let hs: Vec<(&str, Value)> = vec![
        ("zero-deleted", json!([{"op":"lookup","p":["a"],"as":"x"},{"op":"unlink","p":["a"]},{"op":"forget","of":"x","n":1}])),
        ("recreate", json!([{"op":"lookup","p":["b"],"as":"y"},{"op":"lookup","p":["b"],"as":"y"},{"op":"forget","of":"y","n":1},
                            {"op":"unlink","p":["b"]},{"op":"create","p":["b"],"m":0o600,"excl":true,"as":"z"},{"op":"forget","of":"y","n":1},
                            {"op":"forget","of":"z","n":1}])),
        ("recreate-lower", json!([{"op":"lookup","p":["a"],"as":"x"},{"op":"unlink","p":["a"],"as":"v"},{"op":"create","p":["a"],"m":0o600,"as":"z"},
                                  {"op":"forget","of":"x","n":2},{"op":"lookup","p":["a"],"as":"z2"},{"op":"forget","of":"z","n":2}])),
        ("over-forget", json!([{"op":"lookup","p":["b"],"as":"y"},{"op":"forget","of":"y","n":3},{"op":"lookup","p":["b"],"as":"y2"}])),
        ("unknown", json!([{"op":"forget","ino":4242,"n":5},{"op":"forget","ino":1,"n":100},{"op":"lookup","p":["a"],"as":"x"},
                           {"op":"batch_forget","items":[[4243,1],[1,7],["x",1]]}])),
        ("refused", json!([{"op":"lookup","p":["c","c"],"as":"n"},{"op":"create","p":["b"],"m":0o600,"excl":true,"as":"e"},{"op":"mkdir","p":["a"],"m":0o755,"as":"e2"},
                           {"op":"rmdir","p":["c"]},{"op":"unlink","p":["c","c"]},{"op":"link","src":["c"],"p":["a","a"],"as":"e3"},
                           {"op":"symlink","p":["c","a"],"tg":"t","as":"e4"},{"op":"lookup","p":["b"],"as":"y"}])),
        ("rename-over", json!([{"op":"lookup","p":["b"],"as":"y"},{"op":"lookup","p":["a"],"as":"x"},{"op":"rename","p":["a"],"to":["b"]},
                               {"op":"rename","p":["c","a"],"to":["b"]},{"op":"forget","of":"y","n":1}])),
        ("hard-links", json!([{"op":"lookup","p":["b"],"as":"y"},{"op":"link","src":["b"],"p":["c","c"],"as":"k"},{"op":"unlink","p":["b"]},
                              {"op":"forget","of":"y","n":1},{"op":"link","src":["c","c"],"p":["b"],"as":"k2"},{"op":"unlink","p":["c","c"]},
                              {"op":"forget","of":"k","n":1},{"op":"link","src":["a"],"p":["c","c"],"as":"k3"}])),
        ("readdirplus", json!([{"op":"rdplus","p":[],"as":"r"},{"op":"rdplus","p":["c"],"as":"s"},{"op":"unlink","p":["c","a"]},
                               {"op":"batch_forget","items":[["s:a",1],["s:b",1]]},{"op":"unlink","p":["c","b"]},{"op":"rmdir","p":["c"]},
                               {"op":"batch_forget","items":[["r:a",1],["r:b",1],["r:c",1]]}])),
        ("new-dirs", json!([{"op":"mkdir","p":["c","c"],"m":0o700,"as":"d"},{"op":"symlink","p":["c","c","a"],"tg":"t","as":"s"},
                            {"op":"mknod","p":["c","c","b"],"m":0o600,"kind":"reg","as":"f"},{"op":"rdplus","p":["c","c"],"as":"r"},
                            {"op":"unlink","p":["c","c","a"]},{"op":"unlink","p":["c","c","b"]},{"op":"rmdir","p":["c","c"],"as":"v"},
                            {"op":"forget","of":"d","n":2},{"op":"batch_forget","items":[["s",2],["f",2]]}])),
    ];
    let mut out = Vec::new();
    for (id, ops) in hs.iter() {
        out.push(json!({"id": id, "B": 16, "upper": true, "names": ["a","b","c"], "depth": 3, "layers": [upper.clone(), lower.clone()], "ops": ops}));
    }
    out.push(json!({"id": "no-upper", "B": 16, "upper": false, "names": ["a","b","c"], "depth": 3, "layers": [lower.clone()],
                    "ops": [{"op":"lookup","p":["a"],"as":"x"},{"op":"unlink","p":["a"]},{"op":"create","p":["b"],"m":0o600,"as":"z"},
                            {"op":"rdplus","p":["c"],"as":"r"},{"op":"forget","of":"x","n":1}]}));
    out
}

/// next operation of a random reference history, chosen from the last logged view and the client's labels
fn refs_random_op(g: &mut Gen, view: &Value, cl: &Client, step: u64) -> Value {
    let empty = vec![];
    let rows = view.as_array().unwrap_or(&empty);
    let paths = |t: &[&str]| -> Vec<Vec<String>> { rows.iter().filter(|r| t.contains(&r["t"].as_str().unwrap_or(""))).map(|r| path_of(&r["p"])).collect() };
    let all = paths(&["file", "dir", "sym", "fifo"]);
    let dirs = paths(&["dir"]);
    let nondirs = paths(&["file", "sym", "fifo"]);
    let pick = |g: &mut Gen, v: &Vec<Vec<String>>| -> Vec<String> { if v.is_empty() || g.rng.chance(1, 10) { g.rand_path() } else { v[g.rng.below(v.len() as u64) as usize].clone() } };
    let newp = |g: &mut Gen| -> Vec<String> {
        let mut base = if dirs.is_empty() || g.rng.chance(1, 3) { vec![] } else { dirs[g.rng.below(dirs.len() as u64) as usize].clone() };
        if base.len() >= g.depth {
            base.truncate(g.depth - 1);
        }
        base.push(g.rng.pick(&g.names).clone());
        base
    };
    let lab = format!("n{}", step);
    let held: Vec<&String> = cl.order.iter().filter(|l| cl.counts.get(&cl.labels[*l]).copied().unwrap_or(0) > 0).collect();
    let r = g.rng.below(100);
    if r < 22 {
        json!({"op":"lookup","p":pick(g, &all),"as":lab})
    } else if r < 30 {
        json!({"op":"create","p":newp(g),"m":*g.rng.pick(&FMODES),"excl":g.rng.chance(1,2),"as":lab})
    } else if r < 36 {
        json!({"op":"mkdir","p":newp(g),"m":*g.rng.pick(&DMODES),"as":lab})
    } else if r < 39 {
        json!({"op":"symlink","p":newp(g),"tg":"t","as":lab})
    } else if r < 45 {
        json!({"op":"link","src":pick(g, &nondirs),"p":newp(g),"as":lab})
    } else if r < 57 {
        if g.rng.chance(1, 3) { json!({"op":"unlink","p":pick(g, &nondirs),"as":lab}) } else { json!({"op":"unlink","p":pick(g, &nondirs)}) }
    } else if r < 64 {
        if g.rng.chance(1, 3) { json!({"op":"rmdir","p":pick(g, &dirs),"as":lab}) } else { json!({"op":"rmdir","p":pick(g, &dirs)}) }
    } else if r < 72 {
        let d = if g.rng.chance(1, 3) { vec![] } else { pick(g, &dirs) };
        json!({"op":"rdplus","p":d,"as":lab})
    } else if r < 75 {
        json!({"op":"rename","p":pick(g, &all),"to":pick(g, &all)})
    } else if r < 78 {
        json!({"op":"chmod","p":pick(g, &nondirs),"m":*g.rng.pick(&FMODES)})
    } else if held.is_empty() {
        json!({"op":"lookup","p":pick(g, &all),"as":lab})
    } else if r < 93 {
        let l = held[g.rng.below(held.len() as u64) as usize].clone();
        let have = cl.counts[&cl.labels[&l]];
        let n = if g.rng.chance(1, 2) { have } else { 1 };
        json!({"op":"forget","of":l,"n":n})
    } else if r < 98 {
        let mut items = Vec::new();
        let mut used = std::collections::HashSet::new();
        for _ in 0..g.rng.range(1, 3) {
            let l = held[g.rng.below(held.len() as u64) as usize].clone();
            if used.insert(cl.labels[&l]) {
                items.push(json!([l, 1]));
            }
        }
        json!({"op":"batch_forget","items":items})
    } else if r < 99 {
        json!({"op":"forget","ino":4242 + step,"n":g.rng.range(1, 3)})
    } else {
        let l = held[g.rng.below(held.len() as u64) as usize].clone();
        json!({"op":"forget","of":l,"n":cl.counts[&cl.labels[&l]] + g.rng.range(1, 2)})
    }
}

fn refs_run(work: &Path, seg: u64, scn: &Value, tr: &mut Trace) {
    let mut s = Scn::setup(work, seg, scn, tr);
    let mut cl = Client::default();
    s.refs_observe(&cl, tr);
    for op in scn["ops"].as_array().cloned().unwrap_or_default() {
        s.refs_step(&mut cl, &op, tr);
    }
    if let Some(n) = scn["random_ops"].as_u64() {
        let mut g = Gen { rng: Rng::new(scn["seed"].as_u64().unwrap_or(1)), names: s.names.clone(), depth: 3, stream: 0, big: false };
        for step in 0..n {
            let view = match s.fs.as_ref() {
                Some(fs) => walk(fs, &s.blocks, &s.names),
                None => json!([]),
            };
            let op = refs_random_op(&mut g, &view, &cl, step);
            s.refs_step(&mut cl, &op, tr);
        }
    }
    // the client lets go of everything it still holds; then both instances are fully loaded and compared
    let held: Vec<(u64, u64)> = cl.counts.iter().filter(|(_, c)| **c > 0).map(|(i, c)| (*i, *c)).collect();
    let mut held = held;
    held.sort();
    for (i, c) in held {
        s.refs_step(&mut cl, &json!({"op":"forget","ino":i,"n":c,"final":true}), tr);
    }
    tr.emit(&json!({"e":"End","seg":seg}));
    s.finish();
}

// ------------------------------------------------------------------------------------------------
// one scenario

struct Scn {
    seg: u64,
    base: PathBuf,
    upper: Option<PathBuf>,
    lowers: Vec<PathBuf>,
    blocks: Blocks,
    names: Vec<String>,
    fs: Option<OverlayFs>,
    slots: Vec<Option<Slot>>,
    fd0: i64,
}

impl Scn {
    fn setup(work: &Path, seg: u64, scn: &Value, tr: &mut Trace) -> Scn {
        let base = work.join(format!("s{}", seg));
        let _ = std::fs::remove_dir_all(&base);
        std::fs::create_dir_all(&base).unwrap();
        let b = scn["B"].as_u64().unwrap_or(16) as usize;
        let mut blocks = Blocks::new(b);
        NO_OPEN.store(scn["no_open"].as_bool().unwrap_or(false), std::sync::atomic::Ordering::Relaxed);
        let has_upper = scn["upper"].as_bool().unwrap_or(true);
        let layers = scn["layers"].as_array().cloned().unwrap_or_default();
        let names: Vec<String> = scn["names"].as_array().map(|a| a.iter().map(|x| x.as_str().unwrap().to_string()).collect())
            .unwrap_or_else(|| vec!["a".into(), "b".into()]);
        let mut upper = None;
        let mut lowers = Vec::new();
        for (k, rows) in layers.iter().enumerate() {
            let d = if has_upper && k == 0 { base.join("upper") } else { base.join(format!("l{}", if has_upper { k } else { k + 1 })) };
            materialise(&d, rows, &mut blocks);
            if has_upper && k == 0 {
                upper = Some(d);
            } else {
                lowers.push(d);
            }
        }
        if has_upper && upper.is_none() {
            let d = base.join("upper");
            std::fs::create_dir_all(&d).unwrap();
            upper = Some(d);
        }
        std::fs::create_dir_all(base.join("work")).unwrap();
        tr.emit(&json!({"e":"Reset","seg":seg,"id":scn["id"].as_str().unwrap_or("scn"),"B":b,"upper":has_upper,"nl":lowers.len(),"names":names,
                        "no_open": no_open(),
                        "depth": scn["depth"].as_u64().unwrap_or(2)}));
        // the Layers event is read back from the host (what is really on disk)
        let up_rows = upper.as_ref().map(|u| host_rows(u, &blocks, true)).unwrap_or_default();
        let low_rows: Vec<Value> = lowers.iter().map(|l| Value::Array(host_rows(l, &blocks, true))).collect();
        // "ro": opaque marker of each layer's ROOT directory (upper first when there is one)
        let mut ro: Vec<String> = Vec::new();
        if let Some(u) = upper.as_ref() {
            ro.push(root_opq(u));
        }
        for l in lowers.iter() {
            ro.push(root_opq(l));
        }
        tr.emit(&json!({"e":"Layers","seg":seg,"upper":up_rows,"lowers":low_rows,"ro":ro}));
        let mut s = Scn { seg, base, upper, lowers, blocks, names, fs: None, slots: vec![None, None, None], fd0: nfds() };
        match catch_unwind(AssertUnwindSafe(|| build_overlay(s.upper.as_deref(), &s.lowers, &s.base.join("work")))) {
            Ok(Ok(fs)) => s.fs = Some(fs),
            Ok(Err(e)) => tr.emit(&json!({"e":"BuildError","seg":seg,"st":errno_of(&e),"msg":e.to_string()})),
            Err(_) => tr.emit(&json!({"e":"BuildError","seg":seg,"st":-2})),
        }
        s
    }

    fn observe(&mut self, tr: &mut Trace) -> Value {
        let seg = self.seg;
        let view = match &self.fs {
            Some(fs) => walk(fs, &self.blocks, &self.names),
            None => json!([]),
        };
        tr.emit(&json!({"e":"View","seg":seg,"rows":view}));
        let restarted = match catch_unwind(AssertUnwindSafe(|| build_overlay(self.upper.as_deref(), &self.lowers, &self.base.join("work")))) {
            Ok(Ok(fs2)) => walk(&fs2, &self.blocks, &self.names),
            Ok(Err(e)) => json!([{"p": [], "t": "build-error", "st": errno_of(&e)}]),
            Err(_) => json!([{"p": [], "t": "panic"}]),
        };
        tr.emit(&json!({"e":"Restarted","seg":seg,"rows":restarted}));
        for (k, l) in self.lowers.iter().enumerate() {
            tr.emit(&json!({"e":"Lower","seg":seg,"k":k + 1,"digest":host_digest(l)}));
        }
        let up_rows = self.upper.as_ref().map(|u| host_rows(u, &self.blocks, false)).unwrap_or_default();
        tr.emit(&json!({"e":"UpperRaw","seg":seg,"rows":up_rows}));
        view
    }

    fn step(&mut self, op: &Value, tr: &mut Trace) -> Value {
        // operations through a kept handle are logged with the path the handle was opened on
        let slot_path = op["slot"].as_u64().and_then(|k| self.slots.get(k as usize).cloned().flatten()).map(|s| s.path);
        let st = match &self.fs {
            Some(fs) => apply(fs, op, &mut self.blocks, &mut self.slots),
            None => -5,
        };
        let mut ev = op.clone();
        if op["p"].is_null() {
            ev["p"] = json!(slot_path.unwrap_or_default());
        }
        if !op["c"].is_null() {
            // contents always cross the log as runs
            ev["c"] = Value::Array(parse_runs(&op["c"]).into_iter().map(|(s, i, n)| json!([s, i, n])).collect());
        }
        if no_open() {
            ev["noopen"] = json!(true);
        }
        if op["op"] == "symlink" && std::str::from_utf8(&target_bytes(op["tg"].as_str().unwrap_or(""))).is_err() {
            ev["tgx"] = json!(true);
        }
        ev["e"] = json!("Op");
        ev["seg"] = json!(self.seg);
        ev["st"] = json!(st);
        tr.emit(&ev);
        self.observe(tr)
    }

    fn finish(mut self) {
        self.fs.take();
        let _ = std::fs::remove_dir_all(&self.base);
    }
}

// ------------------------------------------------------------------------------------------------
// random driver

// sticky and read-only directories included (no set-gid ones: children would inherit the bit on the host)
const DMODES: [u32; 8] = [0o755, 0o700, 0o775, 0o711, 0o1777, 0o1770, 0o555, 0o500];
// files without the owner-write bit included (the driver runs as root: modes never block an operation)
const FMODES: [u32; 8] = [0o644, 0o600, 0o664, 0o755, 0o444, 0o555, 0o060, 0o000];

struct Gen {
    rng: Rng,
    names: Vec<String>,
    depth: usize,
    stream: u64,
    big: bool,
}

impl Gen {
    fn fresh(&mut self, pfx: &str) -> String {
        self.stream += 1;
        format!("{}{}", pfx, self.stream)
    }
    fn content(&mut self, pfx: &str, allow_big: bool) -> Value {
        let n = if allow_big && self.big && self.rng.chance(1, 3) { self.rng.range(65, 150) } else { self.rng.below(4) };
        if n == 0 {
            json!([])
        } else {
            json!([[self.fresh(pfx), 0, n]])
        }
    }
    fn layer(&mut self, k: usize, dir: &mut Vec<String>, out: &mut Vec<Value>) {
        let names = self.names.clone();
        for n in names {
            if !self.rng.chance(1, 2) {
                continue;
            }
            dir.push(n);
            let r = self.rng.below(100);
            if r < 40 {
                let opq = if self.rng.chance(1, 4) { *self.rng.pick(&["trusted", "user", "fuse"]) } else { "" };
                let mut row = json!({"p": dir.clone(), "t": "dir", "m": *self.rng.pick(&DMODES), "opq": opq});
                if self.rng.chance(1, 6) {
                    row["x"] = json!([["user.k", format!("d{}", k)]]);
                }
                out.push(row);
                if dir.len() < self.depth {
                    self.layer(k, dir, out);
                }
            } else if r < 72 {
                let c = self.content(&format!("L{}_", k), true);
                let mut row = json!({"p": dir.clone(), "t": "file", "m": *self.rng.pick(&FMODES), "c": c});
                if self.rng.chance(1, 6) {
                    row["x"] = json!([["user.k", format!("f{}", k)]]);
                }
                out.push(row);
            } else if r < 84 {
                out.push(json!({"p": dir.clone(), "t": "sym", "tg": format!("tgt{}_{}", k, self.rng.below(100))}));
            } else {
                out.push(json!({"p": dir.clone(), "t": "wh"}));
            }
            dir.pop();
        }
    }
    fn rand_path(&mut self) -> Vec<String> {
        let d = self.rng.range(1, self.depth as u64) as usize;
        (0..d).map(|_| self.rng.pick(&self.names).clone()).collect()
    }
    /// choose the next operation looking only at the last logged view rows
    fn op(&mut self, view: &Value) -> Value {
        let empty = vec![];
        let rows = view.as_array().unwrap_or(&empty);
        let of_type = |t: &[&str]| -> Vec<&Value> { rows.iter().filter(|r| t.contains(&r["t"].as_str().unwrap_or(""))).collect() };
        let dirs = of_type(&["dir"]);
        let files = of_type(&["file"]);
        let nondirs = of_type(&["file", "sym", "fifo"]);
        let anyrow = of_type(&["file", "sym", "fifo", "dir"]);
        let pick_row = |g: &mut Gen, v: &Vec<&Value>| -> Option<Vec<String>> {
            if v.is_empty() { None } else { Some(path_of(&v[g.rng.below(v.len() as u64) as usize]["p"])) }
        };
        // a new-entry path: an existing directory (or the root) plus a random name
        let newp = |g: &mut Gen| -> Vec<String> {
            if g.rng.chance(1, 8) {
                return g.rand_path();
            }
            let mut base: Vec<String> = if g.rng.chance(1, 3) || dirs.is_empty() { vec![] } else { pick_row(g, &dirs).unwrap() };
            if base.len() >= g.depth {
                base.truncate(g.depth - 1);
            }
            base.push(g.rng.pick(&g.names).clone());
            base
        };
        // big scenarios: regularly modify a multi-MiB file in place (copy-up across the 4 MiB copy loop)
        if self.big && self.rng.chance(1, 4) {
            let bigs: Vec<&Value> = files.iter().filter(|x| parse_runs(&x["c"]).iter().map(|t| t.2).sum::<u64>() >= 65).cloned().collect();
            if let Some(p) = pick_row(self, &bigs) {
                let len = rows.iter().find(|x| path_of(&x["p"]) == p).map(|x| parse_runs(&x["c"]).iter().map(|t| t.2).sum::<u64>()).unwrap_or(0);
                return match self.rng.below(3) {
                    0 => json!({"op":"write","p":p,"off":self.rng.below(len),"c":[[self.fresh("w"), 0, 1]],"rdwr":self.rng.chance(1,2)}),
                    1 => json!({"op":"chmod","p":p,"m":*self.rng.pick(&FMODES)}),
                    _ => json!({"op":"setxattr","p":p,"n":"user.j","v":"big"}),
                };
            }
        }
        // OPEN flag words beyond the access mode, and handles kept open across later operations
        if self.rng.chance(1, 6) {
            let k = self.rng.below(3);
            let f = pick_row(self, &files);
            let fp = match f {
                Some(p) if !self.rng.chance(1, 10) => p,
                _ => self.rand_path(),
            };
            let acc = *self.rng.pick(&["r", "r", "w", "rw"]);
            return match self.rng.below(10) {
                0 | 1 => json!({"op":"open","p":fp,"acc":acc,"trunc":self.rng.chance(1,2),"app":self.rng.chance(1,3)}),
                2 | 3 | 4 => json!({"op":"open","p":fp,"acc":acc,"trunc":false,"app":self.rng.chance(1,4),"keep":k}),
                5 | 6 => json!({"op":"hsetattr","slot":k,"what":"mode","m":*self.rng.pick(&FMODES)}),
                7 => json!({"op":"hwrite","slot":k,"off":self.rng.below(3),"c":[[self.fresh("h"), 0, 1]]}),
                8 => json!({"op":"hprobe","slot":k}),
                _ => if self.rng.chance(1, 2) { json!({"op":"close","slot":k}) } else { json!({"op":"hsetattr","slot":k,"what":"size","len":self.rng.below(4)}) },
            };
        }
        let r = self.rng.below(100);
        let or_rand = |g: &mut Gen, v: Option<Vec<String>>| -> Vec<String> {
            match v {
                Some(p) if !g.rng.chance(1, 8) => p,
                _ => g.rand_path(),
            }
        };
        if r < 10 {
            json!({"op":"create","p":newp(self),"m":*self.rng.pick(&FMODES),"excl":self.rng.chance(1,2)})
        } else if r < 22 {
            json!({"op":"mkdir","p":newp(self),"m":*self.rng.pick(&DMODES)})
        } else if r < 27 {
            json!({"op":"mknod","p":newp(self),"m":*self.rng.pick(&FMODES),"kind": if self.rng.chance(1,4) {"fifo"} else {"reg"}})
        } else if r < 33 {
            json!({"op":"symlink","p":newp(self),"tg":format!("t{}", self.rng.below(1000))})
        } else if r < 40 {
            let s = pick_row(self, &nondirs);
            let s = or_rand(self, s);
            json!({"op":"link","src":s,"p":newp(self)})
        } else if r < 54 {
            let s = if self.rng.chance(1, 10) { pick_row(self, &dirs) } else { pick_row(self, &nondirs) };
            // an API client need not look the victim up first (the kernel does): one removal in three goes in blind
            let nl = self.rng.chance(1, 3);
            json!({"op":"unlink","p":or_rand(self, s),"nolookup":nl})
        } else if r < 66 {
            let s = if self.rng.chance(1, 10) { pick_row(self, &nondirs) } else { pick_row(self, &dirs) };
            let nl = self.rng.chance(1, 3);
            json!({"op":"rmdir","p":or_rand(self, s),"nolookup":nl})
        } else if r < 80 {
            let s = pick_row(self, &files);
            let p = or_rand(self, s);
            let len = rows.iter().find(|x| path_of(&x["p"]) == p).map(|x| parse_runs(&x["c"]).iter().map(|t| t.2).sum::<u64>()).unwrap_or(0);
            let off = self.rng.below(len + 2);
            let c = if self.big && self.rng.chance(1, 6) { json!([[self.fresh("w"), 0, self.rng.range(65, 80)]]) } else { json!([[self.fresh("w"), 0, self.rng.range(1, 2)]]) };
            json!({"op":"write","p":p,"off":off,"c":c,"rdwr":self.rng.chance(1,3)})
        } else if r < 85 {
            let s = pick_row(self, &files);
            let p = or_rand(self, s);
            let len = rows.iter().find(|x| path_of(&x["p"]) == p).map(|x| parse_runs(&x["c"]).iter().map(|t| t.2).sum::<u64>()).unwrap_or(0);
            json!({"op":"truncate","p":p,"len":self.rng.below(len + 2)})
        } else if r < 92 {
            let s = pick_row(self, &anyrow);
            let p = or_rand(self, s);
            let isdir = rows.iter().any(|x| path_of(&x["p"]) == p && x["t"] == "dir");
            json!({"op":"chmod","p":p,"m": if isdir { *self.rng.pick(&DMODES) } else { *self.rng.pick(&FMODES) }})
        } else if r < 97 {
            let s = if self.rng.chance(1, 2) { pick_row(self, &files) } else { pick_row(self, &dirs) };
            json!({"op":"setxattr","p":or_rand(self, s),"n":*self.rng.pick(&["user.k","user.j"]),"v":format!("v{}", self.rng.below(100))})
        } else if r < 99 {
            let s = if self.rng.chance(1, 2) { pick_row(self, &files) } else { pick_row(self, &dirs) };
            json!({"op":"removexattr","p":or_rand(self, s),"n":*self.rng.pick(&["user.k","user.j"])})
        } else {
            let s = pick_row(self, &anyrow);
            json!({"op":"rename","p":or_rand(self, s),"to":newp(self)})
        }
    }
}

/// Systematic scenarios (no randomness in the shapes, the seed only rotates the opaque marker names):
///  * union rules: one top-level name "a" whose entry in each layer is one of {absent, file, directory with a
///    child named after the layer, opaque directory with such a child, whiteout, symlink}: every combination over
///    upper + 2 lowers (216) and over 2 lowers without an upper (36); no operations, the initial View is judged;
///  * copy-up: lower-only directory chains with sticky / unusual modes and operations that copy up through them.
fn stacks(seed: u64) -> Vec<Value> {
    let kinds = ["none", "file", "dir", "odir", "wh", "sym"];
    let child = ["a", "b", "c"];
    let marks = ["trusted", "user", "fuse"];
    let dmodes = [0o755u32, 0o1777, 0o750, 0o1770, 0o711, 0o1755];
    let mut out = Vec::new();
    let mut idx = 0u64;
    let mut entry = |k: &str, layer: usize, idx: u64, rows: &mut Vec<Value>| {
        let tag = format!("S{}_{}", idx, layer);
        match k {
            "file" => rows.push(json!({"p":["a"],"t":"file","m":0o640 + layer as u32,"c":[[tag, 0, 1]]})),
            "dir" | "odir" => {
                let opq = if k == "odir" { marks[((idx + seed + layer as u64) % 3) as usize] } else { "" };
                rows.push(json!({"p":["a"],"t":"dir","m":dmodes[((idx + layer as u64) % 6) as usize],"opq":opq}));
                rows.push(json!({"p":["a", child[layer]],"t":"file","m":0o600 + layer as u32,"c":[[tag, 0, 1]]}));
            }
            "wh" => rows.push(json!({"p":["a"],"t":"wh"})),
            "sym" => rows.push(json!({"p":["a"],"t":"sym","tg":format!("tg{}", layer)})),
            _ => {}
        }
    };
    for u in kinds.iter() {
        for l1 in kinds.iter() {
            for l2 in kinds.iter() {
                idx += 1;
                let mut layers = vec![Vec::new(), Vec::new(), Vec::new()];
                entry(u, 0, idx, &mut layers[0]);
                entry(l1, 1, idx, &mut layers[1]);
                entry(l2, 2, idx, &mut layers[2]);
                out.push(json!({"id": format!("u3_{}_{}_{}", u, l1, l2), "B": 16, "upper": true, "names": ["a","b","c"], "depth": 3,
                                "layers": layers, "ops": []}));
            }
        }
    }
    for l1 in kinds.iter() {
        for l2 in kinds.iter() {
            idx += 1;
            let mut layers = vec![Vec::new(), Vec::new()];
            entry(l1, 1, idx, &mut layers[0]);
            entry(l2, 2, idx, &mut layers[1]);
            out.push(json!({"id": format!("n2_{}_{}", l1, l2), "B": 16, "upper": false, "names": ["a","b","c"], "depth": 3,
                            "layers": layers, "ops": []}));
        }
    }
    // copy-up through lower-only directories with their original (also sticky) modes
    let chains: [(u32, u32); 4] = [(0o1777, 0o1770), (0o1755, 0o700), (0o711, 0o1777), (0o750, 0o775)];
    for (ci, (ma, mb)) in chains.iter().enumerate() {
        let lower = json!([
            {"p":["a"],"t":"dir","m":ma}, {"p":["a","b"],"t":"dir","m":mb},
            {"p":["a","b","a"],"t":"file","m":0o640,"c":[[format!("C{}", ci), 0, 2]]},
            {"p":["a","b","b"],"t":"sym","tg":"cu"}, {"p":["a","a"],"t":"file","m":0o604,"c":[[format!("D{}", ci), 0, 1]]}
        ]);
        let opsets: Vec<Vec<Value>> = vec![
            vec![json!({"op":"create","p":["a","b","c"],"m":0o644,"excl":true}), json!({"op":"chmod","p":["a","a"],"m":0o600})],
            vec![json!({"op":"mkdir","p":["a","b","c"],"m":0o1777}), json!({"op":"rmdir","p":["a","b","c"]})],
            vec![json!({"op":"write","p":["a","b","a"],"off":1,"c":[[format!("W{}", ci), 0, 2]]}), json!({"op":"truncate","p":["a","b","a"],"len":1})],
            vec![json!({"op":"link","src":["a","b","b"],"p":["a","c"]}), json!({"op":"unlink","p":["a","b","b"]})],
            vec![json!({"op":"symlink","p":["a","b","c"],"tg":"x"}), json!({"op":"setxattr","p":["a","b"],"n":"user.j","v":"1"})],
            vec![json!({"op":"unlink","p":["a","b","a"]}), json!({"op":"mknod","p":["a","b","a"],"m":0o640,"kind":"reg"})],
        ];
        for (oi, ops) in opsets.into_iter().enumerate() {
            out.push(json!({"id": format!("cu{}_{}", ci, oi), "B": 16, "upper": true, "names": ["a","b","c"], "depth": 3,
                            "layers": [[], lower.clone()], "ops": ops}));
        }
    }
    // an opaque ROOT directory in each layer position, with each marker name: the union rules apply to the root like
    // to any other directory (the roots below an opaque one contribute nothing)
    for (mi, mk) in marks.iter().enumerate() {
        let lay = |k: usize, opq: &str| -> Value {
            // every layer: directory "c" with a file named after the layer; the two upper positions also a top-level file
            let mut rows = vec![json!({"p":["c"],"t":"dir","m":0o755}),
                                json!({"p":["c", child[k]],"t":"file","m":0o600 + k as u32,"c":[[format!("ROc{}{}", mi, k), 0, 1]]})];
            if k < 2 {
                rows.push(json!({"p":[child[k]],"t":"file","m":0o640 + k as u32,"c":[[format!("RO{}{}", mi, k), 0, 1]]}));
            }
            if !opq.is_empty() {
                rows.push(json!({"p":[],"t":"dir","opq":opq}));
            }
            Value::Array(rows)
        };
        for pos in 0..3usize {
            let layers: Vec<Value> = (0..3).map(|k| lay(k, if k == pos { mk } else { "" })).collect();
            out.push(json!({"id": format!("rootopq{}_{}", pos, mk), "B": 16, "upper": true, "names": ["a","b","c"], "depth": 3,
                            "layers": layers, "ops": [{"op":"create","p":["b"],"m":0o600,"excl":true}, {"op":"unlink","p":["a"]}]}));
        }
        for pos in 1..3usize {
            let layers: Vec<Value> = (1..3).map(|k| lay(k, if k == pos { mk } else { "" })).collect();
            out.push(json!({"id": format!("rootopq_nu{}_{}", pos, mk), "B": 16, "upper": false, "names": ["a","b","c"], "depth": 3,
                            "layers": layers, "ops": []}));
        }
    }
    // copy-up of lower regular files (and through lower directories) with read-only / odd modes: every trigger that
    // copies up without setting the mode itself - setxattr, link, an open for writing, a write - on its own file
    let fmodes: [u32; 6] = [0o444, 0o555, 0o060, 0o000, 0o4555, 0o2070];
    let dmodes2: [u32; 6] = [0o555, 0o500, 0o1555, 0o000, 0o755, 0o050];
    for (mi, fm) in fmodes.iter().enumerate() {
        let dm = dmodes2[mi];
        let f = |p: Value, tag: &str| json!({"p":p,"t":"file","m":fm,"c":[[format!("M{}{}", mi, tag), 0, 2]]});
        let lower = json!([{"p":["a"],"t":"dir","m":dm}, f(json!(["a","a"]), "aa"), f(json!(["a","b"]), "ab"), f(json!(["a","c"]), "ac"), f(json!(["b"]), "b")]);
        let mut ops = vec![json!({"op":"setxattr","p":["a","a"],"n":"user.j","v":"1"}), json!({"op":"link","src":["a","b"],"p":["c"]}),
                           json!({"op":"open","p":["a","c"],"acc":"w","trunc":false,"app":false})];
        if fm & 0o6000 == 0 {
            // (writing may legitimately clear set-id bits: content triggers only on files without them)
            ops.push(json!({"op":"write","p":["b"],"off":1,"c":[[format!("MW{}", mi), 0, 1]]}));
        } else {
            ops.push(json!({"op":"open","p":["b"],"acc":"rw","trunc":false,"app":true}));
        }
        out.push(json!({"id": format!("modes{}", mi), "B": 16, "upper": true, "names": ["a","b","c"], "depth": 3,
                        "layers": [[], lower], "ops": ops}));
    }
    // symbolic links whose target is not valid UTF-8 (and one that is, multi-byte): every trigger that copies the
    // link up (link; chmod / setxattr of a symlink are left free) - refusing is fine, changing the target is not
    {
        let lower = json!([{"p":["a"],"t":"sym","tg":"x:74ff80fe"}, {"p":["b"],"t":"sym","tg":"t\u{00e4}\u{20ac}"},
                           {"p":["c"],"t":"dir","m":0o755}, {"p":["c","a"],"t":"sym","tg":"x:c3287a"}, {"p":["c","b"],"t":"sym","tg":"x:ff"}]);
        out.push(json!({"id": "nonutf8", "B": 16, "upper": true, "names": ["a","b","c"], "depth": 3, "layers": [[], lower.clone()],
                        "ops": [{"op":"link","src":["a"],"p":["c","c"]}, {"op":"link","src":["b"],"p":["a","a"]}, {"op":"link","src":["c","a"],"p":["a"]},
                                {"op":"chmod","p":["c","b"],"m":0o777}, {"op":"setxattr","p":["c","b"],"n":"user.j","v":"1"},
                                {"op":"unlink","p":["c","a"]}, {"op":"symlink","p":["c","a"],"tg":"x:80"}]}));
        out.push(json!({"id": "nonutf8b", "B": 16, "upper": true, "names": ["a","b","c"], "depth": 3, "layers": [[], lower],
                        "ops": [{"op":"link","src":["c","b"],"p":["b"]}, {"op":"link","src":["c","a"],"p":["c","c"]}, {"op":"link","src":["b"],"p":["c","c"]}]}));
    }
    // no_open negotiated (ZERO_MESSAGE_OPEN on the overlay and its layers): handle-less requests on lower-only (a),
    // upper-only (b) and shadowing (c) files; whatever they answer, the lower layers must not change
    {
        let fl = |n: &str, l: usize| json!({"p":[n],"t":"file","m":0o644,"c":[[format!("N{}{}", n, l), 0, 2]]});
        let ops = json!([{"op":"fallocate","p":["a"],"off":2,"len":2}, {"op":"nprobe","p":["a"]}, {"op":"fallocate","p":["c"],"off":1,"len":3},
                         {"op":"write","p":["a"],"off":1,"c":[["NW",0,1]]}, {"op":"fallocate","p":["a"],"off":3,"len":1},
                         {"op":"fallocate","p":["b"],"off":2,"len":1}, {"op":"truncate","p":["c"],"len":1}, {"op":"chmod","p":["b"],"m":0o600},
                         {"op":"create","p":["a","a"],"m":0o644,"excl":true}, {"op":"unlink","p":["c"]}]);
        out.push(json!({"id": "noopen", "B": 16, "upper": true, "no_open": true, "names": ["a","b","c"], "depth": 3,
                        "layers": [[fl("b", 0), fl("c", 0)], [fl("a", 1), fl("c", 1)]], "ops": ops}));
        out.push(json!({"id": "noopen2", "B": 16, "upper": true, "no_open": true, "names": ["a","b","c"], "depth": 3,
                        "layers": [[], [fl("a", 1), fl("b", 1)], [fl("a", 2), fl("c", 2)]],
                        "ops": [{"op":"fallocate","p":["c"],"off":0,"len":4}, {"op":"fallocate","p":["a"],"off":2,"len":1}, {"op":"nprobe","p":["b"]},
                                {"op":"setxattr","p":["b"],"n":"user.j","v":"1"}, {"op":"fallocate","p":["b"],"off":2,"len":1}]}));
        out.push(json!({"id": "noopen_nu", "B": 16, "upper": false, "no_open": true, "names": ["a","b","c"], "depth": 3,
                        "layers": [[fl("a", 1), fl("c", 1)]],
                        "ops": [{"op":"fallocate","p":["a"],"off":2,"len":2}, {"op":"nprobe","p":["a"]}, {"op":"write","p":["c"],"off":0,"c":[["NX",0,1]]}]}));
        // the same requests in the ordinary mode (through handles)
        out.push(json!({"id": "falloc", "B": 16, "upper": true, "names": ["a","b","c"], "depth": 3,
                        "layers": [[fl("b", 0), fl("c", 0)], [fl("a", 1), fl("c", 1)]],
                        "ops": [{"op":"fallocate","p":["a"],"off":2,"len":2}, {"op":"fallocate","p":["b"],"off":1,"len":3}, {"op":"nprobe","p":["c"]}]}));
    }
    // OPEN flag words on lower-only (a), upper-only (b) and shadowing (c) files
    let fl = |n: &str, l: usize| json!({"p":[n],"t":"file","m":0o644,"c":[[format!("O{}{}", n, l), 0, 2]]});
    let combos: [(&str, bool, bool); 6] = [("r", true, false), ("r", false, true), ("w", true, false), ("w", false, true), ("rw", false, false), ("rw", true, true)];
    for (i, (acc, trunc, app)) in combos.iter().enumerate() {
        let ops: Vec<Value> = ["a", "b", "c"].iter().map(|n| json!({"op":"open","p":[n],"acc":acc,"trunc":trunc,"app":app})).collect();
        out.push(json!({"id": format!("open{}", i), "B": 16, "upper": true, "names": ["a","b","c"], "depth": 3,
                        "layers": [[fl("b", 0), fl("c", 0)], [fl("a", 1), fl("c", 1)]], "ops": ops}));
        out.push(json!({"id": format!("open{}nu", i), "B": 16, "upper": false, "names": ["a","b","c"], "depth": 3,
                        "layers": [[fl("a", 1), fl("c", 1)]], "ops": [{"op":"open","p":["a"],"acc":acc,"trunc":trunc,"app":app}]}));
    }
    // handles kept across a copy-up of their file
    let hs: Vec<Vec<Value>> = vec![
        vec![json!({"op":"open","p":["a"],"acc":"r","trunc":false,"app":false,"keep":0}), json!({"op":"chmod","p":["a"],"m":0o600}),
             json!({"op":"hsetattr","slot":0,"what":"mode","m":0o640}), json!({"op":"hprobe","slot":0}), json!({"op":"close","slot":0})],
        vec![json!({"op":"open","p":["a"],"acc":"r","trunc":false,"app":false,"keep":1}), json!({"op":"write","p":["a"],"off":1,"c":[["hw", 0, 1]]}),
             json!({"op":"hsetattr","slot":1,"what":"mode","m":0o604}), json!({"op":"hsetattr","slot":1,"what":"size","len":1}), json!({"op":"close","slot":1})],
        vec![json!({"op":"open","p":["a"],"acc":"rw","trunc":false,"app":false,"keep":0}), json!({"op":"hwrite","slot":0,"off":0,"c":[["hx", 0, 1]]}),
             json!({"op":"hsetattr","slot":0,"what":"mode","m":0o660}), json!({"op":"unlink","p":["a"]}), json!({"op":"hwrite","slot":0,"off":0,"c":[["hy", 0, 1]]}),
             json!({"op":"close","slot":0})],
        vec![json!({"op":"open","p":["b"],"acc":"r","trunc":false,"app":false,"keep":0}), json!({"op":"open","p":["a"],"acc":"w","trunc":false,"app":true,"keep":1}),
             json!({"op":"hwrite","slot":1,"off":2,"c":[["hz", 0, 1]]}), json!({"op":"hsetattr","slot":0,"what":"mode","m":0o600}),
             json!({"op":"hsetattr","slot":1,"what":"size","len":1}), json!({"op":"close","slot":0}), json!({"op":"close","slot":1})],
        vec![json!({"op":"open","p":["c"],"acc":"r","trunc":false,"app":false,"keep":2}), json!({"op":"setxattr","p":["c"],"n":"user.j","v":"1"}),
             json!({"op":"hsetattr","slot":2,"what":"mode","m":0o611}), json!({"op":"close","slot":2})],
    ];
    for (i, ops) in hs.into_iter().enumerate() {
        out.push(json!({"id": format!("handle{}", i), "B": 16, "upper": true, "names": ["a","b","c"], "depth": 3,
                        "layers": [[fl("b", 0)], [fl("a", 1), fl("c", 1)]], "ops": ops}));
    }
    out.push(json!({"id": "handle_nu", "B": 16, "upper": false, "names": ["a","b","c"], "depth": 3, "layers": [[fl("a", 1)]],
                    "ops": [{"op":"open","p":["a"],"acc":"r","trunc":false,"app":false,"keep":0}, {"op":"hsetattr","slot":0,"what":"mode","m":0o600},
                            {"op":"hwrite","slot":0,"off":0,"c":[["hn", 0, 1]]}, {"op":"close","slot":0}]}));
    out
}

fn main() {
    let args: Vec<String> = std::env::args().collect();
    if args.len() < 4 {
        eprintln!("usage: ovl run <work> <scenarios> <out> | ovl random <work> <out>");
        std::process::exit(2);
    }
    let work = PathBuf::from(&args[2]);
    std::fs::create_dir_all(&work).unwrap();
    // copy_regfile_up stages through TempFile::new(): keep it inside the work directory
    let tmp = work.join("tmp");
    std::fs::create_dir_all(&tmp).unwrap();
    std::env::set_var("TMPDIR", &tmp);
    // panics of the code under test are data; keep stderr quiet
    std::panic::set_hook(Box::new(|_| {}));
    match args[1].as_str() {
        "run" => {
            let mut tr = Trace::create(&args[4]);
            let text = std::fs::read_to_string(&args[3]).unwrap();
            for (k, line) in text.lines().filter(|l| !l.trim().is_empty()).enumerate() {
                let scn: Value = serde_json::from_str(line).expect("scenario json");
                let mut s = Scn::setup(&work, k as u64 + 1, &scn, &mut tr);
                s.observe(&mut tr);
                if let Some(ops) = scn["ops"].as_array() {
                    for op in ops {
                        s.step(op, &mut tr);
                    }
                }
                s.finish();
            }
            tr.flush();
        }
        "refs" => {
            // ovl refs <work> <scenarios.ndjson> <out>: reference-accounting histories (X04)
            let mut tr = Trace::create(&args[4]);
            let text = std::fs::read_to_string(&args[3]).unwrap();
            for (k, line) in text.lines().filter(|l| !l.trim().is_empty()).enumerate() {
                let scn: Value = serde_json::from_str(line).expect("scenario json");
                refs_run(&work, k as u64 + 1, &scn, &mut tr);
            }
            tr.flush();
        }
        "refs-sys" => {
            let mut tr = Trace::create(&args[3]);
            for (k, scn) in refs_systematic().iter().enumerate() {
                refs_run(&work, k as u64 + 1, scn, &mut tr);
            }
            tr.flush();
        }
        "refs-random" => {
            // seeded random reference histories over random layer contents
            let mut tr = Trace::create(&args[3]);
            let seed = env_u64("VERIF_SEED", 1);
            for k in 0..env_u64("OVL_SCEN", 20) {
                let mut g = Gen { rng: Rng::new(seed.wrapping_mul(7_000_003).wrapping_add(k)), names: vec!["a".into(), "b".into(), "c".into()], depth: 3, stream: 0, big: false };
                let has_upper = !g.rng.chance(1, 10);
                let nl = g.rng.range(1, 2) as usize;
                let mut layers = Vec::new();
                for l in 0..(nl + if has_upper { 1 } else { 0 }) {
                    let mut rows = Vec::new();
                    g.layer(l, &mut Vec::new(), &mut rows);
                    layers.push(Value::Array(rows));
                }
                let scn = json!({"id": format!("x{}_{}", seed, k), "B": 512, "upper": has_upper, "layers": layers, "names": g.names.clone(), "depth": 3,
                                 "ops": [], "random_ops": env_u64("OVL_OPS", 25), "seed": seed.wrapping_mul(31).wrapping_add(k)});
                refs_run(&work, k + 1, &scn, &mut tr);
            }
            tr.flush();
        }
        "stacks" => {
            let mut tr = Trace::create(&args[3]);
            for (k, scn) in stacks(env_u64("VERIF_SEED", 1)).iter().enumerate() {
                let mut s = Scn::setup(&work, k as u64 + 1, scn, &mut tr);
                s.observe(&mut tr);
                if let Some(ops) = scn["ops"].as_array() {
                    for op in ops {
                        s.step(op, &mut tr);
                    }
                }
                s.finish();
            }
            tr.flush();
        }
        "random" => {
            let mut tr = Trace::create(&args[3]);
            let seed = env_u64("VERIF_SEED", 1);
            let nscen = env_u64("OVL_SCEN", 20);
            let nops = env_u64("OVL_OPS", 30);
            let bigevery = env_u64("OVL_BIG", 10);
            for k in 0..nscen {
                let big = bigevery > 0 && k % bigevery == bigevery - 1;
                let mut g = Gen {
                    rng: Rng::new(seed.wrapping_mul(1_000_003).wrapping_add(k)),
                    names: vec!["a".into(), "b".into(), "c".into()],
                    depth: 3,
                    stream: 0,
                    big,
                };
                let has_upper = !g.rng.chance(1, 8);
                let nl = g.rng.range(1, 3) as usize;
                let mut layers = Vec::new();
                for l in 0..(nl + if has_upper { 1 } else { 0 }) {
                    let mut rows = Vec::new();
                    g.layer(l, &mut Vec::new(), &mut rows);
                    layers.push(Value::Array(rows));
                }
                if big {
                    // one multi-MiB file that is certainly visible and lives in a lower layer
                    let name = g.rng.pick(&g.names).clone();
                    let first_lower = if has_upper { 1 } else { 0 };
                    let target = g.rng.range(first_lower as u64, layers.len() as u64 - 1) as usize;
                    for (li, l) in layers.iter_mut().enumerate() {
                        if li <= target {
                            if let Some(a) = l.as_array_mut() {
                                a.retain(|r| path_of(&r["p"])[0] != name);
                            }
                        }
                    }
                    let n = g.rng.range(65, 150);
                    let stream = g.fresh("BIG");
                    layers[target].as_array_mut().unwrap().push(json!({"p": [name], "t": "file", "m": 0o640, "c": [[stream, 0, n]],
                                                                      "x": [["user.k", "big"]]}));
                }
                let scn = json!({"id": format!("r{}_{}", seed, k), "B": if big { 65536 } else { 512 }, "upper": has_upper,
                                 "layers": layers, "names": g.names.clone(), "depth": 3});
                let mut s = Scn::setup(&work, k + 1, &scn, &mut tr);
                let mut view = s.observe(&mut tr);
                for _ in 0..nops {
                    let op = g.op(&view);
                    view = s.step(&op, &mut tr);
                }
                s.finish();
            }
            tr.flush();
        }
        _ => std::process::exit(2),
    }
    let _ = std::fs::remove_dir_all(&tmp);
}
